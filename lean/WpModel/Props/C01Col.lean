/-
C01 for PM stage 2c (multi-column containers, `Model/PaginateCol.lean`).

1. `embed_agrees`: on documents without containers the extended model *is* stage 1 — every stage-1 theorem
   (C01.segment, C01.pages_conserve, C03.page_progress, C02.paginate_terminates, C03Geo.paginate_line_fits, C04 …)
   holds for the stage-1 fragment of the extended grammar (`pages_conserve_embedded` shows the transfer).
2. Conservation for the extended grammar: `segment` (every `block_level_layout` call, including a container:
   the lines of the fragment followed by the lines the resume position designates are the lines from the skip
   position) and `pages_conserve` (the pages of `make_all_pages`, concatenated, show every line of the document
   exactly once, in order), for ALL documents with any number of columns, `column-fill` balance or auto, a
   definite container height or not, ANY `column-span: all` children (paragraphs, blocks with children), any
   nesting / geometry / break values.  The only excluding hypothesis left is `NoFixedHeight` (blocks and
   paragraphs; known finding `fixed-height-forgets-overflow`); `WellFormed` is `orphans, widows ≥ 1` (what the
   validator enforces).
   The former hypothesis `NoSpan` is gone: the two defects it excluded were repaired by b24b457, the mis-levelled
   resume position of spanning blocks by d7e3d63 (`Witness/C01Col.lean` holds the regression theorems on the former
   counterexamples).  The proof is the loop invariant over `columns_and_blocks` (`Lemmas/ColSegBlock.colsLoop_spec`:
   spanning children one by one, groups of columns each ending at the next spanning child —
   `layoutKids_take`).
3. `find_earlier_skips_container`: `find_earlier_page_break` never looks into a container (repair 3162604), so
   no resume position is ever built from the index-less children of a container.
4. `span_resume_roundtrip`: the resume position of a spanning child is stored at its own level.
-/
import WpModel.Lemmas.ColEmbed
import WpModel.Lemmas.ColSegPages
import WpModel.Props.C01

namespace Wp.C01Col
open Wp Wp.PM Wp.PMC

/-! ### the embedding -/

/-- **Embedding theorem.** For every stage-1 document and every fuel, the extended pagination of the embedded
document is the embedding of the stage-1 pagination (and it never raises). -/
theorem embed_agrees (d : PM.Doc) (fuel : Nat) :
    (paginateCol (embedDoc d) fuel).pages? = (PM.paginate d fuel).map (List.map embedPage) ∧
    (paginateCol (embedDoc d) fuel).isRaised = false := by
  unfold paginateCol PM.paginate
  rw [firstRight_embed]
  have h : PMC.boxPageStart (embedDoc d).root = PM.boxPageStart d.root := boxPageStart_embed d.root
  rw [h]
  exact makeAllPages_embed d fuel 0 none _ _

/-- Every `block_level_layout` call agrees (fragment, resume position, next page, adjoining margins). -/
theorem embed_layout_agrees (box : PBox) (c : Ctx) (idx : Nat) (y bs : Rat) (skip : Option Resume)
    (cbIsRoot pie : Bool) (adjL : List Rat) :
    PMC.layoutBox (cOf c) (embed box) idx y bs skip cbIsRoot pie adjL =
      embedResult (PM.layoutBox c box idx y bs skip cbIsRoot pie adjL) :=
  layoutBox_embed box c idx y bs skip cbIsRoot pie adjL

mutual
theorem fragLines_embed : (f : Frag) → PMC.fragLines (embedFrag f) = PM.fragLines f
  | .para _ _ _ _ _ _ => by simp [embedFrag, PMC.fragLines, PM.fragLines]
  | .block _ _ _ _ kids => by simp [embedFrag, PMC.fragLines, PM.fragLines, fragLinesList_embed kids]
theorem fragLinesList_embed : (fs : List Frag) → PMC.fragLinesList (embedFragList fs) = PM.fragLinesList fs
  | [] => by simp [embedFragList, PMC.fragLinesList, PM.fragLinesList]
  | f :: fs => by
    simp [embedFragList, PMC.fragLinesList, PM.fragLinesList, fragLines_embed f, fragLinesList_embed fs]
end

/-- Transfer of a stage-1 theorem through the embedding: the pages the *extended* model produces for an embedded
document show every line exactly once, in order (`C01.pages_conserve`). -/
theorem pages_conserve_embedded (d : PM.Doc) (hN : PM.NoFixedHeight d.root) (hW : PM.WellFormed d.root)
    (fuel : Nat) (pages : List CPage) (h : paginateCol (embedDoc d) fuel = .ok pages) :
    pagesLines pages = PM.linesFrom d.root none := by
  have ha := (embed_agrees d fuel).1
  rw [h] at ha
  simp only [PagesOut.pages?] at ha
  cases hp : PM.paginate d fuel with
  | none => rw [hp] at ha; cases ha
  | some ps =>
    rw [hp] at ha
    simp only [Option.map_some, Option.some.injEq] at ha
    subst ha
    have hc := C01.pages_conserve d hN hW fuel ps hp
    rw [← hc]
    clear hp hc h
    induction ps with
    | nil => rfl
    | cons p ps ih =>
      simp only [List.map_cons, PMC.pagesLines]
      rw [ih]
      congr 1
      exact fragLines_embed p.root

/-! ### conservation for the extended grammar -/

/-- **Segment theorem, extended grammar.** For every box (paragraph, block, multi-column container with or
without spanning children, nested anyhow) without fixed heights on blocks / paragraphs and with `orphans, widows ≥ 1`,
every layout call that returns a fragment satisfies: lines(fragment) ++ lines(rest designated by the resume
position) = lines(box from the skip position). -/
theorem segment (box : ColBox) (hN : NoFixedHeight box) (hW : WellFormed box)
    (c : CCtx) (idx : Nat) (y bs : Rat) (skip : Option Resume) (cb pie : Bool) (adjL : List Rat) (f : CFrag)
    (hf : (layoutBox c box idx y bs skip cb pie adjL).frag = some f) :
    fragLines f ++ restOut box (layoutBox c box idx y bs skip cb pie adjL).resume = linesFrom box skip :=
  boxPost_lines _ _ _ _ _ (box_spec box (good_of box hN hW) c idx y bs skip cb pie adjL) hf

/-- The columns of a container, left to right, then the rest: the special case the new code is about. -/
theorem container_segment (id : Nat) (st : PStyle) (cs : ColSpec) (flags : List Bool) (kids : List ColBox)
    (hN : NoFixedHeightList kids) (hW : WellFormedList kids)
    (c : CCtx) (idx : Nat) (y bs : Rat) (skip : Option Resume) (cb pie : Bool) (adjL : List Rat) (f : CFrag)
    (hf : (layoutBox c (.columns id st cs flags kids) idx y bs skip cb pie adjL).frag = some f) :
    fragLines f ++ restOut (.columns id st cs flags kids)
        (layoutBox c (.columns id st cs flags kids) idx y bs skip cb pie adjL).resume =
      linesFromKids kids (skipIdxOf skip) (subSkipOf skip) := by
  have := segment (.columns id st cs flags kids) (by simpa [PMC.NoFixedHeight] using hN)
    (by simpa [PMC.WellFormed] using hW) c idx y bs skip cb pie adjL f hf
  simpa [PMC.linesFrom] using this

/-- **Pages conserve content, extended grammar.** -/
theorem pages_conserve (d : CDoc) (hN : NoFixedHeight d.root) (hW : WellFormed d.root)
    (fuel : Nat) (pages : List CPage) (h : paginateCol d fuel = .ok pages) :
    pagesLines pages = linesFrom d.root none := by
  unfold paginateCol at h
  apply makeAllPages_lines d (good_of _ hN hW) fuel 0 none _ _ pages _ h
  intro _
  simp only [PMC.firstRight, requestedSide, isBlank]
  cases d.root.st.brkBefore <;> cases d.rootLtr <;> rfl

/-- **`find_earlier_page_break` does not enter a multi-column container** (`is_multicol`, repair 3162604): whatever
its children, no earlier break is reported from inside it; the AttributeError of the missing `.index` is not an
outcome of the function any more (`findEarlierList` has no error value). -/
theorem find_earlier_skips_container (inCol : Bool) (id idx : Nat) (st : PStyle) (g : Geo) (kids : List CFrag) :
    PMC.findEarlierFrag inCol (.cols id idx st g kids) = none := by
  simp [PMC.findEarlierFrag]

/-- A container that is the last laid-out child contributes no earlier break: only the boundary before it can. -/
theorem find_earlier_container_last (inCol : Bool) (id idx : Nat) (st : PStyle) (g : Geo) (kids : List CFrag) :
    (PMC.findEarlierGo inCol [.cols id idx st g kids]).found = none := by
  simp only [PMC.findEarlierGo, PMC.findEarlierFrag, CFrag.isColumn]
  simp only [Bool.false_eq_true, if_false]
  split <;> rfl

/-! ### non-vacuity: a balanced 2-column container between paragraphs, over three pages -/

def exSt : PStyle :=
  { mt := 0, mb := 0, pt := 0, pb := 0, bt := 0, bb := 0, height := none, minH := 0, maxH := none,
    brkBefore := .auto, brkAfter := .auto, brkInside := .auto, clone := false, page := "", orphans := 1, widows := 1,
    isRoot := false }

/-- **A spanning child is resumed at its own level** (repair d7e3d63): `columns_layout` wraps the resume position
`ρ` of the spanning child `i` (`column_skip_stack = {0: resume_at}`), stores `{i + 0: ρ}`, and on the next page hands
`skip_stack[0]` of `{0: skip_stack[i]}` back to the child: exactly `ρ`, whatever its shape (before the repair this
only held for `ρ = {0: …}`, i.e. for paragraphs). -/
theorem span_resume_roundtrip (s : ColsState) (i : Nat) (ρ : Resume) :
    PMC.colsResume { s with colSkip := some (.node 0 (some ρ)), index := i } = some (.node i (some ρ)) ∧
    subSkipOf (PMC.firstItemSkip (some (.node i (some ρ)))) = some ρ := by
  simp [PMC.colsResume, PMC.firstItemSkip, skipIdxOf, subSkipOf]

def exDoc : CDoc :=
  { pageH := 40, rootLtr := true,
    root := .block 9 { exSt with isRoot := true } [.block 8 exSt
      [.para 1 2 10 exSt,
       .columns 4 { exSt with mt := 5 } { count := 2, balance := true, ltr := true, width := 192 } [false, false]
         [.para 2 6 10 exSt, .para 3 2 10 { exSt with mt := 4 }],
       .para 5 2 10 exSt]] }

example : NoFixedHeight exDoc.root ∧ WellFormed exDoc.root := by
  simp [exDoc, exSt, PMC.NoFixedHeight, PMC.NoFixedHeightList, PMC.WellFormed, PMC.WellFormedList]

/-- Page 1: paragraph 1, the container 5px lower (its top margin), two lines of paragraph 2 (one per column); page 2: the container continues;
page 3: the paragraph after the container. -/
example : (match paginateCol exDoc 20 with
    | .ok ps => ps.map (fun (p : CPage) => PMC.fragLines p.root)
    | _ => []) =
    [[(1, 0), (1, 1), (2, 0), (2, 1)], [(2, 2), (2, 3), (2, 4), (2, 5), (3, 0), (3, 1)], [(5, 0), (5, 1)]] := by
  decide +kernel

example : PMC.linesFrom exDoc.root none =
    [(1, 0), (1, 1), (2, 0), (2, 1), (2, 2), (2, 3), (2, 4), (2, 5), (3, 0), (3, 1), (5, 0), (5, 1)] := by
  decide +kernel

/-! ### non-vacuity with spanning children: a spanning block with two paragraphs cut by the page, then a group -/

def exSpan : CDoc :=
  { pageH := 40, rootLtr := true,
    root := .block 9 { exSt with isRoot := true } [.block 8 exSt
      [.columns 7 exSt { count := 2, balance := true, ltr := true, width := 192 } [false, true, false]
        [.para 6 2 10 exSt,
         .block 5 exSt [.para 1 2 10 exSt, .para 2 4 10 exSt],
         .para 3 4 10 exSt]]] }

example : NoFixedHeight exSpan.root ∧ WellFormed exSpan.root := by
  simp [exSpan, exSt, PMC.NoFixedHeight, PMC.NoFixedHeightList, PMC.WellFormed, PMC.WellFormedList]

/-- The group before the span, the spanning block cut inside its second paragraph, its rest, the group after. -/
example : (match paginateCol exSpan 30 with
    | .ok ps => ps.map (fun (p : CPage) => PMC.fragLines p.root)
    | _ => []) =
    [[(6, 0), (6, 1), (1, 0), (1, 1), (2, 0)], [(2, 1), (2, 2), (2, 3), (3, 0), (3, 1)], [(3, 2), (3, 3)]] := by
  decide +kernel

end Wp.C01Col
