/-
C16 — link annotations in the PDF/UA structure tree (Model/PdfUaLinks): what `pdfua` gets right for every document
(`/StructParent` ↔ `/ParentTree`), and the clause it never satisfies when there is a link (the object reference is not a
kid of a structure element: finding `objr-not-in-structure-tree`, witness in Witness/C16.lean).
-/
import WpModel.Model.PdfUaLinks

namespace Wp.C16
open Wp Wp.PdfUa

private theorem numberLinks_spec (s : Nat) (l : List Nat) (k : Nat) :
    (numberLinks s k l).map (·.1) = (List.range' (s + k) l.length) ∧
    ∀ t ∈ numberLinks s k l, t.1 = s + t.2.1 ∧ k ≤ t.2.1 ∧ l[t.2.1 - k]? = some t.2.2 := by
  induction l generalizing k with
  | nil => simp [numberLinks]
  | cons a rest ih =>
    obtain ⟨h1, h2⟩ := ih (k + 1)
    refine ⟨?_, ?_⟩
    · simp only [numberLinks, List.map_cons, List.length_cons, List.range'_succ, h1]
      congr 1
    · intro t ht
      simp only [numberLinks, List.mem_cons] at ht
      rcases ht with rfl | ht
      · simp
      · obtain ⟨e1, e2, e3⟩ := h2 t ht
        refine ⟨e1, by omega, ?_⟩
        have : t.2.1 - k = (t.2.1 - (k + 1)) + 1 := by omega
        rw [this]; simpa using e3

/-- **struct_parent_consistent** (the clause the independent reader samples on every tagged document, for all inputs of
the model): whatever the pages and their marked-content sequences, the keys of the `/ParentTree` are exactly
`0 … pages + links - 1`, each once (the pages first, so an annotation's key never collides with a page's
`/StructParents`), and for every link annotation `a` with `/StructParent i` the entry `i` is the object reference that
was created for `a`. -/
theorem struct_parent_consistent (pages : List (List Marked)) :
    (pdfuaLinks pages).nums.map (·.1) = List.range (pages.length + (pdfuaLinks pages).objrs.length) ∧
    ∀ a i, (a, i) ∈ (pdfuaLinks pages).structParent →
      pages.length ≤ i ∧ ∃ j, (i, Entry.objr j) ∈ (pdfuaLinks pages).nums ∧ (pdfuaLinks pages).objrs[j]? = some a := by
  obtain ⟨h1, h2⟩ := numberLinks_spec pages.length (pages.flatMap pageLinks) 0
  refine ⟨?_, ?_⟩
  · simp only [pdfuaLinks, List.map_append, List.map_map]
    have : (List.map ((fun x => x.1) ∘ fun t : Nat × Nat × Nat => (t.1, Entry.objr t.2.1))
        (numberLinks pages.length 0 (pages.flatMap pageLinks))) =
        (numberLinks pages.length 0 (pages.flatMap pageLinks)).map (·.1) := by
      apply List.map_congr_left; intro t _; rfl
    rw [this, h1]
    have : (List.map ((fun x => x.1) ∘ fun p => (p, Entry.page)) (List.range pages.length)) =
        List.range pages.length := by
      simp [Function.comp_def]
    rw [this, List.range_eq_range', List.range_eq_range']
    have e : (pdfuaLinks pages).objrs.length = (List.flatMap pageLinks pages).length := rfl
    rw [Nat.add_zero, ← e]
    have := List.range'_append_1 (s := 0) (m := pages.length) (n := (pdfuaLinks pages).objrs.length)
    rw [Nat.zero_add] at this
    exact this
  · intro a i hm
    simp only [pdfuaLinks, List.mem_map] at hm
    obtain ⟨t, ht, he⟩ := hm
    obtain ⟨e1, _, e3⟩ := h2 t ht
    cases he
    refine ⟨by omega, t.2.1, ?_, by simpa [pdfuaLinks] using e3⟩
    simp only [pdfuaLinks, List.mem_append, List.mem_map]
    exact Or.inr ⟨t, ht, by rw [e1]⟩

/-- **objr_never_a_kid**: in the structure tree this code builds, no object reference is ever a kid of a structure
element (`kids = [mcid]`), whatever the document. -/
theorem objr_never_a_kid (pages : List (List Marked)) (index : Nat) :
    objrIsKid (pdfuaLinks pages) index = false := by
  simp only [objrIsKid, pdfuaLinks, List.any_map, Bool.eq_false_iff]
  intro h
  simp only [List.any_eq_true, Function.comp] at h
  obtain ⟨_, _, p, hp, hc⟩ := h
  simp only [List.mem_map] at hp
  obtain ⟨q, _, rfl⟩ := hp
  simp [kidsOf] at hc

/-- **objr_is_kid_partial**: the clause of ISO 32000-1 14.7.4.3 ("every object reference is a kid of a structure
element") holds exactly for documents without link annotations in marked content. -/
theorem objr_is_kid_partial (pages : List (List Marked)) :
    (∀ index, index < (pdfuaLinks pages).objrs.length → objrIsKid (pdfuaLinks pages) index = true) ↔
      (pdfuaLinks pages).objrs = [] := by
  constructor
  · intro h
    cases hl : (pdfuaLinks pages).objrs with
    | nil => rfl
    | cons a rest =>
      have := h 0 (by rw [hl]; simp)
      rw [objr_never_a_kid] at this; cases this
  · intro h index hi
    rw [h] at hi; simp at hi

/-- Non-vacuity: two pages, three links. -/
example : (pdfuaLinks [[⟨"P", 0⟩, ⟨"Link", 7⟩, ⟨"Link", 8⟩], [⟨"Link", 12⟩]]).structParent = [(7, 2), (8, 3), (12, 4)] ∧
    (pdfuaLinks [[⟨"P", 0⟩, ⟨"Link", 7⟩, ⟨"Link", 8⟩], [⟨"Link", 12⟩]]).nums =
      [(0, .page), (1, .page), (2, .objr 0), (3, .objr 1), (4, .objr 2)] := by decide

end Wp.C16
