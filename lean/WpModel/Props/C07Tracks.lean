/-
C07 (part 8) — computed grid track lists: every length, at any depth (`minmax()`, `fit-content()`, `repeat()` nested
in `repeat()`), comes out in px; equal absolute lengths written in different units compute to the same breadth.
-/
import WpModel.Model.TracksC07
import WpModel.Props.C07

namespace Wp.C07
open Wp Wp.Len07 Wp.Tracks07

/-! ## 28. Track sizes -/

/-- A computed dimension whose specified unit the validators let through is in px, or stays a percentage, an `fr`,
or the unitless zero. -/
theorem length_dim_done (ctx : FontCtx) (v : Rat) (u : Option String) (hu : unitKnown u = true) :
    unitDone (lengthDim ctx v u).2 = true := by
  cases u with
  | none =>
    by_cases hv : v = 0
    · simp [lengthDim, length, hv, unitDone]
    · have hv' : (v == 0) = false := by simp [hv]
      simp [lengthDim, length, hv', unitDone]
  | some w =>
    simp only [unitKnown, Bool.or_eq_true, beq_iff_eq] at hu
    rcases hu with (hw | rfl) | rfl
    · obtain ⟨q, hq⟩ := length_of_known_unit ctx false v w hw
      simp only [Bool.false_eq_true, if_false] at hq
      simp [lengthDim, hq, unitDone]
    · by_cases hv : v = 0
      · simp [lengthDim, length, hv, unitDone]
      · have hv' : (v == 0) = false := by simp [hv]
        have hf : factor "%" = none := by decide +kernel
        have hb : ("%" == "px") = false ∧ ("%" == "ex") = false ∧ ("%" == "ch") = false ∧ ("%" == "em") = false ∧
            ("%" == "rem") = false := by decide
        simp [lengthDim, length, hv', hf, hb, unitDone]
    · by_cases hv : v = 0
      · simp [lengthDim, length, hv, unitDone]
      · have hv' : (v == 0) = false := by simp [hv]
        have hf : factor "fr" = none := by decide +kernel
        have hb : ("fr" == "px") = false ∧ ("fr" == "ex") = false ∧ ("fr" == "ch") = false ∧
            ("fr" == "em") = false ∧ ("fr" == "rem") = false := by decide
        simp [lengthDim, length, hv', hf, hb, unitDone]

theorem compute_breadth_done (ctx : FontCtx) (b : Breadth) (hb : b.known = true) :
    (computeBreadth ctx b).done = true := by
  cases b with
  | kw s => rfl
  | dim v u =>
    simp only [Breadth.known] at hb
    unfold computeBreadth
    by_cases hfr : (u == some "fr") = true
    · simp only [hfr, if_true, Breadth.done]
      have : u = some "fr" := by simpa using hfr
      subst this
      decide
    · simp only [hfr, Bool.false_eq_true, if_false, Breadth.done]
      exact length_dim_done ctx v u hb

mutual
/-- A track section as the validator builds it: not a bare tuple of line names; the inside of `repeat()` is a
track list again. -/
def wfSection : Track → Bool
  | .names _ => false
  | .rep _ ts => wfTracks true ts
  | _ => true
/-- A track list as the validator builds it: line names at even indexes, track sections at odd indexes. -/
def wfTracks : Bool → List Track → Bool
  | _, [] => true
  | true, .names _ :: rest => wfTracks false rest
  | true, _ :: _ => false
  | false, t :: rest => wfSection t && wfTracks true rest
end

private theorem tracksDone_append : ∀ (a b : List Track), tracksDone (a ++ b) = (tracksDone a && tracksDone b)
  | [], b => by simp [tracksDone]
  | t :: rest, b => by simp [tracksDone, tracksDone_append rest b, Bool.and_assoc]

mutual
private theorem section_done (ctx : FontCtx) : ∀ (t : Track), t.known = true → wfSection t = true →
    tracksDone (trackSection ctx t) = true
  | .names _, _, hw => by simp [wfSection] at hw
  | .breadth b, hk, _ => by
    simp only [Track.known] at hk
    simp [trackSection, tracksDone, Track.done, compute_breadth_done ctx b hk]
  | .minmax a b, hk, _ => by
    simp only [Track.known, Bool.and_eq_true] at hk
    simp [trackSection, tracksDone, Track.done, compute_breadth_done ctx a hk.1, compute_breadth_done ctx b hk.2]
  | .fitContent v u, hk, _ => by
    simp only [Track.known] at hk
    simp [trackSection, tracksDone, Track.done, length_dim_done ctx v u hk]
  | .rep n ts, hk, hw => by
    simp only [Track.known] at hk
    simp only [wfSection] at hw
    simp [trackSection, tracksDone, Track.done, size_done ctx true ts hk hw]
  | .other _, _, _ => by simp [trackSection, tracksDone]
private theorem size_done (ctx : FontCtx) : ∀ (e : Bool) (ts : List Track), tracksKnown ts = true →
    wfTracks e ts = true → tracksDone (trackSize ctx e ts) = true
  | true, [], _, _ => by simp [trackSize, tracksDone]
  | false, [], _, _ => by simp [trackSize, tracksDone]
  | true, .names l :: rest, hk, hw => by
    simp only [tracksKnown, Bool.and_eq_true] at hk
    simp only [wfTracks] at hw
    simp [trackSize, tracksDone, Track.done, size_done ctx false rest hk.2 hw]
  | true, .breadth _ :: _, _, hw => by simp [wfTracks] at hw
  | true, .minmax _ _ :: _, _, hw => by simp [wfTracks] at hw
  | true, .fitContent _ _ :: _, _, hw => by simp [wfTracks] at hw
  | true, .rep _ _ :: _, _, hw => by simp [wfTracks] at hw
  | true, .other _ :: _, _, hw => by simp [wfTracks] at hw
  | false, t :: rest, hk, hw => by
    simp only [tracksKnown, Bool.and_eq_true] at hk
    simp only [wfTracks, Bool.and_eq_true] at hw
    simp [trackSize, tracksDone_append, section_done ctx t hk.1 hw.1, size_done ctx true rest hk.2 hw.2]
end

/-- **No absolute or font-relative unit survives in a computed track list, at any depth**: for a track list as the
validator builds it (line names / sections alternating, `repeat()` holding a track list again, nested to any depth)
whose dimensions carry units the validators let through, every dimension of the computed list is in px, or is a
percentage, an `fr`, or the unitless zero — layout's `percentage()` never meets `in`, `pt`, `em` …
(the recursion into `repeat()` is what seeded change C07-7 removed). -/
theorem track_size_all_px (ctx : FontCtx) (ts : List Track) (hk : tracksKnown ts = true)
    (hw : wfTracks true ts = true) : tracksDone (trackSize ctx true ts) = true :=
  size_done ctx true ts hk hw

/-- The same for the whole computer of `grid-template-columns` / `-rows`. -/
theorem grid_template_all_px (ctx : FontCtx) (ts : List Track) (hk : tracksKnown ts = true)
    (hw : wfTracks true ts = true) :
    ∃ out, gridTemplate ctx (.tracks ts) = .tracks out ∧ tracksDone out = true :=
  ⟨_, rfl, track_size_all_px ctx ts hk hw⟩

/-- `grid-auto-columns` / `-rows`: the flat list comes out in px as well. -/
theorem grid_auto_all_px (ctx : FontCtx) : ∀ (ts : List Track), tracksKnown ts = true →
    tracksDone (gridAuto ctx ts) = true
  | [], _ => by simp [gridAuto, tracksDone]
  | .breadth b :: rest, hk => by
    simp only [tracksKnown, Track.known, Bool.and_eq_true] at hk
    simp [gridAuto, tracksDone, Track.done, compute_breadth_done ctx b hk.1, grid_auto_all_px ctx rest hk.2]
  | .minmax a b :: rest, hk => by
    simp only [tracksKnown, Track.known, Bool.and_eq_true] at hk
    simp [gridAuto, tracksDone, Track.done, compute_breadth_done ctx a hk.1.1, compute_breadth_done ctx b hk.1.2,
      grid_auto_all_px ctx rest hk.2]
  | .fitContent v u :: rest, hk => by
    simp only [tracksKnown, Track.known, Bool.and_eq_true] at hk
    simp [gridAuto, tracksDone, Track.done, length_dim_done ctx v u hk.1, grid_auto_all_px ctx rest hk.2]
  | .names _ :: rest, hk => by
    simp only [tracksKnown, Bool.and_eq_true] at hk
    simp [gridAuto, grid_auto_all_px ctx rest hk.2]
  | .rep _ _ :: rest, hk => by
    simp only [tracksKnown, Bool.and_eq_true] at hk
    simp [gridAuto, grid_auto_all_px ctx rest hk.2]
  | .other _ :: rest, hk => by
    simp only [tracksKnown, Bool.and_eq_true] at hk
    simp [gridAuto, grid_auto_all_px ctx rest hk.2]

/-- **Equal absolute lengths are the same track breadth**, whatever the unit they are written in. -/
theorem compute_breadth_units (ctx : FontCtx) (u1 u2 : String) (k1 k2 v1 v2 : Rat)
    (h1 : factor u1 = some k1) (h2 : factor u2 = some k2) (h : v1 * k1 = v2 * k2) :
    computeBreadth ctx (.dim v1 (some u1)) = computeBreadth ctx (.dim v2 (some u2)) := by
  have hfr : factor "fr" = none := by decide +kernel
  have n1 : (some u1 == some "fr") = false := by
    have : u1 ≠ "fr" := fun e => by rw [e, hfr] at h1; cases h1
    simpa using this
  have n2 : (some u2 == some "fr") = false := by
    have : u2 ≠ "fr" := fun e => by rw [e, hfr] at h2; cases h2
    simpa using this
  have hu := units_interchangeable ctx false u1 u2 k1 k2 v1 v2 h1 h2 h
  obtain ⟨q, hq⟩ : ∃ q, length ctx false (.dim v2 (some u2)) = .dim q (some "px") := by
    rw [length_absolute ctx false v2 u2 k2 h2]
    by_cases hv : v2 = 0
    · exact ⟨0, by simp [hv]⟩
    · exact ⟨v2 * k2, by simp [hv]⟩
  unfold computeBreadth lengthDim
  simp only [n1, n2, Bool.false_eq_true, if_false]
  rw [hu, hq]

/-- `repeat()` commutes with the computation: the computed `repeat(n, tracks)` is `repeat(n, computed tracks)`. -/
theorem track_size_repeat (ctx : FontCtx) (n : String) (ts rest : List Track) :
    trackSize ctx false (.rep n ts :: rest) = .rep n (trackSize ctx true ts) :: trackSize ctx true rest := by
  simp [trackSize, trackSection]

/-- Non-vacuity and regression shape of seeded change C07-7: `[a] 1in repeat(2, minmax(72pt, 1fr) [b] repeat(3, 6pc))`
with a 16px font — every length is 96px, at depth 0, 1 and 2. -/
example :
    let ctx : FontCtx := { fontSize := 16, rootFontSize := 16, exRatio := 1 / 2, chRatio := 1 / 2 }
    let ts : List Track :=
      [.names ["a"], .breadth (.dim 1 (some "in")), .names [],
       .rep "2" [.names [], .minmax (.dim 72 (some "pt")) (.dim 1 (some "fr")), .names ["b"],
                 .rep "3" [.names [], .breadth (.dim 6 (some "pc")), .names []], .names []], .names []]
    tracksKnown ts = true ∧ wfTracks true ts = true ∧
    (match trackSize ctx true ts with
      | [.names ["a"], .breadth (.dim v (some "px")), .names [],
         .rep "2" [.names [], .minmax (.dim w (some "px")) (.dim 1 (some "fr")), .names ["b"],
                   .rep "3" [.names [], .breadth (.dim x (some "px")), .names []], .names []], .names []] =>
        v == 96 && w == 96 && x == 96
      | _ => false) = true := by
  refine ⟨by decide +kernel, by decide +kernel, by decide +kernel⟩

end Wp.C07
