/-
C17 — "each visible background is painted at the rectangle CSS prescribes": the table parts (fifth file of
C17).  CSS 2.1 17.5.1: the background of a row, row group, column or column group is painted through the
cells that originate in it; `layout_background_layer` gives it the cells' border boxes as clip and a
painting area, modelled in `Model/TablePartBg.lean` and compared path by path in `scene-geometry`.
-/
import WpModel.Model.TablePartBg

namespace Wp.C17
open Wp Wp.Rounded Wp.TablePart

private theorem maxOf_ge (l : List Rat) (seed : Rat) :
    seed ≤ maxOf seed l ∧ ∀ v ∈ l, v ≤ maxOf seed l := by
  induction l generalizing seed with
  | nil => exact ⟨Rat.le_refl, fun v hv => by cases hv⟩
  | cons x xs ih =>
    simp only [maxOf, List.foldl_cons]
    by_cases h : seed < x
    · simp only [h, ↓reduceIte]
      have := ih x
      refine ⟨Rat.le_trans (Rat.le_of_lt h) this.1, ?_⟩
      intro v hv
      rcases List.mem_cons.mp hv with rfl | hv
      · exact this.1
      · exact this.2 v hv
    · simp only [h, ↓reduceIte]
      have := ih seed
      refine ⟨this.1, ?_⟩
      intro v hv
      rcases List.mem_cons.mp hv with rfl | hv
      · exact Rat.le_trans (Rat.not_lt.mp h) this.1
      · exact this.2 v hv

private theorem minOf_le (l : List Rat) (seed : Rat) :
    minOf seed l ≤ seed ∧ ∀ v ∈ l, minOf seed l ≤ v := by
  induction l generalizing seed with
  | nil => exact ⟨Rat.le_refl, fun v hv => by cases hv⟩
  | cons x xs ih =>
    simp only [minOf, List.foldl_cons]
    by_cases h : x < seed
    · simp only [h, ↓reduceIte]
      have := ih x
      refine ⟨Rat.le_trans this.1 (Rat.le_of_lt h), ?_⟩
      intro v hv
      rcases List.mem_cons.mp hv with rfl | hv
      · exact this.1
      · exact this.2 v hv
    · simp only [h, ↓reduceIte]
      have := ih seed
      refine ⟨this.1, ?_⟩
      intro v hv
      rcases List.mem_cons.mp hv with rfl | hv
      · exact Rat.le_trans this.1 (Rat.not_lt.mp h)
      · exact this.2 v hv

private theorem maxCellHeight_ge (cells : List Geo) (h : Rat) (hm : maxCellHeight cells = some h) :
    ∀ c ∈ cells, c.borderHeight ≤ h := by
  cases cells with
  | nil => simp [maxCellHeight] at hm
  | cons x xs =>
    simp only [maxCellHeight, Option.some.injEq] at hm
    subst hm
    intro c hc
    rcases List.mem_cons.mp hc with rfl | hc
    · exact (maxOf_ge _ _).1
    · exact (maxOf_ge _ _).2 _ (List.mem_map.mpr ⟨c, hc, rfl⟩)

/-- **Row backgrounds**: painted through exactly the border boxes of the row's cells, in a rectangle that
starts at the row's border box origin, has its width, and is at least as high as every one of its cells
(row-spanning cells included). -/
theorem row_background_area (row : Geo) (cells : List Geo) (hne : cells ≠ []) :
    (rowLayer row cells).2 = cells.map roundedBorderBox ∧
    (rowLayer row cells).1.1 = row.borderBoxX ∧ (rowLayer row cells).1.2.1 = row.borderBoxY ∧
    (rowLayer row cells).1.2.2.1 = row.borderWidth ∧
    ∀ c ∈ cells, c.borderHeight ≤ (rowLayer row cells).1.2.2.2 := by
  unfold rowLayer
  cases hm : maxCellHeight cells with
  | none => cases cells <;> simp [maxCellHeight] at hm hne
  | some h => exact ⟨rfl, rfl, rfl, rfl, maxCellHeight_ge cells h hm⟩

/-- **Column and column-group backgrounds**: painted through the cells that originate in the column(s), in
a rectangle that spans all of them horizontally and has the column's vertical extent. -/
theorem column_background_area (col : Geo) (cells : List Geo) (hne : cells ≠ []) :
    (columnLayer col cells).2 = cells.map roundedBorderBox ∧
    (columnLayer col cells).1.2.1 = col.borderBoxY ∧ (columnLayer col cells).1.2.2.2 = col.borderHeight ∧
    ∀ c ∈ cells, (columnLayer col cells).1.1 ≤ c.borderBoxX ∧
      c.borderBoxX + c.borderWidth ≤ (columnLayer col cells).1.1 + (columnLayer col cells).1.2.2.1 := by
  cases cells with
  | nil => exact absurd rfl hne
  | cons x xs =>
    refine ⟨rfl, rfl, rfl, ?_⟩
    intro c hc
    simp only [columnLayer]
    have hmin := minOf_le (xs.map Geo.borderBoxX) x.borderBoxX
    have hmax := maxOf_ge (xs.map (fun g => g.borderBoxX + g.borderWidth)) (x.borderBoxX + x.borderWidth)
    rcases List.mem_cons.mp hc with rfl | hc
    · refine ⟨hmin.1, ?_⟩
      have := hmax.1
      grind
    · refine ⟨hmin.2 _ (List.mem_map.mpr ⟨c, hc, rfl⟩), ?_⟩
      have := hmax.2 _ (List.mem_map.mpr ⟨c, hc, rfl⟩)
      grind

private theorem groupLoop_clip (rows : List (List Geo)) (total : Rat) (clipped : List RBox) :
    (groupLoop rows (total, clipped)).2 = clipped ++ rows.flatten.map roundedBorderBox := by
  induction rows generalizing total clipped with
  | nil => simp [groupLoop]
  | cons cells rows ih =>
    cases cells with
    | nil => simp [groupLoop, maxCellHeight, ih]
    | cons c cs => simp [groupLoop, maxCellHeight, ih]

/-- **Row-group backgrounds, the clip**: painted through the border boxes of all cells of all rows. -/
theorem group_background_clip (group : Geo) (rows : List (List Geo)) :
    (groupLayer group rows).2 = rows.flatten.map roundedBorderBox := by
  simp [groupLayer, groupLoop_clip]

/-- **Row-group backgrounds, the area (partial: one row).**  With a single row of cells the painting area
starts at the group's border box origin, has its width and is at least as high as every cell.  With two or
more rows the height is still only the highest cell's (`Witness.C17.group_background_misses_second_row`,
finding `row-group-background-first-row-only`). -/
theorem group_background_area_partial (group : Geo) (cells : List Geo) (hne : cells ≠ []) :
    (groupLayer group [cells]).1.1 = group.borderBoxX ∧ (groupLayer group [cells]).1.2.1 = group.borderBoxY ∧
    (groupLayer group [cells]).1.2.2.1 = group.borderWidth ∧
    ∀ c ∈ cells, c.borderHeight ≤ (groupLayer group [cells]).1.2.2.2 := by
  refine ⟨rfl, rfl, rfl, ?_⟩
  intro c hc
  cases hm : maxCellHeight cells with
  | none => cases cells <;> simp [maxCellHeight] at hm hne
  | some h =>
    have hge := maxCellHeight_ge cells h hm c hc
    simp only [groupLayer, groupLoop, hm]
    by_cases h0 : (0 : Rat) < h
    · simp only [h0, ↓reduceIte]; exact hge
    · simp only [h0, ↓reduceIte]; exact Rat.le_trans hge (Rat.not_lt.mp h0)

/-- A 30 × 20 cell at (10, y). -/
def exCell (y : Rat) : Geo :=
  { positionX := 10, positionY := y, marginLeft := 0, marginTop := 0, borderTop := 0, borderRight := 0,
    borderBottom := 0, borderLeft := 0, padTop := 0, padRight := 0, padBottom := 0, padLeft := 0,
    width := 30, height := 20, tl := (0, 0), tr := (0, 0), br := (0, 0), bl := (0, 0) }

example : (rowLayer (exCell 10) [exCell 10]).1 = (10, 10, 30, 20) ∧ [exCell 10] ≠ [] := by
  constructor
  · decide +kernel
  · simp

end Wp.C17
