/-
C02 for PM stage 2a — totality of the pagination path with out-of-flow children: `make_page`'s
`assert root_box` is unreachable; `float_layout` (`find_float_position(context, box, …)`) and
`absolute_box_layout` never receive `None` from `block_container_layout` (they call it with
`page_is_empty=True`), on the page where the box appears and on the pages where it is continued;
`make_all_pages` returns, with at least one page and at most `2 · size`.
-/
import WpModel.Props.C03Oof
import WpModel.Lemmas.OofFrame

namespace Wp.PMO.C02Oof
open Wp Wp.PM

/-- `make_page`'s `assert root_box` holds for every document of the extended grammar, every page index,
resume position, pending break, side and pending out-of-flow continuations. -/
theorem root_assert_unreachable (d : Doc) (index : Nat) (resume : Option Resume) (np : NextPage) (right : Bool)
    (brokenIn : List Broken) (rootTop : Rat) :
    (remakePage d index resume np right brokenIn rootTop).isSome = true :=
  C03Oof.remakePage_total d index resume np right brokenIn rootTop

/-- No `AttributeError` in `find_float_position` / `finish_block_formatting_context(None)`: the box handed
over by `block_container_layout` to `float_layout` / `absolute_box_layout` is never `None`. -/
theorem out_of_flow_layout_gets_a_box (d : Doc) (index : Nat) (resume : Option Resume) (np : NextPage)
    (right : Bool) (brokenIn : List Broken) (rootTop : Rat) (p : Page)
    (hp : remakePage d index resume np right brokenIn rootTop = some p) : p.crash = false :=
  remakePage_no_crash d index resume np right brokenIn rootTop p hp

theorem makeAllPages_no_crash (d : Doc) : ∀ (fuel index : Nat) (resume : Option Resume) (np : NextPage)
    (right : Bool) (brokenIn : List Broken) (rootTop : Rat) (pages : List Page),
    makeAllPages d fuel index resume np right brokenIn rootTop = some pages → ∀ p ∈ pages, p.crash = false := by
  intro fuel
  induction fuel with
  | zero => intro index resume np right bi rt pages h; simp [makeAllPages] at h
  | succ fuel ih =>
    intro index resume np right bi rt pages h
    unfold makeAllPages at h
    split at h
    · cases h
    · rename_i p hp
      have hc := remakePage_no_crash d index resume np right bi rt p hp
      split at h
      · simp only [Option.some.injEq] at h
        rw [← h]
        intro q hq
        simp only [List.mem_singleton] at hq
        rw [hq]; exact hc
      · split at h
        · rename_i ps hps
          simp only [Option.some.injEq] at h
          rw [← h]
          intro q hq
          simp only [List.mem_cons] at hq
          rcases hq with rfl | hq
          · exact hc
          · exact ih _ _ _ _ _ _ ps hps q hq
        · cases h

/-- **Pagination is total** on the extended grammar (no fixed heights in the flow, `orphans, widows ≥ 1`):
it returns, with at least one and at most `2 · size` pages, none of them crashed. -/
theorem paginate_total (d : Doc) (hg : Good d.root) :
    ∃ pages, paginate d (2 * size d.root + 2) = some pages ∧ pages ≠ [] ∧ pages.length ≤ 2 * size d.root ∧
      ∀ p ∈ pages, p.crash = false := by
  obtain ⟨pages, hp, hl⟩ := C03Oof.paginate_terminates d hg
  refine ⟨pages, hp, ?_, hl, ?_⟩
  · intro he
    subst he
    unfold paginate makeAllPages at hp
    split at hp
    · cases hp
    · split at hp
      · cases hp
      · split at hp <;> cases hp
  · unfold paginate at hp
    exact makeAllPages_no_crash d _ _ _ _ _ _ _ pages hp

/-! Non-vacuity: `C01Oof.exDoc` satisfies the hypothesis; 3 pages ≤ 30. -/
example : Good C01Oof.exDoc.root ∧
    (paginate C01Oof.exDoc (2 * size C01Oof.exDoc.root + 2)).map (fun ps => (ps.length, ps.all (!·.crash))) =
      some (3, true) := by
  refine ⟨?_, by decide +kernel⟩
  simp [C01Oof.exDoc, Witness.mkDoc, Good, GoodList, Witness.flow, Witness.floated, Witness.absolute, Witness.st0]

end Wp.PMO.C02Oof
