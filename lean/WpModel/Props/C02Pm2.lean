/-
C02 — pagination terminates for *every* document of the PM grammar (fixed heights allowed; only
`orphans, widows ≥ 1`, what the CSS validator accepts), with at most `2 · size` pages; the fuel is irrelevant;
each page is a function of the page-maker state only.
-/
import WpModel.Props.C03Pm2

namespace Wp.C02Pm2
open Wp Wp.PM

/-- **`make_all_pages` terminates, every document**: with at least `pagesNeeded` units of fuel it returns,
with at most that many pages — from every page-maker state. -/
theorem makeAllPages_terminates_all (d : Doc) (hW : WellFormed d.root) :
    ∀ (fuel index : Nat) (resume : Option Resume) (np : NextPage) (right : Bool),
    C02.pagesNeeded d resume np right ≤ fuel →
    ∃ pages, makeAllPages d fuel index resume np right = some pages ∧
      pages.length ≤ C02.pagesNeeded d resume np right := by
  intro fuel
  induction fuel with
  | zero =>
    intro index resume np right h
    have := PM.pos_lt_size d.root resume
    unfold C02.pagesNeeded at h
    omega
  | succ fuel ih =>
    intro index resume np right h
    have hlt := PM.pos_lt_size d.root resume
    have hs := C02.root_assert_unreachable d index resume np right
    cases hp : remakePage d index resume np right with
    | none => rw [hp] at hs; simp at hs
    | some p =>
      unfold makeAllPages
      simp only [hp]
      cases hr : p.resume with
      | none =>
        refine ⟨[p], rfl, ?_⟩
        unfold C02.pagesNeeded
        simp only [List.length_singleton]
        omega
      | some r =>
        simp only
        obtain ⟨hbl, _, _⟩ := remakePage_spec d index resume np right p hp
        have key : C02.pagesNeeded d (some r) p.nextPage (!right) + 1 ≤ C02.pagesNeeded d resume np right := by
          cases hb : p.type.blank with
          | true =>
            obtain ⟨hres, hnp, _⟩ := C03.blank_then_nonblank d index resume np right p hp hb
            have hflip : isBlank (requestedSide d.rootLtr np.brk) (!right) = false := by
              cases hside : requestedSide d.rootLtr np.brk with
              | none => cases right <;> simp [isBlank]
              | some sd =>
                rw [hb, hside] at hbl
                revert hbl; cases sd <;> cases right <;> simp [isBlank]
            unfold C02.pagesNeeded
            rw [hnp, hflip, ← hbl, hb, ← hr, hres]
            simp
          | false =>
            have hprog := C03Pm2.page_progress_all d hW index resume np right p hp hb
            rw [hr] at hprog
            have hprog : pos d.root resume < pos d.root (some r) := by
              rcases hprog with h | h
              · cases h
              · exact h
            have hlt' := PM.pos_lt_size d.root (some r)
            unfold C02.pagesNeeded
            rw [← hbl, hb]
            split <;> simp <;> omega
        obtain ⟨ps, hps, hlen⟩ := ih (index + 1) (some r) p.nextPage (!right) (by omega)
        rw [hps]
        refine ⟨p :: ps, rfl, ?_⟩
        simp only [List.length_cons]
        omega

/-- **Pagination terminates, every document**: `2 * size + 2` units of fuel are always enough, and there are
at most `2 * size` pages. -/
theorem paginate_terminates_all (d : Doc) (hW : WellFormed d.root) :
    ∃ pages, paginate d (2 * size d.root + 2) = some pages ∧ pages.length ≤ 2 * size d.root := by
  unfold paginate
  have hn : C02.pagesNeeded d none { brk := none, page := some (boxPageStart d.root) } (firstRight d) ≤
      2 * size d.root := by
    unfold C02.pagesNeeded
    simp [requestedSide, isBlank]
    omega
  obtain ⟨pages, hp, hl⟩ := makeAllPages_terminates_all d hW (2 * size d.root + 2) 0 none
    { brk := none, page := some (boxPageStart d.root) } (firstRight d) (by omega)
  exact ⟨pages, hp, by omega⟩

/-- **The fuel is irrelevant, every document**: any fuel ≥ `2 * size` gives the same pages. -/
theorem paginate_fuel_irrelevant (d : Doc) (hW : WellFormed d.root) (fuel : Nat)
    (hf : 2 * size d.root ≤ fuel) : paginate d fuel = paginate d (2 * size d.root) := by
  unfold paginate
  have hn : C02.pagesNeeded d none { brk := none, page := some (boxPageStart d.root) } (firstRight d) ≤
      2 * size d.root := by
    unfold C02.pagesNeeded
    simp [requestedSide, isBlank]
    omega
  obtain ⟨pages, hp, _⟩ := makeAllPages_terminates_all d hW (2 * size d.root) 0 none
    { brk := none, page := some (boxPageStart d.root) } (firstRight d) hn
  have := C02.makeAllPages_fuel_mono d (2 * size d.root) (fuel - 2 * size d.root) 0 none _ _ pages hp
  have he : 2 * size d.root + (fuel - 2 * size d.root) = fuel := by omega
  rw [he] at this
  rw [this, hp]

/-- Two successful paginations of the same document agree, whatever their fuels (no hypothesis at all). -/
theorem paginate_fuel_deterministic (d : Doc) (f1 f2 : Nat) (p1 p2 : List Page)
    (h1 : paginate d f1 = some p1) (h2 : paginate d f2 = some p2) : p1 = p2 := by
  unfold paginate at h1 h2
  have a := C02.makeAllPages_fuel_mono d f1 f2 0 none _ _ p1 h1
  have b := C02.makeAllPages_fuel_mono d f2 f1 0 none _ _ p2 h2
  rw [Nat.add_comm] at b
  rw [a] at b
  exact Option.some.inj b

/-- `remake_page` is a function of the page-maker state `(resume_at, next_page, right_page)` and the page
index only — in PM there is no other state (no `page_maker` history, no caches): making the same page again
(`remake_state`) gives the same page. -/
theorem remakePage_pure (d : Doc) (i i' : Nat) (r r' : Option Resume) (np np' : NextPage) (right right' : Bool)
    (hi : i = i') (hr : r = r') (hn : np = np') (hright : right = right') :
    remakePage d i r np right = remakePage d i' r' np' right' := by
  subst hi hr hn hright; rfl

/-! Non-vacuity: the document of `C03Pm2.lossDoc` (a fixed-height paragraph that forgets three lines). -/
example : WellFormed C03Pm2.lossDoc.root ∧
    (paginate C03Pm2.lossDoc (2 * size C03Pm2.lossDoc.root + 2)).map List.length = some 2 ∧
    (paginate C03Pm2.lossDoc 1).isNone = true := by
  refine ⟨?_, by decide +kernel, by decide +kernel⟩
  simp [C03Pm2.lossDoc, WellFormed, WellFormedList, plainSt]

end Wp.C02Pm2
