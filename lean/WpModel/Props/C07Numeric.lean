/-
C07 (part 7) — the numeric single-token validators: what is accepted lies in the range the CSS grammar gives
(otherwise the declaration is invalid and must vanish), and what is accepted is the number that was written.
The clause tables are regenerated from the source (Gen/NumericC07): an edited bound re-checks every statement here.
-/
import WpModel.Model.NumericC07

namespace Wp.C07
open Wp Wp.Len07 Wp.Num07

/-! ## 25. Any clause list: the value is the token's own, inside the bounds of the clause that returned it -/

/-- **An accepted integer is the integer written, within the bound and the allowed set of some integer clause** —
for every clause list (whatever the source becomes inside the translator's subset), every token. -/
theorem eval_int_sound : ∀ (cs : List Clause) (taken : Bool) (t : NTok) (n : Int),
    evalClauses cs taken t = some (.int n) →
      t.intValue = some n ∧ ∃ c ∈ cs, c.kind = "int" ∧ (∀ k, c.lower = some k → k ≤ n) ∧
        (c.allowed = [] ∨ n ∈ c.allowed)
  | [], _, _, _, h => by simp [evalClauses] at h
  | c :: rest, taken, t, n, h => by
    have lift : ∀ tk, evalClauses rest tk t = some (.int n) →
        t.intValue = some n ∧ ∃ c' ∈ c :: rest, c'.kind = "int" ∧ (∀ k, c'.lower = some k → k ≤ n) ∧
          (c'.allowed = [] ∨ n ∈ c'.allowed) := by
      intro tk hr
      obtain ⟨h1, c', hc', h2⟩ := eval_int_sound rest tk t n hr
      exact ⟨h1, c', by simp [hc'], h2⟩
    unfold evalClauses at h
    split at h
    · exact lift _ h
    · split at h
      · -- the test of `c` holds
        cases hv : c.value t with
        | none =>
          rw [hv] at h
          simp only at h
          split at h
          · cases h
          · exact lift _ h
        | some v =>
          rw [hv] at h
          simp only [Option.some.injEq] at h
          subst h
          -- only an "int" clause returns an integer
          unfold Clause.value at hv
          by_cases hk : (c.kind == "int") = true
          · simp only [hk, if_true] at hv
            cases hi : t.intValue with
            | none => rw [hi] at hv; cases hv
            | some m =>
              rw [hi] at hv
              simp only at hv
              cases hok : c.intOk m with
              | false => rw [hok] at hv; simp at hv
              | true =>
                rw [hok] at hv
                simp only [if_true, Option.some.injEq, NVal.int.injEq] at hv
                subst hv
                unfold Clause.intOk at hok
                simp only [Bool.and_eq_true, Bool.or_eq_true] at hok
                refine ⟨rfl, c, by simp, by simpa using hk, ?_, ?_⟩
                · intro k hk'
                  have := hok.1
                  rw [hk'] at this
                  simpa using this
                · rcases hok.2 with he | hm
                  · exact Or.inl (by simpa using he)
                  · exact Or.inr (by simpa using hm)
          · have hk' : (c.kind == "int") = false := by simpa using hk
            simp only [hk', Bool.false_eq_true, if_false] at hv
            exfalso
            split at hv
            · cases hkw : t.keyword <;> simp [hkw] at hv
            · split at hv
              · cases hl : t.ltok <;> simp [hl] at hv
                split at hv <;> cases hv
              · split at hv
                · cases hl : t.ltok <;> simp [hl] at hv
                · split at hv
                  · cases hg : getLength true false t.ltok <;> simp [hg] at hv
                  · split at hv
                    · cases hg : getLength c.flagA c.flagB t.ltok <;> simp [hg] at hv
                    · cases hv
      · exact lift _ h

/-- **An accepted keyword is the token's own keyword and belongs to the tuple of a keyword clause.** -/
theorem eval_kw_sound : ∀ (cs : List Clause) (taken : Bool) (t : NTok) (k : String),
    evalClauses cs taken t = some (.kw k) →
      t.keyword = some k ∧ ∃ c ∈ cs, c.kind = "kw" ∧ k ∈ c.keywords
  | [], _, _, _, h => by simp [evalClauses] at h
  | c :: rest, taken, t, k, h => by
    have lift : ∀ tk, evalClauses rest tk t = some (.kw k) →
        t.keyword = some k ∧ ∃ c' ∈ c :: rest, c'.kind = "kw" ∧ k ∈ c'.keywords := by
      intro tk hr
      obtain ⟨h1, c', hc', h2⟩ := eval_kw_sound rest tk t k hr
      exact ⟨h1, c', by simp [hc'], h2⟩
    unfold evalClauses at h
    split at h
    · exact lift _ h
    · split at h
      · rename_i htest
        cases hv : c.value t with
        | none =>
          rw [hv] at h
          simp only at h
          split at h
          · cases h
          · exact lift _ h
        | some v =>
          rw [hv] at h
          simp only [Option.some.injEq] at h
          subst h
          unfold Clause.value at hv
          by_cases hi : (c.kind == "int") = true
          · simp only [hi, if_true] at hv
            cases hiv : t.intValue with
            | none => rw [hiv] at hv; cases hv
            | some m =>
              rw [hiv] at hv
              simp only at hv
              cases hok : c.intOk m <;> rw [hok] at hv <;> simp at hv
          · have hi' : (c.kind == "int") = false := by simpa using hi
            simp only [hi', Bool.false_eq_true, if_false] at hv
            by_cases hk : (c.kind == "kw") = true
            · simp only [hk, if_true] at hv
              unfold Clause.test at htest
              simp only [hi', Bool.false_eq_true, if_false, hk, if_true] at htest
              cases hkw : t.keyword with
              | none => rw [hkw] at hv; cases hv
              | some k' =>
                rw [hkw] at hv htest
                simp only [Option.map_some, Option.some.injEq, NVal.kw.injEq] at hv
                subst hv
                exact ⟨rfl, c, by simp, by simpa using hk, by simpa using htest⟩
            · have hk' : (c.kind == "kw") = false := by simpa using hk
              simp only [hk', Bool.false_eq_true, if_false] at hv
              exfalso
              split at hv
              · cases hl : t.ltok <;> simp [hl] at hv
                split at hv <;> cases hv
              · split at hv
                · cases hl : t.ltok <;> simp [hl] at hv
                · split at hv
                  · cases hg : getLength true false t.ltok <;> simp [hg] at hv
                  · split at hv
                    · cases hg : getLength c.flagA c.flagB t.ltok <;> simp [hg] at hv
                    · cases hv
      · exact lift _ h

/-! ## 26. The registered properties, on the generated tables -/

/-- A number token written as the integer `n`. -/
def intTok (n : Int) : NTok := { intValue := some n, keyword := none, ltok := .number n }

/-- The five properties whose grammar is `<integer [1,∞]>` (plus a keyword for three of them). -/
def positiveIntegerProperties : List String := ["orphans", "widows", "column-count", "max-lines", "bookmark-level"]

private theorem clauses_orphans : clausesOf "orphans" = some [⟨"int", some 1, [], [], false, false, false⟩] := by rfl
private theorem clauses_widows : clausesOf "widows" = some [⟨"int", some 1, [], [], false, false, false⟩] := by rfl
private theorem clauses_column_count : clausesOf "column-count" =
    some [⟨"int", some 1, [], [], false, false, false⟩, ⟨"kw", none, [], ["auto"], false, false, false⟩] := by rfl
private theorem clauses_max_lines : clausesOf "max-lines" =
    some [⟨"int", some 1, [], [], false, false, false⟩, ⟨"kw", none, [], ["none"], false, false, false⟩] := by rfl
private theorem clauses_bookmark_level : clausesOf "bookmark-level" =
    some [⟨"int", some 1, [], [], false, false, false⟩, ⟨"kw", none, [], ["none"], true, false, false⟩] := by rfl
private theorem clauses_tab_size : clausesOf "tab-size" =
    some [⟨"int", some 0, [], [], false, false, false⟩, ⟨"length", none, [], [], false, false, false⟩] := by rfl
private theorem clauses_z_index : clausesOf "z-index" =
    some [⟨"kw", none, [], ["auto"], false, false, false⟩, ⟨"int", none, [], [], false, false, false⟩] := by rfl
private theorem clauses_order : clausesOf "order" = some [⟨"int", none, [], [], false, false, false⟩] := by rfl
private theorem clauses_font_weight : clausesOf "font-weight" =
    some [⟨"kw", none, [], ["normal", "bold", "bolder", "lighter"], false, false, false⟩,
          ⟨"int", none, [100, 200, 300, 400, 500, 600, 700, 800, 900], [], false, false, false⟩] := by rfl

private theorem validate_int_cases (name : String) (cs : List Clause) (hc : clausesOf name = some cs)
    (ts : List NTok) (n : Int) (h : validate name ts = some (some (.int n))) :
    ∃ t, ts = [t] ∧ evalClauses cs false t = some (.int n) := by
  unfold validate at h
  rw [hc] at h
  match ts, h with
  | [t], h => exact ⟨t, rfl, by simpa using h⟩
  | [], h => simp at h
  | _ :: _ :: _, h => simp at h

/-- **`orphans`, `widows`, `column-count`, `max-lines`, `bookmark-level`: an accepted integer is at least 1** —
`orphans: 0`, `widows: -1` … are invalid declarations (css-break-3: "negative values and zero are invalid and must
cause the declaration to be ignored"); this is the hypothesis `orphans, widows ≥ 1` of the pagination theorems
(C01.pages_conserve, C04.orphans_widows). -/
theorem positive_integer_properties (name : String) (hn : name ∈ positiveIntegerProperties) (ts : List NTok)
    (n : Int) (h : validate name ts = some (some (.int n))) :
    1 ≤ n ∧ ∃ t, ts = [t] ∧ t.intValue = some n := by
  have key : ∀ cs, clausesOf name = some cs →
      (∀ c ∈ cs, c.kind = "int" → c.lower = some 1) → 1 ≤ n ∧ ∃ t, ts = [t] ∧ t.intValue = some n := by
    intro cs hc hall
    obtain ⟨t, hts, he⟩ := validate_int_cases name cs hc ts n h
    obtain ⟨hw, c, hcm, hk, hlo, _⟩ := eval_int_sound cs false t n he
    exact ⟨hlo 1 (hall c hcm hk), t, hts, hw⟩
  simp only [positiveIntegerProperties, List.mem_cons, List.not_mem_nil, or_false] at hn
  rcases hn with rfl | rfl | rfl | rfl | rfl
  · exact key _ clauses_orphans (by intro c hc _; simp at hc; subst hc; rfl)
  · exact key _ clauses_widows (by intro c hc _; simp at hc; subst hc; rfl)
  · exact key _ clauses_column_count (by
      intro c hc hk; simp at hc; rcases hc with rfl | rfl
      · rfl
      · exact absurd hk (by decide))
  · exact key _ clauses_max_lines (by
      intro c hc hk; simp at hc; rcases hc with rfl | rfl
      · rfl
      · exact absurd hk (by decide))
  · exact key _ clauses_bookmark_level (by
      intro c hc hk; simp at hc; rcases hc with rfl | rfl
      · rfl
      · exact absurd hk (by decide))

/-- The same, in the form the pagination model uses it. -/
theorem orphans_widows_at_least_one (ts : List NTok) (n : Int) :
    (validate "orphans" ts = some (some (.int n)) → 1 ≤ n) ∧
    (validate "widows" ts = some (some (.int n)) → 1 ≤ n) :=
  ⟨fun h => (positive_integer_properties "orphans" (by decide) ts n h).1,
   fun h => (positive_integer_properties "widows" (by decide) ts n h).1⟩

/-- **Every integer from 1 on is a value of these properties, with itself as value** (completeness: a bound
moved up would drop valid declarations). -/
theorem positive_integer_accepted (name : String) (hn : name ∈ positiveIntegerProperties) (n : Int) (h : 1 ≤ n) :
    validate name [intTok n] = some (some (.int n)) := by
  simp only [positiveIntegerProperties, List.mem_cons, List.not_mem_nil, or_false] at hn
  have hd : decide ((1 : Int) ≤ n) = true := by simpa using h
  rcases hn with rfl | rfl | rfl | rfl | rfl
  · simp [validate, clauses_orphans, evalClauses, Clause.test, Clause.value, Clause.intOk, intTok, NTok.isNumber, hd]
  · simp [validate, clauses_widows, evalClauses, Clause.test, Clause.value, Clause.intOk, intTok, NTok.isNumber, hd]
  · simp [validate, clauses_column_count, evalClauses, Clause.test, Clause.value, Clause.intOk, intTok, NTok.isNumber, hd]
  · simp [validate, clauses_max_lines, evalClauses, Clause.test, Clause.value, Clause.intOk, intTok, NTok.isNumber, hd]
  · simp [validate, clauses_bookmark_level, evalClauses, Clause.test, Clause.value, Clause.intOk, intTok, NTok.isNumber, hd]

/-- Zero and negative integers are refused by the five properties (no other clause catches a number). -/
theorem nonpositive_integer_refused (name : String) (hn : name ∈ positiveIntegerProperties) (n : Int) (h : n < 1) :
    validate name [intTok n] = some none := by
  simp only [positiveIntegerProperties, List.mem_cons, List.not_mem_nil, or_false] at hn
  have hd : decide ((1 : Int) ≤ n) = false := by simpa using h
  rcases hn with rfl | rfl | rfl | rfl | rfl
  · simp [validate, clauses_orphans, evalClauses, Clause.test, Clause.value, Clause.intOk, Clause.returnsAlways, intTok,
      NTok.isNumber, hd]
  · simp [validate, clauses_widows, evalClauses, Clause.test, Clause.value, Clause.intOk, Clause.returnsAlways, intTok,
      NTok.isNumber, hd]
  · simp [validate, clauses_column_count, evalClauses, Clause.test, Clause.value, Clause.intOk, Clause.returnsAlways, intTok,
      NTok.isNumber, hd]
  · simp [validate, clauses_max_lines, evalClauses, Clause.test, Clause.value, Clause.intOk, Clause.returnsAlways, intTok,
      NTok.isNumber, hd]
  · simp [validate, clauses_bookmark_level, evalClauses, Clause.test, Clause.value, Clause.intOk, Clause.returnsAlways, intTok,
      NTok.isNumber, hd]

/-- `tab-size`: an accepted integer is not negative. -/
theorem tab_size_nonneg (ts : List NTok) (n : Int) (h : validate "tab-size" ts = some (some (.int n))) : 0 ≤ n := by
  obtain ⟨t, _, he⟩ := validate_int_cases "tab-size" _ clauses_tab_size ts n h
  obtain ⟨_, c, hcm, hk, hlo, _⟩ := eval_int_sound _ false t n he
  simp at hcm
  rcases hcm with rfl | rfl
  · exact hlo 0 rfl
  · exact absurd hk (by decide)

/-- `z-index` and `order` take every integer, as itself. -/
theorem any_integer_accepted (n : Int) :
    validate "z-index" [intTok n] = some (some (.int n)) ∧ validate "order" [intTok n] = some (some (.int n)) := by
  constructor
  · simp [validate, clauses_z_index, evalClauses, Clause.test, Clause.value, Clause.intOk, intTok, NTok.isNumber]
  · simp [validate, clauses_order, evalClauses, Clause.test, Clause.value, Clause.intOk, intTok, NTok.isNumber]

/-- `font-weight`: the integers accepted are exactly 100, 200, …, 900. -/
theorem font_weight_integers (n : Int) :
    validate "font-weight" [intTok n] = some (some (.int n)) ↔ n ∈ [100, 200, 300, 400, 500, 600, 700, 800, 900] := by
  constructor
  · intro h
    obtain ⟨t, _, he⟩ := validate_int_cases "font-weight" _ clauses_font_weight [intTok n] n h
    obtain ⟨_, c, hcm, hk, _, hal⟩ := eval_int_sound _ false t n he
    simp at hcm
    rcases hcm with rfl | rfl
    · exact absurd hk (by decide)
    · rcases hal with h0 | hm
      · cases h0
      · exact hm
  · intro hm
    have hcont : ([100, 200, 300, 400, 500, 600, 700, 800, 900] : List Int).contains n = true := by
      simpa using hm
    simp [validate, clauses_font_weight, evalClauses, Clause.test, Clause.value, Clause.intOk, intTok, NTok.isNumber] at hcont ⊢
    rcases hcont with h | h | h | h | h | h | h | h | h <;> simp [h]

/-- A number that is not written as an integer (`1.5`, `2.0`, `1e2`) is refused by the integer-only properties. -/
theorem non_integer_refused (name : String) (hn : name ∈ ["orphans", "widows", "order"]) (q : Rat) :
    validate name [{ intValue := none, keyword := none, ltok := .number q }] = some none := by
  simp only [List.mem_cons, List.not_mem_nil, or_false] at hn
  rcases hn with rfl | rfl | rfl
  · simp [validate, clauses_orphans, evalClauses, Clause.test, NTok.isNumber]
  · simp [validate, clauses_widows, evalClauses, Clause.test, NTok.isNumber]
  · simp [validate, clauses_order, evalClauses, Clause.test, NTok.isNumber]

private theorem clauses_flex_grow : clausesOf "flex-grow" = some [⟨"number", none, [], [], false, false, false⟩] := by
  rfl
private theorem clauses_flex_shrink : clausesOf "flex-shrink" = some [⟨"number", none, [], [], false, false, false⟩] := by
  rfl

/-- `flex-grow` / `flex-shrink`: what is accepted is a number token, with its own value.  (`_partial`: the grammar
`<number [0,∞]>` would add `0 ≤ q`, which is false of the code: `Witness.C07.flex_negative_factor_accepted`.) -/
theorem flex_factor_partial (name : String) (hn : name = "flex-grow" ∨ name = "flex-shrink") (ts : List NTok)
    (v : NVal) (h : validate name ts = some (some v)) : ∃ t q, ts = [t] ∧ t.ltok = .number q ∧ v = .num q := by
  have key : ∀ t, evalClauses [⟨"number", none, [], [], false, false, false⟩] false t = some v →
      ∃ q, t.ltok = .number q ∧ v = .num q := by
    intro t he
    cases hl : t.ltok with
    | number q =>
      refine ⟨q, rfl, ?_⟩
      simp [evalClauses, Clause.test, Clause.value, geBound, hl] at he
      exact he.symm
    | dimension a b c => simp [evalClauses, Clause.test, hl] at he
    | percentage a => simp [evalClauses, Clause.test, hl] at he
    | other => simp [evalClauses, Clause.test, hl] at he
  unfold validate at h
  rcases hn with rfl | rfl
  · rw [clauses_flex_grow] at h
    match ts, h with
    | [t], h =>
      obtain ⟨q, h1, h2⟩ := key t (by simpa using h)
      exact ⟨t, q, rfl, h1, h2⟩
    | [], h => simp at h
    | _ :: _ :: _, h => simp at h
  · rw [clauses_flex_shrink] at h
    match ts, h with
    | [t], h =>
      obtain ⟨q, h1, h2⟩ := key t (by simpa using h)
      exact ⟨t, q, rfl, h1, h2⟩
    | [], h => simp at h
    | _ :: _ :: _, h => simp at h

/-- `single_token`: several tokens (or none) are refused by every numeric property. -/
theorem numeric_single_token (name : String) (ts : List NTok) (h : ts.length ≠ 1) (v : NVal) :
    validate name ts ≠ some (some v) := by
  unfold validate
  cases clausesOf name with
  | none => simp
  | some cs =>
    match ts, h with
    | [], _ => simp
    | [_], h => simp at h
    | _ :: _ :: _, _ => simp

/-! ## 27. image-resolution -/

/-- `image-resolution` (`_partial`: for a **positive** resolution — the only ones CSS allows — the intrinsic size
of a raster image is defined and positive; for zero it is a `ZeroDivisionError`, which the validator does not
exclude: `Witness.C07.image_resolution_zero_division`). -/
theorem image_resolution_partial (w h r : Rat) (hr : 0 < r) (hw : 0 < w) (hh : 0 < h) :
    ∃ a b, rasterIntrinsicSize w h r = .ok (a, b) ∧ 0 < a ∧ 0 < b := by
  have hne : (r == 0) = false := by
    have : r ≠ 0 := fun e => by rw [e] at hr; exact absurd hr (by decide)
    simpa using this
  refine ⟨w / r, h / r, by simp [rasterIntrinsicSize, hne, pure, Except.pure], ?_, ?_⟩
  · rw [Rat.div_def]; exact Rat.mul_pos hw (Rat.inv_pos.2 hr)
  · rw [Rat.div_def]; exact Rat.mul_pos hh (Rat.inv_pos.2 hr)

/-- The resolution units: `1dppx = 96dpi`, and only `dppx`, `dpi`, `dpcm` as written are resolutions. -/
theorem resolution_units :
    getResolution (.dimension 96 "dpi" "dpi") = some 1 ∧ getResolution (.dimension 2 "dppx" "dppx") = some 2 ∧
    getResolution (.dimension 1 "DPI" "dpi") = none ∧ getResolution (.dimension 1 "px" "px") = none ∧
    getResolution (.number 1) = none := by
  refine ⟨by decide +kernel, by decide +kernel, by decide +kernel, by decide +kernel, by decide +kernel⟩

/-- The twelve properties mirrored, and `opacity` (a clamp, not a range) left to the run-time funnel check. -/
theorem numeric_inventory :
    Gen.NumericC07.numericValidators.map (·.1) =
      ["bookmark-level", "column-count", "flex-grow", "flex-shrink", "font-weight", "line-height", "max-lines",
       "order", "orphans", "tab-size", "widows", "z-index"] ∧
    Gen.NumericC07.notMirrored.map (·.1) = ["opacity"] := by
  constructor <;> rfl

/-- Non-vacuity: `orphans: 3`, `orphans: 0`, `column-count: auto`, `bookmark-level: none`, `tab-size: 2px`,
`line-height: -1` (refused), `line-height: 1.5`. -/
example :
    validate "orphans" [intTok 3] = some (some (.int 3)) ∧
    validate "orphans" [intTok 0] = some none ∧
    validate "column-count" [{ intValue := none, keyword := some "auto", ltok := .other }] = some (some (.kw "auto")) ∧
    validate "bookmark-level" [{ intValue := none, keyword := some "none", ltok := .other }]
      = some (some (.kw "none")) ∧
    validate "tab-size" [{ intValue := none, keyword := none, ltok := .dimension 2 "px" "px" }]
      = some (some (.len (.dim 2 (some "px")))) ∧
    validate "line-height" [intTok (-1)] = some none ∧
    validate "line-height" [{ intValue := none, keyword := none, ltok := .number (3 / 2) }]
      = some (some (.len (.dim (3 / 2) none))) ∧
    validate "width" [intTok 1] = none := by
  decide +kernel

end Wp.C07
