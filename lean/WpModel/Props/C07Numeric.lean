/-
C07 (part 7) — the numeric single-token validators: what is accepted lies in the range the CSS grammar gives
(otherwise the declaration is invalid and must vanish), and what is accepted is the number that was written.
The clause tables are regenerated from the source (Gen/NumericC07): an edited bound re-checks every statement here.
-/
import WpModel.Model.NumericC07
import WpModel.Props.C07

namespace Wp.C07
open Wp Wp.Len07 Wp.Num07

/-! ## 25. Any clause list: the value is the token's own, inside the bounds of the clause that returned it -/

/-- **An accepted integer is the integer written, within the bound and the allowed set of some integer clause** —
for every clause list (whatever the source becomes inside the translator's subset), every token. -/
theorem eval_int_sound : ∀ (cs : List Clause) (taken : Bool) (t : NTok) (n : Int),
    evalClauses cs taken t = some (.int n) →
      t.intValue = some n ∧ ∃ c ∈ cs, c.kind = "int" ∧ (∀ k, c.lower = some k → k ≤ n) ∧
        (c.allowed = [] ∨ n ∈ c.allowed)
  | [], _, _, _, h => by simp [evalClauses] at h
  | c :: rest, taken, t, n, h => by
    have lift : ∀ tk, evalClauses rest tk t = some (.int n) →
        t.intValue = some n ∧ ∃ c' ∈ c :: rest, c'.kind = "int" ∧ (∀ k, c'.lower = some k → k ≤ n) ∧
          (c'.allowed = [] ∨ n ∈ c'.allowed) := by
      intro tk hr
      obtain ⟨h1, c', hc', h2⟩ := eval_int_sound rest tk t n hr
      exact ⟨h1, c', by simp [hc'], h2⟩
    unfold evalClauses at h
    split at h
    · exact lift _ h
    · split at h
      · -- the test of `c` holds
        cases hv : c.value t with
        | none =>
          rw [hv] at h
          simp only at h
          split at h
          · cases h
          · exact lift _ h
        | some v =>
          rw [hv] at h
          simp only [Option.some.injEq] at h
          subst h
          -- only an "int" clause returns an integer
          unfold Clause.value at hv
          by_cases hk : (c.kind == "int") = true
          · simp only [hk, if_true] at hv
            cases hi : t.intValue with
            | none => rw [hi] at hv; cases hv
            | some m =>
              rw [hi] at hv
              simp only at hv
              cases hok : c.intOk m with
              | false => rw [hok] at hv; simp at hv
              | true =>
                rw [hok] at hv
                simp only [if_true, Option.some.injEq, NVal.int.injEq] at hv
                subst hv
                unfold Clause.intOk at hok
                simp only [Bool.and_eq_true, Bool.or_eq_true] at hok
                refine ⟨rfl, c, by simp, by simpa using hk, ?_, ?_⟩
                · intro k hk'
                  have := hok.1
                  rw [hk'] at this
                  simpa using this
                · rcases hok.2 with he | hm
                  · exact Or.inl (by simpa using he)
                  · exact Or.inr (by simpa using hm)
          · have hk' : (c.kind == "int") = false := by simpa using hk
            simp only [hk', Bool.false_eq_true, if_false] at hv
            exfalso
            split at hv
            · cases hkw : t.keyword <;> simp [hkw] at hv
            · split at hv
              · cases hl : t.ltok <;> simp [hl] at hv
                split at hv <;> cases hv
              · split at hv
                · cases hl : t.ltok <;> simp [hl] at hv
                · split at hv
                  · cases hg : getLength true false t.ltok <;> simp [hg] at hv
                  · split at hv
                    · cases hg : getLength c.flagA c.flagB t.ltok <;> simp [hg] at hv
                    · cases hv
      · exact lift _ h

/-- **An accepted keyword is the token's own keyword and belongs to the tuple of a keyword clause.** -/
theorem eval_kw_sound : ∀ (cs : List Clause) (taken : Bool) (t : NTok) (k : String),
    evalClauses cs taken t = some (.kw k) →
      t.keyword = some k ∧ ∃ c ∈ cs, c.kind = "kw" ∧ k ∈ c.keywords
  | [], _, _, _, h => by simp [evalClauses] at h
  | c :: rest, taken, t, k, h => by
    have lift : ∀ tk, evalClauses rest tk t = some (.kw k) →
        t.keyword = some k ∧ ∃ c' ∈ c :: rest, c'.kind = "kw" ∧ k ∈ c'.keywords := by
      intro tk hr
      obtain ⟨h1, c', hc', h2⟩ := eval_kw_sound rest tk t k hr
      exact ⟨h1, c', by simp [hc'], h2⟩
    unfold evalClauses at h
    split at h
    · exact lift _ h
    · split at h
      · rename_i htest
        cases hv : c.value t with
        | none =>
          rw [hv] at h
          simp only at h
          split at h
          · cases h
          · exact lift _ h
        | some v =>
          rw [hv] at h
          simp only [Option.some.injEq] at h
          subst h
          unfold Clause.value at hv
          by_cases hi : (c.kind == "int") = true
          · simp only [hi, if_true] at hv
            cases hiv : t.intValue with
            | none => rw [hiv] at hv; cases hv
            | some m =>
              rw [hiv] at hv
              simp only at hv
              cases hok : c.intOk m <;> rw [hok] at hv <;> simp at hv
          · have hi' : (c.kind == "int") = false := by simpa using hi
            simp only [hi', Bool.false_eq_true, if_false] at hv
            by_cases hk : (c.kind == "kw") = true
            · simp only [hk, if_true] at hv
              unfold Clause.test at htest
              simp only [hi', Bool.false_eq_true, if_false, hk, if_true] at htest
              cases hkw : t.keyword with
              | none => rw [hkw] at hv; cases hv
              | some k' =>
                rw [hkw] at hv htest
                simp only [Option.map_some, Option.some.injEq, NVal.kw.injEq] at hv
                subst hv
                exact ⟨rfl, c, by simp, by simpa using hk, by simpa using htest⟩
            · have hk' : (c.kind == "kw") = false := by simpa using hk
              simp only [hk', Bool.false_eq_true, if_false] at hv
              exfalso
              split at hv
              · cases hl : t.ltok <;> simp [hl] at hv
                split at hv <;> cases hv
              · split at hv
                · cases hl : t.ltok <;> simp [hl] at hv
                · split at hv
                  · cases hg : getLength true false t.ltok <;> simp [hg] at hv
                  · split at hv
                    · cases hg : getLength c.flagA c.flagB t.ltok <;> simp [hg] at hv
                    · cases hv
      · exact lift _ h

/-! ## 26. The registered properties, on the generated tables -/

/-- A number token written as the integer `n`. -/
def intTok (n : Int) : NTok := { intValue := some n, keyword := none, ltok := .number n }

/-- The five properties whose grammar is `<integer [1,∞]>` (plus a keyword for three of them). -/
def positiveIntegerProperties : List String := ["orphans", "widows", "column-count", "max-lines", "bookmark-level"]

private theorem clauses_orphans : clausesOf "orphans" = some [⟨"int", some 1, [], [], false, false, false⟩] := by rfl
private theorem clauses_widows : clausesOf "widows" = some [⟨"int", some 1, [], [], false, false, false⟩] := by rfl
private theorem clauses_column_count : clausesOf "column-count" =
    some [⟨"int", some 1, [], [], false, false, false⟩, ⟨"kw", none, [], ["auto"], false, false, false⟩] := by rfl
private theorem clauses_max_lines : clausesOf "max-lines" =
    some [⟨"int", some 1, [], [], false, false, false⟩, ⟨"kw", none, [], ["none"], false, false, false⟩] := by rfl
private theorem clauses_bookmark_level : clausesOf "bookmark-level" =
    some [⟨"int", some 1, [], [], false, false, false⟩, ⟨"kw", none, [], ["none"], true, false, false⟩] := by rfl
private theorem clauses_tab_size : clausesOf "tab-size" =
    some [⟨"int", some 0, [], [], false, false, false⟩, ⟨"length", none, [], [], false, false, false⟩] := by rfl
private theorem clauses_z_index : clausesOf "z-index" =
    some [⟨"kw", none, [], ["auto"], false, false, false⟩, ⟨"int", none, [], [], false, false, false⟩] := by rfl
private theorem clauses_order : clausesOf "order" = some [⟨"int", none, [], [], false, false, false⟩] := by rfl
private theorem clauses_font_weight : clausesOf "font-weight" =
    some [⟨"kw", none, [], ["normal", "bold", "bolder", "lighter"], false, false, false⟩,
          ⟨"int", none, [100, 200, 300, 400, 500, 600, 700, 800, 900], [], false, false, false⟩] := by rfl

private theorem validate_int_cases (name : String) (cs : List Clause) (hc : clausesOf name = some cs)
    (ts : List NTok) (n : Int) (h : validate name ts = some (some (.int n))) :
    ∃ t, ts = [t] ∧ evalClauses cs false t = some (.int n) := by
  unfold validate at h
  rw [hc] at h
  match ts, h with
  | [t], h => exact ⟨t, rfl, by simpa using h⟩
  | [], h => simp at h
  | _ :: _ :: _, h => simp at h

/-- **`orphans`, `widows`, `column-count`, `max-lines`, `bookmark-level`: an accepted integer is at least 1** —
`orphans: 0`, `widows: -1` … are invalid declarations (css-break-3: "negative values and zero are invalid and must
cause the declaration to be ignored"); this is the hypothesis `orphans, widows ≥ 1` of the pagination theorems
(C01.pages_conserve, C04.orphans_widows). -/
theorem positive_integer_properties (name : String) (hn : name ∈ positiveIntegerProperties) (ts : List NTok)
    (n : Int) (h : validate name ts = some (some (.int n))) :
    1 ≤ n ∧ ∃ t, ts = [t] ∧ t.intValue = some n := by
  have key : ∀ cs, clausesOf name = some cs →
      (∀ c ∈ cs, c.kind = "int" → c.lower = some 1) → 1 ≤ n ∧ ∃ t, ts = [t] ∧ t.intValue = some n := by
    intro cs hc hall
    obtain ⟨t, hts, he⟩ := validate_int_cases name cs hc ts n h
    obtain ⟨hw, c, hcm, hk, hlo, _⟩ := eval_int_sound cs false t n he
    exact ⟨hlo 1 (hall c hcm hk), t, hts, hw⟩
  simp only [positiveIntegerProperties, List.mem_cons, List.not_mem_nil, or_false] at hn
  rcases hn with rfl | rfl | rfl | rfl | rfl
  · exact key _ clauses_orphans (by intro c hc _; simp at hc; subst hc; rfl)
  · exact key _ clauses_widows (by intro c hc _; simp at hc; subst hc; rfl)
  · exact key _ clauses_column_count (by
      intro c hc hk; simp at hc; rcases hc with rfl | rfl
      · rfl
      · exact absurd hk (by decide))
  · exact key _ clauses_max_lines (by
      intro c hc hk; simp at hc; rcases hc with rfl | rfl
      · rfl
      · exact absurd hk (by decide))
  · exact key _ clauses_bookmark_level (by
      intro c hc hk; simp at hc; rcases hc with rfl | rfl
      · rfl
      · exact absurd hk (by decide))

/-- The same, in the form the pagination model uses it. -/
theorem orphans_widows_at_least_one (ts : List NTok) (n : Int) :
    (validate "orphans" ts = some (some (.int n)) → 1 ≤ n) ∧
    (validate "widows" ts = some (some (.int n)) → 1 ≤ n) :=
  ⟨fun h => (positive_integer_properties "orphans" (by decide) ts n h).1,
   fun h => (positive_integer_properties "widows" (by decide) ts n h).1⟩

/-- **Every integer from 1 on is a value of these properties, with itself as value** (completeness: a bound
moved up would drop valid declarations). -/
theorem positive_integer_accepted (name : String) (hn : name ∈ positiveIntegerProperties) (n : Int) (h : 1 ≤ n) :
    validate name [intTok n] = some (some (.int n)) := by
  simp only [positiveIntegerProperties, List.mem_cons, List.not_mem_nil, or_false] at hn
  have hd : decide ((1 : Int) ≤ n) = true := by simpa using h
  rcases hn with rfl | rfl | rfl | rfl | rfl
  · simp [validate, clauses_orphans, evalClauses, Clause.test, Clause.value, Clause.intOk, intTok, NTok.isNumber, hd]
  · simp [validate, clauses_widows, evalClauses, Clause.test, Clause.value, Clause.intOk, intTok, NTok.isNumber, hd]
  · simp [validate, clauses_column_count, evalClauses, Clause.test, Clause.value, Clause.intOk, intTok, NTok.isNumber, hd]
  · simp [validate, clauses_max_lines, evalClauses, Clause.test, Clause.value, Clause.intOk, intTok, NTok.isNumber, hd]
  · simp [validate, clauses_bookmark_level, evalClauses, Clause.test, Clause.value, Clause.intOk, intTok, NTok.isNumber, hd]

/-- Zero and negative integers are refused by the five properties (no other clause catches a number). -/
theorem nonpositive_integer_refused (name : String) (hn : name ∈ positiveIntegerProperties) (n : Int) (h : n < 1) :
    validate name [intTok n] = some none := by
  simp only [positiveIntegerProperties, List.mem_cons, List.not_mem_nil, or_false] at hn
  have hd : decide ((1 : Int) ≤ n) = false := by simpa using h
  rcases hn with rfl | rfl | rfl | rfl | rfl
  · simp [validate, clauses_orphans, evalClauses, Clause.test, Clause.value, Clause.intOk, Clause.returnsAlways, intTok,
      NTok.isNumber, hd]
  · simp [validate, clauses_widows, evalClauses, Clause.test, Clause.value, Clause.intOk, Clause.returnsAlways, intTok,
      NTok.isNumber, hd]
  · simp [validate, clauses_column_count, evalClauses, Clause.test, Clause.value, Clause.intOk, Clause.returnsAlways, intTok,
      NTok.isNumber, hd]
  · simp [validate, clauses_max_lines, evalClauses, Clause.test, Clause.value, Clause.intOk, Clause.returnsAlways, intTok,
      NTok.isNumber, hd]
  · simp [validate, clauses_bookmark_level, evalClauses, Clause.test, Clause.value, Clause.intOk, Clause.returnsAlways, intTok,
      NTok.isNumber, hd]

/-- `tab-size`: an accepted integer is not negative. -/
theorem tab_size_nonneg (ts : List NTok) (n : Int) (h : validate "tab-size" ts = some (some (.int n))) : 0 ≤ n := by
  obtain ⟨t, _, he⟩ := validate_int_cases "tab-size" _ clauses_tab_size ts n h
  obtain ⟨_, c, hcm, hk, hlo, _⟩ := eval_int_sound _ false t n he
  simp at hcm
  rcases hcm with rfl | rfl
  · exact hlo 0 rfl
  · exact absurd hk (by decide)

/-- `z-index` and `order` take every integer, as itself. -/
theorem any_integer_accepted (n : Int) :
    validate "z-index" [intTok n] = some (some (.int n)) ∧ validate "order" [intTok n] = some (some (.int n)) := by
  constructor
  · simp [validate, clauses_z_index, evalClauses, Clause.test, Clause.value, Clause.intOk, intTok, NTok.isNumber]
  · simp [validate, clauses_order, evalClauses, Clause.test, Clause.value, Clause.intOk, intTok, NTok.isNumber]

/-- `font-weight`: the integers accepted are exactly 100, 200, …, 900. -/
theorem font_weight_integers (n : Int) :
    validate "font-weight" [intTok n] = some (some (.int n)) ↔ n ∈ [100, 200, 300, 400, 500, 600, 700, 800, 900] := by
  constructor
  · intro h
    obtain ⟨t, _, he⟩ := validate_int_cases "font-weight" _ clauses_font_weight [intTok n] n h
    obtain ⟨_, c, hcm, hk, _, hal⟩ := eval_int_sound _ false t n he
    simp at hcm
    rcases hcm with rfl | rfl
    · exact absurd hk (by decide)
    · rcases hal with h0 | hm
      · cases h0
      · exact hm
  · intro hm
    have hcont : ([100, 200, 300, 400, 500, 600, 700, 800, 900] : List Int).contains n = true := by
      simpa using hm
    simp [validate, clauses_font_weight, evalClauses, Clause.test, Clause.value, Clause.intOk, intTok, NTok.isNumber] at hcont ⊢
    rcases hcont with h | h | h | h | h | h | h | h | h <;> simp [h]

/-- A number that is not written as an integer (`1.5`, `2.0`, `1e2`) is refused by the integer-only properties. -/
theorem non_integer_refused (name : String) (hn : name ∈ ["orphans", "widows", "order"]) (q : Rat) :
    validate name [{ intValue := none, keyword := none, ltok := .number q }] = some none := by
  simp only [List.mem_cons, List.not_mem_nil, or_false] at hn
  rcases hn with rfl | rfl | rfl
  · simp [validate, clauses_orphans, evalClauses, Clause.test, NTok.isNumber]
  · simp [validate, clauses_widows, evalClauses, Clause.test, NTok.isNumber]
  · simp [validate, clauses_order, evalClauses, Clause.test, NTok.isNumber]

private theorem clauses_flex_grow : clausesOf "flex-grow" = some [⟨"number", some 0, [], [], false, false, false⟩] := by
  rfl
private theorem clauses_flex_shrink : clausesOf "flex-shrink" = some [⟨"number", some 0, [], [], false, false, false⟩] := by
  rfl

/-- **`flex-grow` / `flex-shrink`: what is accepted is a non-negative number token, with its own value** (full
strength since `fix:` c151619; before it the statement stopped at "a number token": negative factors were kept
although css-flexbox-1 §7.2/7.3 makes them invalid). -/
theorem flex_factor_nonneg (name : String) (hn : name = "flex-grow" ∨ name = "flex-shrink") (ts : List NTok)
    (v : NVal) (h : validate name ts = some (some v)) :
    ∃ t q, ts = [t] ∧ t.ltok = .number q ∧ 0 ≤ q ∧ v = .num q := by
  have key : ∀ t, evalClauses [⟨"number", some 0, [], [], false, false, false⟩] false t = some v →
      ∃ q, t.ltok = .number q ∧ 0 ≤ q ∧ v = .num q := by
    intro t he
    cases hl : t.ltok with
    | number q =>
      by_cases hq : (0 : Rat) ≤ q
      · refine ⟨q, rfl, hq, ?_⟩
        simp [evalClauses, Clause.test, Clause.value, geBound, hl, hq] at he
        exact he.symm
      · simp [evalClauses, Clause.test, geBound, hl, hq] at he
    | dimension a b c => simp [evalClauses, Clause.test, hl] at he
    | percentage a => simp [evalClauses, Clause.test, hl] at he
    | other => simp [evalClauses, Clause.test, hl] at he
  unfold validate at h
  rcases hn with rfl | rfl
  · rw [clauses_flex_grow] at h
    match ts, h with
    | [t], h =>
      obtain ⟨q, h1, h2, h3⟩ := key t (by simpa using h)
      exact ⟨t, q, rfl, h1, h2, h3⟩
    | [], h => simp at h
    | _ :: _ :: _, h => simp at h
  · rw [clauses_flex_shrink] at h
    match ts, h with
    | [t], h =>
      obtain ⟨q, h1, h2, h3⟩ := key t (by simpa using h)
      exact ⟨t, q, rfl, h1, h2, h3⟩
    | [], h => simp at h
    | _ :: _ :: _, h => simp at h

/-- Regression (`flex-grow: -1`, `flex-shrink: -0.5`, repaired by c151619): refused; zero and positive factors kept. -/
example :
    validate "flex-grow" [{ intValue := some (-1), keyword := none, ltok := .number (-1) }] = some none ∧
    validate "flex-shrink" [{ intValue := none, keyword := none, ltok := .number (-1 / 2) }] = some none ∧
    validate "flex-grow" [intTok 0] = some (some (.num 0)) ∧
    validate "flex-shrink" [{ intValue := none, keyword := none, ltok := .number (3 / 2) }] = some (some (.num (3 / 2))) := by
  decide +kernel

/-- `single_token`: several tokens (or none) are refused by every numeric property. -/
theorem numeric_single_token (name : String) (ts : List NTok) (h : ts.length ≠ 1) (v : NVal) :
    validate name ts ≠ some (some v) := by
  unfold validate
  cases clausesOf name with
  | none => simp
  | some cs =>
    match ts, h with
    | [], _ => simp
    | [_], h => simp at h
    | _ :: _ :: _, _ => simp

/-! ## 26b. One or two lengths: border-spacing takes no percentage, the radii do -/

/-- Whatever the flags: a value is accepted only for one or two tokens, each of which `get_length` accepts with
these flags; one length stands for both components. -/
theorem length_list_sound (n p : Bool) (toks : List LTok) (a b : Spec) (h : lengthList n p toks = some (a, b)) :
    (∃ t, toks = [t] ∧ getLength n p t = some a ∧ b = a) ∨
    (∃ t u, toks = [t, u] ∧ getLength n p t = some a ∧ getLength n p u = some b) := by
  unfold lengthList at h
  match toks, h with
  | [], h => simp at h
  | [t], h =>
    left
    cases hg : getLength n p t with
    | none => simp [hg] at h
    | some x =>
      simp [hg] at h
      obtain ⟨rfl, rfl⟩ := h
      exact ⟨t, rfl, hg, rfl⟩
  | [t, u], h =>
    right
    cases hg : getLength n p t with
    | none => simp [hg] at h
    | some x =>
      cases hu : getLength n p u with
      | none => simp [hg, hu] at h
      | some y =>
        simp [hg, hu] at h
        obtain ⟨rfl, rfl⟩ := h
        exact ⟨t, u, rfl, hg, hu⟩
  | _ :: _ :: _ :: _, h =>
    simp only [List.map_cons] at h
    split at h <;> simp_all

private theorem flags_border_spacing : lengthListFlags "border-spacing" = some (false, false) := by rfl
private theorem flags_radius (name : String)
    (hn : name ∈ ["border-top-left-radius", "border-top-right-radius", "border-bottom-right-radius",
      "border-bottom-left-radius"]) : lengthListFlags name = some (false, true) := by
  simp only [List.mem_cons, List.not_mem_nil, or_false] at hn
  rcases hn with rfl | rfl | rfl | rfl <;> rfl

/-- A component `get_length` lets through without the percentage flag is not a percentage, and without the negative
flag it is not negative. -/
private theorem get_length_flags (n p : Bool) (t : LTok) (v : Rat) (u : Option String)
    (h : getLength n p t = some (.dim v u)) : (p = false → u ≠ some "%") ∧ (n = false → 0 ≤ v) := by
  have nonneg : ∀ x : Rat, (n = true ∨ x ≥ 0) → n = false → 0 ≤ x := by
    intro x hc hn
    rcases hc with h' | h'
    · rw [hn] at h'; cases h'
    · exact h'
  cases t with
  | percentage x =>
    simp only [getLength] at h
    split at h
    · rename_i hc
      simp only [Bool.and_eq_true, Bool.or_eq_true, decide_eq_true_eq] at hc
      cases h
      constructor
      · intro hp
        rw [hp] at hc
        exact absurd hc.1 (by decide)
      · exact nonneg _ hc.2
    · cases h
  | dimension x w l =>
    simp only [getLength] at h
    split at h
    · rename_i hc
      simp only [Bool.and_eq_true, Bool.or_eq_true, decide_eq_true_eq] at hc
      cases h
      constructor
      · intro _ hw
        have hpc : lengthUnits.contains "%" = false := by decide +kernel
        have hww : w = "%" := Option.some.inj hw
        rw [hww, hpc] at hc
        exact absurd hc.1 (by decide)
      · exact nonneg _ hc.2
    · cases h
  | number x =>
    simp only [getLength] at h
    split at h
    · cases h
      constructor
      · intro _ hw
        cases hw
      · intro _
        exact Rat.le_refl
    · cases h
  | other => simp [getLength] at h

/-- **`border-spacing` takes one or two non-negative lengths and no percentage** (CSS 2.1 §17.6.1:
`<length> <length>?`): whatever is accepted has two components that are neither percentages nor negative — so
`border-spacing: 10%`, `2px 50%` are invalid declarations and never reach the table layout arithmetic. -/
theorem border_spacing_no_percentage (toks : List LTok) (a b : Spec)
    (h : validateLengthList "border-spacing" toks = some (some (a, b))) :
    ∃ va ua vb ub, a = .dim va ua ∧ b = .dim vb ub ∧ ua ≠ some "%" ∧ ub ≠ some "%" ∧ 0 ≤ va ∧ 0 ≤ vb := by
  unfold validateLengthList at h
  rw [flags_border_spacing] at h
  simp only [Option.map_some, Option.some.injEq] at h
  rcases length_list_sound false false toks a b h with ⟨t, _, ha, hba⟩ | ⟨t, u, _, ha, hb⟩
  · obtain ⟨va, ua, hda⟩ := get_length_dim false false t a ha
    rw [hda] at ha
    obtain ⟨h1, h2⟩ := get_length_flags false false t va ua ha
    exact ⟨va, ua, va, ua, hda, hba.trans hda, h1 rfl, h1 rfl, h2 rfl, h2 rfl⟩
  · obtain ⟨va, ua, rfl⟩ := get_length_dim false false t a ha
    obtain ⟨vb, ub, rfl⟩ := get_length_dim false false u b hb
    obtain ⟨h1, h2⟩ := get_length_flags false false t va ua ha
    obtain ⟨h3, h4⟩ := get_length_flags false false u vb ub hb
    exact ⟨va, ua, vb, ub, rfl, rfl, h1 rfl, h3 rfl, h2 rfl, h4 rfl⟩

/-- The four corner radii take non-negative lengths **and percentages** (css-backgrounds-3 §5.1). -/
theorem border_radius_lengths (name : String)
    (hn : name ∈ ["border-top-left-radius", "border-top-right-radius", "border-bottom-right-radius",
      "border-bottom-left-radius"]) (x : Rat) (hx : 0 ≤ x) :
    validateLengthList name [.percentage x] = some (some (.dim x (some "%"), .dim x (some "%"))) ∧
    validateLengthList name [.dimension x "px" "px", .percentage x]
      = some (some (.dim x (some "px"), .dim x (some "%"))) ∧
    (x ≠ 0 → validateLengthList name [.percentage (-x)] = some none) := by
  have hpx : "px" ∈ lengthUnits := by
    have : lengthUnits.contains "px" = true := by decide +kernel
    simpa using this
  have hd : decide (0 ≤ x) = true := by simpa using hx
  unfold validateLengthList
  rw [flags_radius name hn]
  refine ⟨by simp [lengthList, getLength, hd], by simp [lengthList, getLength, hd, hpx], fun hne => ?_⟩
  have hneg : ¬ (0 ≤ -x) := by
    intro h0
    have : x ≤ 0 := by
      have := Rat.neg_le_neg h0
      simpa using this
    exact hne (Rat.le_antisymm this hx)
  simp [lengthList, getLength, hneg]

/-- Non-vacuity / regression shape of seeded change C07-9: `border-spacing: 2px`, `2px 4px` kept; `10%`, `2px 50%`,
`-1px`, three values refused; `width` is not such a property. -/
example :
    validateLengthList "border-spacing" [.dimension 2 "px" "px"] = some (some (.dim 2 (some "px"), .dim 2 (some "px"))) ∧
    validateLengthList "border-spacing" [.dimension 2 "px" "px", .dimension 4 "px" "px"]
      = some (some (.dim 2 (some "px"), .dim 4 (some "px"))) ∧
    validateLengthList "border-spacing" [.percentage 10] = some none ∧
    validateLengthList "border-spacing" [.dimension 2 "px" "px", .percentage 50] = some none ∧
    validateLengthList "border-spacing" [.dimension (-1) "px" "px"] = some none ∧
    validateLengthList "border-spacing" [.number 0, .number 0, .number 0] = some none ∧
    validateLengthList "width" [.number 0] = none := by
  refine ⟨by decide +kernel, by decide +kernel, by decide +kernel, by decide +kernel, by decide +kernel,
    by decide +kernel, by decide +kernel⟩

/-! ## 27. image-resolution -/

/-- **`image-resolution`: an accepted resolution is positive** (the `>` test of `fix:` d011d54). -/
theorem image_resolution_positive (t : LTok) (r : Rat) (h : imageResolution t = some r) :
    0 < r ∧ getResolution t = some r := by
  unfold imageResolution at h
  cases hg : getResolution t with
  | none => rw [hg] at h; cases h
  | some q =>
    rw [hg] at h
    simp only at h
    split at h
    · rename_i hq
      cases h
      exact ⟨hq, rfl⟩
    · cases h

/-- For a positive resolution the intrinsic size of a raster image is defined and positive. -/
theorem raster_intrinsic_defined (w h r : Rat) (hr : 0 < r) (hw : 0 < w) (hh : 0 < h) :
    ∃ a b, rasterIntrinsicSize w h r = .ok (a, b) ∧ 0 < a ∧ 0 < b := by
  have hne : (r == 0) = false := by
    have : r ≠ 0 := fun e => by rw [e] at hr; exact absurd hr (by decide)
    simpa using this
  refine ⟨w / r, h / r, by simp [rasterIntrinsicSize, hne, pure, Except.pure], ?_, ?_⟩
  · rw [Rat.div_def]; exact Rat.mul_pos hw (Rat.inv_pos.2 hr)
  · rw [Rat.div_def]; exact Rat.mul_pos hh (Rat.inv_pos.2 hr)

/-- **No `image-resolution` declaration the validator keeps can make `get_intrinsic_size` divide by zero** (full
strength since `fix:` d011d54; before it the statement needed `0 < r` as a hypothesis: `image-resolution: 0dppx` was
kept and aborted the rendering of any raster image). -/
theorem image_resolution_total (t : LTok) (r w h : Rat) (ht : imageResolution t = some r) (hw : 0 < w) (hh : 0 < h) :
    ∃ a b, rasterIntrinsicSize w h r = .ok (a, b) ∧ 0 < a ∧ 0 < b :=
  raster_intrinsic_defined w h r (image_resolution_positive t r ht).1 hw hh

/-- Regression (`image-resolution: 0dppx`, `-1dppx`, repaired by d011d54): refused; `2dppx`, `96dpi` kept. -/
example :
    imageResolution (.dimension 0 "dppx" "dppx") = none ∧ imageResolution (.dimension (-1) "dppx" "dppx") = none ∧
    imageResolution (.dimension 2 "dppx" "dppx") = some 2 ∧ imageResolution (.dimension 96 "dpi" "dpi") = some 1 ∧
    imageResolution (.number 1) = none := by
  refine ⟨by decide +kernel, by decide +kernel, by decide +kernel, by decide +kernel, by decide +kernel⟩

/-- The resolution units: `1dppx = 96dpi`, and only `dppx`, `dpi`, `dpcm` as written are resolutions. -/
theorem resolution_units :
    getResolution (.dimension 96 "dpi" "dpi") = some 1 ∧ getResolution (.dimension 2 "dppx" "dppx") = some 2 ∧
    getResolution (.dimension 1 "DPI" "dpi") = none ∧ getResolution (.dimension 1 "px" "px") = none ∧
    getResolution (.number 1) = none := by
  refine ⟨by decide +kernel, by decide +kernel, by decide +kernel, by decide +kernel, by decide +kernel⟩

/-! ## 27b. opacity -/

theorem clamp01_range (v : Rat) : 0 ≤ clamp01 v ∧ clamp01 v ≤ 1 := by
  unfold clamp01
  by_cases h0 : 0 < v <;> simp only [h0, if_true, if_false]
  · by_cases h1 : v < 1 <;> simp only [h1, if_true, if_false]
    · exact ⟨Rat.le_of_lt h0, Rat.le_of_lt h1⟩
    · exact ⟨by decide, Rat.le_refl⟩
  · have : (0 : Rat) < 1 := by decide
    simp only [this, if_true]
    exact ⟨Rat.le_refl, by decide⟩

theorem clamp01_id (v : Rat) (h0 : 0 ≤ v) (h1 : v ≤ 1) : clamp01 v = v := by
  unfold clamp01
  by_cases hp : 0 < v <;> simp only [hp, if_true, if_false]
  · by_cases hl : v < 1 <;> simp only [hl, if_true, if_false]
    exact Rat.le_antisymm (Rat.not_lt.1 hl) h1
  · have hv : v = 0 := Rat.le_antisymm (Rat.not_lt.1 hp) h0
    have : (0 : Rat) < 1 := by decide
    simp [this, hv]

/-- **`opacity`: whatever is accepted lies in [0, 1]** (css-color-4 §5: values outside the range are not invalid,
they are clamped): a number or a percentage, never anything else. -/
theorem opacity_in_unit_interval (t : LTok) (q : Rat) (h : opacityValidate t = some q) :
    0 ≤ q ∧ q ≤ 1 ∧ ((∃ v, t = .number v) ∨ (∃ v, t = .percentage v)) := by
  cases t with
  | number v =>
    simp only [opacityValidate, Option.some.injEq] at h
    subst h
    exact ⟨(clamp01_range v).1, (clamp01_range v).2, Or.inl ⟨v, rfl⟩⟩
  | percentage v =>
    simp only [opacityValidate, Option.some.injEq] at h
    subst h
    exact ⟨(clamp01_range _).1, (clamp01_range _).2, Or.inr ⟨v, rfl⟩⟩
  | dimension v u l => simp [opacityValidate] at h
  | other => simp [opacityValidate] at h

/-- Inside the range a number is kept as it is, and `p%` is the number `p / 100`. -/
theorem opacity_identity (v : Rat) (h0 : 0 ≤ v) (h1 : v ≤ 1) :
    opacityValidate (.number v) = some v ∧
    ∀ p : Rat, opacityValidate (.percentage p) = opacityValidate (.number (p / 100)) := by
  refine ⟨by simp [opacityValidate, clamp01_id v h0 h1], fun p => rfl⟩

example : opacityValidate (.number (-3)) = some 0 ∧ opacityValidate (.percentage 300) = some 1 ∧
    opacityValidate (.percentage 50) = some (1 / 2) ∧ opacityValidate (.number (1 / 4)) = some (1 / 4) ∧
    opacityValidate (.dimension 1 "px" "px") = none := by
  refine ⟨by decide +kernel, by decide +kernel, by decide +kernel, by decide +kernel, by decide +kernel⟩

/-- The twelve properties mirrored by AST clause tables; `opacity` (a clamp, not a range) is outside that subset and
is modelled by hand (`Num07.opacityValidate`, section 27b). -/
theorem numeric_inventory :
    Gen.NumericC07.numericValidators.map (·.1) =
      ["bookmark-level", "column-count", "flex-grow", "flex-shrink", "font-weight", "line-height", "max-lines",
       "order", "orphans", "tab-size", "widows", "z-index"] ∧
    Gen.NumericC07.notMirrored.map (·.1) = ["opacity"] := by
  constructor <;> rfl

/-- Non-vacuity: `orphans: 3`, `orphans: 0`, `column-count: auto`, `bookmark-level: none`, `tab-size: 2px`,
`line-height: -1` (refused), `line-height: 1.5`. -/
example :
    validate "orphans" [intTok 3] = some (some (.int 3)) ∧
    validate "orphans" [intTok 0] = some none ∧
    validate "column-count" [{ intValue := none, keyword := some "auto", ltok := .other }] = some (some (.kw "auto")) ∧
    validate "bookmark-level" [{ intValue := none, keyword := some "none", ltok := .other }]
      = some (some (.kw "none")) ∧
    validate "tab-size" [{ intValue := none, keyword := none, ltok := .dimension 2 "px" "px" }]
      = some (some (.len (.dim 2 (some "px")))) ∧
    validate "line-height" [intTok (-1)] = some none ∧
    validate "line-height" [{ intValue := none, keyword := none, ltok := .number (3 / 2) }]
      = some (some (.len (.dim (3 / 2) none))) ∧
    validate "width" [intTok 1] = none := by
  decide +kernel

end Wp.C07
