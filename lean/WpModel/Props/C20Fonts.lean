/-
C20 — `@font-face` rules are independent of each other (text/fonts.py `add_font_face`: the file of a rule is named after
*all* its descriptors, `src` included): a rule is skipped only when the very same rule was already written; whatever
other rules — of the same family or not — fetched, wrote or failed before, the `src` list of a rule is tried from its
first entry.  (The clause the `font-face` section samples with rules sharing a family; seeded regression C20-11 dropped
`src` from the key.)
-/
import WpModel.Model.Resources

namespace Wp.C20.Fonts
open Wp Wp.Res

/-- A rule that was not written before is tried from the start, whatever else is loaded. -/
theorem new_rule_is_tried (f : Fetcher) (st : FontState) (face : FontFace) (h : st.loaded.contains face.key = false) :
    (addFontFace f st face).2 = fontLoop f face.srcs {} := by
  have h' : ¬ face.key ∈ st.loaded := by simpa using h
  simp [addFontFace, h']

/-- `add_font_face` marks at most its own rule as written. -/
theorem loaded_grows_by_own_key (f : Fetcher) (st : FontState) (face : FontFace) (k : Nat)
    (h : (addFontFace f st face).1.loaded.contains k = true) : st.loaded.contains k = true ∨ k = face.key := by
  unfold addFontFace at h
  by_cases hc : st.loaded.contains face.key = true
  · simp only [hc, ↓reduceIte] at h; exact Or.inl h
  · simp only [hc, Bool.false_eq_true, ↓reduceIte] at h
    by_cases hw : (fontLoop f face.srcs {}).written.isEmpty = true
    · simp only [hw, ↓reduceIte] at h; exact Or.inl h
    · simp only [hw, Bool.false_eq_true, ↓reduceIte, List.contains_cons, Bool.or_eq_true, beq_iff_eq] at h
      rcases h with h | h
      · exact Or.inr h
      · exact Or.inl h

/-- The state after a sequence of rules. -/
def stateAfter (f : Fetcher) : FontState → List FontFace → FontState
  | st, [] => st
  | st, face :: rest => stateAfter f (addFontFace f st face).1 rest

private theorem stateAfter_loaded (f : Fetcher) (faces : List FontFace) (st : FontState) (k : Nat)
    (h : (stateAfter f st faces).loaded.contains k = true) : st.loaded.contains k = true ∨ ∃ face ∈ faces, k = face.key := by
  induction faces generalizing st with
  | nil => exact Or.inl h
  | cons face rest ih =>
    rcases ih _ h with h1 | ⟨g, hg, hk⟩
    · rcases loaded_grows_by_own_key f st face k h1 with h2 | h2
      · exact Or.inl h2
      · exact Or.inr ⟨face, by simp, h2⟩
    · exact Or.inr ⟨g, by simp [hg], hk⟩

/-- `rules are independent`: after any sequence of other rules — same family or not, loaded or failed — a rule whose
descriptors (its key: family, `src`, …) differ from all of them is tried from its first `src` entry, exactly as in a
document that holds this rule only. -/
theorem rule_independent_of_other_rules (f : Fetcher) (before : List FontFace) (face : FontFace)
    (h : ∀ g ∈ before, g.key ≠ face.key) :
    (addFontFace f (stateAfter f {} before) face).2 = (addFontFace f {} face).2 := by
  have hnot : (stateAfter f {} before).loaded.contains face.key = false := by
    cases hc : (stateAfter f {} before).loaded.contains face.key with
    | false => rfl
    | true =>
      rcases stateAfter_loaded f before {} face.key hc with h1 | ⟨g, hg, hk⟩
      · simp at h1
      · exact absurd hk.symm (h g hg)
  rw [new_rule_is_tried f _ face hnot, new_rule_is_tried f {} face (by simp)]

/-- Non-vacuity: a rule served HTML instead of a font, then another rule (other key) served a valid font: installed. -/
example :
    let f : Fetcher := fun u => if u == "http://a.test/bad.otf"
      then .resp ⟨true, none, none, none, ⟨9, false, none, false, true, false⟩⟩
      else .resp ⟨true, none, none, none, ⟨7, false, none, false, true, true⟩⟩
    ((addFontFace f (stateAfter f {} [⟨1, [.external (some "http://a.test/bad.otf")]⟩])
      ⟨2, [.external (some "http://a.test/ok.otf")]⟩).2).installed = some 7 := by decide

end Wp.C20.Fonts
