/-
C04: the properties of a table element that apply to its wrapper box, regenerated from the source each run
(Gen/TableWrapperProps: the AST of `TABLE_WRAPPER_BOX_PROPERTIES` and the graph of the real cascade + build).
These theorems stop compiling when the tuple loses break-before / break-after (the class of seed C04-7), gains
break-inside, or when `wrap_table` stops resetting the moved value on the table box.
-/
import WpModel.Model.TableWrapGen
import WpModel.Props.C04Table

namespace Wp.C04TableGen
open Wp Wp.TableBreaks

/-- css-break / CSS 2.1 17.4 on the extracted tuple: break-before and break-after of a table element apply to the
table wrapper box; break-inside stays on the table box (where `table_layout` reads it). -/
theorem wrapper_takes_breaks :
    Gen.wrapperProps.contains "break_before" = true ∧ Gen.wrapperProps.contains "break_after" = true ∧
    Gen.wrapperProps.contains "break_inside" = false := by decide

/-- The loop over the extracted tuple is the hand-written model of `wrap_table` used by every C04Table theorem and by
the `table-breaks` / `table-pages` correspondence, for every table. -/
theorem wrapTableGen_eq_spec (t : TableE) : wrapTableGen t = wrapTable t := by
  obtain ⟨hb, ha, _⟩ := wrapper_takes_breaks
  unfold wrapTableGen wrapTable tableBox moved
  simp only [hb, ha, ↓reduceIte]

/-- What the real cascade + build put on the wrapper box and on the table box, for every break property and value, is
what the loop over the extracted tuple gives. -/
theorem wrapGraph_agrees : ∀ e ∈ Gen.wrapGraph, moved e.1 e.2.1 = (e.2.2.1, e.2.2.2) := by decide

/-- break-inside is never moved: the table box keeps it. -/
theorem break_inside_stays (v : Brk) : moved "break_inside" v = (.auto, v) := by
  unfold moved
  simp only [wrapper_takes_breaks.2.2, Bool.false_eq_true, ↓reduceIte]

/-- `C04Table.forced_before_table` over the regenerated tuple: a forcing break-before written on a table element
forces the break before the whole table as `wrap_table` builds it from the extracted property list. -/
theorem forced_before_table_gen (c : Bool) (a : Elem) (t : TableE) (h : forces c t.before = true) :
    forces c (pageBreakBetween (toBox a) (wrapTableGen t)) = true := by
  rw [wrapTableGen_eq_spec]
  exact C04Table.forced_before_table c a t h

theorem forced_after_table_gen (c : Bool) (t : TableE) (b : Elem) (h : forces c t.after = true) :
    forces c (pageBreakBetween (wrapTableGen t) (toBox b)) = true := by
  rw [wrapTableGen_eq_spec]
  exact C04Table.forced_after_table c t b h

/-- Non-vacuity: a table with a top caption and `break-before: left` - the wrapper carries `left` (then the caption's
`auto`), the table box `auto`; the graph of the real build has the same row. -/
example : beforeChain (wrapTableGen ⟨.left, .auto, [.caption true .auto .auto, .row ⟨.auto, .auto⟩]⟩) = [.left, .auto] ∧
    moved "break_before" .left = (.left, .auto) ∧
    Gen.wrapGraph.contains ("break_before", Brk.left, Brk.left, Brk.auto) = true := by decide

end Wp.C04TableGen
