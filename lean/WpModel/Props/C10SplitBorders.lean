/-
C10 — split collapsed tables: what `table_layout` records about the split (`Model/TableSplitBorders`)
is what `draw_collapsed_borders` needs to paint the right rows (`Model/TableBorderDraw`).
Correspondence: section `doc-split-borders` of `py/props/c10.py` (every recorded `table_layout` call of
a collapsed table) and `doc-painted-borders`.
-/
import WpModel.Model.TableSplitBorders
import WpModel.Model.TableBorderDraw
import WpModel.Props.C10Draw
import Mathlib.Tactic.Linarith
import Mathlib.Tactic.Ring

namespace Wp.C10SplitBorders
open Wp Wp.SplitBorders Wp.BorderDraw

/-- **skipped_is_flat_index.**  `skipped_rows` is the position, among all the rows of the table in
document order (header rows first: the rows of the border grid), of the row `r` of group `g` where
the fragment resumes. -/
theorem skipped_is_flat_index {α} (groups : List (List α)) (g r : Nat) (c : Bool) (row : α)
    (hrow : (groups[g]?).bind (·[r]?) = some row) :
    (groups.flatten)[skippedRows (some (g, some (r, c))) (groups.map List.length)]? = some row := by
  unfold skippedRows
  simp only
  induction groups generalizing g with
  | nil => simp at hrow
  | cons grp rest ih =>
    cases g with
    | zero =>
      simp only [List.getElem?_cons_zero, Option.bind_some] at hrow
      simp only [List.take_zero, List.sum_nil, Nat.add_zero, List.flatten_cons]
      have hlt : r < grp.length := by
        by_contra hcon
        rw [List.getElem?_eq_none (by omega)] at hrow
        cases hrow
      rw [List.getElem?_append_left hlt]
      exact hrow
    | succ g =>
      simp only [List.getElem?_cons_succ] at hrow
      have := ih g hrow
      simp only [List.map_cons, List.take_succ_cons, List.sum_cons, List.flatten_cons]
      rw [show r + (grp.length + ((rest.map List.length).take g).sum) =
            grp.length + (r + ((rest.map List.length).take g).sum) by omega]
      rw [List.getElem?_append_right (by omega)]
      simpa using this

/-- A fragment that resumes at the start of a group (`{g: None}`) starts at that group's first row. -/
theorem skipped_group_start (lens : List Nat) (g : Nat) :
    skippedRows (some (g, none)) lens = (lens.take g).sum := by
  simp [skippedRows]

/-- **resumed_row_painted.**  On a continuation fragment the first body row is painted with the
vertical borders of the grid row where layout resumed (`table.skipped_rows`), whatever header is
repeated above it. -/
theorem resumed_row_painted (d : DrawIn) (hs : d.skippedRows ≠ 0)
    (hbody : (d.headerRows : Int) < (gridHeight d : Int) - d.footerRows) :
    rowNumber d d.headerRows false = d.skippedRows := by
  rw [C10Draw.painted_body_rows d d.headerRows (le_refl _) hbody]
  unfold bodyOffset
  simp only [hs, ne_eq, not_false_eq_true, if_true]
  omega

/-- **reserved_top_is_painted_top** (full strength since the repair 4d1447f: the fragment needs one
body row only).  Without a repeated header, the line whose half width `table_layout` reserves as the
fragment's `border_top_width` (`horizontal_borders[skipped_rows]`) is the line
`draw_collapsed_borders` paints at the top of the fragment. -/
theorem reserved_top_is_painted_top (d : DrawIn) (hh : d.headerRows = 0)
    (hf : d.footerRows = 0 ∨ (0 : Int) < (gridHeight d : Int) - d.footerRows) :
    rowNumber d 0 true = d.skippedRows := by
  unfold rowNumber b2i bodyOffset
  simp only [hh, ne_eq, not_true_eq_false, false_and, if_false]
  rw [if_neg (by intro h; rcases hf with hf | hf <;> omega)]
  split <;> omega

/-- **dropped_header_rows_skipped** (repair 02afb22; was the finding
`collapsed-dropped-header-shifts-borders`).  On a first fragment whose declared header does not fit and
is not rendered, the header's rows are skipped rows … -/
theorem dropped_header_rows_skipped (h : Nat) (rest : List Nat) :
    finalSkippedRows none (h :: rest) true false = h ∧
    finalSkippedRows none (h :: rest) true true = 0 ∧ finalSkippedRows none (h :: rest) false false = 0 := by
  refine ⟨rfl, rfl, rfl⟩

/-- … on every other fragment what is stored is the `skipped_rows` computed from the skip stack … -/
theorem final_skipped_continued (g : Nat) (inner : Option (Nat × Bool)) (lens : List Nat) (hd shown : Bool) :
    finalSkippedRows (some (g, inner)) lens hd shown = skippedRows (some (g, inner)) lens := by
  unfold finalSkippedRows
  simp

/-- … so the first body row of that fragment (fragment row 0: no header is shown) is painted with the
grid row just after the header's rows, and the top line with the line under the header. -/
theorem dropped_header_painted (d : DrawIn) (h : Nat) (rest : List Nat) (hpos : h ≠ 0)
    (hs : d.skippedRows = finalSkippedRows none (h :: rest) true false) (hh : d.headerRows = 0)
    (hbody : (0 : Int) < (gridHeight d : Int) - d.footerRows) :
    rowNumber d 0 false = h ∧ rowNumber d 0 true = h := by
  have hs' : d.skippedRows = h := hs
  constructor
  · have := resumed_row_painted d (by rw [hs']; exact hpos) (by rw [hh]; exact_mod_cast hbody)
    rw [hh] at this
    rw [← hs']
    exact_mod_cast this
  · rw [reserved_top_is_painted_top d hh (Or.inr hbody), hs']

/-- With a split first row and no header nothing is reserved and nothing is painted at the top. -/
theorem split_top_consistent (skip : Skip) (lens : List Nat) (hw : List (List Rat)) (before : Rat)
    (hs : splitCells skip = true) :
    borderTop skip lens false hw before = .ok before ∧ skipTop skip false = true := by
  unfold borderTop skipTop
  simp [hs]

/-- **split_cell_below_header.**  The rest of a cell cut by the page break starts at or below the lower
edge of the repeated header's bottom border (every header cell's used `border-bottom-width` is half the
painted line, which is centred on the row's top edge); without a header, or for a cell that is not
resumed, it starts at the row's top. -/
theorem split_cell_below_header (rowY : Rat) (hbs : List Rat) (hb : Rat) (hmem : hb ∈ hbs) :
    rowY + hb ≤ splitCellY rowY true true true hbs := by
  unfold splitCellY
  simp only [Bool.and_self, if_true]
  have key : ∀ (l : List Rat) (a x : Rat), x ∈ l → x ≤ l.foldl (fun a b => if b > a then b else a) a := by
    intro l
    induction l with
    | nil => intro a x hx; cases hx
    | cons y ys ih =>
      intro a x hx
      have mono : ∀ (l : List Rat) (a : Rat), a ≤ l.foldl (fun a b => if b > a then b else a) a := by
        intro l
        induction l with
        | nil => intro a; exact le_refl _
        | cons z zs ihz =>
          intro a
          simp only [List.foldl_cons]
          refine le_trans ?_ (ihz _)
          split <;> linarith
      simp only [List.foldl_cons]
      rcases List.mem_cons.mp hx with rfl | h
      · refine le_trans ?_ (mono ys _)
        split <;> linarith
      · exact ih _ x h
  cases hbs with
  | nil => cases hmem
  | cons y ys =>
    simp only [maxList]
    rcases List.mem_cons.mp hmem with rfl | h
    · have mono : hb ≤ ys.foldl (fun a b => if b > a then b else a) hb := by
        clear hmem
        induction ys generalizing hb with
        | nil => exact le_refl _
        | cons z zs ihz =>
          simp only [List.foldl_cons]
          refine le_trans ?_ (ihz _)
          split <;> linarith
      linarith
    · have := key ys y hb h
      linarith

/-- **split_cell_reaches_row_bottom.**  Wherever a cell of the first body row starts, it ends at the
bottom of its row: cells of a row cut by a page break still share the row's bottom edge. -/
theorem split_cell_reaches_row_bottom (rowY rowH : Rat) (c h r : Bool) (hbs : List Rat) :
    splitCellY rowY c h r hbs + splitCellHeight rowY rowH c h r hbs = rowY + rowH := by
  unfold splitCellHeight
  ring

theorem split_cell_plain (rowY : Rat) (c h : Bool) (hbs : List Rat) :
    splitCellY rowY c h false hbs = rowY ∧ splitCellY rowY c false true hbs = rowY ∧
    splitCellY rowY false h true hbs = rowY := by
  unfold splitCellY
  cases c <;> cases h <;> simp

/-- Non-vacuity: header of 1 row, bodies of 3 and 2 rows, fragment resumed inside row 1 of the second
body: 1 + 3 + 1 rows are skipped, cells are split, the top border is left alone (header repeated). -/
example : skippedRows (some (2, some (1, true))) [1, 3, 2] = 5 ∧ splitCells (some (2, some (1, true))) = true ∧
    borderTop (some (2, some (1, true))) [1, 3, 2] true [[1], [2]] 7 = .ok 7 ∧
    borderTop (some (1, none)) [3, 2] false [[1], [2], [2], [6, 4], [0], [0]] 0 = .ok 3 := by
  refine ⟨by decide, by decide, by decide +kernel, by decide +kernel⟩

end Wp.C10SplitBorders
