/-
C18 — "title, authors, description, keywords, dates, language and attachments of the HTML are written
to the PDF unchanged": the string objects.  `Model/C18PdfString.lean` mirrors `pydyf.String.data` and
reads PDF strings back as ISO 32000-1 prescribes.
-/
import WpModel.Lemmas.C18PdfString
import WpModel.Lemmas.C18Attach
import WpModel.Gen.C18MetaKeys
import WpModel.Model.Metadata

namespace Wp.C18
open Wp Wp.PdfStr Wp.Anchors Wp.Attach

/-- Characters an ASCII-only string may contain and still be read back unchanged from a literal
string: no carriage return (an unescaped end-of-line reads as LF), none of 0x18–0x1F (PDFDocEncoding
maps them to spacing diacritics), not 0x7F (undefined). -/
def PlainAscii (c : Nat) : Prop := c ≠ 13 ∧ c < 127 ∧ ¬ (24 ≤ c ∧ c < 32)

/-- `pydyf.String(s).data` never fails on a Python string without lone surrogates. -/
theorem pdf_string_total (s : List Nat) (h : ∀ c ∈ s, Scalar c) : ∃ bytes, encode s = .ok bytes := by
  unfold encode
  split
  · exact ⟨_, rfl⟩
  · have : s.any isSurrogate = false := by
      rw [List.any_eq_false]
      intro c hc
      have := (h c hc).2
      simp only [isSurrogate, Bool.and_eq_true, decide_eq_true_eq]; exact this
    rw [this]; exact ⟨_, rfl⟩

/-- A string with at least one non-ASCII character (any Unicode: BMP, astral, controls, CR included)
is written as a hexadecimal UTF-16BE string with byte-order mark and reads back unchanged. -/
theorem pdf_string_roundtrip_unicode (s : List Nat) (h : ∀ c ∈ s, Scalar c) (hna : ¬ ∀ c ∈ s, c < 128) :
    ∃ bytes, encode s = .ok bytes ∧ decode bytes = some s := by
  have hall : s.all (· < 128) = false := by
    rw [Bool.eq_false_iff]; intro hh; apply hna; simpa using hh
  have hsur : s.any isSurrogate = false := by
    rw [List.any_eq_false]
    intro c hc
    have := (h c hc).2
    simp only [isSurrogate, Bool.and_eq_true, decide_eq_true_eq]; exact this
  refine ⟨_, by unfold encode; rw [hall, hsur]; rfl, ?_⟩
  have hb : ∀ b ∈ 254 :: 255 :: s.flatMap utf16be, b < 256 := by
    intro b hb
    simp only [List.mem_cons, List.mem_flatMap] at hb
    rcases hb with e | e | ⟨c, hc, hbc⟩
    · omega
    · omega
    · exact utf16be_bytes c (h c hc) b hbc
  unfold decode readString
  simp only []
  rw [readHex_hexBytes [] _ [] hb]
  simp only [List.reverse_nil, List.nil_append, textOf]
  exact utf16_roundtrip s h

/-- An ASCII string of plain characters is written as a literal string (backslash and parentheses
escaped) and reads back unchanged.  The hypothesis is necessary: `Witness.C18.pdf_string_cr`. -/
theorem pdf_string_roundtrip_ascii_partial (s : List Nat) (h : ∀ c ∈ s, PlainAscii c) :
    ∃ bytes, encode s = .ok bytes ∧ decode bytes = some s := by
  have hall : s.all (· < 128) = true := by
    rw [List.all_eq_true]; intro c hc; have := (h c hc).2.1; simp; omega
  refine ⟨_, by unfold encode; rw [hall]; rfl, ?_⟩
  unfold decode readString
  simp only []
  rw [readLit_escape [] s [] (fun b hb => (h b hb).1)]
  simp only [List.reverse_nil, List.nil_append]
  have htext : textOf s = docDecode s := by
    unfold textOf
    split
    · rename_i rest
      have := (h 254 (by simp)).2.1
      omega
    · rfl
  rw [htext]
  exact docDecode_plain s (fun c hc => ⟨(h c hc).2.1, (h c hc).2.2⟩)

/-- Both cases together: every string of Unicode scalar values whose ASCII-only instances are plain
survives `pydyf.String` → file → reader. -/
theorem pdf_string_roundtrip_partial (s : List Nat) (h : ∀ c ∈ s, Scalar c)
    (hp : (∀ c ∈ s, c < 128) → ∀ c ∈ s, PlainAscii c) :
    ∃ bytes, encode s = .ok bytes ∧ decode bytes = some s := by
  by_cases ha : ∀ c ∈ s, c < 128
  · exact pdf_string_roundtrip_ascii_partial s (hp ha)
  · exact pdf_string_roundtrip_unicode s h ha

example : encode [84, 40, 105, 41, 92] = .ok [40, 84, 92, 40, 105, 92, 41, 92, 92, 41] ∧
    decode [40, 84, 92, 40, 105, 92, 41, 92, 92, 41] = some [84, 40, 105, 41, 92] := ⟨rfl, by decide⟩
example : encode [233, 128512] = .ok [60, 102, 101, 102, 102, 48, 48, 101, 57, 100, 56, 51, 100, 100, 101, 48, 48, 62] ∧
    decode [60, 102, 101, 102, 102, 48, 48, 101, 57, 100, 56, 51, 100, 100, 101, 48, 48, 62] = some [233, 128512] := ⟨rfl, by decide⟩
example : (∀ c ∈ [84, 10, 9, 126], PlainAscii c) ∧ (∀ c ∈ [233, 128512, 13], Scalar c) := by
  simp [PlainAscii, Scalar]

/-! ## attachments -/

/-- Document-level attachments (`<link rel=attachment>`, then `write_pdf(attachments=…)`): every
attachment that can be read yields exactly one file specification, in order, with its name (given
name, else the basename of its URL, else `attachment.bin`), its description unchanged (`""` when
absent) and the number of bytes read; an attachment that cannot be fetched is skipped, the others are
unaffected; the `/EmbeddedFiles` dictionary exists iff there is one and lists them all — every file
once (a permutation of the written specifications). -/
theorem attachments_written (cpsOf : String → List Nat) (g : List (String × String)) (next : Nat) (atts : List Att) :
    let r := embeddedFiles cpsOf g next atts
    (r.1.map fun f => (f.filename, f.desc, f.size)) = atts.filterMap attSummary ∧
    (r.1.map fun f => f.spec) = (List.range (atts.filterMap attSummary).length).map (fun i => next + 2 * i + 1) ∧
    r.2.1 = (if (atts.filterMap attSummary).isEmpty then none
      else some ⟨next + 2 * (atts.filterMap attSummary).length,
        (sortSpecs cpsOf r.1).map fun f => (f.filename, f.spec)⟩) ∧
    (sortSpecs cpsOf r.1).Perm r.1 := by
  obtain ⟨h1, h2, h3⟩ := writeAll_summary g atts next
  simp only [embeddedFiles]
  have hemp : (writeAll g next atts).1.isEmpty = (atts.filterMap attSummary).isEmpty := by
    rw [← h1]; simp
  by_cases he : (atts.filterMap attSummary).isEmpty = true
  · rw [hemp, he]; simp only [if_true]; exact ⟨h1, h3, trivial, sortSpecs_perm _ _⟩
  · have he' : (atts.filterMap attSummary).isEmpty = false := by simpa using he
    rw [hemp, he']; simp only [Bool.false_eq_true, if_false, h2]; exact ⟨h1, h3, trivial, sortSpecs_perm _ _⟩

/-- **A document can be written again** (a0bb005): the files embedded by a second `generate_pdf` of the same
document — other object numbers, e.g. through `Document.copy` — are the same files: names, descriptions
and sizes, in the same order, and the `/EmbeddedFiles` array lists the same names. -/
theorem second_write_same_files (cpsOf : String → List Nat) (g : List (String × String)) (n m : Nat) (atts : List Att) :
    ((embeddedFiles cpsOf g n atts).1.map fun f => (f.filename, f.desc, f.size)) =
      ((embeddedFiles cpsOf g m atts).1.map fun f => (f.filename, f.desc, f.size)) ∧
    ((embeddedFiles cpsOf g n atts).2.1.map fun d => d.names.length) =
      ((embeddedFiles cpsOf g m atts).2.1.map fun d => d.names.length) := by
  obtain ⟨a1, _, a3, a4⟩ := attachments_written cpsOf g n atts
  obtain ⟨b1, _, b3, b4⟩ := attachments_written cpsOf g m atts
  refine ⟨by rw [a1, b1], ?_⟩
  rw [a3, b3]
  by_cases he : (atts.filterMap attSummary).isEmpty = true
  · simp [he]
  · simp only [he, Bool.false_eq_true, if_false, Option.map_some, List.length_map]
    have l1 := congrArg List.length a1
    have l2 := congrArg List.length b1
    simp only [List.length_map] at l1 l2
    rw [a4.length_eq, b4.length_eq, l1, l2]

/-- The `/EmbeddedFiles` name array (repairs 186e86a, e909019) lists every written file once and is
non-decreasing in the order that counts — the **bytes of the keys** as a PDF reader compares them
(ISO 32000-1 7.9.6) — for every list of attachments and every file name.  Full strength: before e909019
this held only for keys without parentheses, backslashes and bytes below `*`
(`embedded_files_key_sorted_partial`, finding `embedded-files-written-form-order`). -/
theorem embedded_files_key_sorted (cpsOf : String → List Nat) (files : List FileSpec) :
    (sortSpecs cpsOf files).Perm files ∧ SortedBy (rawKey cpsOf) (sortSpecs cpsOf files) :=
  ⟨sortSpecs_perm cpsOf files, sortSpecs_sorted cpsOf files⟩

/-- Attachments whose names do not sort before the first one leave it first: equal names keep their
document order (the sort is stable). -/
theorem embedded_files_stable (cpsOf : String → List Nat) (x : FileSpec) (rest : List FileSpec)
    (h : ∀ y ∈ rest, Wp.Outline.nameLt (rawKey cpsOf y) (rawKey cpsOf x) = false) :
    sortSpecs cpsOf (x :: rest) = x :: sortSpecs cpsOf rest := by
  simp only [sortSpecs]
  exact insertSpec_head cpsOf x _ (fun y hy => h y ((sortSpecs_perm cpsOf rest).mem_iff.mp hy))

/-- `b.txt` then `a.txt` (the input of the repaired finding `embedded-files-not-sorted`): the array is
`a.txt`, `b.txt`; two files named `a.txt` stay in document order. -/
example :
    (sortSpecs (fun s => s.toList.map Char.toNat) [⟨10, 11, "b.txt", "", 1, ""⟩, ⟨12, 13, "a.txt", "", 1, ""⟩]).map
      (·.filename) = ["a.txt", "b.txt"] ∧
    (sortSpecs (fun s => s.toList.map Char.toNat) [⟨10, 11, "a.txt", "", 1, ""⟩, ⟨12, 13, "a.txt", "", 2, ""⟩]).map
      (·.spec) = [11, 13] := by decide

/-- `<link rel=attachment>`: the title becomes the description; an element without `href` gives none. -/
theorem meta_attachments (fetch : String → Att) (els : List LinkEl) :
    (metaAttachments fetch els).map (·.description) = (els.filter (·.href.isSome)).map (·.title) := by
  induction els with
  | nil => rfl
  | cons e rest ih =>
    cases hh : e.href with
    | none => simp [metaAttachments, hh, ih]
    | some u => simp [metaAttachments, hh, ih]

/-- Attachment links over all pages of a document (`annot_files` shared): the cache always agrees
with the fetcher and never holds a URL twice, the embedded files are exactly its successful entries —
so each distinct URL is fetched and embedded at most once however many boxes, lines or pages link to
it — and every page gets one `/FileAttachment` annotation per attachment-link box whose URL can be
read (none for the others: the failure is logged and the rest of the page is unaffected). -/
theorem link_attachments (g : List (String × String)) (fetch : String → Att)
    (pages : List (Matrix × List AttLink)) :
    ∀ (st : AnnotState), CacheOk fetch st.cache → FilesOk st →
      let r := addAnnotationsPages g fetch st pages
      CacheOk fetch r.1.cache ∧ FilesOk r.1 ∧
      r.2.map List.length = pages.map (fun p => (p.2.filter fun l => (fetch l.target).size.isSome).length) := by
  induction pages with
  | nil => intro st h1 h2; exact ⟨h1, h2, rfl⟩
  | cons p rest ih =>
    intro st h1 h2
    obtain ⟨m, links⟩ := p
    obtain ⟨_, hok, _, hlen⟩ := addAnnotations_spec g fetch m links st h1
    have hf := addAnnotations_files g fetch m links st h2
    obtain ⟨a1, a2, a3⟩ := ih _ hok hf
    simp only [addAnnotationsPages]
    exact ⟨a1, a2, by simp only [List.map_cons, hlen, a3]⟩

/-- One page in detail: each annotation points to the file embedded for its link's URL and covers
the link's rectangle through the page matrix. -/
theorem link_attachment_annotations (g : List (String × String)) (fetch : String → Att) (m : Matrix)
    (links : List AttLink) (st : AnnotState) (h : CacheOk fetch st.cache) :
    let r := addAnnotations g fetch m st links
    (r.2.map fun a => (a.fs, a.rect)) = links.filterMap (fun l =>
      match r.1.cache.get? l.target with
      | some (some fs) => some (fs, annotRect m l.rect)
      | _ => none) :=
  (addAnnotations_spec g fetch m links st h).2.2.1

example : CacheOk (fun _ => ⟨some 3, none, none, none⟩) [] ∧ FilesOk ⟨[], [], 7⟩ :=
  ⟨by intro u v h; simp [Cache.get?] at h, by simp [FilesOk]⟩

example : (embeddedFiles (fun s => s.toList.map Char.toNat) [("a.txt", "text/plain")] 10
    [⟨some 5, some "a.txt", none, some "d"⟩, ⟨none, none, some "x", none⟩, ⟨some 0, none, none, none⟩]).2.1 =
    some ⟨14, [("a.txt", 11), ("attachment.bin", 13)]⟩ := by decide

/-! ## the keys of /Info and of the XMP packet (regenerated from the source) -/

open Wp.Metadata in
private theorem optField_keys (k : String) (v : Option Wp.Dates.Str) : ((optField k v).map (·.1)).Sublist [k] := by
  unfold optField; split <;> simp

open Wp.Metadata in
private theorem listField_keys (k : String) (v : List Wp.Dates.Str) : ((listField k v).map (·.1)).Sublist [k] := by
  unfold listField; split <;> simp

open Wp.Metadata in
private theorem dateEntry_keys (k : String) (v : Option Wp.Dates.Str) (r : List (String × Wp.Dates.Str))
    (h : dateEntry k v = .ok r) : (r.map (·.1)).Sublist [k] := by
  unfold dateEntry at h
  split at h
  · cases h; simp
  · split at h
    · cases h
    · cases h; simp

open Wp.Metadata in
/-- The model writes its entries under the keys, and in the order, of the `if metadata.…:` statements
of `generate_pdf` as extracted from the source at this run: renaming, dropping or reordering one of
them in weasyprint/pdf/__init__.py breaks this proof. -/
theorem info_keys_from_source (m : Meta) (r : List (String × Wp.Dates.Str)) (h : infoFields m = .ok r) :
    (r.map (·.1)).Sublist (Gen.infoKeys.map (·.2.2)) := by
  unfold infoFields at h
  cases hc : dateEntry "CreationDate" m.created with
  | error e => rw [hc] at h; simp at h
  | ok c =>
    cases hd : dateEntry "ModDate" m.modified with
    | error e => rw [hc, hd] at h; simp at h
    | ok d =>
      rw [hc, hd] at h
      simp only [Except.ok.injEq] at h
      subst h
      simp only [List.map_append]
      have hk : Gen.infoKeys.map (·.2.2) =
          ["Title"] ++ ["Author"] ++ ["Subject"] ++ ["Keywords"] ++ ["Creator"] ++ ["CreationDate"] ++ ["ModDate"] ++
            ["Lang"] := rfl
      rw [hk]
      exact ((((((optField_keys _ _).append (listField_keys _ _)).append (optField_keys _ _)).append
        (listField_keys _ _)).append (optField_keys _ _)).append (dateEntry_keys _ _ _ hc)).append
        (dateEntry_keys _ _ _ hd) |>.append (optField_keys _ _)

open Wp.Metadata in
/-- The same for the XMP packet: after the two fixed descriptions, the elements are those of
`generate_rdf_metadata`, in its order. -/
theorem xmp_keys_from_source (variant version : String) (conformance : Option String) (producer : Wp.Dates.Str)
    (m : Meta) :
    ∃ fixed rest, rdfFields variant version conformance producer m = fixed ++ rest ∧
      (rest.map (·.1)).Sublist (Gen.xmpKeys.map (·.2)) := by
  refine ⟨[("@pdf" ++ variant ++ "id:part", [version.toList])] ++
    (match conformance with
     | some c => if c != "" then [("@pdf" ++ variant ++ "id:conformance", [c.toList])] else []
     | none => []) ++ [("@pdf:Producer", [producer])], _, by unfold rdfFields; simp only [List.append_assoc]; rfl, ?_⟩
  have hk : Gen.xmpKeys.map (·.2) =
      ["dc:title"] ++ (["dc:creator"] ++ (["dc:subject"] ++ (["pdf:Keywords"] ++ (["xmp:CreatorTool"] ++
        (["xmp:CreateDate"] ++ ["xmp:ModifyDate"]))))) := rfl
  rw [hk]
  simp only [List.map_append]
  have o : ∀ (k : String) (v : Option Wp.Dates.Str),
      ((match nonEmpty v with | some t => [(k, [t])] | none => ([] : List (String × List Wp.Dates.Str))).map
        (fun (x : String × List Wp.Dates.Str) => x.1)).Sublist [k] := by
    intro k v; split <;> simp
  have l : ∀ (k : String) (b : Bool) (x : List Wp.Dates.Str),
      ((if b then ([] : List (String × List Wp.Dates.Str)) else [(k, x)]).map
        (fun (x : String × List Wp.Dates.Str) => x.1)).Sublist [k] := by
    intro k b x; split <;> simp
  exact (o _ _).append ((l _ _ _).append ((o _ _).append ((l _ _ _).append ((o _ _).append ((o _ _).append (o _ _))))))

example : Wp.Metadata.infoFields { title := some "T".toList, lang := some "fr".toList } =
    .ok [("Title", "T".toList), ("Lang", "fr".toList)] := rfl

end Wp.C18
