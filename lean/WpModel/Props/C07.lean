/-
C07 — Declarations: invalid ones vanish, shorthands equal longhands, units agree, var() = substitution.
Property theorems only (helper lemmas are `private`).  Statements are over the hand-written models
`Wp.Decl.*`, `Wp.Var.*`, `Wp.Len07.*` and over the tables regenerated from /repo on every run
(`Wp.Gen.Expanders`, `Wp.Gen.UnitsC07`): an edit of a registry or of the unit table re-checks every `decide`.
-/
import WpModel.Model.Declarations
import WpModel.Model.VarSubst
import WpModel.Model.LengthC07
import WpModel.Model.PendingC07
import WpModel.Lemmas.C07Generic
import WpModel.Lemmas.C07Var

namespace Wp.C07
open Wp Wp.Decl

/-! ## 0. The generated tables are consistent (AST translator = runtime translator) -/

/-- `@generic_expander(...)` decorators read from the source = closures of the registered wrappers. -/
theorem generic_table_agrees : Gen.Expanders.genericAst = Gen.Expanders.generic := rfl

/-- `@expander(key)` decorators read from the source = the runtime `EXPANDERS` registry. -/
theorem expander_keys_agree : Gen.Expanders.expanderKeysAst = Gen.Expanders.expanderKeys := rfl

/-- The `NOT_PRINT_MEDIA` literal of the source = the runtime set. -/
theorem not_print_media_agrees : Gen.Expanders.notPrintMediaAst = Gen.Expanders.notPrintMedia := rfl

/-! ## 1. The funnel: invalid declarations vanish, outputs concatenate -/

section Funnel
variable {β : Type} (v : String → Item → R (List (String × β)))

/-- The declaration contributes nothing: not a declaration, not print media, unsupported prefix, no value,
or `InvalidValues`. -/
def dropped (d : Item) : Bool :=
  match preprocessOne v d with
  | .ok [] => true
  | _ => false

private theorem dropped_eq {d : Item} (h : dropped v d = true) : preprocessOne v d = .ok [] := by
  unfold dropped at h
  split at h
  · assumption
  · cases h

/-- Every way in which the loop `continue`s without yielding. -/
theorem dropped_of_invalid (d : Item)
    (h : d.kind ≠ .declaration ∨ effectiveName d = none ∨
      (∃ name, effectiveName d = some name ∧ (d.noTokens = true ∨ v name d = .error .invalid))) :
    preprocessOne v d = .ok [] := by
  unfold preprocessOne
  by_cases hk : d.kind = .declaration
  · rcases h with h | h | ⟨name, hn, h⟩
    · exact absurd hk h
    · simp only [hk, ne_eq, not_true_eq_false, if_false, h]; rfl
    · simp only [hk, ne_eq, not_true_eq_false, if_false, hn]
      rcases h with h | h
      · simp only [h, if_true]; rfl
      · by_cases hnt : d.noTokens = true
        · simp only [hnt, if_true]; rfl
        · simp only [hnt, h]; rfl
  · simp only [ne_eq, hk, not_false_eq_true, if_true]; rfl

/-- (a) Outputs concatenate: the result for a list is the results of its two halves, in order
(an uncaught exception of the first half wins). -/
theorem preprocess_append (a b : List Item) :
    preprocess v (a ++ b) = (do
      let x ← preprocess v a
      let y ← preprocess v b
      pure (x ++ y)) := by
  induction a with
  | nil =>
    simp only [List.nil_append, preprocess]
    cases preprocess v b <;> rfl
  | cons d rest ih =>
    simp only [List.cons_append, preprocess, ih]
    cases preprocessOne v d with
    | error f => rfl
    | ok x =>
      cases preprocess v rest with
      | error f => rfl
      | ok y =>
        cases preprocess v b with
        | error f => rfl
        | ok z => simp [bind, Except.bind, pure, Except.pure, List.append_assoc]

/-- (b) **Invalid declarations vanish**: removing every dropped declaration changes nothing. -/
theorem invalid_vanish (ds : List Item) :
    preprocess v ds = preprocess v (ds.filter fun d => !dropped v d) := by
  induction ds with
  | nil => rfl
  | cons d rest ih =>
    by_cases h : dropped v d = true
    · have h1 := dropped_eq v h
      simp only [List.filter, h, Bool.not_true, preprocess, h1, ← ih]
      cases preprocess v rest <;> rfl
    · simp only [Bool.not_eq_true] at h
      simp only [List.filter, h, Bool.not_false, preprocess, ← ih]

/-- (b') A dropped declaration anywhere in a block is as if absent. -/
theorem invalid_vanish_insert (a b : List Item) (d : Item) (h : preprocessOne v d = .ok []) :
    preprocess v (a ++ d :: b) = preprocess v (a ++ b) := by
  rw [preprocess_append, preprocess_append]
  simp only [preprocess, h]
  cases preprocess v a with
  | error f => rfl
  | ok x => cases preprocess v b <;> rfl

/-- What a declaration yields on its own. -/
def outOf (d : Item) : List (Out β) :=
  match preprocessOne v d with
  | .ok l => l
  | .error _ => []

/-- (c) **Neighbour independence**: when no validator raises anything but `InvalidValues`, the output is the
concatenation of what each declaration yields alone. -/
theorem neighbour_independent (ds : List Item) (h : ∀ d ∈ ds, ∀ f, preprocessOne v d ≠ .error f) :
    preprocess v ds = .ok (ds.flatMap (outOf v)) := by
  induction ds with
  | nil => rfl
  | cons d rest ih =>
    have hd := h d (by simp)
    have hr := ih (fun x hx => h x (by simp [hx]))
    simp only [preprocess, hr, List.flatMap_cons, outOf]
    cases hp : preprocessOne v d with
    | error f => exact absurd hp (hd f)
    | ok l => rfl

/-- (d) The funnel itself never fails: an exception leaving it is an exception of a validator other than
`InvalidValues` (the runtime assumption checked by the correspondence). -/
theorem funnel_only_propagates (ds : List Item) (f : Fail) (h : preprocess v ds = .error f) :
    ∃ d ∈ ds, ∃ name, effectiveName d = some name ∧ v name d = .error f ∧ f ≠ .invalid := by
  induction ds with
  | nil => cases h
  | cons d rest ih =>
    simp only [preprocess] at h
    cases hp : preprocessOne v d with
    | ok l =>
      rw [hp] at h
      cases hr : preprocess v rest with
      | ok r => rw [hr] at h; cases h
      | error g =>
        rw [hr] at h
        have : g = f := by cases h; rfl
        subst this
        obtain ⟨x, hx, rest'⟩ := ih hr
        exact ⟨x, by simp [hx], rest'⟩
    | error g =>
      rw [hp] at h
      have : g = f := by cases h; rfl
      subst this
      refine ⟨d, by simp, ?_⟩
      unfold preprocessOne at hp
      split at hp
      · cases hp
      · split at hp
        · cases hp
        · rename_i name hn
          refine ⟨name, hn, ?_⟩
          by_cases hnt : d.noTokens = true
          · simp [hnt] at hp
            cases hp
          · simp [hnt] at hp
            split at hp
            · cases hp
            · cases hp
            · rename_i f' hne hv
              have : f' = g := by cases hp; rfl
              subst this
              exact ⟨hv, hne⟩

end Funnel

/-- Non-vacuity: a block `color: red; colour: red; MARGIN: 1px` with a validator table. -/
example :
    let v : String → Item → R (List (String × String)) := fun name _ =>
      if name = "color" then .ok [("color", "red")]
      else if name = "margin" then .ok [("margin-top", "1px"), ("margin-right", "1px")]
      else .error .invalid
    let d (n l : String) (i : Nat) : Item :=
      { kind := .declaration, name := n, lowerName := l, noTokens := false, important := false, id := i }
    preprocess v [d "color" "color" 0, d "colour" "colour" 1, d "MARGIN" "margin" 2]
      = .ok [("color", "red", false), ("margin_top", "1px", false), ("margin_right", "1px", false)] := by
  decide

/-! ## 2. The 1-to-4 value shorthands -/

/-- (a) `expand_four_sides`: exactly the CSS mapping — top, right (= top), bottom (= top), left (= right). -/
theorem four_sides {α : Type} (toks out : List α) (h : fourTokens toks = .ok out) :
    ∃ t r b l, out = [t, r, b, l] ∧
      toks.head? = some t ∧
      r = (toks[1]?).getD t ∧
      b = (toks[2]?).getD t ∧
      l = (toks[3]?).getD r ∧
      1 ≤ toks.length ∧ toks.length ≤ 4 := by
  match toks, h with
  | [a], h => cases h; exact ⟨a, a, a, a, rfl, rfl, rfl, rfl, rfl, by simp, by simp⟩
  | [a, b], h => cases h; exact ⟨a, b, a, b, rfl, rfl, rfl, rfl, rfl, by simp, by simp⟩
  | [a, b, c], h => cases h; exact ⟨a, b, c, b, rfl, rfl, rfl, rfl, rfl, by simp, by simp⟩
  | [a, b, c, d], h => cases h; exact ⟨a, b, c, d, rfl, rfl, rfl, rfl, rfl, by simp, by simp⟩
  | [], h => cases h
  | _ :: _ :: _ :: _ :: _ :: _, h => cases h

/-- (a') Any other number of components is invalid, and nothing else is. -/
theorem four_sides_invalid {α : Type} (toks : List α) :
    fourTokens toks = .error .invalid ↔ toks.length = 0 ∨ 4 < toks.length := by
  match toks with
  | [] => simp [fourTokens, throw, throwThe, MonadExceptOf.throw]
  | [_] => simp [fourTokens, pure, Except.pure]
  | [_, _] => simp [fourTokens, pure, Except.pure]
  | [_, _, _] => simp [fourTokens, pure, Except.pure]
  | [_, _, _, _] => simp [fourTokens, pure, Except.pure]
  | _ :: _ :: _ :: _ :: _ :: _ => simp [fourTokens, throw, throwThe, MonadExceptOf.throw]

/-- The keys bound to `expand_four_sides` in the generated registry. -/
def fourSideKeys : List String :=
  (Gen.Expanders.expanderKeys.filter fun e => e.2 == "expand_four_sides").map (·.1)

/-- (b) The expanded names of every registered four-sides shorthand are registered longhand properties,
pairwise distinct. -/
theorem four_side_names_registered :
    ∀ key ∈ fourSideKeys, (fourSideNames key).Nodup ∧ (fourSideNames key).length = 4 ∧
      ∀ n ∈ fourSideNames key, Gen.Expanders.properties.contains n = true := by decide

theorem four_side_names_margin :
    fourSideNames "margin" = ["margin-top", "margin-right", "margin-bottom", "margin-left"] := by decide

theorem four_side_names_border_color :
    fourSideNames "border-color" =
      ["border-top-color", "border-right-color", "border-bottom-color", "border-left-color"] := by decide

private theorem validateZip_names {α β : Type} (validate : String → α → R β) :
    ∀ (names : List String) (ts : List α) (out : Longhands β), names.length = ts.length →
      validateZip validate names ts = .ok out →
      out.map Prod.fst = names ∧
      ∀ i (_ : i < out.length) (hn : i < names.length) (ht : i < ts.length),
        ∃ b, validate names[i] ts[i] = .ok b ∧ out[i] = (names[i], OutV.val b)
  | [], [], out, _, h => by
    cases h
    exact ⟨rfl, fun i hi => absurd hi (by simp)⟩
  | n :: ns, t :: ts, out, hl, h => by
    simp only [validateZip] at h
    cases hv : validate n t with
    | error f => rw [hv] at h; cases h
    | ok b =>
      rw [hv] at h
      cases hr : validateZip validate ns ts with
      | error f => rw [hr] at h; cases h
      | ok rest =>
        rw [hr] at h
        have : out = (n, OutV.val b) :: rest := by cases h; rfl
        subst this
        have ih := validateZip_names validate ns ts rest (by simpa using hl) hr
        refine ⟨by simp [ih.1], ?_⟩
        intro i hi hn ht
        cases i with
        | zero => exact ⟨b, hv, rfl⟩
        | succ j =>
          simp only [List.getElem_cons_succ]
          exact ih.2 j (by simpa using hi) (by simpa using hn) (by simpa using ht)
  | [], _ :: _, _, hl, _ => by cases hl
  | _ :: _, [], _, hl, _ => by cases hl

/-- (c) **Shorthand = its four longhands**: when `expand_four_sides` succeeds on a registered key, the result
is the four side longhands, in order, each carrying the value the longhand validator gives to the component
the CSS mapping assigns to that side. -/
theorem four_sides_longhands {α β : Type} (key : String) (hk : key ∈ fourSideKeys) (toks : List α)
    (validate : String → α → R β) (out : Longhands β)
    (h : expandFourSides key false toks validate = .ok out) :
    ∃ ts, fourTokens toks = .ok ts ∧ out.map Prod.fst = fourSideNames key ∧
      ∀ i, i < 4 → ∃ b n t, (fourSideNames key)[i]? = some n ∧ ts[i]? = some t ∧
        validate n t = .ok b ∧ out[i]? = some (n, OutV.val b) := by
  have hreg := four_side_names_registered key hk
  unfold expandFourSides at h
  simp only [Bool.false_eq_true, if_false] at h
  cases hts : fourTokens toks with
  | error f => rw [hts] at h; cases h
  | ok ts =>
    rw [hts] at h
    obtain ⟨t, r, b, l, rfl, -⟩ := four_sides toks ts hts
    have hl : (fourSideNames key).length = [t, r, b, l].length := by simp [hreg.2.1]
    have hz := validateZip_names validate (fourSideNames key) [t, r, b, l] out hl h
    refine ⟨[t, r, b, l], rfl, hz.1, ?_⟩
    have hol : out.length = 4 := by
      have := congrArg List.length hz.1
      simpa [hreg.2.1] using this
    intro i hi
    have hi' : i < out.length := by omega
    obtain ⟨bv, hv, ho⟩ := hz.2 i hi' (by omega) (by simp; omega)
    exact ⟨bv, (fourSideNames key)[i]'(by omega), [t, r, b, l][i]'(by simp; omega),
      by simp [List.getElem?_eq_getElem (show i < (fourSideNames key).length by omega)],
      by simp [List.getElem?_eq_getElem (show i < [t, r, b, l].length by simp; omega)],
      hv, by simp [List.getElem?_eq_getElem hi', ho]⟩

/-- (c') with `var()` anywhere, all four longhands are pending (validated after substitution). -/
theorem four_sides_pending {α β : Type} (key : String) (toks : List α) (validate : String → α → R β) :
    expandFourSides key true toks validate = .ok ((fourSideNames key).map fun n => (n, OutV.pending)) := rfl

example : expandFourSides (α := String) (β := String) "margin" false ["1px", "2px", "3px"] (fun _ t => .ok t)
    = .ok [("margin-top", .val "1px"), ("margin-right", .val "2px"), ("margin-bottom", .val "3px"),
           ("margin-left", .val "2px")] := by decide

/-! ## 3. generic_expander -/

/-- (a) **Exactly the declared longhands, once each, in the declared order** — whatever the tokens. -/
theorem generic_names {α β : Type} (expanded : List String) (name : String) (head : Head) (raw : Raw α)
    (validate : String → α → R β) (out : Longhands β)
    (h : genericFill expanded name head raw validate = .ok out) :
    out.map Prod.fst = expanded.map (actualName name) := by
  cases head with
  | inheritKw => simp [genericFill, pure, Except.pure] at h; subst h; simp [List.map_map, Function.comp_def]
  | initialKw => simp [genericFill, pure, Except.pure] at h; subst h; simp [List.map_map, Function.comp_def]
  | hasVar => simp [genericFill, pure, Except.pure] at h; subst h; simp [List.map_map, Function.comp_def]
  | plain => exact mapM_fill_names name raw.items validate expanded out (generic_plain_ok _ _ _ _ _ h).2.2

/-- (b) **Omitted parts reset to their initial value; given parts carry the validated token.** -/
theorem generic_fill {α β : Type} (expanded : List String) (name : String) (raw : Raw α)
    (validate : String → α → R β) (out : Longhands β)
    (h : genericFill expanded name .plain raw validate = .ok out) :
    ∀ n ∈ expanded,
      match raw.items.lookup n with
      | none => (actualName name n, OutV.kw "initial") ∈ out
      | some t => ∃ b, validate (actualName name n) t = .ok b ∧ (actualName name n, OutV.val b) ∈ out := by
  intro n hn
  obtain ⟨r, hr, hf⟩ := mapM_fill_mem name raw.items validate expanded out (generic_plain_ok _ _ _ _ _ h).2.2 n hn
  unfold fillOne at hf
  split
  · rename_i hl
    simp only [hl] at hf
    cases hf; exact hr
  · rename_i t hl
    simp only [hl] at hf
    cases hv : validate (actualName name n) t with
    | error f => simp [hv, bind, Except.bind] at hf
    | ok b =>
      simp [hv, bind, Except.bind, pure, Except.pure] at hf
      exact ⟨b, rfl, hf ▸ hr⟩

/-- (b') A successful expansion means the wrapped expander yielded each longhand at most once and only
declared ones. -/
theorem generic_no_duplicate {α β : Type} (expanded : List String) (name : String) (raw : Raw α)
    (validate : String → α → R β) (out : Longhands β)
    (h : genericFill expanded name .plain raw validate = .ok out) :
    (raw.items.map Prod.fst).Nodup ∧ ∀ n ∈ raw.items.map Prod.fst, n ∈ expanded := by
  have := checkItems_ok expanded raw.items [] (generic_plain_ok _ _ _ _ _ h).1
  exact ⟨this.2.1, this.1⟩

/-- (c) **A longhand given twice makes the whole shorthand invalid** (dropped by the funnel). -/
theorem generic_duplicate_invalid {α β : Type} (expanded : List String) (name : String) (raw : Raw α)
    (validate : String → α → R β) (hin : ∀ n ∈ raw.items.map Prod.fst, n ∈ expanded)
    (hdup : ¬ (raw.items.map Prod.fst).Nodup) :
    genericFill expanded name .plain raw validate = .error .invalid :=
  genericFill_dup_invalid expanded name raw validate hin hdup

/-- (d) `inherit` / `initial` alone fan out to every longhand; `var()` makes every longhand pending. -/
theorem generic_keyword {α β : Type} (expanded : List String) (name : String) (raw : Raw α)
    (validate : String → α → R β) :
    genericFill expanded name .inheritKw raw validate
      = .ok (expanded.map fun n => (actualName name n, OutV.kw "inherit")) ∧
    genericFill expanded name .initialKw raw validate
      = .ok (expanded.map fun n => (actualName name n, OutV.kw "initial")) ∧
    genericFill expanded name .hasVar raw validate
      = .ok (expanded.map fun n => (actualName name n, OutV.pending)) := ⟨rfl, rfl, rfl⟩

/-- Every name a registered generic shorthand can yield is a registered longhand, once (so `PROPERTIES[name]`
in `validate_non_shorthand(..., required=True)` cannot raise `KeyError`, and "once each" holds on names). -/
theorem generic_names_registered :
    ∀ e ∈ Gen.Expanders.expanderKeys, ∀ names ∈ (genericNames e.2).toList,
      names.Nodup ∧ ∀ n ∈ names, Gen.Expanders.properties.contains (actualName e.1 n) = true := by
  decide +kernel

/-! ## 4. border-side shorthands: components commute; border = four border-sides -/

theorem border_side_names_eq : borderSideNames = ["-width", "-color", "-style"] := by decide

private theorem sideSuffix_mem {α : Type} (t : SideTok α) (s : String) (h : sideSuffix t = some s) :
    s ∈ borderSideNames := by
  rw [border_side_names_eq]
  unfold sideSuffix at h
  split at h
  · cases h; simp
  · split at h
    · cases h; simp
    · split at h
      · cases h; simp
      · cases h

private def sidePair {α : Type} (t : SideTok α) : String × α := ((sideSuffix t).getD "", t.tok)

private theorem borderSideRaw_good {α : Type} :
    ∀ (toks : List (SideTok α)) (acc : List (String × α)), (∀ t ∈ toks, (sideSuffix t).isSome = true) →
      (borderSideRaw toks acc).items = acc ++ toks.map sidePair ∧ (borderSideRaw toks acc).ends = none
  | [], acc, _ => by simp [borderSideRaw]
  | t :: rest, acc, h => by
    have ht := h t (by simp)
    cases hs : sideSuffix t with
    | none => simp [hs] at ht
    | some s =>
      have ih := borderSideRaw_good rest (acc ++ [(s, t.tok)]) (fun x hx => h x (by simp [hx]))
      simp only [borderSideRaw, hs, ih, List.map_cons, sidePair, Option.getD_some, List.append_assoc,
        List.singleton_append, and_self]

private theorem borderSideRaw_bad {α : Type} :
    ∀ (toks : List (SideTok α)) (acc : List (String × α)), (∃ t ∈ toks, sideSuffix t = none) →
      (∀ n ∈ acc.map Prod.fst, n ∈ borderSideNames) →
      (borderSideRaw toks acc).ends = some .invalid ∧
      ∀ n ∈ (borderSideRaw toks acc).items.map Prod.fst, n ∈ borderSideNames
  | [], _, h, _ => by obtain ⟨t, ht, _⟩ := h; cases ht
  | t :: rest, acc, h, hacc => by
    cases hs : sideSuffix t with
    | none => simp only [borderSideRaw, hs]; exact ⟨trivial, hacc⟩
    | some s =>
      have hrest : ∃ x ∈ rest, sideSuffix x = none := by
        obtain ⟨x, hx, hxn⟩ := h
        simp only [List.mem_cons] at hx
        rcases hx with rfl | hx
        · rw [hs] at hxn; cases hxn
        · exact ⟨x, hx, hxn⟩
      have hacc' : ∀ n ∈ (acc ++ [(s, t.tok)]).map Prod.fst, n ∈ borderSideNames := by
        intro n hn
        simp only [List.map_append, List.map_cons, List.map_nil, List.mem_append, List.mem_singleton] at hn
        rcases hn with hn | rfl
        · exact hacc n hn
        · exact sideSuffix_mem t n hs
      simp only [borderSideRaw, hs]
      exact borderSideRaw_bad rest _ hrest hacc'

/-- **Any permutation of the components of a `border-*` / `outline` / `column-rule` value expands to the same
longhands** (same names, same values, same validity): the expander classifies each token by its type alone. -/
theorem border_side_perm {α β : Type} (name : String) (head : Head) (toks toks' : List (SideTok α))
    (validate : String → α → R β) (hp : toks.Perm toks') :
    expandBorderSide name head toks validate = expandBorderSide name head toks' validate := by
  unfold expandBorderSide
  cases head with
  | inheritKw => rfl
  | initialKw => rfl
  | hasVar => rfl
  | plain =>
    by_cases hg : ∀ t ∈ toks, (sideSuffix t).isSome = true
    · have hg' : ∀ t ∈ toks', (sideSuffix t).isSome = true := fun t ht => hg t (hp.mem_iff.mpr ht)
      have h1 := borderSideRaw_good toks [] hg
      have h2 := borderSideRaw_good toks' [] hg'
      apply genericFill_perm _ _ _ _ _ h1.2 h2.2
      · rw [h1.1, h2.1]; simpa using hp.map sidePair
      · rw [h1.1]
        intro n hn
        simp only [List.nil_append, List.map_map, List.mem_map, Function.comp] at hn
        obtain ⟨t, ht, rfl⟩ := hn
        have := hg t ht
        cases hs : sideSuffix t with
        | none => simp [hs] at this
        | some s => simpa [sidePair, hs] using sideSuffix_mem t s hs
    · have hb : ∃ t ∈ toks, sideSuffix t = none := by
        apply Classical.byContradiction
        intro hne
        apply hg
        intro t ht
        cases hs : sideSuffix t with
        | some s => rfl
        | none => exact absurd ⟨t, ht, hs⟩ hne
      have hb' : ∃ t ∈ toks', sideSuffix t = none := by
        obtain ⟨t, ht, hn⟩ := hb
        exact ⟨t, hp.mem_iff.mp ht, hn⟩
      have h1 := borderSideRaw_bad toks [] hb (by simp)
      have h2 := borderSideRaw_bad toks' [] hb' (by simp)
      rw [genericFill_ends_invalid _ _ _ _ h1.1 h1.2, genericFill_ends_invalid _ _ _ _ h2.1 h2.2]

/-- `border: X` is `border-top: X; border-right: X; border-bottom: X; border-left: X`. -/
theorem border_all_sides {α β : Type} (head : Head) (toks : List (SideTok α)) (validate : String → α → R β) :
    expandBorder "border" head toks validate = (do
      let t ← expandBorderSide "border-top" head toks validate
      let r ← expandBorderSide "border-right" head toks validate
      let b ← expandBorderSide "border-bottom" head toks validate
      let l ← expandBorderSide "border-left" head toks validate
      pure (t ++ r ++ b ++ l)) := by
  have e1 : "border" ++ "-top" = "border-top" := by decide
  have e2 : "border" ++ "-right" = "border-right" := by decide
  have e3 : "border" ++ "-bottom" = "border-bottom" := by decide
  have e4 : "border" ++ "-left" = "border-left" := by decide
  unfold expandBorder
  simp only [Gen.Expanders.borderSuffixes, List.mapM_cons, List.mapM_nil, e1, e2, e3, e4]
  cases expandBorderSide "border-top" head toks validate with
  | error f => rfl
  | ok t =>
    cases expandBorderSide "border-right" head toks validate with
    | error f => rfl
    | ok r =>
      cases expandBorderSide "border-bottom" head toks validate with
      | error f => rfl
      | ok b =>
        cases expandBorderSide "border-left" head toks validate with
        | error f => rfl
        | ok l => simp [bind, Except.bind, pure, Except.pure, List.append_assoc]

example : expandBorderSide (α := String) (β := String) "border-top" .plain
    [⟨false, true, false, "1px"⟩, ⟨false, false, true, "solid"⟩] (fun _ t => .ok t)
    = .ok [("border-top-width", .val "1px"), ("border-top-color", .kw "initial"),
           ("border-top-style", .val "solid")] := by decide

/-! ### `columns`: the two components commute -/

def columnsNames : List String := (genericNames "expand_columns").getD []

theorem columns_names_eq : columnsNames = ["column-width", "column-count"] := by decide

/-- **`columns: a b` = `columns: b a`** for any two components (`auto` being acceptable as width and as count,
nothing else being both, not both components `auto`): same longhands, same values, same validity. -/
theorem columns_perm {α β : Type} (name : String) (head : Head) (a b : ColTok α) (autoTok : α)
    (validate : String → α → R β)
    (ha : a.isAuto = true → a.isWidth = true ∧ a.isCount = true)
    (hb : b.isAuto = true → b.isWidth = true ∧ b.isCount = true)
    (ha' : a.isAuto = false → ¬(a.isWidth = true ∧ a.isCount = true))
    (hb' : b.isAuto = false → ¬(b.isWidth = true ∧ b.isCount = true))
    (hab : ¬(a.isAuto = true ∧ b.isAuto = true)) :
    genericFill columnsNames name head (columnsRaw [a, b] autoTok) validate =
      genericFill columnsNames name head (columnsRaw [b, a] autoTok) validate := by
  cases head with
  | inheritKw => rfl
  | initialKw => rfl
  | hasVar => rfl
  | plain =>
    rw [columns_names_eq]
    obtain ⟨aa, aw, ac, x⟩ := a
    obtain ⟨ba, bw, bc, y⟩ := b
    have hin2 : ∀ (p q : String × α), p.1 ∈ ["column-width", "column-count"] → q.1 ∈ ["column-width", "column-count"] →
        ∀ n ∈ ([p, q] : List (String × α)).map Prod.fst, n ∈ ["column-width", "column-count"] := by
      intro p q hp hq n hn
      simp only [List.map_cons, List.map_nil, List.mem_cons, List.not_mem_nil, or_false] at hn
      rcases hn with rfl | rfl <;> assumption
    cases aa <;> cases aw <;> cases ac <;> cases ba <;> cases bw <;> cases bc <;>
      simp only [Bool.false_eq_true, false_and, and_false, and_true, true_and, and_self, not_true_eq_false,
        not_false_eq_true, false_implies, true_implies, forall_const] at ha hb ha' hb' hab <;>
      simp only [columnsRaw, columnsLoop, Bool.and_true, Bool.and_false, Bool.true_and, Bool.false_and,
        Bool.false_eq_true, if_false, if_true, List.nil_append, List.cons_append, bne_self_eq_false,
        reduceCtorEq, bne_iff_ne, ne_eq, not_false_eq_true, not_true_eq_false, Option.some.injEq,
        String.reduceEq] <;>
      first
        | rfl
        | (apply genericFill_perm _ _ _ _ _ rfl rfl (List.Perm.swap _ _ _)
           exact hin2 _ _ (by simp) (by simp))
        | (rw [genericFill_ends_invalid _ _ _ _ rfl (by simp), genericFill_ends_invalid _ _ _ _ rfl (by simp)])

/-! ## 5. border-radius -/

private theorem radiusSplit_toks {α : Type} (b : Bool) :
    ∀ (ts : List α) (h v : List α) (onH : Bool) (rest : List (RTok α)),
      radiusSplit b (ts.map RTok.tok ++ rest) h v onH =
        if onH then radiusSplit b rest (h ++ ts) v true else radiusSplit b rest h (v ++ ts) false
  | [], h, v, onH, rest => by cases onH <;> simp
  | t :: ts, h, v, true, rest => by
    simp only [List.map_cons, List.cons_append, radiusSplit, if_true]
    rw [radiusSplit_toks b ts (h ++ [t]) v true rest]
    simp [List.append_assoc]
  | t :: ts, h, v, false, rest => by
    simp only [List.map_cons, List.cons_append, radiusSplit, Bool.false_eq_true, if_false]
    rw [radiusSplit_toks b ts h (v ++ [t]) false rest]
    simp [List.append_assoc]

private theorem lastIsSlash_toks {α : Type} (ts : List α) : lastIsSlash (ts.map RTok.tok) = false := by
  unfold lastIsSlash
  cases h : (ts.map RTok.tok).getLast? with
  | none => rfl
  | some t =>
    have hm := List.mem_of_getLast? h
    simp only [List.mem_map] at hm
    obtain ⟨a, _, rfl⟩ := hm
    rfl

private theorem lastIsSlash_append_toks {α : Type} (pre : List (RTok α)) (v : α) (vs : List α) :
    lastIsSlash (pre ++ (v :: vs).map RTok.tok) = false := by
  unfold lastIsSlash
  have : (pre ++ (v :: vs).map RTok.tok).getLast? = ((v :: vs).map RTok.tok).getLast? := by
    rw [List.getLast?_append]
    cases h : ((v :: vs).map RTok.tok).getLast? with
    | none => simp at h
    | some t => rfl
  rw [this]
  exact lastIsSlash_toks (v :: vs)

/-- (a) Without "/", both axes get the same values: `h h h h / h h h h` filled by the 1-to-4 rule. -/
theorem border_radius_one_axis {α : Type} (hs : List α) (validPair : String → α × α → R Unit) :
    borderRadiusRaw (hs.map RTok.tok) validPair =
      match fourTokens hs with
      | .error f => { items := [], ends := some f }
      | .ok h4 => radiusYield validPair Gen.Expanders.radiusCorners (h4.zip h4) [] := by
  unfold borderRadiusRaw
  have := radiusSplit_toks (lastIsSlash (hs.map RTok.tok)) hs [] [] true []
  simp only [List.append_nil, if_true, List.nil_append] at this
  rw [this]
  simp only [radiusSplit, pure, Except.pure, List.isEmpty_nil, if_true]
  cases fourTokens hs <;> rfl

/-- (b) With one "/" followed by at least one value: horizontal radii before, vertical radii after, each axis
filled by the 1-to-4 rule on its own. -/
theorem border_radius_two_axes {α : Type} (hs : List α) (v : α) (vs : List α)
    (validPair : String → α × α → R Unit) :
    borderRadiusRaw (hs.map RTok.tok ++ RTok.slash :: (v :: vs).map RTok.tok) validPair =
      match fourTokens hs with
      | .error f => { items := [], ends := some f }
      | .ok h4 =>
        match fourTokens (v :: vs) with
        | .error f => { items := [], ends := some f }
        | .ok v4 => radiusYield validPair Gen.Expanders.radiusCorners (h4.zip v4) [] := by
  unfold borderRadiusRaw
  have hl : lastIsSlash (hs.map RTok.tok ++ RTok.slash :: (v :: vs).map RTok.tok) = false := by
    have := lastIsSlash_append_toks (hs.map RTok.tok ++ [RTok.slash]) v vs
    simpa [List.append_assoc] using this
  rw [hl, radiusSplit_toks false hs [] [] true]
  simp only [if_true, List.nil_append, radiusSplit, Bool.false_eq_true, if_false]
  have := radiusSplit_toks false (v :: vs) hs [] false []
  simp only [List.append_nil, Bool.false_eq_true, if_false, List.nil_append] at this
  rw [this]
  simp only [radiusSplit, pure, Except.pure, List.isEmpty_cons, Bool.false_eq_true, if_false]
  cases fourTokens hs <;> rfl

/-- (c) A trailing "/", a second "/" and an empty horizontal part are invalid. -/
theorem border_radius_invalid {α : Type} (hs vs ws : List α) (validPair : String → α × α → R Unit) :
    (borderRadiusRaw (hs.map RTok.tok ++ [RTok.slash]) validPair).ends = some .invalid ∧
    (borderRadiusRaw (hs.map RTok.tok ++ RTok.slash :: (vs.map RTok.tok ++ RTok.slash :: ws.map RTok.tok))
        validPair).ends = some .invalid ∧
    (borderRadiusRaw (RTok.slash :: vs.map RTok.tok) validPair).ends = some .invalid := by
  refine ⟨?_, ?_, ?_⟩
  · unfold borderRadiusRaw
    have hl : lastIsSlash (hs.map RTok.tok ++ [RTok.slash (α := α)]) = true := by
      unfold lastIsSlash; simp [RTok.isSlash]
    rw [hl, radiusSplit_toks true hs [] [] true]
    simp [radiusSplit, throw, throwThe, MonadExceptOf.throw]
  · unfold borderRadiusRaw
    generalize lastIsSlash _ = b
    rw [radiusSplit_toks b hs [] [] true]
    simp only [if_true, List.nil_append, radiusSplit]
    cases b with
    | true => simp [throw, throwThe, MonadExceptOf.throw]
    | false =>
      simp only [Bool.false_eq_true, if_false]
      rw [radiusSplit_toks false vs hs [] false]
      simp [radiusSplit, throw, throwThe, MonadExceptOf.throw]
  · unfold borderRadiusRaw
    generalize lastIsSlash _ = b
    simp only [radiusSplit, if_true]
    cases b with
    | true => simp [throw, throwThe, MonadExceptOf.throw]
    | false =>
      simp only [Bool.false_eq_true, if_false]
      have := radiusSplit_toks false vs [] [] false []
      simp only [List.append_nil, Bool.false_eq_true, if_false, List.nil_append] at this
      rw [this]
      simp only [radiusSplit, pure, Except.pure]
      rfl

/-- (d) The corners, in the generated order, pair the i-th horizontal with the i-th vertical radius. -/
theorem border_radius_corners {α : Type} (a b c d e f g h : α) (validPair : String → α × α → R Unit)
    (hv : ∀ n p, validPair n p = .ok ()) :
    radiusYield validPair Gen.Expanders.radiusCorners ([a, b, c, d].zip [e, f, g, h]) [] =
      { items := [("border-top-left-radius", (a, e)), ("border-top-right-radius", (b, f)),
                  ("border-bottom-right-radius", (c, g)), ("border-bottom-left-radius", (d, h))],
        ends := none } := by
  simp [Gen.Expanders.radiusCorners, radiusYield, hv]

/-- `border_corner_radius`: one length for both axes, or two; anything that is not a length is refused. -/
theorem border_corner_radius_spec {γ : Type} (l : List (Option γ)) (p : γ × γ) :
    borderCornerRadius l = some p ↔ l = [some p.1, some p.2] ∨ (l = [some p.1] ∧ p.1 = p.2) := by
  obtain ⟨x, y⟩ := p
  match l with
  | [] => simp [borderCornerRadius]
  | [none] => simp [borderCornerRadius]
  | [some a] =>
    simp only [borderCornerRadius, Option.some.injEq, Prod.mk.injEq, List.cons.injEq, and_true]
    constructor
    · rintro ⟨rfl, rfl⟩; right; exact ⟨rfl, rfl⟩
    · rintro (h | ⟨rfl, rfl⟩)
      · exact absurd h.2 (by simp)
      · exact ⟨rfl, rfl⟩
  | [none, _] => simp [borderCornerRadius]
  | [some a, none] => simp [borderCornerRadius]
  | [some a, some b] => simp [borderCornerRadius]
  | _ :: _ :: _ :: _ => simp [borderCornerRadius]

example : (borderRadiusRaw (α := String) [.tok "1px", .tok "2px", .slash, .tok "3px"] (fun _ _ => .ok ())).items
    = [("border-top-left-radius", ("1px", "3px")), ("border-top-right-radius", ("2px", "3px")),
       ("border-bottom-right-radius", ("1px", "3px")), ("border-bottom-left-radius", ("2px", "3px"))] := by decide

/-! ## 6. list-style: the `none` disambiguation -/

/-- After the loop, with `k ≥ 1` `none` tokens: valid iff there is room for them (one slot per longhand among
type / image not otherwise specified); `-type` takes the first, `-image` the second. -/
theorem list_style_none {α : Type} (ts is : Bool) (k : Nat) (nt : α) (acc : List (String × α)) (hk : 1 ≤ k) :
    let r := noneFinish ts is k nt acc
    let room := (if ts then 0 else 1) + (if is then 0 else 1)
    (r.ends = none ↔ k ≤ room) ∧ (r.ends = some .invalid ↔ room < k) ∧
    r.items = acc ++ (if ts then [] else [("-type", nt)]) ++
      (if !is && (ts || 2 ≤ k) then [("-image", nt)] else []) := by
  cases ts <;> cases is <;>
    (match k, hk with
     | 1, _ => simp [noneFinish]
     | 2, _ => simp [noneFinish]
     | n + 3, _ => simp [noneFinish])

/-- `list-style: none` is the type (the image keeps its initial value, also none); `none none` is both; with a
type given, `none` is the image. -/
example : (listStyleRaw (α := String) [⟨true, false, false, false, "none"⟩]).items
    = [("-type", "none")] := by decide
example : (listStyleRaw (α := String) [⟨true, false, false, false, "n1"⟩, ⟨true, false, false, false, "n2"⟩]).items
    = [("-type", "n2"), ("-image", "n2")] := by decide
example : (listStyleRaw (α := String) [⟨true, false, false, false, "none"⟩, ⟨false, false, false, true, "disc"⟩]).items
    = [("-type", "disc"), ("-image", "none")] := by decide

/-! ## 7. Units -/

section Units
open Len07

/-- The generated table, entry by entry (an edit of `LENGTHS_TO_PIXELS` breaks this). -/
theorem unit_table :
    factor "px" = some 1 ∧ factor "in" = some 96 ∧ factor "pt" = some (mkRat 4 3) ∧ factor "pc" = some 16 ∧
    factor "cm" = some (mkRat 4800 127) ∧ factor "mm" = some (mkRat 480 127) ∧
    factor "q" = some (mkRat 120 127) := by decide +kernel

/-- The interpreter's doubles are the nearest doubles of the exact factors (within 2⁻⁵² relative), unit by unit. -/
theorem unit_table_floats :
    (Gen.UnitsC07.lengthsToPixelsFloat.map Prod.fst = Gen.UnitsC07.lengthsToPixels.map Prod.fst) ∧
    ∀ e ∈ Gen.UnitsC07.lengthsToPixelsFloat.zip Gen.UnitsC07.lengthsToPixels,
      (e.1.2 - e.2.2) * 4503599627370496 ≤ e.2.2 ∧ (e.2.2 - e.1.2) * 4503599627370496 ≤ e.2.2 := by
  decide +kernel

/-- **`1in = 96px = 72pt = 6pc = 2.54cm = 25.4mm = 101.6q`, for every rational multiple `x`.** -/
theorem units_consistent (x : Rat) :
    toPx x "in" = some (x * 96) ∧
    toPx (x * 96) "px" = some (x * 96) ∧
    toPx (x * 72) "pt" = some (x * 96) ∧
    toPx (x * 6) "pc" = some (x * 96) ∧
    toPx (x * mkRat 254 100) "cm" = some (x * 96) ∧
    toPx (x * mkRat 254 10) "mm" = some (x * 96) ∧
    toPx (x * mkRat 1016 10) "q" = some (x * 96) := by
  obtain ⟨hpx, hin, hpt, hpc, hcm, hmm, hq⟩ := unit_table
  have e1 : (72 : Rat) * mkRat 4 3 = 96 := by decide +kernel
  have e2 : (6 : Rat) * 16 = 96 := by decide +kernel
  have e3 : mkRat 254 100 * mkRat 4800 127 = 96 := by decide +kernel
  have e4 : mkRat 254 10 * mkRat 480 127 = 96 := by decide +kernel
  have e5 : mkRat 1016 10 * mkRat 120 127 = 96 := by decide +kernel
  simp only [toPx, hpx, hin, hpt, hpc, hcm, hmm, hq, Option.map, Rat.mul_assoc, e1, e2, e3, e4, e5, Rat.mul_one,
    and_self]

private theorem factor_ne_zero (u : String) (k : Rat) (h : factor u = some k) : k ≠ 0 ∧ (u = "px" → k = 1) := by
  have hall : ∀ e ∈ Gen.UnitsC07.lengthsToPixels, e.2 ≠ 0 ∧ (e.1 = "px" → e.2 = 1) := by decide +kernel
  have hmem : ∀ (l : List (String × Rat)), l.lookup u = some k → (u, k) ∈ l := by
    intro l
    induction l with
    | nil => intro h; cases h
    | cons p rest ih =>
      obtain ⟨a, b⟩ := p
      intro h
      simp only [List.lookup_cons] at h
      by_cases hu : u = a
      · have e : (u == a) = true := by simp [hu]
        simp only [e, Option.some.injEq] at h
        simp [hu, h]
      · have e : (u == a) = false := by simp [hu]
        simp only [e] at h
        simp [ih h]
  exact hall (u, k) (hmem _ h)

/-- `length` on an absolute unit: zero is `ZERO_PIXELS`, anything else is `value × factor` pixels. -/
theorem length_absolute (ctx : FontCtx) (po : Bool) (v : Rat) (u : String) (k : Rat) (hk : factor u = some k) :
    length ctx po (.dim v (some u)) =
      if v = 0 then (if po then .number 0 else .dim 0 (some "px"))
      else (if po then .number (v * k) else .dim (v * k) (some "px")) := by
  obtain ⟨_, hpx⟩ := factor_ne_zero u k hk
  unfold length
  by_cases hv : v = 0
  · simp [hv]
  · have hv' : (v == 0) = false := by simp [hv]
    simp only [hv', Bool.false_eq_true, if_false, hv]
    by_cases hu : u = "px"
    · have := hpx hu
      subst this
      simp [hu, Rat.mul_one]
    · have hu' : (u == "px") = false := by simp [hu]
      simp only [hu', Bool.false_eq_true, if_false, hk]

/-- **Equal lengths written in different absolute units are interchangeable**: same computed value of `length`,
whatever the font context and `pixels_only`. -/
theorem units_interchangeable (ctx : FontCtx) (po : Bool) (u1 u2 : String) (k1 k2 v1 v2 : Rat)
    (h1 : factor u1 = some k1) (h2 : factor u2 = some k2) (h : v1 * k1 = v2 * k2) :
    length ctx po (.dim v1 (some u1)) = length ctx po (.dim v2 (some u2)) := by
  rw [length_absolute ctx po v1 u1 k1 h1, length_absolute ctx po v2 u2 k2 h2]
  have n1 := (factor_ne_zero u1 k1 h1).1
  have n2 := (factor_ne_zero u2 k2 h2).1
  by_cases hv : v1 = 0
  · have : v2 = 0 := by
      rw [hv, Rat.zero_mul] at h
      rcases Rat.mul_eq_zero.mp h.symm with h | h
      · exact h
      · exact absurd h n2
    simp [hv, this]
  · have : v2 ≠ 0 := by
      intro e
      rw [e, Rat.zero_mul] at h
      rcases Rat.mul_eq_zero.mp h with h | h
      · exact hv h
      · exact n1 h
    simp [hv, this, h]

/-- e.g. `x in` and `72x pt`, for every rational `x`. -/
theorem inch_eq_points (ctx : FontCtx) (po : Bool) (x : Rat) :
    length ctx po (.dim x (some "in")) = length ctx po (.dim (x * 72) (some "pt")) := by
  apply units_interchangeable ctx po "in" "pt" 96 (mkRat 4 3) x (x * 72) unit_table.2.1 unit_table.2.2.1
  have e1 : (72 : Rat) * mkRat 4 3 = 96 := by decide +kernel
  rw [Rat.mul_assoc, e1]

/-- Zero of any unit (absolute, relative, percentage, unitless) is `ZERO_PIXELS`. -/
theorem length_zero (ctx : FontCtx) (po : Bool) (u : Option String) :
    length ctx po (.dim 0 u) = if po then .number 0 else .dim 0 (some "px") := by
  simp [length]

/-- `em` / `rem` scale with the font sizes. -/
theorem length_em (ctx : FontCtx) (v : Rat) (hv : v ≠ 0) :
    length ctx true (.dim v (some "em")) = .number (v * ctx.fontSize) ∧
    length ctx true (.dim v (some "rem")) = .number (v * ctx.rootFontSize) := by
  have h1 : factor "em" = none := by decide +kernel
  have h2 : factor "rem" = none := by decide +kernel
  have hv' : (v == 0) = false := by simp [hv]
  have b1 : ("em" == "px") = false ∧ ("em" == "ex") = false ∧ ("em" == "ch") = false ∧ ("em" == "em") = true := by
    decide
  have b2 : ("rem" == "px") = false ∧ ("rem" == "ex") = false ∧ ("rem" == "ch") = false ∧
      ("rem" == "em") = false ∧ ("rem" == "rem") = true := by decide
  constructor
  · simp [length, hv', h1, b1]
  · simp [length, hv', h2, b2]

example : length ⟨16, 16, 1/2, 1/2⟩ false (.dim (mkRat 1 2) (some "in")) = .dim 48 (some "px") := by decide +kernel

end Units

/-! ## 8. var() -/

section VarSubst
open Wp.Var

/-- How the tuple `seen` of `resolve_var` sits next to the token being resolved, on acyclic custom properties:
a property under substitution is either empty (then the cycle guard and `computed[name] or default` agree: the
default), or above every property the token can still refer to. -/
def SeenOk (env : Env) (rk : String → Nat) (seen : List String) (t : Tk) : Prop :=
  ∀ s ∈ seen, (env s).isEmpty = true ∨ ∀ m ∈ refs t, rk m < rk s

private theorem seenOk_arg (env : Env) (rk : String → Nat) (seen : List String) (name lname : String)
    (args : List Tk) (a : Tk) (ha : a ∈ args) (h : SeenOk env rk seen (.fn name lname args)) :
    SeenOk env rk seen a := by
  intro s hs
  rcases h s hs with h | h
  · exact Or.inl h
  · refine Or.inr (fun m hm => h m ?_)
    simp only [refs, List.mem_append]
    exact Or.inr (refsList_mem args a ha m hm)

/-- On acyclic custom properties the cycle guard never changes the values: a property met again is empty. -/
private theorem varValues_acyclic (env : Env) (rk : String → Nat) (seen : List String) (key : String)
    (dflt : List Tk) (hk : ∀ s ∈ seen, (env s).isEmpty = true ∨ rk key < rk s) :
    varValues env seen key dflt = if (env key).isEmpty then dflt else env key := by
  unfold varValues
  by_cases hc : seen.contains key = true
  · have hmem : key ∈ seen := by simpa using hc
    rcases hk key hmem with h | h
    · simp [hc, h]
    · exact absurd h (Nat.lt_irrefl _)
  · have hc' : seen.contains key = false := by simpa using hc
    simp only [hc', Bool.false_eq_true, if_false]

/-- **`var()` = substitution.**  On custom properties whose references are acyclic, whenever the code's
`resolve_var` returns (it always does from some depth on: `resolve_var_terminates`), what it returns is the
substitution of the token: every detectable `var(--x, fb)` replaced by the value of `--x`, or by `fb` when
`--x` is empty, recursively; everything else untouched.  (`None` stands for "the token itself".)  The fallback
is read as the code reads it (`codeFallback`: without commas).  Acyclicity is what gives substitution a meaning
(`subst` has no value, for any fuel, on `--a: var(--a)`); there the cycle guard of `fix:` 2bffab3 never fires on
a non-empty property (`SeenOk`). -/
theorem var_subst_partial (env : Env) (rk : String → Nat) (hacy : Acyclic env rk) :
    ∀ (fuel : Nat) (seen : List String) (t : Tk) (r : Option (List Tk)), SeenOk env rk seen t →
      resolveVar env seen fuel t = .ok r → substWith codeFallback env fuel t = some (r.getD [t])
  | 0, _, _, _, _, h => by cases h
  | fuel + 1, seen, t, r, hinv, h => by
    rcases resolveVar_succ_cases env seen fuel t _ h with ⟨hc, rfl⟩ |
        ⟨name, lname, args, parts, o, rfl, hc, hl, hm, h2, hr⟩ |
        ⟨name, lname, args, v, dflt, parts, rfl, hc, hl, hp, hm, hr⟩
    · unfold substWith; simp [hc]
    · -- the rebuilt function carries no var(): the second resolve_var returns None
      have hc' := rebuilt_no_var env seen fuel name lname args parts hl hm
      have ho : o = none := by
        cases o with
        | none => rfl
        | some r2 =>
          cases fuel with
          | zero => cases h2
          | succ f => simp [resolveVar, hc', pure, Except.pure] at h2
      subst ho
      subst hr
      have hsub : args.mapM (substWith codeFallback env fuel) = some parts := by
        apply mapM_transfer _ _ args parts hm
        intro a ha p hfa
        rcases argStep_ok _ a p hfa with hra | ⟨hra, rfl⟩ | ⟨hleaf, rfl⟩
        · simpa using var_subst_partial env rk hacy fuel seen _ _ (seenOk_arg env rk seen name lname args a ha hinv) hra
        · unfold substWith; simp [resolveVar_none env seen fuel a hra]
        · unfold substWith; simp [checkVar_leaf a hleaf]
      unfold substWith
      simp only [hc, Bool.not_true, Bool.false_eq_true, if_false, hl, if_true, hsub]
      rfl
    · subst hr
      have hcf : codeFallback args = dflt := by simp [codeFallback, hp]
      have hlv : (lname == "var") = true := by simpa [bne] using hl
      have hvmem : Tk.ident v ∈ args := parseArgs_mem args false _ hp _ (by simp)
      have hkref : dashToUnderscore v ∈ refs (Tk.fn name lname args) := by
        simp only [refs, hlv, if_true, List.mem_append]
        exact Or.inl (identNames_mem args v hvmem)
      have hvals := varValues_acyclic env rk seen (dashToUnderscore v) dflt (fun s hs => by
        rcases hinv s hs with h | h
        · exact Or.inl h
        · exact Or.inr (h _ hkref))
      rw [hvals] at hm
      -- every value resolved next keeps the invariant, with `--v` added to `seen`
      have hnext : ∀ x ∈ (if (env (dashToUnderscore v)).isEmpty then dflt else env (dashToUnderscore v)),
          SeenOk env rk (seen ++ [dashToUnderscore v]) x := by
        intro x hx s hs
        simp only [List.mem_append, List.mem_singleton] at hs
        by_cases he : (env (dashToUnderscore v)).isEmpty = true
        · rw [if_pos he] at hx
          have hxa : x ∈ args := parseArgs_mem args false _ hp x (by simp [hx])
          rcases hs with hs | rfl
          · exact seenOk_arg env rk seen name lname args x hxa hinv s hs
          · exact Or.inl he
        · rw [if_neg he] at hx
          have hlt : ∀ m ∈ refs x, rk m < rk (dashToUnderscore v) :=
            fun m hm => hacy (dashToUnderscore v) m (refsList_mem _ x hx m hm)
          rcases hs with hs | rfl
          · rcases hinv s hs with h | h
            · exact Or.inl h
            · exact Or.inr (fun m hm => Nat.lt_trans (hlt m hm) (h _ hkref))
          · exact Or.inr hlt
      have hsub : (if (env (dashToUnderscore v)).isEmpty then dflt else env (dashToUnderscore v)).mapM
          (substWith codeFallback env fuel) = some parts := by
        apply mapM_transfer _ _ _ parts hm
        intro a ha p hfa
        rcases valueStep_ok _ a p hfa with hra | ⟨hra, rfl⟩
        · simpa using var_subst_partial env rk hacy fuel _ _ _ (hnext a ha) hra
        · unfold substWith; simp [resolveVar_none env _ fuel a hra]
      unfold substWith
      simp only [hc, Bool.not_true, Bool.false_eq_true, if_false, hl, hp, hcf, hsub]
      rfl

/-! ### Well-formed `var()`: `var( --name )` or `var( --name , fallback )` with a comma-free fallback -/

def noComma : List Tk → Bool
  | [] => true
  | .comma :: _ => false
  | _ :: rest => noComma rest

def afterNameOk : List Tk → Bool
  | [] => true
  | .ws :: rest => afterNameOk rest
  | .comma :: fb => noComma fb
  | _ => false

/-- The raw arguments of a `var()`: whitespace, the name, whitespace, then nothing or `,` and a fallback
without top-level comma. -/
def wellFormedVarArgs : List Tk → Bool
  | .ws :: rest => wellFormedVarArgs rest
  | .ident _ :: rest => afterNameOk rest
  | _ => false

mutual
/-- Every function called `var`, at any depth, has well-formed arguments. -/
def wfTok : Tk → Bool
  | .fn _ l args => (l != "var" || wellFormedVarArgs args) && wfToks args
  | _ => true
def wfToks : List Tk → Bool
  | [] => true
  | t :: rest => wfTok t && wfToks rest
end

private def nonWs (t : Tk) : Bool := match t with | .ws => false | _ => true

private theorem parseArgs_noComma : ∀ (fb : List Tk) (b : Bool) (d : List Tk), noComma fb = true →
    parseArgs fb b = some d → d = fb.filter nonWs
  | [], b, d, _, h => by
    cases b <;> simp [parseArgs] at h
    subst h; rfl
  | .ws :: rest, b, d, hn, h => by
    simp only [parseArgs] at h
    simp only [noComma] at hn
    simpa [List.filter, nonWs] using parseArgs_noComma rest b d hn h
  | .comma :: rest, b, d, hn, h => by simp [noComma] at hn
  | .ident v :: rest, b, d, hn, h => by
    simp only [parseArgs, parses, if_true] at h
    simp only [noComma] at hn
    cases hr : parseArgs rest false with
    | none => simp [hr] at h
    | some d' =>
      simp only [hr, Option.map_some, Option.some.injEq] at h
      subst h
      simp [List.filter, nonWs, parseArgs_noComma rest false d' hn hr]
  | .leaf v :: rest, b, d, hn, h => by
    simp only [parseArgs, parses, if_true] at h
    simp only [noComma] at hn
    cases hr : parseArgs rest false with
    | none => simp [hr] at h
    | some d' =>
      simp only [hr, Option.map_some, Option.some.injEq] at h
      subst h
      simp [List.filter, nonWs, parseArgs_noComma rest false d' hn hr]
  | .fn n l a :: rest, b, d, hn, h => by
    simp only [parseArgs] at h
    simp only [noComma] at hn
    split at h
    · cases hr : parseArgs rest false with
      | none => simp [hr] at h
      | some d' =>
        simp only [hr, Option.map_some, Option.some.injEq] at h
        subst h
        simp [List.filter, nonWs, parseArgs_noComma rest false d' hn hr]
    · cases h

private theorem afterName_eq : ∀ (rest : List Tk) (d : List Tk), afterNameOk rest = true →
    parseArgs rest false = some d → textFallback.afterName rest = d
  | [], d, _, h => by simp [parseArgs] at h; subst h; rfl
  | .ws :: rest, d, hn, h => by
    simp only [parseArgs] at h
    simp only [afterNameOk] at hn
    simpa [textFallback.afterName] using afterName_eq rest d hn h
  | .comma :: fb, d, hn, h => by
    simp only [parseArgs, Bool.false_eq_true, if_false] at h
    simp only [afterNameOk] at hn
    have := parseArgs_noComma fb true d hn h
    subst this
    simp only [textFallback.afterName]
    congr 1
  | .ident v :: rest, d, hn, h => by simp [afterNameOk] at hn
  | .leaf v :: rest, d, hn, h => by simp [afterNameOk] at hn
  | .fn n l a :: rest, d, hn, h => by simp [afterNameOk] at hn

/-- (B1) On well-formed arguments the code's fallback (comma-stripped) is the textual one. -/
theorem fallback_text_eq : ∀ (args : List Tk), wellFormedVarArgs args = true →
    (∃ first dflt, parseArgs args false = some (first :: dflt)) → textFallback args = codeFallback args
  | [], h, _ => by simp [wellFormedVarArgs] at h
  | .ws :: rest, h, hp => by
    simp only [wellFormedVarArgs] at h
    have hp' : ∃ first dflt, parseArgs rest false = some (first :: dflt) := by simpa [parseArgs] using hp
    have := fallback_text_eq rest h hp'
    simpa [textFallback, codeFallback, parseArgs] using this
  | .ident v :: rest, h, hp => by
    simp only [wellFormedVarArgs] at h
    obtain ⟨first, dflt, hp⟩ := hp
    simp only [parseArgs, parses, if_true] at hp
    cases hr : parseArgs rest false with
    | none => simp [hr] at hp
    | some d =>
      simp only [hr, Option.map_some, Option.some.injEq, List.cons.injEq] at hp
      obtain ⟨_, rfl⟩ := hp
      simp [textFallback, codeFallback, parseArgs, parses, hr, afterName_eq rest d h hr]
  | .comma :: rest, h, _ => by simp [wellFormedVarArgs] at h
  | .leaf v :: rest, h, _ => by simp [wellFormedVarArgs] at h
  | .fn n l a :: rest, h, _ => by simp [wellFormedVarArgs] at h

private theorem wfToks_mem : ∀ (l : List Tk), wfToks l = true → ∀ x ∈ l, wfTok x = true
  | [], _, x, hx => by cases hx
  | t :: rest, h, x, hx => by
    simp only [wfToks, Bool.and_eq_true] at h
    simp only [List.mem_cons] at hx
    rcases hx with rfl | hx
    · exact h.1
    · exact wfToks_mem rest h.2 x hx

private theorem afterName_mem : ∀ (l : List Tk) (x : Tk), x ∈ textFallback.afterName l → x ∈ l
  | [], x, h => by simp [textFallback.afterName] at h
  | .comma :: rest, x, h => by
    simp only [textFallback.afterName, List.mem_filter] at h
    simp [h.1]
  | .ws :: rest, x, h => by
    simp only [textFallback.afterName] at h
    simp [afterName_mem rest x h]
  | .ident v :: rest, x, h => by
    simp only [textFallback.afterName] at h
    simp [afterName_mem rest x h]
  | .leaf v :: rest, x, h => by
    simp only [textFallback.afterName] at h
    simp [afterName_mem rest x h]
  | .fn n l a :: rest, x, h => by
    simp only [textFallback.afterName] at h
    simp [afterName_mem rest x h]

private theorem textFallback_mem : ∀ (l : List Tk) (x : Tk), x ∈ textFallback l → x ∈ l
  | [], x, h => by simp [textFallback] at h
  | .ident v :: rest, x, h => by
    simp only [textFallback] at h
    simp [afterName_mem rest x h]
  | .ws :: rest, x, h => by
    simp only [textFallback] at h
    simp [textFallback_mem rest x h]
  | .comma :: rest, x, h => by
    simp only [textFallback] at h
    simp [textFallback_mem rest x h]
  | .leaf v :: rest, x, h => by
    simp only [textFallback] at h
    simp [textFallback_mem rest x h]
  | .fn n l a :: rest, x, h => by
    simp only [textFallback] at h
    simp [textFallback_mem rest x h]

private theorem mapM_congr_opt {α β : Type} (f g : α → Option β) :
    ∀ (l : List α), (∀ a ∈ l, f a = g a) → l.mapM f = l.mapM g
  | [], _ => rfl
  | a :: rest, h => by
    rw [List.mapM_cons, List.mapM_cons, h a (by simp),
      mapM_congr_opt f g rest (fun x hx => h x (by simp [hx]))]

/-- On well-formed tokens and environments, reading fallbacks as the code does or as text is the same. -/
theorem subst_code_eq_text (env : Env) (henv : ∀ n, wfToks (env n) = true) :
    ∀ (fuel : Nat) (t : Tk), wfTok t = true →
      substWith codeFallback env fuel t = substWith textFallback env fuel t
  | 0, t, _ => by unfold substWith; rfl
  | fuel + 1, t, ht => by
    cases hc : checkVar t with
    | false => unfold substWith; simp [hc]
    | true =>
      cases t with
      | fn name lname args =>
        simp only [wfTok, Bool.and_eq_true, Bool.or_eq_true] at ht
        have hargs := wfToks_mem args ht.2
        unfold substWith
        simp only [hc, Bool.not_true, Bool.false_eq_true, if_false]
        by_cases hl : (lname != "var") = true
        · simp only [hl, if_true]
          rw [mapM_congr_opt _ _ args (fun a ha => subst_code_eq_text env henv fuel a (hargs a ha))]
        · have hl' : (lname != "var") = false := by simpa using hl
          have hwf : wellFormedVarArgs args = true := by
            rcases ht.1 with h | h
            · rw [hl'] at h; cases h
            · exact h
          simp only [hl', Bool.false_eq_true, if_false]
          cases hp : parseArgs args false with
          | none => rfl
          | some parsed =>
            cases parsed with
            | nil => rfl
            | cons first dflt =>
              have hfb := fallback_text_eq args hwf ⟨first, dflt, hp⟩
              cases first with
              | ident v =>
                simp only [hfb]
                have hvals : ∀ x ∈ (if (env (dashToUnderscore v)).isEmpty then codeFallback args
                    else env (dashToUnderscore v)), wfTok x = true := by
                  intro x hx
                  split at hx
                  · rw [← hfb] at hx
                    exact hargs x (textFallback_mem args x hx)
                  · exact wfToks_mem _ (henv _) x hx
                rw [mapM_congr_opt _ _ _ (fun a ha => subst_code_eq_text env henv fuel a (hvals a ha))]
              | _ => rfl
      | _ => simp [checkVar] at hc

/-- **`var()` ≡ textual substitution.**  For acyclic custom properties and a token whose `var()` are well formed
(`var(--x)` or `var(--x, fallback)` with a comma-free fallback), whenever `resolve_var` returns, it returns the
textual substitution of the token (`None` standing for the token itself).  The comma restriction is necessary:
witness `Witness.C07.var_fallback_commas_dropped`.  On cyclic custom properties textual substitution is undefined;
the code stops at the property met again and takes the fallback (regression example in `Props/C07Var`). -/
theorem var_subst (env : Env) (rk : String → Nat) (hacy : Acyclic env rk) (henv : ∀ n, wfToks (env n) = true)
    (fuel : Nat) (t : Tk) (r : Option (List Tk)) (ht : wfTok t = true) (h : resolveVar env [] fuel t = .ok r) :
    subst env fuel t = some (r.getD [t]) := by
  unfold subst
  rw [← subst_code_eq_text env henv fuel t ht]
  exact var_subst_partial env rk hacy fuel [] t r (fun s hs => by cases hs) h

/-- Non-vacuity: `translate(var(--x, 7px), var(--y))` with `--y: var(--z, 2px)`, everything well formed. -/
example :
    let env : Env := fun n => if n = "__y" then [.fn "var" "var" [.ident "--z", .comma, .ws, .leaf "2px"]] else []
    let t : Tk := .fn "translate" "translate"
      [.fn "var" "var" [.ident "--x", .comma, .ws, .leaf "7px"], .comma, .ws, .fn "var" "var" [.ident "--y"]]
    (∀ n, wfToks (env n) = true) ∧ wfTok t = true ∧
    (match resolveVar env [] 6 t with
      | .ok (some [.fn "translate" "translate" [.leaf "7px", .comma, .ws, .leaf "2px"]]) => true
      | _ => false) = true := by
  refine ⟨?_, by decide, by decide⟩
  intro n
  by_cases hn : n = "__y" <;> simp [hn] <;> decide

/-- Non-vacuity, and regression for the repaired `arguments.extend(None)`: `f(var(--c), g())` with `--c: red`
resolves to `f(red, g())` — the sibling function without `var()` is kept. -/
example : (match resolveVar (fun n => if n = "__c" then [.ident "red"] else []) [] 5
      (.fn "f" "f" [.fn "var" "var" [.ident "--c"], .comma, .ws, .fn "g" "g" []]) with
    | .ok (some [.fn "f" "f" [.ident "red", .comma, .ws, .fn "g" "g" []]]) => true
    | _ => false) = true := by decide

end VarSubst

/-! ## 9. Which tokens are lengths, and what becomes of them -/

section GetLength
open Len07

/-- `LENGTH_UNITS` as the model builds it (table keys + relative units, AST) = the runtime set. -/
theorem length_units_agree :
    (lengthUnits.all fun u => Gen.UnitsC07.lengthUnitsRuntime.contains u) = true ∧
    (Gen.UnitsC07.lengthUnitsRuntime.all fun u => lengthUnits.contains u) = true := by decide

/-- `get_length` only lets through percentages (when asked), the unitless zero, and dimensions whose unit is,
**as written**, one of `LENGTH_UNITS`. -/
theorem get_length_unit (n p : Bool) (t : LTok) (v : Rat) (u : Option String)
    (h : getLength n p t = some (.dim v u)) :
    (u = some "%" ∧ p = true) ∨ (u = none ∧ v = 0) ∨ (∃ w, u = some w ∧ lengthUnits.contains w = true) := by
  cases t with
  | percentage x =>
    simp only [getLength] at h
    split at h
    · rename_i hc
      simp only [Bool.and_eq_true] at hc
      cases h; exact Or.inl ⟨rfl, hc.1⟩
    · cases h
  | dimension x w l =>
    simp only [getLength] at h
    split at h
    · rename_i hc
      simp only [Bool.and_eq_true] at hc
      cases h; exact Or.inr (Or.inr ⟨w, rfl, hc.1⟩)
    · cases h
  | number x =>
    simp only [getLength] at h
    split at h
    · cases h; exact Or.inr (Or.inl ⟨rfl, rfl⟩)
    · cases h
  | other => simp [getLength] at h

/-- `get_length` never returns a keyword. -/
theorem get_length_dim (n p : Bool) (t : LTok) (s : Spec) (h : getLength n p t = some s) :
    ∃ v u, s = .dim v u := by
  cases t <;> simp only [getLength] at h
  · split at h <;> cases h; exact ⟨_, _, rfl⟩
  · split at h <;> cases h; exact ⟨_, _, rfl⟩
  · split at h <;> cases h; exact ⟨_, _, rfl⟩
  · cases h

private theorem rel_units_beq :
    ("ex" == "px") = false ∧ ("ch" == "px") = false ∧ ("em" == "px") = false ∧ ("rem" == "px") = false ∧
    ("ch" == "ex") = false ∧ ("em" == "ex") = false ∧ ("em" == "ch") = false ∧ ("rem" == "ex") = false ∧
    ("rem" == "ch") = false ∧ ("rem" == "em") = false := by decide

/-- A dimension in one of `LENGTH_UNITS` always computes to pixels. -/
theorem length_of_known_unit (ctx : FontCtx) (po : Bool) (v : Rat) (u : String)
    (hu : lengthUnits.contains u = true) :
    ∃ q, length ctx po (.dim v (some u)) = if po then .number q else .dim q (some "px") := by
  cases hf : factor u with
  | some k =>
    rw [length_absolute ctx po v u k hf]
    by_cases hv : v = 0
    · exact ⟨0, by simp [hv]⟩
    · exact ⟨v * k, by simp [hv]⟩
  | none =>
    have hrel : u = "ex" ∨ u = "em" ∨ u = "ch" ∨ u = "rem" := by
      have hm : u ∈ lengthUnits := by simpa using hu
      simp only [lengthUnits, Gen.UnitsC07.lengthsToPixels, Gen.UnitsC07.relativeUnits, List.map_cons,
        List.map_nil, List.cons_append, List.nil_append, List.mem_cons, List.not_mem_nil, or_false] at hm
      have hk : ∀ w ∈ ["px", "pt", "pc", "in", "cm", "mm", "q"], factor w ≠ none := by decide +kernel
      rcases hm with rfl | rfl | rfl | rfl | rfl | rfl | rfl | h
      · exact absurd hf (hk _ (by simp))
      · exact absurd hf (hk _ (by simp))
      · exact absurd hf (hk _ (by simp))
      · exact absurd hf (hk _ (by simp))
      · exact absurd hf (hk _ (by simp))
      · exact absurd hf (hk _ (by simp))
      · exact absurd hf (hk _ (by simp))
      · exact h
    obtain ⟨b1, b2, b3, b4, b5, b6, b7, b8, b9, b10⟩ := rel_units_beq
    by_cases hv : v = 0
    · exact ⟨0, by simp [length, hv]⟩
    · have hv' : (v == 0) = false := by simp [hv]
      rcases hrel with rfl | rfl | rfl | rfl
      · exact ⟨v * ctx.fontSize * ctx.exRatio, by cases po <;> simp [length, hv', hf, b1]⟩
      · exact ⟨v * ctx.fontSize, by cases po <;> simp [length, hv', hf, b3, b6, b7]⟩
      · exact ⟨v * ctx.fontSize * ctx.chRatio, by cases po <;> simp [length, hv', hf, b2, b5]⟩
      · exact ⟨v * ctx.rootFontSize, by cases po <;> simp [length, hv', hf, b4, b8, b9, b10]⟩

/-- **An accepted length never reaches layout unconverted**: whatever `get_length` lets through is computed by
`length` to pixels (a bare number under `pixels_only`), or stays a percentage. -/
theorem accepted_length_computes_to_px (ctx : FontCtx) (po n p : Bool) (t : LTok) (s : Spec)
    (h : getLength n p t = some s) :
    (∃ q, length ctx po s = .number q) ∨ (∃ q, length ctx po s = .dim q (some "px")) ∨
      (∃ q, length ctx po s = .dim q (some "%")) := by
  obtain ⟨v, u, rfl⟩ := get_length_dim n p t s h
  rcases get_length_unit n p t v u h with ⟨rfl, _⟩ | ⟨rfl, rfl⟩ | ⟨w, rfl, hw⟩
  · by_cases hv : v = 0
    · cases po <;> simp [length, hv]
    · have hv' : (v == 0) = false := by simp [hv]
      have hf : factor "%" = none := by decide +kernel
      have hb : ("%" == "px") = false ∧ ("%" == "ex") = false ∧ ("%" == "ch") = false ∧ ("%" == "em") = false ∧
          ("%" == "rem") = false := by decide
      right; right
      exact ⟨v, by simp [length, hv', hf, hb]⟩
  · cases po <;> simp [length]
  · obtain ⟨q, hq⟩ := length_of_known_unit ctx po v w hw
    cases po
    · right; left; exact ⟨q, by simpa using hq⟩
    · left; exact ⟨q, by simpa using hq⟩

/-- A unit written in upper case is not a length for `get_length` (HEAD drops `width: 1IN` with a warning). -/
example : getLength true true (.dimension 1 "IN" "in") = none ∧
    getLength true true (.dimension 1 "in" "in") = some (.dim 1 (some "in")) := by decide +kernel

end GetLength

/-! ## 10. Pending (`var()`) values in `ComputedStyle.__missing__` -/

section PendingValues
open Wp.Pending

/-- The `INHERITED` literal of the source = the runtime set. -/
theorem inherited_table_agrees : Gen.InheritedC07.inheritedAst = Gen.InheritedC07.inherited := rfl

/-- **A `var()` whose substituted value is invalid has no effect**: the property gets exactly what it gets
when the declaration is absent (the parent's value for an inherited property, the initial value otherwise). -/
theorem pending_invalid_as_absent {β : Type} (key : String) (hasParent : Bool) (hk : isCustom key = false) :
    select (β := β) key hasParent (.pending .invalid) = select key hasParent .absent := by
  cases hi : isInherited key <;> cases hasParent <;> simp [select, hi, hk]

/-- **A `var()` whose substituted value is valid / `initial` / `inherit` is the literal declaration** — on every
element, the root included (full strength since `fix:` 582f36b: the `inherit` clause used to need a parent). -/
theorem pending_valid_as_literal {β : Type} (key : String) (hasParent : Bool) (v : β) :
    select key hasParent (.pending (.valid v)) = select key hasParent (.value v) ∧
    select (β := β) key hasParent (.pending .initialKw) = select key hasParent .initialKw ∧
    select (β := β) key hasParent (.pending .inheritKw) = select key hasParent .inheritKw := by
  refine ⟨?_, ?_, ?_⟩ <;> cases hasParent <;> simp [select]

/-- Selecting a value never fails, with or without a parent (full strength since `fix:` 582f36b: on the root
element `inherit` out of a `var()` used to reach `parent_style[key]` with no parent). -/
theorem select_total {β : Type} (key : String) (hasParent : Bool) (c : Casc β) :
    ∃ s, select key hasParent c = .ok s := by
  cases c with
  | absent =>
    cases hi : isInherited key <;> cases hc : isCustom key <;> cases hasParent <;>
      simp [select, hi, hc, pure, Except.pure]
  | inheritKw => cases hasParent <;> simp [select, pure, Except.pure]
  | initialKw => simp [select, pure, Except.pure]
  | value v => simp [select, pure, Except.pure]
  | pending s =>
    cases s with
    | valid v => simp [select, pure, Except.pure]
    | inheritKw => cases hasParent <;> simp [select, pure, Except.pure]
    | initialKw => simp [select, pure, Except.pure]
    | invalid => simp [select, pure, Except.pure]

/-- The parent's value is only ever selected when there is a parent: `parent_style[key]` is never evaluated on
the root element. -/
theorem select_parent_has_parent {β : Type} (key : String) (hasParent : Bool) (c : Casc β)
    (h : select key hasParent c = .ok .parent) : hasParent = true := by
  cases hasParent with
  | true => rfl
  | false =>
    exfalso
    cases c with
    | absent => cases hi : isInherited key <;> cases hc : isCustom key <;> simp [select, hi, hc, pure, Except.pure] at h
    | inheritKw => simp [select, pure, Except.pure] at h
    | initialKw => simp [select, pure, Except.pure] at h
    | value v => simp [select, pure, Except.pure] at h
    | pending s => cases s <;> simp [select, pure, Except.pure] at h

/-- `font-size` is inherited (hyphenated names are looked up in their underscore form), `width` is not. -/
example : select (β := Nat) "font_size" true (.pending .invalid) = .ok .parent ∧
    select (β := Nat) "width" true (.pending .invalid) = .ok .initial ∧
    select (β := Nat) "font_size" false (.pending .invalid) = .ok .initial := by decide

/-- Regression (`html{--a:inherit; width:var(--a)}`, repaired by 582f36b): on the root element `inherit` out of a
`var()` is the initial value, exactly like the literal `width: inherit`. -/
example : select (β := Nat) "width" false .inheritKw = .ok .initial ∧
    select (β := Nat) "width" false (.pending .inheritKw) = .ok .initial ∧
    select (β := Nat) "font_size" false (.pending .inheritKw) = .ok .initial := by decide

/-! ### One `Pending` object serves every element: its answers must not depend on its history -/

/-- **What `solve` answers is a function of the substituted tokens alone**: the flag left by earlier calls (other
elements matched by the same rule, other longhands of the same shorthand) changes nothing but the logging. -/
theorem solve_result_stateless {β : Type} (reported reported' noTokens : Bool) (validate : R β) :
    (solve reported noTokens validate).result = (solve reported' noTokens validate).result := by
  unfold solve
  cases noTokens
  · simp only [Bool.false_eq_true, if_false]
    cases validate with
    | ok v => rfl
    | error f => cases f <;> rfl
  · rfl

/-- `solve` is `validate`, except that no tokens at all is `InvalidValues`. -/
theorem solve_result {β : Type} (reported noTokens : Bool) (validate : R β) :
    (solve reported noTokens validate).result = if noTokens then .error .invalid else validate := by
  unfold solve
  cases noTokens
  · simp only [Bool.false_eq_true, if_false]
    cases validate with
    | ok v => rfl
    | error f => cases f <;> rfl
  · rfl

/-- **Element independence**: in any sequence of calls on one shared object, from any initial flag, every call
gets exactly what it would get alone on a fresh object — `var(--x)` is substituted element by element, and an
element whose substituted value is invalid has no effect on the others. -/
theorem solve_seq_independent {β : Type} :
    ∀ (reported : Bool) (calls : List (Bool × R β)),
      (solveSeq reported calls).map (·.result) = calls.map fun c => (solve false c.1 c.2).result
  | _, [] => rfl
  | reported, (nt, v) :: rest => by
    simp only [solveSeq, List.map_cons]
    rw [solve_seq_independent _ rest, solve_result_stateless reported false nt v]

/-- The flag only ever goes up, and a warning is logged exactly when it goes up: at most one warning per
declaration, at its first invalid substitution. -/
theorem solve_warns_once {β : Type} (reported noTokens : Bool) (validate : R β) :
    let o := solve reported noTokens validate
    (reported = true → o.reported = true ∧ o.warned = false) ∧
    (o.warned = true ↔ reported = false ∧ o.result = .error .invalid) := by
  unfold solve
  cases noTokens <;> cases reported
  all_goals simp only [Bool.false_eq_true, if_false, if_true]
  all_goals first
    | (cases validate with
        | ok v => simp
        | error f => cases f <;> simp)
    | simp

/-- Non-vacuity / regression shape of seeded change C07-4: `div{width:var(--w)}` over three elements with
`--w: 40px`, `red`, `60px` — the third element gets its 60px although the second was invalid, one warning. -/
example :
    (solveSeq false [(false, .ok "40px"), (false, (.error .invalid : R String)), (false, .ok "60px")]).map
      (fun o => (o.result, o.warned)) =
    [(.ok "40px", false), (.error .invalid, true), (.ok "60px", false)] := by decide

end PendingValues

end Wp.C07
