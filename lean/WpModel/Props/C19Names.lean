/-
C19 — the `/Dests` name tree of `generate_pdf` (`sorted(pdf_names, key=key_bytes)`, since 09da5a8): the written order
is a function of the *set* of anchors only — sorted by the bytes of the keys as pydyf writes them — so it cannot
depend on the order in which pages / anchors were met, on the selection order of `Document.copy`, on the zoom or on
anything else of the history.

  `bytesLe_total` / `bytesLe_trans` / `bytesLe_antisymm`   Python's `bytes` order is a total order
  `keyBytes_injective`                                     different names are written as different keys
  `dests_sorted`                                           what `generate_pdf` writes is sorted by key bytes
  `dests_order_canonical`                                  two successful writes with the same destinations (in any
                                                           order) write the same `/Dests` array
  `ascii_before_non_ascii`                                 every ASCII key precedes every UTF-16 key (the repair)
-/
import WpModel.Model.PdfZoom
import Mathlib.Tactic.SplitIfs

namespace Wp.C19.Names
open Wp Wp.CopyPages Wp.PdfZoom

theorem bytesLe_refl (a : List Nat) : bytesLe a a = true := by
  induction a with
  | nil => rfl
  | cons x xs ih => simp [bytesLe, ih]

theorem bytesLe_total (a b : List Nat) : (bytesLe a b || bytesLe b a) = true := by
  induction a generalizing b with
  | nil => simp [bytesLe]
  | cons x xs ih =>
    cases b with
    | nil => simp [bytesLe]
    | cons y ys =>
      simp only [bytesLe]
      by_cases h1 : x < y
      · simp [h1]
      · by_cases h2 : y < x
        · simp [h1, h2]
        · simp only [h1, h2, if_false]; exact ih ys

theorem bytesLe_trans (a b c : List Nat) (h1 : bytesLe a b = true) (h2 : bytesLe b c = true) : bytesLe a c = true := by
  induction a generalizing b c with
  | nil => simp [bytesLe]
  | cons x xs ih =>
    cases b with
    | nil => simp [bytesLe] at h1
    | cons y ys =>
      cases c with
      | nil => simp [bytesLe] at h2
      | cons z zs =>
        simp only [bytesLe] at h1 h2 ⊢
        by_cases xy : x < y
        · by_cases yz : y < z
          · have : x < z := Nat.lt_trans xy yz
            simp [this]
          · by_cases zy : z < y
            · simp [yz, zy] at h2
            · have e : y = z := by omega
              subst e; simp [xy]
        · by_cases yx : y < x
          · simp [xy, yx] at h1
          · have e : x = y := by omega
            subst e
            simp only [xy, if_false] at h1
            by_cases xz : x < z
            · simp [xz]
            · by_cases zx : z < x
              · simp [xz, zx] at h2
              · simp only [xz, zx, if_false] at h2 ⊢
                exact ih ys zs h1 h2

theorem bytesLe_antisymm (a b : List Nat) (h1 : bytesLe a b = true) (h2 : bytesLe b a = true) : a = b := by
  induction a generalizing b with
  | nil => cases b with
    | nil => rfl
    | cons y ys => simp [bytesLe] at h2
  | cons x xs ih =>
    cases b with
    | nil => simp [bytesLe] at h1
    | cons y ys =>
      simp only [bytesLe] at h1 h2
      by_cases xy : x < y
      · have : ¬ y < x := by omega
        simp [xy, this] at h2
      · by_cases yx : y < x
        · simp [xy, yx] at h1
        · have e : x = y := by omega
          subst e
          simp only [xy, if_false] at h1 h2
          rw [ih ys h1 h2]

private theorem utf16be_length (c : Char) : (utf16be c).length = 2 ∨ (utf16be c).length = 4 := by
  simp only [utf16be]; split_ifs <;> simp

/-- The two (or four) bytes of a character determine it. -/
private theorem utf16be_prefix_inj (c d : Char) (r s : List Nat) (h : utf16be c ++ r = utf16be d ++ s) :
    c = d ∧ r = s := by
  have hc := c.valid
  have hd := d.valid
  have key : c.toNat = d.toNat ∧ r = s := by
    have vc : c.toNat < 0x110000 := by
      have := c.valid; simp only [Char.toNat]; rcases this with h | h <;> omega
    have vd : d.toNat < 0x110000 := by
      have := d.valid; simp only [Char.toNat]; rcases this with h | h <;> omega
    have sc : ¬ (0xD800 ≤ c.toNat ∧ c.toNat ≤ 0xDFFF) := by
      have := c.valid; simp only [Char.toNat]; rcases this with h | h <;> omega
    have sd : ¬ (0xD800 ≤ d.toNat ∧ d.toNat ≤ 0xDFFF) := by
      have := d.valid; simp only [Char.toNat]; rcases this with h | h <;> omega
    unfold utf16be at h
    simp only at h
    split_ifs at h with h1 h2 h2
    · simp only [List.cons_append, List.nil_append, List.cons.injEq] at h
      exact ⟨by omega, h.2.2⟩
    · simp only [List.cons_append, List.nil_append, List.cons.injEq] at h
      exfalso; omega
    · simp only [List.cons_append, List.nil_append, List.cons.injEq] at h
      exfalso; omega
    · simp only [List.cons_append, List.nil_append, List.cons.injEq] at h
      exact ⟨by omega, h.2.2.2.2⟩
  refine ⟨?_, key.2⟩
  apply Char.ext
  apply UInt32.toNat_inj.mp
  exact key.1

private theorem flatMap_utf16be_inj (a b : List Char) (h : a.flatMap utf16be = b.flatMap utf16be) : a = b := by
  induction a generalizing b with
  | nil =>
    cases b with
    | nil => rfl
    | cons d ds =>
      simp only [List.flatMap_nil, List.flatMap_cons] at h
      have := congrArg List.length h
      rcases utf16be_length d with hl | hl <;> simp [hl] at this <;> omega
  | cons c cs ih =>
    cases b with
    | nil =>
      simp only [List.flatMap_nil, List.flatMap_cons] at h
      have := congrArg List.length h
      rcases utf16be_length c with hl | hl <;> simp [hl] at this
    | cons d ds =>
      simp only [List.flatMap_cons] at h
      obtain ⟨e1, e2⟩ := utf16be_prefix_inj c d _ _ h
      rw [e1, ih ds e2]

/-- Different names are written as different keys (so the sort never meets a tie between different names). -/
theorem keyBytes_injective (a b : String) (h : keyBytes a = keyBytes b) : a = b := by
  unfold keyBytes at h
  apply String.toList_inj.mp
  by_cases ha : a.toList.all (fun c => decide (c.toNat < 128)) = true
  · by_cases hb : b.toList.all (fun c => decide (c.toNat < 128)) = true
    · simp only [ha, hb, if_true] at h
      have inj : Function.Injective Char.toNat := by
        intro c d hcd
        apply Char.ext
        exact UInt32.toNat_inj.mp hcd
      exact (List.map_inj_right (fun x y hxy => inj hxy)).mp h
    · simp only [ha, hb, if_true] at h
      -- an ASCII key holds bytes < 128 only, a UTF-16 key starts with 0xFE
      exfalso
      cases hl : a.toList with
      | nil => rw [hl] at h; simp at h
      | cons c cs =>
        rw [hl] at h ha
        simp only [List.map_cons, Bool.false_eq_true, if_false, List.cons.injEq] at h
        simp only [List.all_cons, Bool.and_eq_true, decide_eq_true_eq] at ha
        omega
  · by_cases hb : b.toList.all (fun c => decide (c.toNat < 128)) = true
    · simp only [ha, hb, if_true] at h
      exfalso
      cases hl : b.toList with
      | nil => rw [hl] at h; simp at h
      | cons c cs =>
        rw [hl] at h hb
        simp only [List.map_cons, Bool.false_eq_true, if_false, List.cons.injEq] at h
        simp only [List.all_cons, Bool.and_eq_true, decide_eq_true_eq] at hb
        omega
    · simp only [ha, hb, Bool.false_eq_true, if_false, List.cons.injEq, true_and] at h
      exact flatMap_utf16be_inj _ _ h

/-- The order `generate_pdf` sorts the destinations by. -/
def destLe (a b : Dest) : Bool := bytesLe (keyBytes a.name) (keyBytes b.name)

theorem destLe_trans (a b c : Dest) (h1 : destLe a b = true) (h2 : destLe b c = true) : destLe a c = true :=
  bytesLe_trans _ _ _ h1 h2

theorem destLe_total (a b : Dest) : (destLe a b || destLe b a) = true := bytesLe_total _ _

theorem sortDests_eq (ds : List Dest) : sortDests ds = ds.mergeSort destLe := rfl

theorem sortDests_sorted (ds : List Dest) : (sortDests ds).Pairwise (fun a b => destLe a b = true) := by
  rw [sortDests_eq]
  exact List.pairwise_mergeSort (le := destLe) destLe_trans destLe_total ds

/-- **dests_sorted**: whatever the pages, the zoom and the variant, the `/Dests` array of a successful `generate_pdf`
is sorted by the bytes of its keys as written (ISO 32000-1 7.9.6). -/
theorem dests_sorted (z : Rat) (ua : Bool) (d : Document) (o : PdfOut) (h : generatePdf z ua d = .ok o) :
    o.names.Pairwise (fun a b => destLe a b = true) := by
  simp only [generatePdf] at h
  split at h
  · cases h
  · split at h
    · cases h
    · split at h
      · cases h
      simp only [Except.ok.injEq] at h
      subst h
      exact sortDests_sorted _

/-- A list sorted by key bytes whose names are pairwise different is determined by its set of elements. -/
private theorem sorted_perm_eq (l1 l2 : List Dest) (hp : l1.Perm l2)
    (h1 : l1.Pairwise (fun a b => destLe a b = true)) (h2 : l2.Pairwise (fun a b => destLe a b = true))
    (hn : (l1.map (·.name)).Nodup) : l1 = l2 := by
  induction l1 generalizing l2 with
  | nil => exact (List.perm_nil.mp hp.symm).symm ▸ rfl
  | cons a as ih =>
    cases l2 with
    | nil => exact absurd hp.length_eq (by simp)
    | cons b bs =>
      have hab : a = b := by
        by_cases e : a = b
        · exact e
        · exfalso
          have ha : a ∈ bs := by
            have : a ∈ b :: bs := hp.subset (by simp)
            simpa [e] using this
          have hb : b ∈ as := by
            have : b ∈ a :: as := hp.symm.subset (by simp)
            simp only [List.mem_cons] at this
            rcases this with this | this
            · exact absurd this.symm e
            · exact this
          have l1 : destLe a b = true := (List.pairwise_cons.mp h1).1 b hb
          have l2 : destLe b a = true := (List.pairwise_cons.mp h2).1 a ha
          have hk := keyBytes_injective _ _ (bytesLe_antisymm _ _ l1 l2)
          simp only [List.map_cons, List.nodup_cons, List.mem_map, not_exists, not_and] at hn
          exact hn.1 b hb hk.symm
      subst hab
      have hp' : as.Perm bs := List.Perm.cons_inv hp
      rw [ih bs hp' (List.pairwise_cons.mp h1).2 (List.pairwise_cons.mp h2).2
        (by simp only [List.map_cons, List.nodup_cons] at hn; exact hn.2)]

/-- **dests_order_canonical**: `sortDests` gives the same array for any two orders of the same destinations (names
pairwise different, as `resolve_links` guarantees): the written `/Dests` does not depend on the order in which the
anchors were met — page order, selection order of `copy`, dict order. -/
theorem dests_order_canonical (ds1 ds2 : List Dest) (hp : ds1.Perm ds2) (hn : (ds1.map (·.name)).Nodup) :
    sortDests ds1 = sortDests ds2 := by
  have s1 := sortDests_sorted ds1
  have s2 := sortDests_sorted ds2
  have p1 : (sortDests ds1).Perm ds1 := by rw [sortDests_eq]; exact List.mergeSort_perm _ _
  have p2 : (sortDests ds2).Perm ds2 := by rw [sortDests_eq]; exact List.mergeSort_perm _ _
  refine sorted_perm_eq _ _ (p1.trans (hp.trans p2.symm)) s1 s2 ?_
  exact ((p1.map (·.name)).nodup_iff).mpr hn

/-- **ascii_before_non_ascii** (the repair 09da5a8): a key written as ASCII precedes every key written as UTF-16
(`FE FF …`), whatever the code points — e.g. `b` before `aé`, which `sorted(pdf_names)` on the Python strings put the
other way round. -/
theorem ascii_before_non_ascii (a b : String) (ha : a.toList.all (fun c => decide (c.toNat < 128)) = true)
    (hb : b.toList.all (fun c => decide (c.toNat < 128)) = false) :
    bytesLe (keyBytes a) (keyBytes b) = true ∧ (a ≠ "" → bytesLe (keyBytes b) (keyBytes a) = false) := by
  unfold keyBytes
  simp only [ha, hb, if_true, Bool.false_eq_true, if_false]
  cases hl : a.toList with
  | nil => simp [bytesLe]
  | cons c cs =>
    rw [hl] at ha
    simp only [List.all_cons, Bool.and_eq_true, decide_eq_true_eq] at ha
    have h1 : c.toNat < 0xFE := by omega
    have h2 : ¬ 0xFE < c.toNat := by omega
    simp [bytesLe, h1, h2]

/-- Non-vacuity / regression example: anchors `b`, `aé`, `😀`, `Ａ` (U+FF21) are written in the order
`b, aé, 😀, Ａ` — each precedes the next in key bytes and not the other way round (code-point order would be
`aé, b, Ａ, 😀`). -/
example :
    (bytesLe (keyBytes "b") (keyBytes "aé") && bytesLe (keyBytes "aé") (keyBytes "😀") &&
     bytesLe (keyBytes "😀") (keyBytes "Ａ")) = true ∧
    (bytesLe (keyBytes "aé") (keyBytes "b") || bytesLe (keyBytes "😀") (keyBytes "aé") ||
     bytesLe (keyBytes "Ａ") (keyBytes "😀")) = false ∧
    keyBytes "aé" = [0xFE, 0xFF, 0x00, 0x61, 0x00, 0xE9] ∧ keyBytes "😀" = [0xFE, 0xFF, 0xD8, 0x3D, 0xDE, 0x00] := by
  decide +kernel

end Wp.C19.Names
