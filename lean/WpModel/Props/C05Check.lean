/-
C05 — soundness of the executable checker of used values (`Model/UsedCheck.lean`, run by the harness on
every box of rendered wide-grammar documents): what `usedOk … = true` means, clause by clause, and that
the checker accepts what the block-tree model produces (refinement, Props/C05Refine.lean).
Core Lean only.
-/
import WpModel.Model.UsedCheck

namespace Wp.C05Check
open Wp Wp.UsedCheck

set_option linter.unusedSimpArgs false

/-- `near` is the two-sided bound. -/
theorem near_iff (eps a b : Rat) : near eps a b = true ↔ a - b ≤ eps ∧ b - a ≤ eps := by
  simp [near]

/-- The clauses of one box as a proposition. -/
structure NodeSpec (eps : Rat) (c : Ctx) (b : UBox) : Prop where
  /-- (a) non-negative sizes -/
  sizes : 0 ≤ b.w ∧ 0 ≤ b.h ∧ 0 ≤ b.pl ∧ 0 ≤ b.pr ∧ 0 ≤ b.pt ∧ 0 ≤ b.pb ∧ 0 ≤ b.bl ∧ 0 ≤ b.br ∧
    0 ≤ b.bt ∧ 0 ≤ b.bb
  /-- (c) min/max width -/
  minW : b.kind = .flow → b.minW ≤ b.w + eps
  maxW : b.kind = .flow → ∀ m, b.maxW = some m → b.minW ≤ m → b.w ≤ m + eps
  /-- (c) min/max height of an unfragmented box -/
  minH : b.kind = .flow → b.whole = true → b.minH ≤ b.h + eps
  maxH : b.kind = .flow → b.whole = true → ∀ m, b.maxH = some m → b.minH ≤ m → b.h ≤ m + eps
  /-- (b)(f) start edge in ltr, end edge in rtl -/
  edgeLtr : b.kind = .flow → c.prtl = false → b.x - c.cx ≤ eps ∧ c.cx - b.x ≤ eps
  edgeRtl : b.kind = .flow → c.prtl = true →
    (b.x + b.outer) - (c.cx + c.pw) ≤ eps ∧ (c.cx + c.pw) - (b.x + b.outer) ≤ eps
  /-- (b) the equation, or evidence of over-constraint -/
  equation : b.kind = .flow →
    (b.outer - c.pw ≤ eps ∧ c.pw - b.outer ≤ eps) ∨ overConstrained eps c b = true

/-- **Soundness, one box.** -/
theorem nodeOk_sound (eps : Rat) (c : Ctx) (b : UBox) (h : nodeOk eps c b = true) : NodeSpec eps c b := by
  unfold nodeOk nodeVerdict at h
  by_cases h1 : nonneg b = true
  · simp only [h1, Bool.not_true, Bool.false_eq_true, if_false] at h
    have hs : 0 ≤ b.w ∧ 0 ≤ b.h ∧ 0 ≤ b.pl ∧ 0 ≤ b.pr ∧ 0 ≤ b.pt ∧ 0 ≤ b.pb ∧ 0 ≤ b.bl ∧ 0 ≤ b.br ∧
        0 ≤ b.bt ∧ 0 ≤ b.bb := by
      simpa [nonneg, and_assoc] using h1
    by_cases hk : b.kind = .flow
    · have hk' : (b.kind != Kind.flow) = false := by simp [hk]
      simp only [hk', Bool.false_eq_true, if_false] at h
      by_cases h2 : minMaxW eps b = true
      · simp only [h2, Bool.not_true, Bool.false_eq_true, if_false] at h
        by_cases h3 : minMaxH eps b = true
        · simp only [h3, Bool.not_true, Bool.false_eq_true, if_false] at h
          by_cases h4 : edge eps c b = true
          · simp only [h4, Bool.not_true, Bool.false_eq_true, if_false] at h
            by_cases h5 : equation eps c b = true
            · refine ⟨hs, ?_, ?_, ?_, ?_, ?_, ?_, ?_⟩
              · intro _; simp only [minMaxW, Bool.and_eq_true, decide_eq_true_eq] at h2; exact h2.1
              · intro _ m hm hle
                simp only [minMaxW, Bool.and_eq_true, hm] at h2
                have := h2.2
                simp only [Bool.or_eq_true, Bool.not_eq_true', decide_eq_false_iff_not, decide_eq_true_eq] at this
                rcases this with h' | h'
                · exact absurd hle h'
                · exact h'
              · intro _ hw
                simp only [minMaxH, hw, Bool.not_true, Bool.false_or, Bool.and_eq_true, decide_eq_true_eq] at h3
                exact h3.1
              · intro _ hw m hm hle
                simp only [minMaxH, hw, Bool.not_true, Bool.false_or, Bool.and_eq_true, hm] at h3
                have := h3.2
                simp only [Bool.or_eq_true, Bool.not_eq_true', decide_eq_false_iff_not, decide_eq_true_eq] at this
                rcases this with h' | h'
                · exact absurd hle h'
                · exact h'
              · intro _ hp
                simp only [edge, hp, Bool.false_eq_true, if_false] at h4
                exact (near_iff _ _ _).mp h4
              · intro _ hp
                simp only [edge, hp, if_true] at h4
                exact (near_iff _ _ _).mp h4
              · intro _
                simp only [equation, Bool.or_eq_true] at h5
                rcases h5 with h' | h'
                · exact Or.inl ((near_iff _ _ _).mp h')
                · exact Or.inr h'
            · simp [h5] at h
          · simp [h4] at h
        · simp [h3] at h
      · simp [h2] at h
    · refine ⟨hs, ?_, ?_, ?_, ?_, ?_, ?_, ?_⟩ <;> intro hk' <;> exact absurd hk' hk
  · simp [h1] at h

/-- **Soundness, every box of the tree** with the context of its own parent. -/
theorem usedOk_nodes (eps : Rat) (c : Ctx) (t : UTree) (h : usedOk eps c t = true) :
    ∀ p ∈ nodes c t, NodeSpec eps p.1 p.2 := by
  intro p hp
  simp only [usedOk, Bool.and_eq_true, List.all_eq_true] at h
  exact nodeOk_sound eps p.1 p.2 (h.1 p hp)

/-- (f) **children inside the parent's content box, horizontally**: a flow box that passes the checker,
fills its parent (the equation holds) and has non-negative margins has its border box inside the
parent's content box `[cx, cx + pw]` (within the tolerance), in ltr and in rtl. -/
theorem flow_inside_parent (eps : Rat) (c : Ctx) (b : UBox) (h : NodeSpec eps c b) (hk : b.kind = .flow)
    (hml : 0 ≤ b.ml) (hmr : 0 ≤ b.mr) (hfill : b.outer - c.pw ≤ eps ∧ c.pw - b.outer ≤ eps) :
    c.cx - 2 * eps ≤ b.x + b.ml ∧ b.x + b.ml + b.bl + b.pl + b.w + b.pr + b.br ≤ c.cx + c.pw + 2 * eps := by
  cases hp : c.prtl with
  | false =>
    obtain ⟨h1, h2⟩ := h.edgeLtr hk hp
    unfold UBox.outer at hfill
    constructor <;> grind
  | true =>
    obtain ⟨h1, h2⟩ := h.edgeRtl hk hp
    unfold UBox.outer at hfill h1 h2
    constructor <;> grind

/-! ### stacking -/

/-- A list of children is stacked from a known position: what `stackKids … = (true, _)` means. -/
theorem stackKids_tail (eps : Rat) (pos : Option Rat) (t : UTree) (ts : List UTree)
    (h : (stackKids eps pos (t :: ts)).1 = true) : ∃ pos', (stackKids eps pos' ts).1 = true := by
  unfold stackKids at h
  split at h
  · exact ⟨_, h⟩
  · exact ⟨_, h⟩
  · split at h
    · simp only [Bool.and_eq_true] at h
      exact ⟨_, h.2⟩
    · exact ⟨_, h⟩

/-- The first child is at or below the current position. -/
theorem stackKids_first (eps p : Rat) (t : UTree) (ts : List UTree)
    (hk : t.box.kind = .flow ∨ t.box.kind = .line) (hn : nonNegMargins t = true)
    (h : (stackKids eps (some p) (t :: ts)).1 = true) : p ≤ t.box.borderTop + eps := by
  unfold stackKids at h
  rcases hk with hk | hk <;> simp only [hk, hn, if_true, Bool.and_eq_true, decide_eq_true_eq] at h <;> exact h.1

/-- Two consecutive children at the head of the list. -/
theorem stackKids_head_pair (eps : Rat) (pos : Option Rat) (a b : UTree) (rest : List UTree)
    (ha : a.box.kind = .flow ∨ a.box.kind = .line) (hb : b.box.kind = .flow ∨ b.box.kind = .line)
    (hna : nonNegMargins a = true) (hnb : nonNegMargins b = true) (hne : isEmpty a = false)
    (h : (stackKids eps pos (a :: b :: rest)).1 = true) :
    a.box.borderBottom ≤ b.box.borderTop + eps := by
  have h2 : (stackKids eps (some a.box.borderBottom) (b :: rest)).1 = true := by
    unfold stackKids at h
    rcases ha with ha | ha <;>
      simp only [ha, hna, hne, if_true, Bool.false_eq_true, if_false, Bool.and_eq_true] at h <;> exact h.2
  exact stackKids_first eps _ b rest hb hnb h2

/-- (g) **no overlap**: in a list accepted by `stackKids`, two consecutive in-flow children (blocks or
lines) without negative margins in their subtrees do not overlap: the first has no content, or its bottom
border edge is at or above the top border edge of the second (within the tolerance). -/
theorem stackKids_adjacent (eps : Rat) : ∀ (kids : List UTree) (pos : Option Rat),
    (stackKids eps pos kids).1 = true → ∀ (i : Nat) (a b : UTree), kids[i]? = some a → kids[i + 1]? = some b →
    (a.box.kind = .flow ∨ a.box.kind = .line) → (b.box.kind = .flow ∨ b.box.kind = .line) →
    nonNegMargins a = true → nonNegMargins b = true →
    isEmpty a = true ∨ a.box.borderBottom ≤ b.box.borderTop + eps
  | [], _ => by intro _ i a b ha; simp at ha
  | x :: xs, pos => by
    intro h i a b ha hb hka hkb hna hnb
    cases i with
    | zero =>
      simp only [List.getElem?_cons_zero, Option.some.injEq] at ha
      subst ha
      cases xs with
      | nil => simp at hb
      | cons y ys =>
        simp only [Nat.zero_add, List.getElem?_cons_succ, List.getElem?_cons_zero, Option.some.injEq] at hb
        subst hb
        cases he : isEmpty x with
        | true => exact Or.inl rfl
        | false => exact Or.inr (stackKids_head_pair eps pos x y ys hka hkb hna hnb he h)
    | succ i =>
      simp only [List.getElem?_cons_succ] at ha hb
      obtain ⟨pos', h'⟩ := stackKids_tail eps pos x xs h
      exact stackKids_adjacent eps xs pos' h' i a b ha hb hka hkb hna hnb

/-- What `kidsOk` gives for the children of a flow box. -/
theorem kidsOk_stack (eps : Rat) (b : UBox) (kids : List UTree) (hk : b.kind = .flow)
    (h : kidsOk eps (.mk b kids) = true) : (stackKids eps (some b.contentTop) kids).1 = true := by
  unfold kidsOk kidsVerdict at h
  have hk' : (b.kind != Kind.flow) = false := by simp [hk]
  simp only [hk', Bool.false_eq_true, if_false] at h
  cases hs : (stackKids eps (some b.contentTop) kids).1 with
  | true => rfl
  | false => simp [hs] at h

/-- (g) **Soundness of the stacking clause on whole trees**: in every subtree of an accepted tree whose
root is a flow box, consecutive in-flow children without negative margins do not overlap, and the first
one starts at or below the top of the parent's content box. -/
theorem usedOk_no_overlap (eps : Rat) (c : Ctx) (t : UTree) (h : usedOk eps c t = true)
    (b : UBox) (kids : List UTree) (hs : UTree.mk b kids ∈ subtrees t) (hk : b.kind = .flow) :
    (∀ (i : Nat) (x y : UTree), kids[i]? = some x → kids[i + 1]? = some y →
      (x.box.kind = .flow ∨ x.box.kind = .line) → (y.box.kind = .flow ∨ y.box.kind = .line) →
      nonNegMargins x = true → nonNegMargins y = true →
      isEmpty x = true ∨ x.box.borderBottom ≤ y.box.borderTop + eps) ∧
    (∀ x rest, kids = x :: rest → (x.box.kind = .flow ∨ x.box.kind = .line) → nonNegMargins x = true →
      b.contentTop ≤ x.box.borderTop + eps) := by
  simp only [usedOk, Bool.and_eq_true, List.all_eq_true] at h
  have hst := kidsOk_stack eps b kids hk (h.2 _ hs)
  refine ⟨stackKids_adjacent eps kids _ hst, ?_⟩
  intro x rest e hkx hnx
  subst e
  exact stackKids_first eps _ x rest hkx hnx hst

/-! Non-vacuity: a 100px parent at x = 10 with two children, the second one centred. -/

def exChild (y w ml mr : Rat) (mlA mrA : Bool) : UBox :=
  { x := 10, y := y, w := w, h := 20, ml := ml, mr := mr, mt := 0, mb := 5, pl := 0, pr := 0, pt := 0, pb := 0,
    bl := 0, br := 0, bt := 0, bb := 0, minW := 0, maxW := none, minH := 0, maxH := none,
    mlAuto := mlA, mrAuto := mrA, wAuto := false, hAuto := false, kind := .flow, rtl := false, whole := true }

def exTree : UTree :=
  .mk { exChild 0 100 0 0 false false with h := 50, wAuto := true, hAuto := true }
    [.mk (exChild 0 100 0 0 false false) [], .mk (exChild 25 40 30 30 true true) []]

example : usedOk 0 { cx := 10, pw := 100, prtl := false } exTree = true := by decide +kernel

/-- …and the checker rejects an overlap, a negative height, a box that does not fill its parent. -/
example : firstBad 0 { cx := 10, pw := 100, prtl := false }
    (.mk { exChild 0 100 0 0 false false with h := 50, wAuto := true, hAuto := true }
      [.mk (exChild 0 100 0 0 false false) [], .mk (exChild 15 40 30 30 true true) []]) = some (0, "stack") := by
  decide +kernel

example : firstBad 0 { cx := 10, pw := 100, prtl := false }
    (.mk { exChild 0 100 0 0 false false with h := -3 } []) = some (0, "nonneg") := by decide +kernel

example : firstBad 0 { cx := 10, pw := 100, prtl := false }
    (.mk (exChild 0 40 30 20 true true) []) = some (0, "equation") := by decide +kernel

end Wp.C05Check
