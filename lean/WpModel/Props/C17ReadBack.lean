/-
C17 — "with glyphs that map back through the font's ToUnicode table to its text", end to end (eighth file
of C17): the two halves of the map-back composed.

  glyph ids of a text-showing operator --(ToUnicode CMap: `ToUnicode.decode`)--> UTF-16 code units
  UTF-16 code units --(what a PDF reader does: `Utf16.decode`)--> characters

`Props/C17Text.tounicode_maps_back` is the first arrow (on the table `draw_first_line` records),
`Props/C17Utf16.decode_encodeAll` the second (on the values `build_fonts_dictionary` writes); both models are
tied to the real code by the sections `tounicode` and `tounicode-written`.  Here: the composition gives back
the text of the text boxes, character by character, characters above U+FFFF included.
-/
import WpModel.Props.C17Text
import WpModel.Props.C17Utf16

namespace Wp.C17
open Wp Wp.ToUnicode

/-- What `build_fonts_dictionary` writes for the clusters (glyph, text as code points) drawn with a font:
the same glyphs with the UTF-16 code units of their texts. -/
def writtenPairs (pairs : List (Nat × List Nat)) : List (Nat × List Nat) :=
  pairs.map (fun p => (p.1, Utf16.encodeAll p.2))

private theorem map_fst_writtenPairs (pairs : List (Nat × List Nat)) :
    (writtenPairs pairs).map (·.1) = pairs.map (·.1) := by
  simp [writtenPairs, List.map_map, Function.comp_def]

private theorem flatMap_snd_writtenPairs (pairs : List (Nat × List Nat)) :
    (writtenPairs pairs).flatMap (·.2) = Utf16.encodeAll (pairs.flatMap (·.2)) := by
  induction pairs with
  | nil => rfl
  | cons p ps ih =>
    simp only [writtenPairs, List.map_cons, List.flatMap_cons] at ih ⊢
    rw [ih]
    simp [Utf16.encodeAll, List.flatMap_append]

/-- **Map-back, end to end.**  Take the clusters `(glyph, text)` drawn with a font (texts as Unicode scalar
values), in which a glyph always stands for the same text (and agrees with what the table already holds).
Reading the glyph ids of the runs through the written ToUnicode table and then reading the resulting
UTF-16 code units as a PDF reader does yields exactly the concatenation of the cluster texts — the text of
the text boxes, whatever plane its characters are in. -/
theorem glyphs_read_back_as_text (m : CMap) (pairs : List (Nat × List Nat))
    (hf : Functional m (writtenPairs pairs)) (hs : ∀ p ∈ pairs, ∀ cp ∈ p.2, Utf16.Scalar cp) :
    (decode (recordAll m (writtenPairs pairs)) (pairs.map (·.1))).map Utf16.decode =
      some (pairs.flatMap (·.2)) := by
  have h1 := tounicode_maps_back m (writtenPairs pairs) hf
  rw [map_fst_writtenPairs, flatMap_snd_writtenPairs] at h1
  rw [h1, Option.map_some]
  congr 1
  apply Utf16.decode_encodeAll
  intro cp hcp
  rcases List.mem_flatMap.mp hcp with ⟨p, hp, hcp'⟩
  exact hs p hp cp hcp'

/-- "a𝟘" drawn with glyphs 68 and 5592: the second text is outside the BMP (two units in the table). -/
example : writtenPairs [(68, [0x61]), (5592, [0x1D7D8])] = [(68, [0x61]), (5592, [0xD835, 0xDFD8])] ∧
    (decode (recordAll [] (writtenPairs [(68, [0x61]), (5592, [0x1D7D8])])) [68, 5592]).map Utf16.decode =
      some [0x61, 0x1D7D8] := by
  decide +kernel

/-- The hypotheses hold on it. -/
example : Functional [] (writtenPairs [(68, [0x61]), (5592, [0x1D7D8])]) ∧
    (∀ p ∈ [((68 : Nat), [(0x61 : Nat)]), (5592, [0x1D7D8])], ∀ cp ∈ p.2, Utf16.Scalar cp) := by
  refine ⟨⟨fun p _ t h => by simp [lookup] at h, by decide +kernel⟩, ?_⟩
  intro p hp cp hcp
  simp only [List.mem_cons, List.mem_nil_iff, or_false] at hp
  rcases hp with rfl | rfl <;> simp only [List.mem_cons, List.mem_nil_iff, or_false] at hcp <;> subst hcp <;>
    (unfold Utf16.Scalar; omega)

end Wp.C17
