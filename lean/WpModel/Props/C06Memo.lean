/-
C06 — `lazy_eq_eager`: the memoising `ComputedStyle` dict returns, for every sequence of key reads
in any order (with repeats), exactly the values of the function it memoises (`Style.computedKey`),
provided no exception strikes after an early `self[key] = value` (which cannot happen on the root
element).  The hypothesis is necessary: `Witness.C06.stale_after_exception`.
Core Lean only.
-/
import WpModel.Model.StyleMemo
import WpModel.Props.C06

namespace Wp.C06
open Wp Wp.Cascade Wp.Computed Wp.Style Wp.StyleMemo Wp.Gen.Units

/-- Every stored value is the value of the memoised function. -/
def Sound (c : Ctx) (m : Memo) : Prop := ∀ k v, lookup k m = some v → pure' c k = .ok v

/-- No read of this style can fail after an early store. -/
def NoStale (c : Ctx) : Prop := ∀ key, staleAfterFailure c.e c.parent key = none

theorem sound_nil (c : Ctx) : Sound c [] := by
  intro k v h; simp [lookup] at h

private theorem sound_cons (c : Ctx) (m : Memo) (key : String) (r : Val) (hs : Sound c m)
    (hr : pure' c key = .ok r) : Sound c ((key, r) :: m) := by
  intro k v h
  simp only [lookup] at h
  by_cases hk : (key == k) = true
  · simp [hk] at h
    have : key = k := by simpa using hk
    subst this; subst h; exact hr
  · simp [hk] at h
    exact hs k v h

private theorem peek_eq (c : Ctx) (m : Memo) (hs : Sound c m) (k : String) : peek c m k = pure' c k := by
  unfold peek
  cases h : lookup k m with
  | none => rfl
  | some v => exact (hs k v h).symm

theorem float_display_have_computers :
    lookup "float" computerFunctions ≠ none ∧ lookup "display" computerFunctions ≠ none := by decide

private theorem pure_of_no_computer (c : Ctx) (k : String) (h : lookup k computerFunctions = none) :
    pure' c k = (specified c.e c.parent k).map (fun r => r.1) := by
  have hf : (k == "float") = false := by
    cases hk : k == "float" with
    | false => rfl
    | true =>
      have : k = "float" := by simpa using hk
      subst this; exact absurd h float_display_have_computers.1
  have hd : (k == "display") = false := by
    cases hk : k == "display" with
    | false => rfl
    | true =>
      have : k = "display" := by simpa using hk
      subst this; exact absurd h float_display_have_computers.2
  unfold pure' computedKey
  simp only [hf, hd, Bool.false_eq_true, if_false]
  unfold computedKeyCore compute
  rw [h]
  cases specified c.e c.parent k with
  | error err => rfl
  | ok r =>
    obtain ⟨v, st⟩ := r
    cases st <;> rfl

/-- Under a sound dict the computing functions see exactly the environment of the pure function. -/
private theorem envM_eq (c : Ctx) (m : Memo) (hs : Sound c m) :
    envM c m = fullEnv c.e c.parent c.root c.ex c.ch := by
  have h1 : (fun _ : Unit => (peek c m "font_size").bind numOf) =
      ownFontSize c.e c.parent c.root c.ex c.ch := by
    funext u
    rw [peek_eq c m hs]
    cases u
    exact (own_font_size_is_computed c.e c.parent c.root c.ex c.ch).symm
  unfold envM fullEnv
  simp only [h1]
  congr 1
  funext k
  cases h : lookup k computerFunctions with
  | some f => rfl
  | none =>
    simp only []
    rw [peek_eq c m hs, pure_of_no_computer c k h]
    cases specified c.e c.parent k <;> rfl

/-- `__missing__` (after its first lines) against the pure function, with the dict it leaves. -/
private theorem missingCore_spec (c : Ctx) (m : Memo) (hs : Sound c m) (hn : NoStale c) (key : String) :
    missingCoreM c m key =
      (computedKeyCore c.e c.parent c.root c.ex c.ch key,
       match computedKeyCore c.e c.parent c.root c.ex c.ch key with
       | .ok r => (key, r) :: m
       | .error _ => m) := by
  unfold missingCoreM computedKeyCore specified
  rw [envM_eq c m hs]
  cases h123 : specified123 c.e c.parent key with
  | error err => rfl
  | ok r =>
    obtain ⟨v3, st3⟩ := r
    simp only [bind, Except.bind]
    cases h4 : specified4 c.e c.parent key v3 st3 with
    | error err =>
      cases st3 with
      | none => rfl
      | some s =>
        have := hn key
        unfold staleAfterFailure at this
        rw [h123] at this
        simp only [h4] at this
        cases this
    | ok r4 =>
      obtain ⟨v, st⟩ := r4
      cases st with
      | true => rfl
      | false =>
        simp only [Bool.false_eq_true, if_false]
        cases compute (fullEnv c.e c.parent c.root c.ex c.ch) key v <;> rfl

private theorem pure_plain (c : Ctx) (key : String) (hf : (key == "float") = false)
    (hd : (key == "display") = false) :
    pure' c key = computedKeyCore c.e c.parent c.root c.ex c.ch key := by
  unfold pure' computedKey
  simp [hf, hd]

private theorem readCore_position (c : Ctx) (m : Memo) (hs : Sound c m) (hn : NoStale c) :
    (readCoreM c m "position").1 = computedKeyCore c.e c.parent c.root c.ex c.ch "position" ∧
    Sound c (readCoreM c m "position").2 := by
  have hp := pure_plain c "position" (by decide) (by decide)
  unfold readCoreM
  cases h : lookup "position" m with
  | some v =>
    exact ⟨by rw [← hp]; exact (hs _ v h).symm, hs⟩
  | none =>
    simp only [missingCore_spec c m hs hn]
    refine ⟨trivial, ?_⟩
    cases hc : computedKeyCore c.e c.parent c.root c.ex c.ch "position" with
    | error err => exact hs
    | ok r => exact sound_cons c m _ r hs (by rw [hp, hc])

private theorem missingFloat_spec (c : Ctx) (m : Memo) (hs : Sound c m) (hn : NoStale c) :
    (missingFloatM c m).1 = pure' c "float" ∧ Sound c (missingFloatM c m).2 := by
  obtain ⟨h1, h2⟩ := readCore_position c m hs hn
  have hpf : pure' c "float" = (do
      let _ ← computedKeyCore c.e c.parent c.root c.ex c.ch "position"
      computedKeyCore c.e c.parent c.root c.ex c.ch "float") := by
    unfold pure' computedKey; simp
  unfold missingFloatM
  cases hr : readCoreM c m "position" with
  | mk r m1 =>
    rw [hr] at h1 h2
    simp only at h1 h2
    cases r with
    | error err =>
      simp only
      refine ⟨?_, h2⟩
      rw [hpf, ← h1]; rfl
    | ok v =>
      simp only [missingCore_spec c m1 h2 hn]
      constructor
      · rw [hpf, ← h1]; rfl
      · cases hc : computedKeyCore c.e c.parent c.root c.ex c.ch "float" with
        | error err => exact h2
        | ok r =>
          apply sound_cons c m1 _ r h2
          rw [hpf, ← h1, hc]; rfl

/-- One read through the dict returns the value of the memoised function and leaves a sound dict. -/
theorem readM_spec (c : Ctx) (m : Memo) (hs : Sound c m) (hn : NoStale c) (key : String) :
    (readM c m key).1 = pure' c key ∧ Sound c (readM c m key).2 := by
  unfold readM
  cases h : lookup key m with
  | some v => exact ⟨(hs key v h).symm, hs⟩
  | none =>
    simp only
    unfold missingM
    by_cases hf : (key == "float") = true
    · have : key = "float" := by simpa using hf
      subst this
      simp only [hf, if_true]
      exact missingFloat_spec c m hs hn
    · have hf' : (key == "float") = false := by simpa using hf
      simp only [hf', Bool.false_eq_true, if_false]
      by_cases hd : (key == "display") = true
      · have : key = "display" := by simpa using hd
        subst this
        simp only [hd, if_true]
        have hpd : pure' c "display" = (do
            let _ ← computedKeyCore c.e c.parent c.root c.ex c.ch "position"
            let _ ← computedKeyCore c.e c.parent c.root c.ex c.ch "float"
            computedKeyCore c.e c.parent c.root c.ex c.ch "display") := by
          unfold pure' computedKey; simp
        have hpf : pure' c "float" = (do
            let _ ← computedKeyCore c.e c.parent c.root c.ex c.ch "position"
            computedKeyCore c.e c.parent c.root c.ex c.ch "float") := by
          unfold pure' computedKey; simp
        -- the value and the dict after `self['float']`
        have hfl : ∃ r m1, readFloatM c m = (r, m1) ∧ r = pure' c "float" ∧ Sound c m1 := by
          unfold readFloatM
          cases hl : lookup "float" m with
          | some v => exact ⟨_, _, rfl, (hs _ v hl).symm, hs⟩
          | none =>
            obtain ⟨a, b⟩ := missingFloat_spec c m hs hn
            exact ⟨_, _, rfl, a, b⟩
        obtain ⟨r, m1, he, hr, hs1⟩ := hfl
        rw [he]
        cases r with
        | error err =>
          simp only
          refine ⟨?_, hs1⟩
          rw [hpd]
          rw [hpf] at hr
          cases hpos : computedKeyCore c.e c.parent c.root c.ex c.ch "position" with
          | error e2 => rw [hpos] at hr; simp [bind, Except.bind] at hr ⊢; exact hr
          | ok p =>
            rw [hpos] at hr
            simp only [bind, Except.bind] at hr ⊢
            rw [← hr]
        | ok v =>
          simp only [missingCore_spec c m1 hs1 hn]
          rw [hpf] at hr
          have hboth : ∃ p, computedKeyCore c.e c.parent c.root c.ex c.ch "position" = .ok p ∧
              computedKeyCore c.e c.parent c.root c.ex c.ch "float" = .ok v := by
            cases hpos : computedKeyCore c.e c.parent c.root c.ex c.ch "position" with
            | error e2 => rw [hpos] at hr; simp [bind, Except.bind] at hr
            | ok p =>
              rw [hpos] at hr
              simp only [bind, Except.bind] at hr
              exact ⟨p, rfl, hr.symm⟩
          obtain ⟨p, hp1, hp2⟩ := hboth
          have hpd' : pure' c "display" = computedKeyCore c.e c.parent c.root c.ex c.ch "display" := by
            rw [hpd, hp1, hp2]; rfl
          refine ⟨hpd'.symm, ?_⟩
          cases hc : computedKeyCore c.e c.parent c.root c.ex c.ch "display" with
          | error err => exact hs1
          | ok r => exact sound_cons c m1 _ r hs1 (by rw [hpd', hc])
      · have hd' : (key == "display") = false := by simpa using hd
        simp only [hd', Bool.false_eq_true, if_false]
        simp only [missingCore_spec c m hs hn]
        have hp := pure_plain c key hf' hd'
        refine ⟨hp.symm, ?_⟩
        cases hc : computedKeyCore c.e c.parent c.root c.ex c.ch key with
        | error err => exact hs
        | ok r => exact sound_cons c m _ r hs (by rw [hp, hc])

/-- `lazy_eq_eager`: whatever keys are read on a fresh style, in whatever order and how often, every
read returns the value of the eager function — as long as no read can fail after an early store. -/
theorem lazy_eq_eager (c : Ctx) (hn : NoStale c) (m : Memo) (hs : Sound c m) (keys : List String) :
    readSeq c m keys = keys.map (pure' c) := by
  induction keys generalizing m with
  | nil => rfl
  | cons k ks ih =>
    obtain ⟨h1, h2⟩ := readM_spec c m hs hn k
    simp only [readSeq, List.map_cons]
    rw [h1, ih _ h2]

/-- On the root element the hypothesis holds by construction (the post-processing that can fail
after a store reads the parent). -/
theorem root_no_stale (c : Ctx) (hroot : c.parent = none) : NoStale c := by
  intro key
  unfold staleAfterFailure
  cases h123 : specified123 c.e c.parent key with
  | error err => rfl
  | ok r =>
    obtain ⟨v3, st3⟩ := r
    cases st3 with
    | none => rfl
    | some s =>
      simp only
      have : ∃ r, specified4 c.e c.parent key v3 (some s) = .ok r := by
        unfold specified4
        rw [hroot]
        simp only [Option.isSome_none, Bool.and_false, Bool.false_eq_true, if_false]
        by_cases hp : (key == "page" && v3.isKw "auto") = true
        · simp only [hp, if_true]; exact ⟨_, rfl⟩
        · simp only [hp]; exact ⟨_, rfl⟩
      obtain ⟨r, hr⟩ := this
      rw [hr]

theorem lazy_eq_eager_root (c : Ctx) (hroot : c.parent = none) (keys : List String) :
    readSeq c [] keys = keys.map (pure' c) :=
  lazy_eq_eager c (root_no_stale c hroot) [] (sound_nil c) keys

/-- The memoised function of `ctxOf chain` is `style_for(element)[key]` of the chain model (for an
element that gets a `ComputedStyle`, i.e. is the root or has a cascaded declaration). -/
theorem ctx_pure_eq_styleAt (ex ch : Rat) (chain : List Elem) (c : Ctx) (hc : ctxOf ex ch chain = some c)
    (hne : c.e.cascaded.isEmpty = false ∨ c.parent = none) (key : String) :
    pure' c key = styleAt ex ch chain key := by
  cases chain with
  | nil => simp [ctxOf] at hc
  | cons e rest =>
    cases rest with
    | nil =>
      simp only [ctxOf, Option.some.injEq] at hc
      subst hc
      rfl
    | cons p rest =>
      simp only [ctxOf, Option.some.injEq] at hc
      subst hc
      simp only at hne
      rcases hne with h | h
      · unfold pure' styleAt
        rw [styleAtWith]
        unfold styleKey
        simp only [h, Bool.false_eq_true, if_false]
      · cases h

/-- `lazy_eq_eager` on the chain model: reading any key sequence on the (fresh) style of the
element at the head of a chain returns `style_for(element)[key]` each time. -/
theorem lazy_eq_eager_chain (ex ch : Rat) (chain : List Elem) (c : Ctx) (hc : ctxOf ex ch chain = some c)
    (hne : c.e.cascaded.isEmpty = false ∨ c.parent = none) (hn : NoStale c) (keys : List String) :
    readSeq c [] keys = keys.map (styleAt ex ch chain) := by
  rw [lazy_eq_eager c hn [] (sound_nil c) keys]
  apply List.map_congr_left
  intro k _
  exact ctx_pure_eq_styleAt ex ch chain c hc hne k

-- non-vacuity: a root element read in an order that exercises the pre-reads and the dict hits
example :
    let c : Ctx := ⟨⟨[("display", .val (.strs ["inline", "flow"])), ("float", .val (.kw "left")),
                      ("width", .val (.dim 2 "em")), ("font_size", .val (.dim 150 "%"))], none, [], none⟩,
                    none, fun _ => .ok 16, 1 / 2, 1 / 2⟩
    (readSeq c [] ["display", "width", "float", "display", "font_size"]).map okVal =
      [some (.strs ["block", "flow"]), some (.dim 48 "px"), some (.kw "left"),
       some (.strs ["block", "flow"]), some (.num 24)] := by
  decide +kernel

end Wp.C06
