/-
C06 — "relative values compute against the correct reference", the part the document oracle only
samples (`cascade_docs.leftover_unit`: no em / rem / ex / ch / pt / pc / in / cm / mm / q may be left
in a computed value), lifted to all inputs of the model:

* `length_absolute_result`: whatever `computed_values.length` returns is a keyword, a number, a
  `px` dimension or a dimension in a unit outside that list (`%`, `fr`, …) — for every style, value,
  `font_size` argument and `pixels_only` flag;
* `computed_length_key_absolute`: one element, any cascaded value (value, `inherit`, `initial`,
  `var()` solved or failed);
* `style_length_keys_absolute`: every chain of elements, any depth of inheritance, `AnonymousStyle`
  included — the link from the function-level model to the document-level model.
* `length_tuples_absolute`, `border_image_width_absolute`, `track_breadth_absolute`: the same for the
  items of `length_tuple`, `length_or_percentage_tuple` / `border_radius`, `border_image_width` /
  `mask_border_width` and `_compute_track_breadth`, for all inputs.
`leftover_units_handled` is stated on the generated `LENGTHS_TO_PIXELS`: removing a unit from the
table in the source breaks it.
-/
import WpModel.Props.C06
namespace Wp.C06
open Wp Wp.Cascade Wp.Computed Wp.Style Wp.Gen.Units

/-- The units the document oracle (`cascade_docs.leftover_unit`) refuses in a computed value. -/
def leftoverUnits : List String := ["em", "rem", "ex", "ch", "pt", "pc", "in", "cm", "mm", "q"]

/-- "No relative or non-px length": the value is not a `Dimension` in one of `leftoverUnits`. -/
def absoluteTop (v : Val) : Bool :=
  match v with
  | .dim _ u => !(leftoverUnits.contains u)
  | _ => true

theorem leftover_units_handled :
    ∀ u ∈ leftoverUnits, (lookup u lengthsToPixels).isSome = true ∨ u = "em" ∨ u = "ex" ∨ u = "ch" ∨ u = "rem" := by
  decide

theorem length_absolute_result (env : Env) (v : Val) (fs : Option Rat) (po : Bool) (r : Val)
    (h : length env v fs po = .ok r) : absoluteTop r = true := by
  unfold length at h
  cases v with
  | kw s =>
    simp only at h
    split at h
    · cases h; rfl
    · cases h
  | dim q u =>
    simp only at h
    split at h
    · cases h; cases po <;> rfl
    · split at h
      · cases h; cases po <;> simp [absoluteTop, leftoverUnits]
        rename_i hu; simp at hu; subst hu; decide
      · cases hl : lookup u lengthsToPixels with
        | some factor =>
          simp only [hl] at h
          cases h; cases po <;> rfl
        | none =>
          simp only [hl] at h
          split at h
          · -- font-relative: every path ends in `fin`
            have hpx : ∀ x : Rat, absoluteTop (if po = true then Val.num x else Val.dim x "px") = true := by
              intro x; cases po <;> rfl
            cases fs with
            | some f =>
              simp only [bind, Except.bind] at h
              repeat' split at h
              all_goals first | (cases h; first | rfl | exact hpx _) | cases h
            | none =>
              simp only [bind, Except.bind] at h
              repeat' split at h
              all_goals first | (cases h; first | rfl | exact hpx _) | cases h
          · cases h
            rename_i hrel
            simp only [absoluteTop, Bool.not_eq_true']
            cases hc : leftoverUnits.contains u with
            | false => rfl
            | true =>
              exfalso
              have hm : u ∈ leftoverUnits := by simpa using hc
              rcases leftover_units_handled u hm with h1 | h1 | h1 | h1 | h1
              · simp [hl] at h1
              all_goals (subst h1; simp at hrel)
  | num q => cases h
  | strs l => cases h
  | tagged t q => cases h
  | null => cases h
  | tup l => cases h

theorem initial_values_absolute : ∀ p ∈ initialValues, absoluteTop p.2 = true := by decide +kernel

private theorem lookup_mem' {β : Type} (k : String) (l : List (String × β)) (v : β) (h : lookup k l = some v) :
    (k, v) ∈ l := by
  induction l with
  | nil => simp [lookup] at h
  | cons p rest ih =>
    obtain ⟨a, b⟩ := p
    simp only [lookup] at h
    by_cases hak : (a == k) = true
    · simp [hak] at h
      have : a = k := by simpa using hak
      subst this; subst h; simp
    · simp [hak] at h
      exact List.mem_cons_of_mem _ (ih h)

theorem initialValue_absolute (key : String) (v : Val) (h : initialValue key = .ok v) : absoluteTop v = true := by
  unfold initialValue at h
  cases hl : lookup key initialValues with
  | none => simp [hl] at h; split at h <;> simp at h
  | some w =>
    simp [hl] at h
    subst h
    exact initial_values_absolute _ (lookup_mem' _ _ _ hl)

theorem initialValue_not_kw (key : String) (v : Val) (h : initialValue key = .ok v) :
    v.isKw "inherit" = false ∧ v.isKw "initial" = false := by
  unfold initialValue at h
  cases hl : lookup key initialValues with
  | none => simp [hl] at h; split at h <;> simp at h
  | some w =>
    simp [hl] at h
    subst h
    exact initial_values_not_keywords _ (lookup_mem' _ _ _ hl)

set_option hygiene false in
/-- closing tactic for the goals of `specified_stored_absolute`. -/
local macro "close_abs" : tactic => `(tactic| (
  first
  | (subst h; first | exact hpar _ hpv | exact initialValue_absolute key _ hiv | rfl)
  | (by_cases hm : key ∈ initialNotComputed <;> simp [hm] at h <;>
      (first | (subst h; first | exact hpar _ hpv | exact initialValue_absolute key _ hiv | rfl) | rfl))))

set_option hygiene false in
/-- case split on what the parent and the initial-value table deliver, and on the keywords among them. -/
local macro "split_abs" : tactic => `(tactic| (
  rcases hpv : parentValue parent key with ep | pv <;>
  rcases hiv : initialValue key with ei | iv <;>
  (first | (have hnk1 := (initialValue_not_kw key iv hiv).1) | (have hnk1 : True := trivial)) <;>
  (first | (have hnk2 := (initialValue_not_kw key iv hiv).2) | (have hnk2 : True := trivial)) <;>
  (first | (cases hk1 : pv.isKw "initial" <;> cases hk2 : pv.isKw "inherit")
         | (have hk1 : True := trivial; have hk2 : True := trivial))))

theorem specified_stored_absolute (e : Elem) (parent : ParentGet) (key : String) (v : Val)
    (hk : isTextDecoration key = false) (hp : key ≠ "page")
    (hpar : ∀ w, parentValue parent key = .ok w → absoluteTop w = true)
    (h : specified e parent key = .ok (v, true)) : absoluteTop v = true := by
  have hpage : (key == "page") = false := by simpa using hp
  unfold specified specified123 specified4 at h
  cases hl : lookup key e.cascaded with
  | none =>
    cases hpn : parent.isNone <;> cases hi : isInherited key <;> cases hcu : isCustom key <;> split_abs <;>
      simp [hl, hk, hpage, hpn, hi, hcu, hpv, hiv, Val.isKw, bind, Except.bind, pure, Except.pure] at h
    all_goals close_abs
  | some c =>
    cases c with
    | val cv =>
      cases hpn : parent.isNone <;> cases hinh : cv.isKw "inherit" <;> cases hini : cv.isKw "initial" <;>
        cases hcu : isCustom key <;> split_abs <;>
        simp [hl, hk, hpage, hpn, hinh, hini, hcu, hpv, hiv, bind, Except.bind, pure, Except.pure] at h
      all_goals close_abs
    | pending r =>
      cases r with
      | none =>
        have hps : parent.isSome = !parent.isNone := by cases parent <;> rfl
        cases hpn : parent.isNone <;> cases hi : isInherited key <;> cases hcu : isCustom key <;> split_abs <;>
          simp [hl, hk, hpage, hps, hpn, hi, hcu, hpv, hiv, hnk1, hnk2, hk1, hk2, bind, Except.bind, pure, Except.pure] at h
        all_goals close_abs
      | some cv =>
        cases hpn : parent.isNone <;> cases hinh : cv.isKw "inherit" <;> cases hini : cv.isKw "initial" <;>
          cases hcu : isCustom key <;> split_abs <;>
          simp [hl, hk, hpage, hpn, hinh, hini, hcu, hpv, hiv, bind, Except.bind, pure, Except.pure] at h
        all_goals close_abs

private theorem length_key_ne (key s : String) (h : lookup key computerFunctions = some "length")
    (hs : lookup s computerFunctions ≠ some "length") : key ≠ s := by
  intro he; subst he; exact hs h

/-- One element: a property computed by `length` has an absolute computed value, whatever its
cascaded value (a value, `inherit`, `initial`, a `var()` that solves or fails), provided its
parent's has. -/
theorem computed_length_key_absolute (e : Elem) (parent : ParentGet) (root : Unit → Except CErr Rat)
    (ex ch : Rat) (key : String) (v : Val)
    (hcomp : lookup key computerFunctions = some "length") (hk : isTextDecoration key = false)
    (hpar : ∀ w, parentValue parent key = .ok w → absoluteTop w = true)
    (h : computedKey e parent root ex ch key = .ok v) : absoluteTop v = true := by
  have hf : key ≠ "float" := length_key_ne key _ hcomp (by decide)
  have hd : key ≠ "display" := length_key_ne key _ hcomp (by decide)
  have hp : key ≠ "page" := length_key_ne key _ hcomp (by decide)
  have hcore : computedKey e parent root ex ch key = computedKeyCore e parent root ex ch key := by
    unfold computedKey; simp [hf, hd]
  rw [hcore] at h
  unfold computedKeyCore at h
  cases hs : specified e parent key with
  | error err => simp [hs, bind, Except.bind] at h
  | ok r =>
    obtain ⟨val, st⟩ := r
    cases st with
    | true =>
      simp [hs, bind, Except.bind, pure, Except.pure] at h
      subst h
      exact specified_stored_absolute e parent key val hk hp hpar hs
    | false =>
      simp only [hs, bind, Except.bind, Bool.false_eq_true, if_false, compute, hcomp, applyComputer] at h
      exact length_absolute_result _ _ _ _ _ h

/-- **Document level.**  For every chain of elements (the element, its ancestors, the root) with
arbitrary cascaded declarations, every property whose computing function is `length` has a computed
value without a font-relative or non-px absolute unit, on the element itself, on an element without
any declaration (`AnonymousStyle`) and through any depth of inheritance — the clause the document
oracle samples (`cascade_docs.leftover_unit`), for all inputs of the model. -/
theorem style_length_keys_absolute (root : Unit → Except CErr Rat) (ex ch : Rat) (key : String)
    (hcomp : lookup key computerFunctions = some "length") (hk : isTextDecoration key = false) :
    ∀ (chain : List Elem) (v : Val), styleAtWith root ex ch chain key = .ok v → absoluteTop v = true := by
  have hp : key ≠ "page" := length_key_ne key _ hcomp (by decide)
  have hpre : ["border_top_width", "border_bottom_width", "border_left_width", "border_right_width",
      "outline_width"].contains key = false := by
    have h1 := length_key_ne key "border_top_width" hcomp (by decide)
    have h2 := length_key_ne key "border_bottom_width" hcomp (by decide)
    have h3 := length_key_ne key "border_left_width" hcomp (by decide)
    have h4 := length_key_ne key "border_right_width" hcomp (by decide)
    have h5 := length_key_ne key "outline_width" hcomp (by decide)
    simp [h1, h2, h3, h4, h5]
  intro chain
  induction chain with
  | nil => intro v h; simp [styleAtWith] at h
  | cons e rest ih =>
    intro v h
    cases rest with
    | nil =>
      simp only [styleAtWith, styleKey] at h
      exact computed_length_key_absolute e none _ ex ch key v hcomp hk (by intro w hw; simp [parentValue] at hw) h
    | cons p rest' =>
      simp only [styleAtWith, styleKey] at h
      have hpar : ∀ w, parentValue (some (styleAtWith root ex ch (p :: rest'))) key = .ok w → absoluteTop w = true := by
        intro w hw; exact ih w hw
      split at h
      · -- AnonymousStyle
        unfold anonymousKey at h
        simp only [hpre, Bool.false_eq_true, if_false, hk] at h
        split at h
        · exact ih v h
        · have hpage : (key == "page") = false := by simpa using hp
          simp only [hpage, Bool.false_eq_true, if_false] at h
          exact initialValue_absolute key v h
      · exact computed_length_key_absolute e _ root ex ch key v hcomp hk hpar h

/-- The same for `style_for(element)[key]` of a chain (`Style.styleAt`). -/
theorem style_for_length_keys_absolute (ex ch : Rat) (key : String)
    (hcomp : lookup key computerFunctions = some "length") (hk : isTextDecoration key = false)
    (chain : List Elem) (v : Val) (h : styleAt ex ch chain key = .ok v) : absoluteTop v = true :=
  style_length_keys_absolute _ ex ch key hcomp hk chain v h

-- non-vacuity: the hypotheses hold for `width`, `text_indent`, `margin_left` …, and a chain with em / rem / inherit /
-- a failed var() computes to px values
example : lookup "width" computerFunctions = some "length" ∧ isTextDecoration "width" = false ∧
    lookup "text_indent" computerFunctions = some "length" := by decide
example :
    let root : Elem := ⟨[("font_size", .val (.dim 20 "px")), ("text_indent", .val (.dim 2 "em"))], none, [], none⟩
    let mid : Elem := ⟨[("text_indent", .val (.kw "inherit")), ("width", .val (.dim 3 "rem"))], none, [], none⟩
    let leaf : Elem := ⟨[("text_indent", .pending none), ("width", .pending (some (.dim 1 "pt")))], none, [], none⟩
    (styleAt (1 / 2) (1 / 2) [leaf, mid, root] "text_indent").toOption = some (.dim 40 "px") ∧
    (styleAt (1 / 2) (1 / 2) [mid, root] "width").toOption = some (.dim 60 "px") ∧
    (styleAt (1 / 2) (1 / 2) [leaf, mid, root] "width").toOption = some (.dim (4 / 3) "px") := by
  decide +kernel
/-! ## the tuple-valued functions, the grid track breadth and `border-image-width` -/

/-- One level down: every item of a tuple value is absolute (a flat tuple of strings has no lengths). -/
def absoluteItems (v : Val) : Bool :=
  match v with
  | .tup l => l.all absoluteTop
  | v => absoluteTop v

theorem mapLength_absolute (env : Env) (po : Bool) :
    ∀ (l r : List Val), mapLength env po l = .ok r → ∀ x ∈ r, absoluteTop x = true := by
  intro l
  induction l with
  | nil => intro r h x hx; simp [mapLength] at h; subst h; simp at hx
  | cons v rest ih =>
    intro r h x hx
    simp only [mapLength, bind, Except.bind] at h
    cases hv : length env v none po with
    | error err => simp [hv] at h
    | ok hd =>
      cases ht : mapLength env po rest with
      | error err => simp [hv, ht] at h
      | ok tl =>
        simp [hv, ht, pure, Except.pure] at h
        subst h
        rcases List.mem_cons.mp hx with rfl | hx'
        · exact length_absolute_result env v none po _ hv
        · exact ih tl ht x hx'

theorem mkTuple_absoluteItems (l : List Val) (h : ∀ x ∈ l, absoluteTop x = true) :
    absoluteItems (mkTuple l) = true := by
  unfold mkTuple
  split
  · rfl
  · simp only [absoluteItems, List.all_eq_true]; exact h

/-- `length_tuple` (`border-spacing`, `size`, `clip`), `length_or_percentage_tuple` (`transform-origin`)
and `border_radius`: no item of the computed tuple keeps a relative or non-px unit. -/
theorem length_tuples_absolute (env : Env) (values r : Val) :
    (lengthTuple env values = .ok r → absoluteItems r = true) ∧
    (lengthOrPercentageTuple env values = .ok r → absoluteItems r = true) := by
  constructor
  · intro h
    unfold lengthTuple at h
    cases he : elems "length_tuple" values with
    | error err => simp [he, bind, Except.bind] at h
    | ok l =>
      cases hm : mapLength env true l with
      | error err => simp [he, hm, bind, Except.bind] at h
      | ok items =>
        simp [he, hm, bind, Except.bind, pure, Except.pure] at h
        subst h
        exact mkTuple_absoluteItems items (mapLength_absolute env true l items hm)
  · intro h
    unfold lengthOrPercentageTuple at h
    cases he : elems "length_or_percentage_tuple" values with
    | error err => simp [he, bind, Except.bind] at h
    | ok l =>
      cases hm : mapLength env false l with
      | error err => simp [he, hm, bind, Except.bind] at h
      | ok items =>
        simp [he, hm, bind, Except.bind, pure, Except.pure] at h
        subst h
        exact mkTuple_absoluteItems items (mapLength_absolute env false l items hm)

/-- `_compute_track_breadth` (grid track sizes): what it returns is absolute (`fr` is not a length). -/
theorem track_breadth_absolute (env : Env) (value r : Val)
    (h : computeTrackBreadth env value = .ok (some r)) : absoluteTop r = true := by
  unfold computeTrackBreadth at h
  cases value with
  | kw s =>
    simp only at h
    split at h
    · simp at h; subst h; rfl
    · simp at h
  | dim q u =>
    simp only at h
    split at h
    · rename_i hu
      simp at h; subst h
      have : u = "fr" := by simpa using hu
      subst this
      show (!(leftoverUnits.contains "fr")) = true
      decide
    · cases hl : length env (.dim q u) with
      | error err => simp [hl, Except.map] at h
      | ok x =>
        simp [hl, Except.map] at h
        subst h
        exact length_absolute_result env _ none false _ hl
  | num q => simp at h
  | strs l => simp at h
  | tagged t q => simp at h
  | null => simp at h
  | tup l => simp at h

/-- `border_image_width` / `mask_border_width` (the repaired finding, for all inputs): every item of
the result is a number, `auto`, a percentage or a px length. -/
theorem width_items_absolute (env : Env) :
    ∀ (l r : List Val), widthItems env l = .ok r → ∀ x ∈ r, absoluteTop x = true := by
  intro l
  induction l with
  | nil => intro r h x hx; simp [widthItems] at h; subst h; simp at hx
  | cons v rest ih =>
    intro r h x hx
    -- the item computed for `v`
    have hitem : ∀ item tl, widthItems env rest = .ok tl → r = item :: tl → absoluteTop item = true →
        absoluteTop x = true := by
      intro item tl ht hr hi
      subst hr
      rcases List.mem_cons.mp hx with rfl | hx'
      · exact hi
      · exact ih tl ht x hx'
    simp only [widthItems, bind, Except.bind] at h
    by_cases ha : v.isKw "auto" = true
    · simp only [ha, if_true, pure, Except.pure] at h
      cases ht : widthItems env rest with
      | error err => simp [ht] at h
      | ok tl =>
        simp [ht] at h
        refine hitem v tl ht h.symm ?_
        cases v <;> simp [Val.isKw] at ha <;> rfl
    · simp only [ha, Bool.false_eq_true, if_false] at h
      cases hn : numberUnit "border_image_width" v with
      | error err => simp [hn] at h
      | ok p =>
        obtain ⟨q, unit⟩ := p
        cases unit with
        | none =>
          cases ht : widthItems env rest with
          | error err => simp [hn, ht, pure, Except.pure] at h
          | ok tl =>
            simp [hn, ht, pure, Except.pure] at h
            exact hitem (.num q) tl ht h.symm rfl
        | some u =>
          cases hl : length env v with
          | error err => simp [hn, hl] at h
          | ok item =>
            cases ht : widthItems env rest with
            | error err => simp [hn, hl, ht] at h
            | ok tl =>
              simp [hn, hl, ht, pure, Except.pure] at h
              exact hitem item tl ht h.symm (length_absolute_result env v none false _ hl)

private theorem padFour_mem (l : List Val) (x : Val) (h : x ∈ padFour l) : x ∈ l := by
  unfold padFour at h
  split at h
  · simp_all
  · simp only [List.mem_cons, List.mem_nil_iff, or_false] at h ⊢
    rcases h with h | h | h | h <;> simp [h]
  · simp only [List.mem_cons, List.mem_nil_iff, or_false] at h ⊢
    rcases h with h | h | h | h <;> simp [h]
  · exact h

/-- `border_image_width(style, name, values)`: no side of the result keeps a relative or non-px unit. -/
theorem border_image_width_absolute (env : Env) (values r : Val)
    (h : borderImageWidth env values = .ok r) : absoluteItems r = true := by
  unfold borderImageWidth at h
  cases he : elems "border_image_width" values with
  | error err => simp [he, bind, Except.bind] at h
  | ok l =>
    cases hm : widthItems env l with
    | error err => simp [he, hm, bind, Except.bind] at h
    | ok items =>
      simp [he, hm, bind, Except.bind, pure, Except.pure] at h
      subst h
      exact mkTuple_absoluteItems _ (fun x hx => width_items_absolute env l items hm x (padFour_mem items x hx))


private def exEnv : Env :=
  { fontSize := fun _ => .ok 10, rootFontSize := fun _ => .ok 16, parentFontSize := none,
    parentFontWeight := none, exRatio := 1 / 2, chRatio := 1 / 2, get := fun _ => .error (.keyError "k"),
    specified := fun _ => .error (.keyError "k"), isRoot := true, pseudo := false }

-- non-vacuity: `border-spacing: 1em 2rem`, `border-image-width: 2em 3 auto 10%`, a track breadth in pt
example :
    (lengthTuple exEnv (.tup [.dim 1 "em", .dim 2 "rem"])).toOption = some (.tup [.num 10, .num 32]) ∧
    (borderImageWidth exEnv (.tup [.dim 2 "em", .dim 3 "none", .kw "auto", .dim 10 "%"])).toOption
      = some (.tup [.dim 20 "px", .num 3, .kw "auto", .dim 10 "%"]) ∧
    absoluteItems (.tup [.dim 20 "px", .num 3, .kw "auto", .dim 10 "%"]) = true ∧
    absoluteItems (.tup [.dim 2 "em"]) = false ∧
    (computeTrackBreadth exEnv (.dim 3 "pt")).toOption = some (some (.dim 4 "px")) := by
  decide +kernel

end Wp.C06
