/-
C10 — from conflict resolution to the page: for a collapsed table laid out in one piece, every border
line that `draw_collapsed_borders` paints is the winner, under `(hidden, width, style rank)` with ties to
the earlier offer, of the borders offered to that edge by cell, row, row group, column, column group and
table (CSS 2.1 §17.6.2).  Composition of `C10Draw.painted_from_grid` / `painted_unsplit`
(`Model/TableBorderDraw` ↔ `draw/__init__.py`) with `C10.border_winner_grid`
(`Model/TableBorders` ↔ `layout/table.py collapse_table_borders`).
-/
import WpModel.Props.C10
import WpModel.Props.C10Draw

namespace Wp.C10Painted
open Wp Wp.Borders Wp.BorderDraw Wp.C10

private theorem pyIndex_nat (len n : Nat) : pyIndex len (n : Int) = if n < len then some n else none := by
  unfold pyIndex
  have : ¬ ((n : Int) < 0) := by omega
  simp [this]

/-- A successful `border_list[yy][x]` with non-negative indices is the plain grid entry. -/
theorem gridAt_nat (g : Grid) (y x : Nat) (e : Edge) (h : gridAt g (y : Int) (x : Int) = .ok e) :
    edgeAt g y x = some e := by
  unfold gridAt at h
  rw [pyIndex_nat] at h
  unfold edgeAt
  split at h
  · cases h
  · rename_i yi hyi
    split at hyi
    · injection hyi with hyi
      subst hyi
      split at h
      · cases h
      · rename_i row hrow
        rw [pyIndex_nat] at h
        split at h
        · cases h
        · rename_i xi hxi
          split at hxi
          · injection hxi with hxi
            subst hxi
            split at h
            · cases h
            · rename_i e' he'
              injection h with h
              subst h
              simp [hrow, he']
          · cases hxi
    · cases hyi

private theorem edgeAt_replicate_some (n w : Nat) (e0 e : Edge) (y xi : Nat)
    (h : edgeAt (List.replicate n (List.replicate w e0)) y xi = some e) : y < n ∧ xi < w := by
  unfold edgeAt at h
  by_cases hy : y < n
  · by_cases hx : xi < w
    · exact ⟨hy, hx⟩
    · simp [List.getElem?_replicate, hy, hx] at h
  · simp [List.getElem?_replicate, hy] at h

/-- The grids returned by `collapse_table_borders` have `grid_height × (grid_width + 1)` vertical and
`(grid_height + 1) × grid_width` horizontal entries: an entry that exists has in-range indices. -/
theorem collapse_bounds (t : BTable) (gw gh : Nat) (o : Out) (h : collapse t gw gh = .ok o)
    (hw : gw ≠ 0) (hh : gh ≠ 0) :
    (∀ y xi e, edgeAt o.vertical y xi = some e → y < gh ∧ xi < gw + 1) ∧
    (∀ y xi e, edgeAt o.horizontal y xi = some e → y < gh + 1 ∧ xi < gw) := by
  unfold collapse at h
  have hne : ¬ (gw = 0 ∨ gh = 0) := by omega
  simp only [hne, if_false] at h
  split at h
  · cases h
  · rename_i v hgrid hrun
    split at h
    · cases h
    · split at h
      · cases h
      · injection h with h
        subst h
        have hV : Rect (initGrids gw gh).1 (gw + 1) := by
          intro row hrow
          unfold initGrids at hrow
          simp only [List.mem_replicate] at hrow
          rw [hrow.2]; simp
        have hH : Rect (initGrids gw gh).2 gw := by
          intro row hrow
          unfold initGrids at hrow
          simp only [List.mem_replicate] at hrow
          rw [hrow.2]; simp
        obtain ⟨sV, sH⟩ := runOps_spec (gw + 1) gw _ _ _ hV hH hrun
        constructor
        · intro y xi e he
          rw [sV y xi] at he
          cases hinit : edgeAt (initGrids gw gh).1 y xi with
          | none => rw [hinit] at he; cases he
          | some e0 =>
            unfold initGrids at hinit
            exact edgeAt_replicate_some gh (gw + 1) weakNull e0 y xi hinit
        · intro y xi e he
          rw [sH y xi] at he
          cases hinit : edgeAt (initGrids gw gh).2 y xi with
          | none => rw [hinit] at he; cases he
          | some e0 =>
            unfold initGrids at hinit
            exact edgeAt_replicate_some (gh + 1) gw weakNull e0 y xi hinit

/-- **painted_is_winner.**  A collapsed table laid out in one piece: every painted line carries the
border that wins CSS 2.1 §17.6.2 on its edge — `offers.foldl offerEdge init`, the first maximum under
`(hidden, width, style rank)` (`C10.border_winner`) of the borders offered to that very edge (`targets`)
in the order cell, row, row group, column, column group, table (`C10.offers_in_css_order`), `init` being
the weak null border, or the strong one inside a spanning cell. -/
theorem painted_is_winner (t : BTable) (gw gh : Nat) (o : Out) (h : collapse t gw gh = .ok o)
    (hw : gw ≠ 0) (hh : gh ≠ 0) (d : DrawIn) (hv : d.vertical = o.vertical) (hz : d.horizontal = o.horizontal)
    (hs : d.skippedRows = 0) (hall : d.vertical.length = gridHeight d)
    (segs : List Segment) (hseg : segments d = .ok segs) (s : Segment) (hmem : s ∈ segs) :
    ∃ (init : Edge) (offers : List Border) (y xi : Nat),
      (init = weakNull ∨ init = strongNull) ∧
      ((s.side = .left ∧ ∀ b ∈ offers, ∃ op ∈ genOps t gw gh, op.border = some b ∧
          targets (gw + 1) .V y xi op = true) ∨
       (s.side = .top ∧ ∀ b ∈ offers, ∃ op ∈ genOps t gw gh, op.border = some b ∧
          targets gw .H y xi op = true)) ∧
      (⟨s.score, ⟨s.style, s.width, s.color⟩⟩ : Edge) = offers.foldl offerEdge init := by
  obtain ⟨_, _, x, y, hcase⟩ := C10Draw.painted_from_grid d segs hseg s hmem
  obtain ⟨wV, wH⟩ := border_winner_grid t gw gh o h hw hh
  obtain ⟨bV, bH⟩ := collapse_bounds t gw gh o h hw hh
  rcases hcase with ⟨hside, hg⟩ | ⟨hside, hg⟩
  · rw [C10Draw.painted_unsplit d hs hall, hv] at hg
    have he := gridAt_nat _ _ _ _ hg
    obtain ⟨hy, hx⟩ := bV y x _ he
    obtain ⟨init, offers, hinit, hoff, hval⟩ := wV y x hy hx
    rw [he] at hval
    injection hval with hval
    exact ⟨init, offers, y, x, hinit, Or.inl ⟨hside, hoff⟩, hval⟩
  · rw [C10Draw.painted_unsplit d hs hall, hz] at hg
    have he := gridAt_nat _ _ _ _ hg
    obtain ⟨hy, hx⟩ := bH y x _ he
    obtain ⟨init, offers, hinit, hoff, hval⟩ := wH y x hy hx
    rw [he] at hval
    injection hval with hval
    exact ⟨init, offers, y, x, hinit, Or.inr ⟨hside, hoff⟩, hval⟩

private def exSides (s : BStyle) (w : Rat) (c : Nat) : Sides := ⟨⟨s, w, c⟩, ⟨s, w, c⟩, ⟨s, w, c⟩, ⟨s, w, c⟩⟩
private def exTable : BTable :=
  ⟨true, exSides .none 0 0, [⟨exSides .none 0 0, [⟨exSides .none 0 0,
    [⟨0, 1, 1, exSides .solid 2 1⟩, ⟨1, 1, 1, exSides .double 2 2⟩]⟩]⟩], []⟩

/-- Non-vacuity: one row, a cell `2px solid` (colour 1) beside a cell `2px double` (colour 2): seven lines
are painted, the shared edge (x = 20) is `double` (same width, higher style rank), painted after the
`solid` ones. -/
example : (collapse exTable 2 1).toOption.map (fun o =>
    (segments ⟨[10], [0], [20, 20], [0, 20], 0, 0, 0, false, false, o.vertical, o.horizontal⟩).toOption.map
      (·.map (fun s => (s.style, s.color, s.x)))) =
    some (some [(.solid, 1, -1), (.solid, 1, 0), (.solid, 1, -1), (.double, 2, 19), (.double, 2, 20),
                (.double, 2, 40), (.double, 2, 19)]) := by
  decide +kernel

end Wp.C10Painted
