/-
C11 — Floats and positioned boxes obey the CSS 2.1 placement rules.  Property theorems only.
Models: `Model/Floats.lean` (layout/float.py; the three arithmetic tests of `avoid_collisions` come
from `Gen/FloatTests.lean`, regenerated from the source on every run), `Model/Absolute.lean`
(layout/absolute.py, `relative_positioning` of layout/block.py).  Helper lemmas: `Lemmas/Float*.lean`.

Full strength (defects repaired in /repo): `moves_down_when_possible`, `result_fits_or_is_free`, the exact halves of
`abs_replaced` / `abs_centred_v` (F13, F14); `abs_equation_h`, `abs_equation_v`, `abs_replaced` for every auto
pattern (7752e9b: an auto margin takes what the other margin leaves); `float_rules` for every float, an empty
border box included (50ab141).
`float_no_overlap`, `float_place_invariants`, `all_floats_disjoint_and_ordered` no longer need a non-empty border
box (1bc67ce: the early return of `avoid_collisions` is gone; `GoodFloat` only asks for a margin box with area).
Document-level model (`Model/FloatFlow.lean`): `cleared_top_spec` (clearance is added to the collapsed
position), `inline_waiting_is_suffix`, `inline_placed_is_prefix` (a float met in a line after a deferred
float is deferred too).  Floats met inside lines keep the position `float_layout` gave them (330f66c);
`Props/C11Inline.lean` holds the theorems about them.
Boundary behaviour, not a finding: `as_high_as_possible`, `no_overlap`, `result_fits_or_is_free` are about
shapes and boxes of positive height (`collide_zero_height_*` state what happens otherwise).
-/
import WpModel.Lemmas.FloatPlace
import WpModel.Model.Absolute
import WpModel.Model.FloatFlow

namespace Wp.C11
open Wp Wp.Floats

/-! ## The collision test -/

/-- For a box and a shape of positive height, the three-way disjunction of `avoid_collisions` is
exactly open-interval vertical overlap. -/
theorem collide_iff (s : Shape) (y h : Rat) (hh : 0 < h) (hs : 0 < s.mh) :
    collides s y h = true ↔ (s.y < y + h ∧ y < s.y + s.mh) := by
  simp [collides, Gen.collideTest]
  constructor
  · intro h1; grind
  · intro h1; grind

example : collides ⟨0, 0, 10, 10, .left⟩ 5 5 = true ∧ collides ⟨0, 0, 10, 10, .left⟩ 10 5 = false := by
  decide +kernel

/-- Boundary behaviour, box of height 0 (an empty line box): it collides with the shapes it lies
strictly inside of, and with zero-height shapes at exactly its position. -/
theorem collide_zero_height_box (s : Shape) (y : Rat) (hs : 0 ≤ s.mh) :
    collides s y 0 = true ↔ ((s.y < y ∧ y < s.y + s.mh) ∨ (s.y = y ∧ s.mh = 0)) := by
  simp [collides, Gen.collideTest]
  constructor
  · intro h1; grind
  · intro h1; grind

/-- Boundary behaviour, shape of height 0: it "collides" with every box whose closed vertical
extent contains it (including a box that only touches it with its top or bottom edge). -/
theorem collide_zero_height_shape (s : Shape) (y h : Rat) (hs : s.mh = 0) (_hh : 0 ≤ h) :
    collides s y h = true ↔ (y ≤ s.y ∧ s.y ≤ y + h) := by
  simp [collides, Gen.collideTest, hs]
  constructor
  · intro h1; grind
  · intro h1; grind

/-! ## The avoidance loop -/

/-- The `while True` loop of `avoid_collisions` ends: `len(excluded_shapes) + 1` iterations are always
enough (each `continue` strictly decreases the number of shapes whose bottom is below `y`). -/
theorem avoid_terminates (shapes : List Shape) (w h l0 r0 y : Rat) :
    (avoidLoop (shapes.length + 1) shapes w h l0 r0 y).isSome = true :=
  avoidLoop_isSome _ _ _ _ _ _ _ (Nat.lt_succ_of_le (loopMeasure_le shapes y))

/-- More fuel never changes the result: the fuel of the model is not observable. -/
theorem avoid_fuel_irrelevant (shapes : List Shape) (w h l0 r0 y : Rat) (n : Nat) :
    avoidLoop (shapes.length + 1 + n) shapes w h l0 r0 y = avoidLoop (shapes.length + 1) shapes w h l0 r0 y :=
  avoidLoop_fuel_irrelevant _ _ _ _ _ _ _ _
    (by have := loopMeasure_le shapes y; omega) (by have := loopMeasure_le shapes y; omega)

/-- `avoid_collisions` never fails by exhausting the loop (C02 totality of the loop). -/
theorem avoid_never_loops (shapes : List Shape) (b : ABox) (cb : CB) (outer : Bool) (site : String) :
    avoidCollisions shapes b cb outer ≠ .error (.recursion site) := by
  unfold avoidCollisions
  simp only
  split
  · rename_i hn
    have := avoid_terminates shapes (if outer then b.marginWidth else b.bw)
      (if outer then b.marginHeight else b.bh) (if outer then cb.cx else cb.cx + b.ml)
      (if outer then cb.cx + cb.w else cb.cx + cb.w - b.mr) (if outer then b.py else b.py + b.mt)
    rw [hn] at this
    simp at this
  · split
    · simp
    · split <;> simp

/-- Interior intersection of the rectangle `(x, y, w, h)` with the margin box of a shape. -/
def Overlaps (x y w h : Rat) (s : Shape) : Prop :=
  x < s.x + s.mw ∧ s.x < x + w ∧ y < s.y + s.mh ∧ s.y < y + h

/-- Shapes with area: positive height, non-negative width. -/
def Proper (shapes : List Shape) : Prop := ∀ s ∈ shapes, 0 < s.mh ∧ 0 ≤ s.mw

/-- The position never moves up, the returned bounds lie inside the default bounds (the containing
block), and they are the bounds computed at the returned position. -/
theorem avoid_result_bounds (fuel : Nat) (shapes : List Shape) (w h l0 r0 y : Rat) (res : LoopRes)
    (hres : avoidLoop fuel shapes w h l0 r0 y = some res) :
    y ≤ res.y ∧ l0 ≤ res.l ∧ res.r ≤ r0 := by
  have := avoidLoop_induct (fun y' => y ≤ y') shapes w h l0 r0
    (by
      intro y1 p ps h1 _ hl
      have := (next_position hl).2.1
      grind)
    fuel y res Rat.le_refl hres
  obtain ⟨h1, h2, h3, _⟩ := this
  refine ⟨h1, ?_, ?_⟩
  · rw [h2]; exact bounds_l_ge_init _ _ _
  · rw [h3]; exact bounds_r_le_init _ _ _

/-- **No overlap.**  If the box fits in the returned bounds (`w ≤ right − left`), then placed anywhere
between them — at the left bound (left floats, ltr boxes) or against the right bound (right floats,
rtl boxes) — its rectangle has empty interior intersection with every excluded shape, lies between
the default bounds (inside the containing block) and is not above the requested position. -/
theorem no_overlap (fuel : Nat) (shapes : List Shape) (w h l0 r0 y : Rat) (res : LoopRes)
    (hres : avoidLoop fuel shapes w h l0 r0 y = some res)
    (hh : 0 < h) (hp : Proper shapes) (x : Rat) (hx1 : res.l ≤ x) (hx2 : x + w ≤ res.r) :
    (∀ s ∈ shapes, ¬ Overlaps x res.y w h s) ∧ l0 ≤ x ∧ x + w ≤ r0 ∧ y ≤ res.y := by
  obtain ⟨hy, hl0, hr0⟩ := avoid_result_bounds fuel shapes w h l0 r0 y res hres
  obtain ⟨_, hl, hr, _⟩ := avoidLoop_induct (fun _ => True) shapes w h l0 r0
    (fun _ _ _ _ _ _ => trivial) fuel y res trivial hres
  refine ⟨?_, by grind, by grind, hy⟩
  intro s hs hov
  obtain ⟨ho1, ho2, ho3, ho4⟩ := hov
  have hcol : collides s res.y h = true := (collide_iff s res.y h hh (hp s hs).1).mpr ⟨ho4, ho3⟩
  have hmem : s ∈ colliding shapes res.y h := mem_colliding.mpr ⟨hs, hcol⟩
  cases hside : s.side with
  | left =>
    have := bounds_l_ge (colliding shapes res.y h) l0 r0 s hmem hside
    unfold Shape.rightEdge at this
    grind
  | right =>
    have := bounds_r_le (colliding shapes res.y h) l0 r0 s hmem hside
    grind

example : avoidLoop 3 [⟨0, 0, 60, 50, .left⟩, ⟨70, 0, 30, 20, .right⟩] 35 10 0 100 0
    = some ⟨20, 60, 100⟩ := by decide +kernel

/-- **The loop never gives up while something lower exists.**  If the box still does not fit at the
returned position, no colliding shape there has its bottom below that position. -/
theorem gives_up_only_at_the_bottom (fuel : Nat) (shapes : List Shape) (w h l0 r0 y : Rat) (res : LoopRes)
    (hres : avoidLoop fuel shapes w h l0 r0 y = some res)
    (hb : blockedAt shapes w h l0 r0 res.y = true) :
    ∀ s ∈ shapes, collides s res.y h = true → s.bottom ≤ res.y := by
  obtain ⟨_, _, _, hex⟩ := avoidLoop_induct (fun _ => True) shapes w h l0 r0
    (fun _ _ _ _ _ _ => trivial) fuel y res trivial hres
  rcases hex with h1 | h1
  · rw [hb] at h1; simp at h1
  · intro s hs hc
    by_cases hgt : s.bottom > res.y
    · have : s.bottom ∈ lowerPositions (colliding shapes res.y h) res.y :=
        mem_lowerPositions.mpr ⟨⟨s, mem_colliding.mpr ⟨hs, hc⟩, rfl⟩, hgt⟩
      rw [h1] at this
      simp at this
    · grind

/-- **Moves down when possible** (full strength since the repair of the descent rule): if the box
does not fit at the requested position and a colliding shape ends lower, the result is lower. -/
theorem moves_down_when_possible (fuel : Nat) (shapes : List Shape) (w h l0 r0 y : Rat) (res : LoopRes)
    (hres : avoidLoop fuel shapes w h l0 r0 y = some res)
    (hb : blockedAt shapes w h l0 r0 y = true)
    (hex : ∃ s ∈ shapes, collides s y h = true ∧ s.bottom > y) : y < res.y := by
  cases fuel with
  | zero => simp [avoidLoop] at hres
  | succ n =>
    rw [avoidLoop_succ] at hres
    simp only at hres
    have hb' : ((bounds (colliding shapes y h) l0 r0).constrained &&
        Gen.blockedTest w (bounds (colliding shapes y h) l0 r0).r (bounds (colliding shapes y h) l0 r0).l) = true := by
      simpa [blockedAt] using hb
    rw [if_pos hb'] at hres
    split at hres
    · rename_i hl
      obtain ⟨s, hs, hc, hgt⟩ := hex
      have : s.bottom ∈ lowerPositions (colliding shapes y h) y :=
        mem_lowerPositions.mpr ⟨⟨s, mem_colliding.mpr ⟨hs, hc⟩, rfl⟩, hgt⟩
      rw [hl] at this
      simp at this
    · rename_i p ps hl
      have h1 := (next_position hl).2.1
      have h2 := (avoid_result_bounds n shapes w h l0 r0 _ res hres).1
      grind

example : blockedAt [⟨0, 0, 10, 0, .left⟩, ⟨0, 0, 80, 50, .left⟩] 50 10 0 100 0 = true ∧
    avoidLoop 3 [⟨0, 0, 10, 0, .left⟩, ⟨0, 0, 80, 50, .left⟩] 50 10 0 100 0 = some ⟨50, 0, 100⟩ := by
  decide +kernel

/-- With shapes and a box of positive height, a colliding shape always ends below the current
position, so the loop never takes the "no solution" exit: the result either fits between the
bounds or collides with nothing at all. -/
theorem result_fits_or_is_free (fuel : Nat) (shapes : List Shape) (w h l0 r0 y : Rat) (res : LoopRes)
    (hres : avoidLoop fuel shapes w h l0 r0 y = some res) (hh : 0 < h) (hp : Proper shapes) :
    w ≤ res.r - res.l ∨ colliding shapes res.y h = [] := by
  obtain ⟨_, hl, hr, _⟩ := avoidLoop_induct (fun _ => True) shapes w h l0 r0
    (fun _ _ _ _ _ _ => trivial) fuel y res trivial hres
  by_cases hb : blockedAt shapes w h l0 r0 res.y = true
  · right
    have hg := gives_up_only_at_the_bottom fuel shapes w h l0 r0 y res hres hb
    cases hcol : colliding shapes res.y h with
    | nil => rfl
    | cons s rest =>
      exfalso
      have hm : s ∈ colliding shapes res.y h := by rw [hcol]; simp
      obtain ⟨hs, hc⟩ := mem_colliding.mp hm
      have h1 := hg s hs hc
      have h2 := (collide_iff s res.y h hh (hp s hs).1).mp hc
      unfold Shape.bottom at h1
      grind
  · by_cases hc : colliding shapes res.y h = []
    · right; exact hc
    · left
      have hcon := (bounds_constrained (colliding shapes res.y h) l0 r0).mpr hc
      simp [blockedAt, hcon, Gen.blockedTest] at hb
      rw [hl, hr]
      grind

/-- The colliding shapes at `y` still collide at every position up to the next one the loop tries. -/
private theorem collides_persist (s : Shape) (y y' h : Rat) (hh : 0 < h) (hs : 0 < s.mh)
    (hc : collides s y h = true) (h1 : y ≤ y') (h2 : y' < s.bottom) : collides s y' h = true := by
  have := (collide_iff s y h hh hs).mp hc
  apply (collide_iff s y' h hh hs).mpr
  unfold Shape.bottom at h2
  grind

/-- If every shape colliding at `y` also collides at `y'`, a box blocked at `y` is blocked at `y'`. -/
private theorem blocked_mono (shapes : List Shape) (w h l0 r0 y y' : Rat)
    (hsub : ∀ s ∈ shapes, collides s y h = true → collides s y' h = true)
    (hb : blockedAt shapes w h l0 r0 y = true) : blockedAt shapes w h l0 r0 y' = true := by
  simp only [blockedAt, Gen.blockedTest, Bool.and_eq_true, decide_eq_true_eq] at hb ⊢
  obtain ⟨hcon, hw⟩ := hb
  have hne : colliding shapes y h ≠ [] := (bounds_constrained _ l0 r0).mp hcon
  have hsub' : ∀ s ∈ colliding shapes y h, s ∈ colliding shapes y' h := by
    intro s hs
    obtain ⟨h1, h2⟩ := mem_colliding.mp hs
    exact mem_colliding.mpr ⟨h1, hsub s h1 h2⟩
  have hne' : colliding shapes y' h ≠ [] := by
    cases hcol : colliding shapes y h with
    | nil => exact absurd hcol hne
    | cons s rest =>
      have : s ∈ colliding shapes y' h := hsub' s (by rw [hcol]; simp)
      intro h0; rw [h0] at this; simp at this
  refine ⟨(bounds_constrained _ l0 r0).mpr hne', ?_⟩
  have hl : (bounds (colliding shapes y h) l0 r0).l ≤ (bounds (colliding shapes y' h) l0 r0).l := by
    rcases bounds_l_mem (colliding shapes y h) l0 r0 with h1 | ⟨s, hs, hside, he⟩
    · rw [h1]; exact bounds_l_ge_init _ _ _
    · rw [← he]; exact bounds_l_ge _ l0 r0 s (hsub' s hs) hside
  have hr : (bounds (colliding shapes y' h) l0 r0).r ≤ (bounds (colliding shapes y h) l0 r0).r := by
    rcases bounds_r_mem (colliding shapes y h) l0 r0 with h1 | ⟨s, hs, hside, he⟩
    · rw [h1]; exact bounds_r_le_init _ _ _
    · rw [← he]; exact bounds_r_le _ l0 r0 s (hsub' s hs) hside
  grind

/-- **As high as possible.**  Among shapes and a box of positive height, every position between the
requested one and the returned one is a position where the box does not fit: the loop only skips
positions that are blocked. -/
theorem as_high_as_possible (fuel : Nat) (shapes : List Shape) (w h l0 r0 y : Rat) (res : LoopRes)
    (hres : avoidLoop fuel shapes w h l0 r0 y = some res) (hh : 0 < h) (hp : Proper shapes) :
    ∀ y', y ≤ y' → y' < res.y → blockedAt shapes w h l0 r0 y' = true := by
  have := avoidLoop_induct
    (fun yk => y ≤ yk ∧ ∀ y', y ≤ y' → y' < yk → blockedAt shapes w h l0 r0 y' = true)
    shapes w h l0 r0
    (by
      intro yk p ps ⟨hk1, hk2⟩ hb hl
      obtain ⟨_, hgt, hmin⟩ := next_position hl
      refine ⟨by grind, ?_⟩
      intro y' h1 h2
      by_cases hlt : y' < yk
      · exact hk2 y' h1 hlt
      · apply blocked_mono shapes w h l0 r0 yk y' _ hb
        intro s hs hc
        have hpos := (hp s hs).1
        have hbot : s.bottom > yk := by
          have := (collide_iff s yk h hh hpos).mp hc
          unfold Shape.bottom; grind
        have := hmin s hs hc hbot
        exact collides_persist s yk y' h hh hpos hc (by grind) (by grind))
    fuel y res ⟨Rat.le_refl, by intro y' h1 h2; grind⟩ hres
  exact this.1.2

example : avoidLoop 2 [⟨0, 0, 80, 50, .left⟩] 50 10 0 100 0 = some ⟨50, 0, 100⟩ ∧
    blockedAt [⟨0, 0, 80, 50, .left⟩] 50 10 0 100 49 = true := by decide +kernel

/-! ## `avoid_collisions` on any box (line boxes, BFC roots, replaced blocks, table wrappers, floats) -/

/-- What `avoid_collisions` returns for any box that passes the class assertion (every box: the early return for
floats with an empty border box is gone, 1bc67ce). -/
theorem avoid_collisions_result (shapes : List Shape) (b : ABox) (cb : CB) (outer : Bool) (p : Placement)
    (h : avoidCollisions shapes b cb outer = .ok p) :
    ∃ res, avoidLoop (shapes.length + 1) shapes (if outer then b.marginWidth else b.bw)
        (if outer then b.marginHeight else b.bh) (if outer then cb.cx else cb.cx + b.ml)
        (if outer then cb.cx + cb.w else cb.cx + cb.w - b.mr) (if outer then b.py else b.py + b.mt) = some res ∧
      p.avail = res.r - res.l ∧
      (if outer then p.y else p.y + b.mt) = res.y ∧
      (if outer then p.x else p.x + b.ml) =
        (if b.float = .none ∧ cb.rtl = true then
          (if b.kind = .line then res.r else res.r - (if outer then b.marginWidth else b.bw))
         else res.l) := by
  unfold avoidCollisions at h
  simp only at h
  split at h
  · simp at h
  · rename_i res hres
    refine ⟨res, hres, ?_⟩
    split at h
    · simp at h
    · cases outer <;> simp at h <;> subst h <;> simp
      · cases hk : b.kind <;> simp <;> grind
      · cases hk : b.kind <;> simp

/-- `avoid_collisions_result` under its former name and signature (the hypothesis excluded the early return that
no longer exists; kept because `Lemmas/LineFloats.lean` of C09 passes it). -/
theorem avoid_collisions_spec (shapes : List Shape) (b : ABox) (cb : CB) (outer : Bool) (p : Placement)
    (_hz : ¬ (b.bh = 0 ∧ b.float ≠ .none))
    (h : avoidCollisions shapes b cb outer = .ok p) :
    ∃ res, avoidLoop (shapes.length + 1) shapes (if outer then b.marginWidth else b.bw)
        (if outer then b.marginHeight else b.bh) (if outer then cb.cx else cb.cx + b.ml)
        (if outer then cb.cx + cb.w else cb.cx + cb.w - b.mr) (if outer then b.py else b.py + b.mt) = some res ∧
      p.avail = res.r - res.l ∧
      (if outer then p.y else p.y + b.mt) = res.y ∧
      (if outer then p.x else p.x + b.ml) =
        (if b.float = .none ∧ cb.rtl = true then
          (if b.kind = .line then res.r else res.r - (if outer then b.marginWidth else b.bw))
         else res.l) :=
  avoid_collisions_result shapes b cb outer p h

/-- **Boxes that may not overlap floats** (line boxes, table wrappers, block-level replaced boxes,
formatting-context roots — and floats themselves): when the box fits in the available width that
`avoid_collisions` returns, its rectangle (border box for `outer=False`, margin box for
`outer=True`; for an rtl line the rectangle ending at the returned cursor position) overlaps no
float, lies between the containing block's edges (shrunk by the box's own margins for
`outer=False`) and is not above the requested position. -/
theorem placed_box_no_overlap (shapes : List Shape) (b : ABox) (cb : CB) (outer : Bool) (p : Placement)
    (h : avoidCollisions shapes b cb outer = .ok p)
    (hh : 0 < (if outer then b.marginHeight else b.bh)) (hp : Proper shapes)
    (hfit : (if outer then b.marginWidth else b.bw) ≤ p.avail) :
    let w := if outer then b.marginWidth else b.bw
    let ht := if outer then b.marginHeight else b.bh
    let bx := if outer then p.x else p.x + b.ml
    let top := if outer then p.y else p.y + b.mt
    let left := if b.float = .none ∧ cb.rtl = true ∧ b.kind = .line then bx - w else bx
    (∀ s ∈ shapes, ¬ Overlaps left top w ht s) ∧
    (if outer then cb.cx else cb.cx + b.ml) ≤ left ∧
    left + w ≤ (if outer then cb.cx + cb.w else cb.cx + cb.w - b.mr) ∧
    (if outer then b.py else b.py + b.mt) ≤ top := by
  intro w ht bx top left
  obtain ⟨res, hres, h1, h2, h3⟩ := avoid_collisions_result shapes b cb outer p h
  have hx : res.l ≤ left ∧ left + w ≤ res.r := by
    simp only [left, bx, w] at *
    by_cases c1 : b.float = .none ∧ cb.rtl = true
    · by_cases c2 : b.kind = .line
      · simp only [c1, c2, and_self, if_true] at h3 ⊢; grind
      · have c3 : ¬ (b.float = .none ∧ cb.rtl = true ∧ b.kind = .line) := by simp [c2]
        simp only [c1, c2, and_self, if_true, if_false] at h3 ⊢; grind
    · have c3 : ¬ (b.float = .none ∧ cb.rtl = true ∧ b.kind = .line) := by
        intro hc; exact c1 ⟨hc.1, hc.2.1⟩
      simp only [c1, c3, if_false] at h3 ⊢; grind
  have := no_overlap _ shapes _ _ _ _ _ res hres hh hp left hx.1 hx.2
  simp only [top]
  rw [h2]
  exact this

/-- **A formatting-context root, table wrapper or block-level replaced box with a border box of positive height
never overlaps a float** — whether or not it fits beside the floats: `avoid_collisions(outer=False)` either finds a
place where it fits between the bounds, or ends at a position where no float collides with it vertically (then it
may stick out of its containing block, but lies over no float). -/
theorem avoided_box_no_overlap (shapes : List Shape) (b : ABox) (cb : CB) (p : Placement)
    (h : avoidCollisions shapes b cb false = .ok p)
    (hh : 0 < b.bh) (hp : Proper shapes) (hk : b.kind ≠ .line) :
    ∀ s ∈ shapes, ¬ Overlaps (p.x + b.ml) (p.y + b.mt) b.bw b.bh s := by
  obtain ⟨res, hres, _, h2, h3⟩ := avoid_collisions_result shapes b cb false p h
  simp only [Bool.false_eq_true, if_false] at hres h2 h3
  rcases result_fits_or_is_free _ shapes _ _ _ _ _ res hres hh hp with hfit | hfree
  · have hx : res.l ≤ p.x + b.ml ∧ p.x + b.ml + b.bw ≤ res.r := by
      rw [h3]
      by_cases c1 : b.float = .none ∧ cb.rtl = true
      · simp only [c1, and_self, if_true, hk, if_false]; grind
      · simp only [c1, if_false]; grind
    have := (no_overlap _ shapes _ _ _ _ _ res hres hh hp (p.x + b.ml) hx.1 hx.2).1
    rw [h2]; exact this
  · intro s hs hov
    obtain ⟨_, _, ho3, ho4⟩ := hov
    rw [h2] at ho3 ho4
    have hcol : collides s res.y b.bh = true := (collide_iff s res.y _ hh (hp s hs).1).mpr ⟨ho4, ho3⟩
    have : s ∈ colliding shapes res.y b.bh := mem_colliding.mpr ⟨hs, hcol⟩
    rw [hfree] at this
    simp at this

example : (avoidCollisions [⟨0, 0, 30, 40, .left⟩, ⟨80, 0, 20, 20, .right⟩]
    ⟨0, 10, 0, 0, 0, 0, 50, 10, .none, .none, .line⟩ ⟨0, 100, true⟩ false).toOption = some ⟨80, 10, 50⟩ := by
  decide +kernel

/-! ## `get_clearance` -/

/-- The shapes named by `clear`. -/
def Named (c : Clear) (s : Shape) : Prop := clearApplies c s.side = true

private theorem clearance_fold (shapes : List Shape) (c : Clear) (hyp : Rat) (acc : Option Rat)
    (hacc : ∀ a, acc = some a → 0 < a) :
    let r := shapes.foldl (fun acc s =>
      if clearApplies c s.side && decide (hyp < s.y + s.mh) then
        some (max (acc.getD 0) (s.y + s.mh - hyp))
      else acc) acc
    (∀ a, r = some a → 0 < a ∧ (∀ a0, acc = some a0 → a0 ≤ a) ∧
        (∀ s ∈ shapes, Named c s → s.bottom ≤ hyp + a) ∧
        (acc = some a ∨ ∃ s ∈ shapes, Named c s ∧ s.bottom = hyp + a)) ∧
    (r = none → acc = none ∧ ∀ s ∈ shapes, Named c s → s.bottom ≤ hyp) := by
  induction shapes generalizing acc with
  | nil =>
    simp only [List.foldl_nil]
    refine ⟨?_, ?_⟩
    · intro a ha
      exact ⟨hacc a ha, by intro a0 h0; rw [ha] at h0; cases h0; exact Rat.le_refl, by simp, Or.inl ha⟩
    · intro h; exact ⟨h, by simp⟩
  | cons s rest ih =>
    simp only [List.foldl_cons]
    by_cases hc : (clearApplies c s.side && decide (hyp < s.y + s.mh)) = true
    · rw [if_pos hc]
      simp only [Bool.and_eq_true, decide_eq_true_eq] at hc
      have hnew : ∀ a, some (max (acc.getD 0) (s.y + s.mh - hyp)) = some a → 0 < a := by
        intro a ha; cases ha; grind
      obtain ⟨ih1, ih2⟩ := ih (some (max (acc.getD 0) (s.y + s.mh - hyp))) hnew
      refine ⟨?_, ?_⟩
      · intro a ha
        obtain ⟨h1, h2, h3, h4⟩ := ih1 a ha
        have hge := h2 _ rfl
        refine ⟨h1, ?_, ?_, ?_⟩
        · intro a0 h0; subst h0; simp at hge; grind
        · intro s' hs' hn
          rcases List.mem_cons.mp hs' with h | h
          · subst h; unfold Shape.bottom; grind
          · exact h3 s' h hn
        · rcases h4 with h | ⟨s', hs', hn, he⟩
          · cases hacc0 : acc with
            | none =>
              right
              refine ⟨s, by simp, hc.1, ?_⟩
              simp [hacc0] at h
              unfold Shape.bottom; grind
            | some a0 =>
              simp [hacc0] at h
              by_cases hle : s.y + s.mh - hyp ≤ a0
              · left; congr 1; grind
              · right
                refine ⟨s, by simp, hc.1, ?_⟩
                unfold Shape.bottom; grind
          · right; exact ⟨s', by simp [hs'], hn, he⟩
      · intro hnone
        have := (ih2 hnone).1
        simp at this
    · rw [if_neg hc]
      obtain ⟨ih1, ih2⟩ := ih acc hacc
      have hs_ok : Named c s → s.bottom ≤ hyp := by
        intro hn
        unfold Named at hn
        simp [hn] at hc
        unfold Shape.bottom; grind
      refine ⟨?_, ?_⟩
      · intro a ha
        obtain ⟨h1, h2, h3, h4⟩ := ih1 a ha
        refine ⟨h1, h2, ?_, ?_⟩
        · intro s' hs' hn
          rcases List.mem_cons.mp hs' with h | h
          · subst h; have := hs_ok hn; grind
          · exact h3 s' h hn
        · rcases h4 with h | ⟨s', hs', hn, he⟩
          · left; exact h
          · right; exact ⟨s', by simp [hs'], hn, he⟩
      · intro hnone
        obtain ⟨h1, h2⟩ := ih2 hnone
        refine ⟨h1, ?_⟩
        intro s' hs' hn
        rcases List.mem_cons.mp hs' with h | h
        · subst h; exact hs_ok hn
        · exact h2 s' h hn

/-- **Clearance, `None` case**: no clearance exactly when the hypothetical top border edge is already
at or below the bottom of every float named by `clear`. -/
theorem clearance_none_iff (shapes : List Shape) (c : Clear) (py cm : Rat) :
    getClearance shapes c py cm = none ↔ ∀ s ∈ shapes, Named c s → s.bottom ≤ py + cm := by
  have := clearance_fold shapes c (py + cm) none (by simp)
  simp only at this
  constructor
  · intro h; exact (this.2 h).2
  · intro h
    cases hr : getClearance shapes c py cm with
    | none => rfl
    | some a =>
      exfalso
      obtain ⟨hpos, _, _, h4⟩ := this.1 a hr
      rcases h4 with h4 | ⟨s, hs, hn, he⟩
      · simp at h4
      · have := h s hs hn
        grind

/-- **Clearance is the least sufficient amount**: a returned clearance is positive, moves the edge to
or below the bottom of every named float, and exactly onto the bottom of one of them (so no
smaller amount would do). -/
theorem clearance_least (shapes : List Shape) (c : Clear) (py cm a : Rat)
    (h : getClearance shapes c py cm = some a) :
    0 < a ∧ (∀ s ∈ shapes, Named c s → s.bottom ≤ py + cm + a) ∧
    (∃ s ∈ shapes, Named c s ∧ s.bottom = py + cm + a) := by
  have := clearance_fold shapes c (py + cm) none (by simp)
  simp only at this
  obtain ⟨hpos, _, h3, h4⟩ := this.1 a h
  refine ⟨hpos, h3, ?_⟩
  rcases h4 with h4 | h4
  · simp at h4
  · exact h4

example : getClearance [⟨0, 0, 10, 30, .left⟩, ⟨90, 0, 10, 50, .right⟩] .left 10 0 = some 20 ∧
    getClearance [⟨0, 0, 10, 30, .left⟩, ⟨90, 0, 10, 50, .right⟩] .both 10 0 = some 40 ∧
    getClearance [⟨0, 0, 10, 30, .left⟩] .right 10 0 = none := by decide +kernel

/-! ## `find_float_position`: the float rules -/

/-- What `find_float_position` computes, for every float: the loop is run
on the margin box from `max(static y, top of the last float)`; a left float sits at the left
bound, a right float ends at the right bound. -/
theorem float_position_spec (shapes : List Shape) (b : ABox) (cb : CB) (x y : Rat)
    (hf : b.float ≠ .none)
    (h : findFloatPosition shapes b cb = .ok (x, y)) :
    ∃ res y0, avoidLoop (shapes.length + 1) shapes b.marginWidth b.marginHeight cb.cx (cb.cx + cb.w) y0 = some res ∧
      b.py ≤ y0 ∧ (∀ s, shapes.getLast? = some s → s.y ≤ y0) ∧ y = res.y ∧
      (b.float = .left → x = res.l) ∧ (b.float = .right → x + b.marginWidth = res.r) := by
  obtain ⟨y0, p, h1, h2, h3, h4, h5⟩ := findFloatPosition_ok shapes b cb x y h
  obtain ⟨res, hres, hp⟩ := avoidCollisions_float shapes { b with py := y0 } cb p hf h3
  refine ⟨res, y0, hres, h1, h2, by rw [h4, hp], ?_, ?_⟩
  · intro hl; rw [h5, hp]; simp [hl]
  · intro hr; rw [h5, hp]; simp [hr]; grind

/-- **Float rules** (CSS 2.1 §9.5.1), for every float (a float whose border box has height 0 is placed like any
other float since 1bc67ce):
rule 4 — its top is not above its static position; rules 5/6 — not above the top of the float
placed just before it; rules 1/2/7 — when it fits next to the floats it collides with, a left float
starts at the containing block's left edge or at the right edge of a colliding left float, ends
before every colliding right float and inside the containing block (symmetrically for right
floats). -/
theorem float_rules (shapes : List Shape) (b : ABox) (cb : CB) (x y : Rat)
    (hf : b.float ≠ .none)
    (h : findFloatPosition shapes b cb = .ok (x, y)) :
    b.py ≤ y ∧ (∀ s, shapes.getLast? = some s → s.y ≤ y) ∧
    (b.float = .left → cb.cx ≤ x ∧
      (x = cb.cx ∨ ∃ s ∈ shapes, s.side = .left ∧ collides s y b.marginHeight = true ∧ s.rightEdge = x)) ∧
    (b.float = .right → x + b.marginWidth ≤ cb.cx + cb.w ∧
      (x + b.marginWidth = cb.cx + cb.w ∨
        ∃ s ∈ shapes, s.side = .right ∧ collides s y b.marginHeight = true ∧ s.x = x + b.marginWidth)) := by
  obtain ⟨res, y0, hres, h1, h2, h3, h4, h5⟩ := float_position_spec shapes b cb x y hf h
  obtain ⟨hy, hl0, hr0⟩ := avoid_result_bounds _ shapes _ _ _ _ y0 res hres
  obtain ⟨_, hl, hr, _⟩ := avoidLoop_induct (fun _ => True) shapes b.marginWidth b.marginHeight cb.cx (cb.cx + cb.w)
    (fun _ _ _ _ _ _ => trivial) _ y0 res trivial hres
  subst h3
  refine ⟨by grind, fun s hs => by have := h2 s hs; grind, ?_, ?_⟩
  · intro hfl
    have hx := h4 hfl
    refine ⟨by grind, ?_⟩
    rcases bounds_l_mem (colliding shapes res.y b.marginHeight) cb.cx (cb.cx + cb.w) with hb | ⟨s, hs, hside, he⟩
    · left; grind
    · right
      obtain ⟨hs1, hs2⟩ := mem_colliding.mp hs
      exact ⟨s, hs1, hside, hs2, by grind⟩
  · intro hfr
    have hx := h5 hfr
    refine ⟨by grind, ?_⟩
    rcases bounds_r_mem (colliding shapes res.y b.marginHeight) cb.cx (cb.cx + cb.w) with hb | ⟨s, hs, hside, he⟩
    · left; grind
    · right
      obtain ⟨hs1, hs2⟩ := mem_colliding.mp hs
      exact ⟨s, hs1, hside, hs2, by grind⟩

/-- A float with an empty border box (margin box 20×10) is placed by the same loop. -/
example : (findFloatPosition [⟨50, 40, 20, 20, .left⟩] ⟨70, 70, 5, 5, 5, 5, 10, 0, .right, .none, .bfc⟩
    ⟨50, 100, false⟩).toOption = some (130, 70) := by decide +kernel

/-- **A placed float never overlaps an earlier float** (all with area; the border box of the float itself may be
empty, 1bc67ce), whether or not it fits in the containing block; and when it fits between the bounds it is inside
the containing block. -/
theorem float_no_overlap (shapes : List Shape) (b : ABox) (cb : CB) (x y : Rat)
    (hf : b.float ≠ .none) (hmh : 0 < b.marginHeight)
    (hp : Proper shapes) (h : findFloatPosition shapes b cb = .ok (x, y)) :
    (∀ s ∈ shapes, ¬ Overlaps x y b.marginWidth b.marginHeight s) ∧
    (b.marginWidth ≤ cb.w → colliding shapes y b.marginHeight = [] ∨
      (cb.cx ≤ x ∧ x + b.marginWidth ≤ cb.cx + cb.w)) := by
  obtain ⟨res, y0, hres, h1, h2, h3, h4, h5⟩ := float_position_spec shapes b cb x y hf h
  subst h3
  have hside : b.float = .left ∨ b.float = .right := by
    cases hb : b.float <;> simp_all
  rcases result_fits_or_is_free _ shapes _ _ _ _ y0 res hres hmh hp with hfit | hfree
  · have hx : res.l ≤ x ∧ x + b.marginWidth ≤ res.r := by
      rcases hside with hs | hs
      · have := h4 hs; grind
      · have := h5 hs; grind
    obtain ⟨hno, hin1, hin2, _⟩ := no_overlap _ shapes _ _ _ _ y0 res hres hmh hp x hx.1 hx.2
    exact ⟨hno, fun _ => Or.inr ⟨hin1, hin2⟩⟩
  · refine ⟨?_, fun _ => Or.inl hfree⟩
    intro s hs hov
    obtain ⟨_, _, ho3, ho4⟩ := hov
    have hcol : collides s res.y b.marginHeight = true :=
      (collide_iff s res.y _ hmh (hp s hs).1).mpr ⟨ho4, ho3⟩
    have : s ∈ colliding shapes res.y b.marginHeight := mem_colliding.mpr ⟨hs, hcol⟩
    rw [hfree] at this
    simp at this

example : (findFloatPosition [⟨0, 0, 60, 50, .left⟩] ⟨0, 0, 0, 0, 0, 0, 50, 10, .right, .none, .bfc⟩
    ⟨0, 100, false⟩).toOption = some (50, 50) := by decide +kernel

/-! ## Sequences of floats (`float_layout` placement: clearance, position, `excluded_shapes.append`) -/

/-- Tops in document order never go up (rules 5 and 6 for *all* earlier floats). -/
def SortedTops (shapes : List Shape) : Prop := shapes.Pairwise (fun a b => a.y ≤ b.y)

/-- No two floats of the context overlap. -/
def PairwiseDisjoint (shapes : List Shape) : Prop :=
  shapes.Pairwise (fun a b => ¬ Overlaps b.x b.y b.mw b.mh a)

private theorem sorted_last (shapes : List Shape) (hs : SortedTops shapes) (l : Shape)
    (hl : shapes.getLast? = some l) : ∀ s ∈ shapes, s.y ≤ l.y := by
  induction shapes with
  | nil => simp
  | cons a rest ih =>
    intro s hsm
    unfold SortedTops at hs
    rw [List.pairwise_cons] at hs
    cases rest with
    | nil => simp at hl hsm; subst hl; subst hsm; exact Rat.le_refl
    | cons c rest' =>
      have hl' : (c :: rest').getLast? = some l := by
        simpa [List.getLast?_cons_cons] using hl
      rcases List.mem_cons.mp hsm with h | h
      · subst h
        have hmem : l ∈ c :: rest' := List.mem_of_getLast? hl'
        exact hs.1 l hmem
      · exact ih hs.2 hl' s h

/-- One step of `float_layout`'s placement keeps the context well formed: the new float (positive margin-box
height, non-negative margin-box width) is not above any earlier
float, overlaps none of them, and is below every float its `clear` names. -/
theorem float_place_invariants (shapes : List Shape) (b : ABox) (cb : CB) (b' : ABox) (shapes' : List Shape)
    (hf : b.float ≠ .none) (hmh : 0 < b.marginHeight) (hmw : 0 ≤ b.marginWidth)
    (hp : Proper shapes) (hs : SortedTops shapes) (hd : PairwiseDisjoint shapes)
    (h : floatPlace shapes b cb = .ok (b', shapes')) :
    Proper shapes' ∧ SortedTops shapes' ∧ PairwiseDisjoint shapes' ∧
    (∀ s ∈ shapes, Named b.clear s → s.bottom ≤ b'.py) ∧ b.py ≤ b'.py := by
  obtain ⟨x, y, hpos, hb', hsh⟩ := floatPlace_ok shapes b cb b' shapes' h
  obtain ⟨f1, f2, f3, f4, f5⟩ := afterClearance_fields shapes b
  have hb1y : b.py ≤ (afterClearance shapes b).py ∧
      ∀ s ∈ shapes, Named b.clear s → s.bottom ≤ (afterClearance shapes b).py := by
    unfold afterClearance
    split
    · rename_i c hc
      have := clearance_least shapes b.clear b.py 0 c hc
      refine ⟨by simp; grind, ?_⟩
      intro s hs hn
      have := this.2.1 s hs hn
      simp; grind
    · rename_i hc
      have := (clearance_none_iff shapes b.clear b.py 0).mp hc
      refine ⟨Rat.le_refl, ?_⟩
      intro s hs hn
      have := this s hs hn
      grind
  have hf1 : (afterClearance shapes b).float ≠ .none := by rw [f1]; exact hf
  have hmh1 : 0 < (afterClearance shapes b).marginHeight := by rw [f3]; exact hmh
  obtain ⟨r1, r2, _, _⟩ := float_rules shapes _ cb x y hf1 hpos
  obtain ⟨hno, _⟩ := float_no_overlap shapes _ cb x y hf1 hmh1 hp hpos
  rw [f3, f4] at hno
  subst hsh
  subst hb'
  refine ⟨?_, ?_, ?_, ?_, ?_⟩
  · intro s hsm
    rcases List.mem_append.mp hsm with h1 | h1
    · exact hp s h1
    · simp at h1; subst h1; exact ⟨hmh, hmw⟩
  · unfold SortedTops
    rw [List.pairwise_append]
    refine ⟨hs, by simp, ?_⟩
    intro a ha c hc
    simp at hc; subst hc; simp
    cases hl : shapes.getLast? with
    | none => simp [List.getLast?_eq_none_iff] at hl; subst hl; simp at ha
    | some l =>
      have := sorted_last shapes hs l hl a ha
      have := r2 l hl
      grind
  · unfold PairwiseDisjoint
    rw [List.pairwise_append]
    refine ⟨hd, by simp, ?_⟩
    intro a ha c hc
    simp at hc; subst hc
    exact hno a ha
  · intro s hsm hn
    have := hb1y.2 s hsm hn
    simp; grind
  · simp; grind

/-- Place a whole sequence of floats, one after the other (each with its own static position). -/
def placeAll (cb : CB) : List Shape → List ABox → Except PyErr (List Shape)
  | shapes, [] => .ok shapes
  | shapes, b :: bs =>
    match floatPlace shapes b cb with
    | .error e => .error e
    | .ok (_, shapes') => placeAll cb shapes' bs

/-- A float the placement rules are about: it floats and has a margin box with positive height and non-negative
width (its border box may be empty). -/
def GoodFloat (b : ABox) : Prop :=
  b.float ≠ .none ∧ 0 < b.marginHeight ∧ 0 ≤ b.marginWidth

/-- **Every arrangement**: whatever the sizes, margins, sides, `clear` values and static positions of
a sequence of floats, after placing all of them no two floats of the context overlap and their
tops are in document order. -/
theorem all_floats_disjoint_and_ordered (cb : CB) (bs : List ABox) (shapes shapes' : List Shape)
    (hb : ∀ b ∈ bs, GoodFloat b)
    (hp : Proper shapes) (hs : SortedTops shapes) (hd : PairwiseDisjoint shapes)
    (h : placeAll cb shapes bs = .ok shapes') :
    Proper shapes' ∧ SortedTops shapes' ∧ PairwiseDisjoint shapes' := by
  induction bs generalizing shapes with
  | nil => simp [placeAll] at h; subst h; exact ⟨hp, hs, hd⟩
  | cons b rest ih =>
    unfold placeAll at h
    split at h
    · simp at h
    · rename_i b' sh1 hpl
      obtain ⟨g1, g3, g4⟩ := hb b (by simp)
      obtain ⟨i1, i2, i3, _, _⟩ := float_place_invariants shapes b cb b' sh1 g1 g3 g4 hp hs hd hpl
      exact ih sh1 (fun b hb' => hb b (by simp [hb'])) i1 i2 i3 h

example : (placeAll ⟨0, 100, false⟩ []
    [⟨0, 0, 0, 0, 0, 0, 60, 50, .left, .none, .bfc⟩, ⟨0, 0, 0, 0, 0, 0, 30, 20, .right, .none, .bfc⟩,
     ⟨0, 0, 0, 0, 0, 0, 35, 10, .left, .none, .bfc⟩, ⟨0, 0, 5, 0, 0, 0, 20, 10, .right, .left, .bfc⟩]).toOption
    = some [⟨0, 0, 60, 50, .left⟩, ⟨70, 0, 30, 20, .right⟩, ⟨60, 20, 35, 10, .left⟩, ⟨80, 50, 20, 15, .right⟩] := by
  decide +kernel

/-! ## Absolutely positioned boxes: `absolute_width` / `absolute_height` / `absolute_block` -/

section Absolute
open Wp.Absolute

/-- The used horizontal values after `absolute_width` (one pass, without the min/max wrapper) and
the translation of `absolute_block`: margin-box `x`, content width, margins. -/
structure UsedH where
  x : Rat
  w : Rat
  ml : Rat
  mr : Rat
  deriving Repr, DecidableEq

def usedH (b : HBox) (ltr : Bool) (cbX cbW : Rat) : UsedH :=
  let r := absoluteWidthCore b ltr cbX cbW
  let w := autoZero r.1.width
  ⟨r.1.posX + (if r.2.1 then r.2.2 - w else r.2.2), w, autoZero r.1.ml, autoZero r.1.mr⟩

/-- `absolute_width` resolves every `auto` (the `autoZero` of `usedH` never replaces an `auto`),
touches nothing but width and margins, and keeps a specified width. -/
theorem abs_width_resolved (b : HBox) (ltr : Bool) (cbX cbW : Rat) :
    let r := absoluteWidthCore b ltr cbX cbW
    r.1.width.isSome ∧ r.1.ml.isSome ∧ r.1.mr.isSome ∧
    r.1 = { b with width := r.1.width, ml := r.1.ml, mr := r.1.mr } ∧
    (∀ w, b.width = some w → r.1.width = some w) := by
  rcases b with ⟨l, r, w, ml, mr, pl, pr, bl, br, mn, mx, mc, xc, px⟩
  cases l <;> cases r <;> cases w <;> cases ml <;> cases mr <;> cases ltr <;>
    simp [absoluteWidthCore, HBox.pb, autoZero, shrinkToFit] <;> (try split) <;> simp

/-- A specified `left` is honoured in every pattern: the margin box starts at `cb_x + left`. -/
theorem abs_left_honoured (b : HBox) (ltr : Bool) (cbX cbW l : Rat) (hl : b.left = some l) :
    (usedH b ltr cbX cbW).x = cbX + l := by
  rcases b with ⟨l0, r, w, ml, mr, pl, pr, bl, br, mn, mx, mc, xc, px⟩
  simp at hl; subst hl
  cases r <;> cases w <;> cases ml <;> cases mr <;> cases ltr <;>
    simp [usedH, absoluteWidthCore, HBox.pb, autoZero, shrinkToFit] at * <;> (try split) <;> grind

/-- **The horizontal constraint equation** (CSS 2.1 §10.3.7: `left + margins + borders + paddings + width +
right = width of the containing block`, with the margin box starting at `cb_x + left`): a specified
`right` is honoured — the margin box ends at `cb_x + cb_width − right` — in all 2³ × 2² auto patterns
× ltr/rtl, with no exception: an auto margin takes what the other margin leaves (repaired in 7752e9b; before,
the opposite margin was ignored), and when nothing is auto `margin-right` (ltr) / `margin-left` (rtl) is
re-solved. -/
theorem abs_equation_h (b : HBox) (ltr : Bool) (cbX cbW r : Rat) (hr : b.right = some r) :
    let u := usedH b ltr cbX cbW
    u.x + u.ml + b.pb + u.w + u.mr = cbX + cbW - r := by
  rcases b with ⟨l, r0, w, ml, mr, pl, pr, bl, br, mn, mx, mc, xc, px⟩
  simp at hr; subst hr
  cases l <;> cases w <;> cases ml <;> cases mr <;> cases ltr <;>
    simp [usedH, absoluteWidthCore, HBox.pb, autoZero, shrinkToFit] at * <;>
    (try split) <;> grind

/-- With `left`, `right` and `width` specified, a specified margin is kept when the other one is auto; with
nothing auto the start margin (`margin-left` in ltr, `margin-right` in rtl) is kept and the other one
re-solved. -/
theorem abs_specified_margin_kept (b : HBox) (ltr : Bool) (cbX cbW l r w : Rat)
    (hl : b.left = some l) (hr : b.right = some r) (hw : b.width = some w) :
    let u := usedH b ltr cbX cbW
    (∀ m, b.ml = some m → (b.mr = none ∨ ltr = true) → u.ml = m) ∧
    (∀ m, b.mr = some m → (b.ml = none ∨ ltr = false) → u.mr = m) := by
  rcases b with ⟨l0, r0, w0, ml, mr, pl, pr, bl, br, mn, mx, mc, xc, px⟩
  simp at hl hr hw; subst hl; subst hr; subst hw
  cases ml <;> cases mr <;> cases ltr <;>
    simp [usedH, absoluteWidthCore, HBox.pb, autoZero] <;> (try split) <;> simp

/-- Both `left` and `right` auto: the static position is kept in ltr; in rtl the margin box ends at
the right edge of the containing block (WeasyPrint's stand-in for the rtl static position). -/
theorem abs_static_position_h (b : HBox) (ltr : Bool) (cbX cbW : Rat)
    (hl : b.left = none) (hr : b.right = none) :
    let u := usedH b ltr cbX cbW
    (ltr = true → u.x = b.posX) ∧
    (ltr = false → u.x + u.ml + b.pb + u.w + u.mr = cbX + cbW) := by
  rcases b with ⟨l, r0, w, ml, mr, pl, pr, bl, br, mn, mx, mc, xc, px⟩
  simp at hl hr; subst hl; subst hr
  cases w <;> cases ml <;> cases mr <;> cases ltr <;>
    simp [usedH, absoluteWidthCore, HBox.pb, autoZero, shrinkToFit] <;> grind

/-- `left`, `right`, `width` specified and both margins auto: centred when it fits, otherwise the
start margin is 0 and the end margin takes the (negative) rest. -/
theorem abs_centred (b : HBox) (ltr : Bool) (cbX cbW l r w : Rat)
    (hl : b.left = some l) (hr : b.right = some r) (hw : b.width = some w)
    (hml : b.ml = none) (hmr : b.mr = none) :
    let u := usedH b ltr cbX cbW
    (w + b.pb + r + l ≤ cbW → u.ml = u.mr ∧ 0 ≤ u.ml) ∧
    (¬ (w + b.pb + r + l ≤ cbW) → (ltr = true → u.ml = 0) ∧ (ltr = false → u.mr = 0)) := by
  rcases b with ⟨l0, r0, w0, ml, mr, pl, pr, bl, br, mn, mx, mc, xc, px⟩
  simp at hl hr hw hml hmr; subst hl; subst hr; subst hw; subst hml; subst hmr
  cases ltr <;> simp [usedH, absoluteWidthCore, HBox.pb, autoZero] <;> constructor <;> intro h <;>
    simp [h] <;> grind

/-- Outside the all-specified pattern, auto margins are 0 and specified margins are kept. -/
theorem abs_margins_kept (b : HBox) (ltr : Bool) (cbX cbW : Rat)
    (hn : ¬ (b.left.isSome ∧ b.right.isSome ∧ b.width.isSome)) :
    let u := usedH b ltr cbX cbW
    u.ml = autoZero b.ml ∧ u.mr = autoZero b.mr := by
  rcases b with ⟨l, r0, w, ml, mr, pl, pr, bl, br, mn, mx, mc, xc, px⟩
  cases l <;> cases r0 <;> cases w <;> cases ml <;> cases mr <;> cases ltr <;>
    simp [usedH, absoluteWidthCore, HBox.pb, autoZero, shrinkToFit] at *

/-- An auto width is the shrink-to-fit width for the space left by the specified offsets, unless
both offsets are specified, in which case it is what the equation leaves. -/
theorem abs_auto_width (b : HBox) (ltr : Bool) (cbX cbW : Rat) (hw : b.width = none) :
    let u := usedH b ltr cbX cbW
    let avail := cbW - autoZero b.left - autoZero b.right - b.pb - u.ml - u.mr
    (¬ (b.left.isSome ∧ b.right.isSome) → u.w = min (max b.minC avail) b.maxC) ∧
    (b.left.isSome ∧ b.right.isSome → u.w = avail) := by
  rcases b with ⟨l, r0, w, ml, mr, pl, pr, bl, br, mn, mx, mc, xc, px⟩
  simp at hw; subst hw
  cases l <;> cases r0 <;> cases ml <;> cases mr <;> cases ltr <;>
    simp [usedH, absoluteWidthCore, HBox.pb, autoZero, shrinkToFit] <;> grind

theorem setWidth_self (b : HBox) : b.setWidth b.width = b := by cases b; rfl

/-- Re-running on the box left by a previous pass over `b.setWidth _` is a fresh pass over `b` with the new
width. -/
private theorem rerun_eq (b : HBox) (wA : Len) (w : Rat) (ltr : Bool) (cbX cbW : Rat) :
    rerun b (absoluteWidthCore (b.setWidth wA) ltr cbX cbW) w ltr cbX cbW =
    absoluteWidthCore (b.setWidth (some w)) ltr cbX cbW := by
  unfold rerun
  have h := (abs_width_resolved (b.setWidth wA) ltr cbX cbW).2.2.2.1
  congr 1
  generalize absoluteWidthCore (b.setWidth wA) ltr cbX cbW = r at h
  rcases r with ⟨r1, r2, r3⟩
  simp only at h ⊢
  rw [h]
  simp [HBox.setWidth]

/-- `absolute_width` with its `handle_min_max_width` wrapper never fails, and its result is the
one-pass result for the same box with the width replaced by `max-width` / `min-width` when the
first result violates them (so the theorems above apply to the final values). -/
theorem abs_width_wrapper (b : HBox) (ltr : Bool) (cbX cbW : Rat) :
    ∃ w', absoluteWidth b ltr cbX cbW = .ok (absoluteWidthCore (b.setWidth w') ltr cbX cbW) ∧
      (w' = b.width ∨ (∃ mx, b.maxW = some mx ∧ w' = some mx) ∨ w' = some b.minW) := by
  unfold absoluteWidth
  simp only
  obtain ⟨h1, _⟩ := abs_width_resolved b ltr cbX cbW
  cases hw1 : (absoluteWidthCore b ltr cbX cbW).1.width with
  | none => rw [hw1] at h1; simp at h1
  | some w1 =>
    simp only
    -- after the max stage: a fresh pass with width wA
    have hmax : ∃ wA, maxStage b (absoluteWidthCore b ltr cbX cbW) w1 ltr cbX cbW =
        absoluteWidthCore (b.setWidth wA) ltr cbX cbW ∧
        (wA = b.width ∨ ∃ mx, b.maxW = some mx ∧ wA = some mx) := by
      unfold maxStage
      split
      · rename_i mx hmx
        by_cases hgt : w1 > mx
        · rw [if_pos hgt]
          refine ⟨some mx, ?_, Or.inr ⟨mx, hmx, rfl⟩⟩
          have := rerun_eq b b.width mx ltr cbX cbW
          rw [setWidth_self] at this
          exact this
        · rw [if_neg hgt]
          exact ⟨b.width, by rw [setWidth_self], Or.inl rfl⟩
      · exact ⟨b.width, by rw [setWidth_self], Or.inl rfl⟩
    obtain ⟨wA, hA, hwA⟩ := hmax
    rw [hA]
    obtain ⟨g1, _⟩ := abs_width_resolved (b.setWidth wA) ltr cbX cbW
    cases hw2 : (absoluteWidthCore (b.setWidth wA) ltr cbX cbW).1.width with
    | none => rw [hw2] at g1; simp at g1
    | some w2 =>
      simp only
      unfold minStage
      by_cases hlt : w2 < b.minW
      · rw [if_pos hlt]
        refine ⟨some b.minW, ?_, Or.inr (Or.inr rfl)⟩
        rw [rerun_eq]
      · rw [if_neg hlt]
        refine ⟨wA, rfl, ?_⟩
        rcases hwA with h | h
        · exact Or.inl h
        · exact Or.inr (Or.inl h)

/-- The final used width respects `min-width`, and `max-width` when `min-width ≤ max-width`. -/
theorem abs_width_minmax (b : HBox) (ltr : Bool) (cbX cbW : Rat) (r : HBox × Bool × Rat) (w : Rat)
    (h : absoluteWidth b ltr cbX cbW = .ok r) (hw : r.1.width = some w) :
    b.minW ≤ w ∧ (∀ mx, b.maxW = some mx → b.minW ≤ mx → w ≤ mx) := by
  unfold absoluteWidth at h
  simp only at h
  split at h
  · simp at h
  · rename_i w1 hw1
    split at h
    · simp at h
    · rename_i w2 hw2
      simp only [Except.ok.injEq] at h
      have hmaxok : ∀ mx, b.maxW = some mx → w2 ≤ mx := by
        intro mx hmx
        unfold maxStage at hw2
        rw [hmx] at hw2
        simp only at hw2
        by_cases hgt : w1 > mx
        · rw [if_pos hgt] at hw2
          unfold rerun at hw2
          have := (abs_width_resolved { (absoluteWidthCore b ltr cbX cbW).1 with width := some mx, ml := b.ml, mr := b.mr } ltr cbX cbW).2.2.2.2 mx rfl
          rw [this] at hw2
          cases hw2; exact Rat.le_refl
        · rw [if_neg hgt] at hw2
          rw [hw1] at hw2; cases hw2; grind
      unfold minStage at h
      by_cases hlt : w2 < b.minW
      · rw [if_pos hlt] at h
        unfold rerun at h
        have := (abs_width_resolved { (maxStage b (absoluteWidthCore b ltr cbX cbW) w1 ltr cbX cbW).1 with width := some b.minW, ml := b.ml, mr := b.mr } ltr cbX cbW).2.2.2.2 b.minW rfl
        rw [h, hw] at this
        cases this
        exact ⟨Rat.le_refl, fun mx _ hle => hle⟩
      · rw [if_neg hlt] at h
        rw [← h, hw2] at hw
        cases hw
        exact ⟨by grind, fun mx hmx _ => hmaxok mx hmx⟩

example : (usedH ⟨some 10, some 20, none, none, some 5, 1, 1, 2, 2, 0, none, 30, 300, 7⟩ false 100 200) =
    ⟨110, 159, 0, 5⟩ := by decide +kernel
/-- Non-vacuity on the formerly excluded pattern (`left`, `right`, `width` given, one auto margin, the other not 0):
`left:0; right:0; width:50; margin-left:auto; margin-right:10` in 100 → `margin-left = 40`, margin box 0..100. -/
example : usedH ⟨some 0, some 0, some 50, none, some 10, 0, 0, 0, 0, 0, none, 0, 0, 0⟩ true 0 100 = ⟨0, 50, 40, 10⟩ := by
  decide +kernel

/-- The used vertical values after `absolute_height` and the translation of `absolute_block`, `hc`
being the height of the laid-out content (used when `height` stays auto). -/
structure UsedV where
  y : Rat
  h : Rat
  mt : Rat
  mb : Rat
  deriving Repr, DecidableEq

def usedV (b : VBox) (cbY cbH hc : Rat) : UsedV :=
  let r := absoluteHeight b cbY cbH
  let h := match r.1.height with
    | some h => h
    | none => hc
  ⟨r.1.posY + (if r.2.1 then r.2.2 - h else r.2.2), h, autoZero r.1.mt, autoZero r.1.mb⟩

/-- `absolute_height` resolves both margins, touches nothing but height and margins and keeps a
specified height. -/
theorem abs_height_resolved (b : VBox) (cbY cbH : Rat) :
    let r := absoluteHeight b cbY cbH
    r.1.mt.isSome ∧ r.1.mb.isSome ∧
    r.1 = { b with height := r.1.height, mt := r.1.mt, mb := r.1.mb } ∧
    (∀ h, b.height = some h → r.1.height = some h) := by
  rcases b with ⟨t, bo, h, mt, mb, pt, pb, bt, bb, py⟩
  cases t <;> cases bo <;> cases h <;> cases mt <;> cases mb <;>
    simp [absoluteHeight, VBox.pb, autoZero]

/-- A specified `top` is honoured in every pattern. -/
theorem abs_top_honoured (b : VBox) (cbY cbH hc t : Rat) (ht : b.top = some t) :
    (usedV b cbY cbH hc).y = cbY + t := by
  rcases b with ⟨t0, bo, h, mt, mb, pt, pb, bt, bb, py⟩
  simp at ht; subst ht
  cases bo <;> cases h <;> cases mt <;> cases mb <;>
    simp [usedV, absoluteHeight, VBox.pb, autoZero] <;> grind

/-- **The vertical constraint equation** (CSS 2.1 §10.6.4): a specified `bottom` is honoured — the margin
box ends at `cb_y + cb_height − bottom` — in all auto patterns, with no exception (an auto margin takes what
the other margin leaves, repaired in 7752e9b; with nothing auto `margin-bottom` is re-solved). -/
theorem abs_equation_v (b : VBox) (cbY cbH hc bo : Rat) (hb : b.bottom = some bo) :
    let u := usedV b cbY cbH hc
    u.y + u.mt + b.pb + u.h + u.mb = cbY + cbH - bo := by
  rcases b with ⟨t, bo0, h, mt, mb, pt, pb, bt, bb, py⟩
  simp at hb; subst hb
  cases t <;> cases h <;> cases mt <;> cases mb <;>
    simp [usedV, absoluteHeight, VBox.pb, autoZero] at * <;> grind

/-- `top` and `bottom` auto: the static position is kept. -/
theorem abs_static_position_v (b : VBox) (cbY cbH hc : Rat) (ht : b.top = none) (hb : b.bottom = none) :
    (usedV b cbY cbH hc).y = b.posY := by
  rcases b with ⟨t, bo, h, mt, mb, pt, pb, bt, bb, py⟩
  simp at ht hb; subst ht; subst hb
  cases h <;> cases mt <;> cases mb <;> simp [usedV, absoluteHeight, autoZero] <;> grind

/-- All three specified and both margins auto: vertically centred (exact halves). -/
theorem abs_centred_v (b : VBox) (cbY cbH hc t bo h : Rat)
    (ht : b.top = some t) (hb : b.bottom = some bo) (hh : b.height = some h)
    (hmt : b.mt = none) (hmb : b.mb = none) :
    let u := usedV b cbY cbH hc
    u.mt = u.mb ∧ u.mt + u.mb = cbH - (t + bo + h + b.pb) := by
  rcases b with ⟨t0, bo0, h0, mt, mb, pt, pb, bt, bb, py⟩
  simp at ht hb hh hmt hmb; subst ht; subst hb; subst hh; subst hmt; subst hmb
  simp [usedV, absoluteHeight, VBox.pb, autoZero]; grind

/-- An auto height with `top` and `bottom` specified is what the equation leaves; otherwise the
content height is used. -/
theorem abs_auto_height (b : VBox) (cbY cbH hc : Rat) (hh : b.height = none) :
    let u := usedV b cbY cbH hc
    (b.top.isSome ∧ b.bottom.isSome → u.h = cbH - autoZero b.top - autoZero b.bottom - b.pb - u.mt - u.mb) ∧
    (¬ (b.top.isSome ∧ b.bottom.isSome) → u.h = hc) := by
  rcases b with ⟨t, bo, h, mt, mb, pt, pb, bt, bb, py⟩
  simp at hh; subst hh
  cases t <;> cases bo <;> cases mt <;> cases mb <;>
    simp [usedV, absoluteHeight, VBox.pb, autoZero] <;> grind

example : usedV ⟨none, some 10, none, none, some 4, 1, 1, 0, 0, 33⟩ 20 100 30 = ⟨74, 30, 0, 4⟩ := by
  decide +kernel

/-- **A fixed box is laid out identically on every page**: `absolute_box_layout` is a function of the
box's computed style, its static position and the containing rectangle only; equal page areas
give equal results (there is no other input). -/
theorem fixed_same (st : AbsStyle) (page1 page2 : CBBox) (ltr : Bool) (sx sy minC maxC hw hn : Rat)
    (h : containingRect page1 = containingRect page2) :
    absoluteBlock st (containingRect page1) ltr sx sy minC maxC hw hn =
    absoluteBlock st (containingRect page2) ltr sx sy minC maxC hw hn := by
  rw [h]

/-- The used height of a box lies between its `min-height` and (when that is not below `min-height`) its
`max-height`, and is the content height when that satisfies both. -/
theorem cb_used_height (c : CBHeights) :
    c.minH ≤ c.used ∧ (∀ m, c.maxH = some m → c.minH ≤ m → c.used ≤ m) ∧
    (c.minH ≤ c.content → (∀ m, c.maxH = some m → c.content ≤ m) → c.used = c.content) := by
  rcases c with ⟨h, mn, mx⟩
  cases mx <;> simp [CBHeights.used] <;> grind

/-- **The containing block of the absolute children of an absolutely positioned box is its final padding box**:
they are laid out after `block_container_layout` has clamped the height. -/
theorem cb_height_of_absolute_box (c : CBHeights) : cbHeightAtLayout false c = c.used := rfl

/-
Full statement (false of the current code, see `Witness.C11.abs_cb_height_before_min_max`):
  theorem cb_height_of_relative_box (c : CBHeights) : cbHeightAtLayout true c = c.used
-/
/-- … and of a relatively positioned box too, when `min-height` / `max-height` do not change its height (they
are applied after its absolute children were laid out). -/
theorem cb_height_of_relative_box_partial (c : CBHeights)
    (h1 : c.minH ≤ c.content) (h2 : ∀ m, c.maxH = some m → c.content ≤ m) :
    cbHeightAtLayout true c = c.used := by
  simp only [cbHeightAtLayout, if_true]
  exact ((cb_used_height c).2.2 h1 h2).symm

example : cbHeightAtLayout true ⟨80, 50, some 120⟩ = 80 ∧ (⟨80, 50, some 120⟩ : CBHeights).used = 80 ∧
    cbHeightAtLayout false ⟨80, 100, none⟩ = 100 := by decide +kernel

end Absolute

/-! ## `absolute_replaced` -/

section Replaced
open Wp.Absolute

/-- Horizontal half of `absolute_replaced`: every auto is resolved; nothing but offsets and margins
changes; specified offsets are kept (except the one CSS 2.1 §10.3.8 says to ignore when
over-constrained: `right` in ltr, `left` in rtl); specified margins are kept (except …). -/
theorem abs_replaced_h (b : RBox) (ltr : Bool) (cbX cbW : Rat) :
    let r := absoluteReplacedH b ltr cbX cbW
    ∃ l rt ml mr, r.left = some l ∧ r.right = some rt ∧ r.ml = some ml ∧ r.mr = some mr ∧
      r = { b with left := some l, right := some rt, ml := some ml, mr := some mr } ∧
      -- kept values
      (∀ l0, b.left = some l0 → (b.right = none ∨ b.ml = none ∨ b.mr = none ∨ ltr = true) → l = l0) ∧
      (∀ r0, b.right = some r0 → (b.left = none ∨ b.ml = none ∨ b.mr = none ∨ ltr = false) → rt = r0) ∧
      -- static position
      (b.left = none → b.right = none → (ltr = true → l = b.posX - cbX) ∧ (ltr = false → rt = cbX + cbW - b.posX)) ∧
      -- the equation
      l + ml + b.borderWidth + mr + rt = cbW := by
  rcases b with ⟨l, r, t, bo, ml, mr, mt, mb, w, h, pl, pr, bl, br, pt, pb, bt, bb, px, py⟩
  cases l <;> cases r <;> cases ml <;> cases mr <;> cases ltr <;>
    simp [absoluteReplacedH, autoZero, RBox.borderWidth] <;>
    (try split) <;> (try simp) <;> (try grind)


/-- Vertical half of `absolute_replaced` (over-constrained: `bottom` is ignored). -/
theorem abs_replaced_v (b : RBox) (cbY cbH : Rat) :
    let r := absoluteReplacedV b cbY cbH
    ∃ t bo mt mb, r.top = some t ∧ r.bottom = some bo ∧ r.mt = some mt ∧ r.mb = some mb ∧
      r = { b with top := some t, bottom := some bo, mt := some mt, mb := some mb } ∧
      (∀ t0, b.top = some t0 → t = t0) ∧
      (∀ b0, b.bottom = some b0 → (b.top = none ∨ b.mt = none ∨ b.mb = none) → bo = b0) ∧
      (b.top = none → b.bottom = none → t = b.posY - cbY) ∧
      (b.top.isSome → b.bottom.isSome → b.mt = none → b.mb = none → mt = mb) ∧
      t + mt + b.borderHeight + mb + bo = cbH := by
  rcases b with ⟨l, r, t, bo, ml, mr, mt, mb, w, h, pl, pr, bl, br, pt, pb, bt, bb, px, py⟩
  cases t <;> cases bo <;> cases mt <;> cases mb <;>
    simp [absoluteReplacedV, autoZero, RBox.borderHeight] <;>
    (try split) <;> (try simp) <;> (try grind)

/-- **`absolute_replaced`** (CSS 2.1 §10.3.8 / §10.6.5): it never fails; the box is placed at `cb + (left, top)`;
`left + margin-left + border box + margin-right + right = cb_width` and likewise vertically, for all 2⁴ auto
patterns per axis in ltr and rtl, with no exception (one auto margin takes what the other margin leaves, repaired
in 7752e9b); two auto margins share the remaining space exactly (`remaining / 2`, repaired in f3eca6a) when it
is not negative. -/
theorem abs_replaced (b : RBox) (ltr : Bool) (cbX cbY cbW cbH : Rat) :
    ∃ r l rt t bo ml mr mt mb, absoluteReplaced b ltr cbX cbY cbW cbH = .ok r ∧
      r.left = some l ∧ r.right = some rt ∧ r.top = some t ∧ r.bottom = some bo ∧
      r.ml = some ml ∧ r.mr = some mr ∧ r.mt = some mt ∧ r.mb = some mb ∧
      r.posX = cbX + l ∧ r.posY = cbY + t ∧
      r.borderWidth = b.borderWidth ∧ r.borderHeight = b.borderHeight ∧
      l + ml + b.borderWidth + mr + rt = cbW ∧
      t + mt + b.borderHeight + mb + bo = cbH ∧
      (b.top.isSome → b.bottom.isSome → b.mt = none → b.mb = none → mt = mb) := by
  obtain ⟨l, rt, ml, mr, h1, h2, h3, h4, hf, _, _, _, heq⟩ := abs_replaced_h b ltr cbX cbW
  obtain ⟨t, bo, mt, mb, g1, g2, g3, g4, gf, _, _, _, gc, geq⟩ :=
    abs_replaced_v (absoluteReplacedH b ltr cbX cbW) cbY cbH
  have e1 : (absoluteReplacedH b ltr cbX cbW).top = b.top := by rw [hf]
  have e2 : (absoluteReplacedH b ltr cbX cbW).bottom = b.bottom := by rw [hf]
  have e3 : (absoluteReplacedH b ltr cbX cbW).mt = b.mt := by rw [hf]
  have e4 : (absoluteReplacedH b ltr cbX cbW).mb = b.mb := by rw [hf]
  have e5 : (absoluteReplacedH b ltr cbX cbW).borderHeight = b.borderHeight := by
    rw [hf]; simp [RBox.borderHeight]
  have e6 : (absoluteReplacedH b ltr cbX cbW).borderWidth = b.borderWidth := by
    rw [hf]; simp [RBox.borderWidth]
  have hl : (absoluteReplacedV (absoluteReplacedH b ltr cbX cbW) cbY cbH).left = some l := by
    rw [gf]; simp; exact h1
  refine ⟨{ absoluteReplacedV (absoluteReplacedH b ltr cbX cbW) cbY cbH with posX := cbX + l, posY := cbY + t },
    l, rt, t, bo, ml, mr, mt, mb, ?_, ?_⟩
  · unfold absoluteReplaced
    simp only
    rw [hl, g1]
  · refine ⟨by simp; exact hl, ?_, by simp; exact g1, by simp; exact g2, ?_, ?_, by simp; exact g3,
      by simp; exact g4, rfl, rfl, ?_, ?_, heq, ?_, ?_⟩
    · simp; rw [gf]; simp; exact h2
    · simp; rw [gf]; simp; exact h3
    · simp; rw [gf]; simp; exact h4
    · simp only [RBox.borderWidth]; rw [gf]; simp; exact e6
    · simp only [RBox.borderHeight]; rw [gf]; simp; exact e5
    · rw [← e5]; exact geq
    · rw [← e1, ← e2, ← e3, ← e4]; exact gc

example : (absoluteReplacedH ⟨some 10, some 20, none, none, none, none, none, none, 40, 30, 0, 0, 1, 1, 0, 0, 1, 1, 5, 7⟩
    true 100 105).ml = some (33 / 2) := by decide +kernel

/-- The formerly excluded pattern: `left:0; right:0; margin-left:auto; margin-right:10` on a 50-px image in 100. -/
example : (absoluteReplacedH ⟨some 0, some 0, some 0, none, none, some 10, some 0, some 0, 50, 10,
    0, 0, 0, 0, 0, 0, 0, 0, 0, 0⟩ true 0 100).ml = some 40 := by decide +kernel

end Replaced

/-! ## `relative_positioning` -/

section Relative
open Wp.Absolute

mutual
private theorem translate_zero_box : ∀ b : RelBox, translateBox 0 0 b = b
  | .mk rel rtl inl l r t bo x y kids => by
    simp [translateBox, translate_zero_kids kids, Rat.add_zero]
private theorem translate_zero_kids : ∀ ks : List RelBox, translateKids 0 0 ks = ks
  | [] => rfl
  | k :: ks => by simp [translateKids, translate_zero_box k, translate_zero_kids ks]
end

mutual
private theorem translate_add_box (a b c d : Rat) : ∀ bx : RelBox,
    translateBox a b (translateBox c d bx) = translateBox (c + a) (d + b) bx
  | .mk rel rtl inl l r t bo x y kids => by
    simp [translateBox, translate_add_kids a b c d kids]; grind
private theorem translate_add_kids (a b c d : Rat) : ∀ ks : List RelBox,
    translateKids a b (translateKids c d ks) = translateKids (c + a) (d + b) ks
  | [] => rfl
  | k :: ks => by simp [translateKids, translate_add_box a b c d k, translate_add_kids a b c d ks]
end

/-- The offset rules of CSS 2.1 §9.4.3: `left` wins over `right` in ltr and `right` over `left` in
rtl when both are specified; `top` wins over `bottom`; auto offsets do not move the box. -/
theorem relative_offset_rules (rtl : Bool) (l r t b : Dim) (cbW cbH : Rat) :
    let off := relativeOffset rtl l r t b cbW cbH
    (∀ lv, l.resolve cbW = some lv → (r.resolve cbW = none ∨ rtl = false) → off.1 = lv) ∧
    (∀ rv, r.resolve cbW = some rv → (l.resolve cbW = none ∨ rtl = true) → off.1 = -rv) ∧
    (l.resolve cbW = none → r.resolve cbW = none → off.1 = 0) ∧
    (∀ tv, t.resolve cbH = some tv → off.2 = tv) ∧
    (∀ bv, t.resolve cbH = none → b.resolve cbH = some bv → off.2 = -bv) ∧
    (t.resolve cbH = none → b.resolve cbH = none → off.2 = 0) := by
  simp only [relativeOffset]
  cases l.resolve cbW <;> cases r.resolve cbW <;> cases t.resolve cbH <;> cases b.resolve cbH <;>
    cases rtl <;> simp

/-- **Relative positioning is a translation of the box by its offset** (and of nothing else): the
box keeps every attribute but its position, which moves by `relativeOffset` when the box is
relatively positioned and not at all otherwise; the children of a block-level box move with it. -/
theorem relative_moves_box (cbW cbH : Rat) (rel rtl inl : Bool) (l r t bo : Dim) (x y : Rat)
    (kids : List RelBox) :
    let off := if rel then relativeOffset rtl l r t bo cbW cbH else (0, 0)
    ∃ kids', relativePositioning cbW cbH (.mk rel rtl inl l r t bo x y kids) =
        .mk rel rtl inl l r t bo (x + off.1) (y + off.2) kids' ∧
      (inl = false → kids' = translateKids off.1 off.2 kids) := by
  simp only [relativePositioning, relativeAcc, Rat.zero_add]
  exact ⟨_, rfl, fun h => by simp [h]⟩

/-- **…without affecting any other box**: on a box that is neither relatively positioned nor an
inline / line box, `relative_positioning` is the identity. -/
theorem relative_identity (cbW cbH : Rat) (rtl : Bool) (l r t bo : Dim) (x y : Rat) (kids : List RelBox) :
    relativePositioning cbW cbH (.mk false rtl false l r t bo x y kids) =
      .mk false rtl false l r t bo x y kids := by
  simp [relativePositioning, relativeAcc, translate_zero_kids, Rat.add_zero]

mutual
/-- Positions never feed back into offsets: translating first and positioning afterwards is the
same as positioning first (so the result does not depend on where the box is). -/
theorem relative_commutes_with_translation (cbW cbH ax ay : Rat) : ∀ b : RelBox,
    relativeAcc cbW cbH ax ay b = translateBox ax ay (relativeAcc cbW cbH 0 0 b)
  | .mk rel rtl inl l r t bo x y kids => by
    simp only [relativeAcc, translateBox]
    cases inl
    · simp [translate_add_kids]; grind
    · simp
      refine ⟨by grind, by grind, ?_⟩
      rw [relative_commutes_kids cbW cbH (ax + _) (ay + _) kids,
          relative_commutes_kids cbW cbH (0 + _) (0 + _) kids, translate_add_kids]
      congr 1 <;> grind
private theorem relative_commutes_kids (cbW cbH ax ay : Rat) : ∀ ks : List RelBox,
    relativeKidsAcc cbW cbH ax ay ks = translateKids ax ay (relativeKidsAcc cbW cbH 0 0 ks)
  | [] => rfl
  | k :: ks => by
    simp [relativeKidsAcc, translateKids, relative_commutes_with_translation cbW cbH ax ay k,
      relative_commutes_kids cbW cbH ax ay ks]
end

example : relativeOffset true (.px 5) (.pct 10) .auto (.px 3) 200 100 = (-20, -3) := by decide +kernel

end Relative

/-! ## Clearance of in-flow blocks and floats met inside a line (`Model/FloatFlow.lean`) -/

/-- **`clear` moves the top border edge below the named floats, from the collapsed position.**
`block_level_layout` computes `top_border_edge = position_y + collapsed_margin + clearance`: whatever the
margin `cm` the box's top margin collapses to with the adjoining margins of its previous siblings, the
resulting top border edge is at or below the bottom of every float named by `clear`, never above the
un-cleared position `y + cm`, and equal to one of the two (the un-cleared position, or the bottom of the
lowest named float): clearance is added to the *collapsed* position, not to the box's own margin. -/
theorem cleared_top_spec (shapes : List Shape) (c : Clear) (y cm : Rat) :
    let top := (clearedTop shapes c y cm).1
    (∀ s ∈ shapes, Named c s → s.bottom ≤ top) ∧ y + cm ≤ top ∧
    (top = y + cm ∨ ∃ s ∈ shapes, Named c s ∧ s.bottom = top) ∧
    ((clearedTop shapes c y cm).2 = true → y + cm < top) := by
  simp only [clearedTop]
  cases h : getClearance shapes c y cm with
  | none =>
    have := (clearance_none_iff shapes c y cm).mp h
    exact ⟨this, Rat.le_refl, Or.inl rfl, by simp⟩
  | some a =>
    obtain ⟨hpos, h1, h2⟩ := clearance_least shapes c y cm a h
    refine ⟨h1, by simp; grind, Or.inr h2, by intro _; simp; grind⟩

example : (clearedTop [⟨0, 0, 50, 54, .left⟩] .left 10 30).1 = 54 ∧
    (clearedTop [⟨0, 0, 50, 54, .left⟩] .left 10 45).1 = 55 := by decide +kernel

/-- Once a float of a line waits, every later float of the line waits too, and the float list does not change. -/
theorem inline_waiting_is_suffix (cb : CB) (lineY : Rat) (shapes : List Shape) (rem : Rat) (bs : List ABox)
    (shapes' : List Shape) (out : List (ABox × Option (Rat × Rat × Rat × Rat)))
    (h : inlinePass1 cb lineY shapes rem true bs = .ok (shapes', out)) :
    shapes' = shapes ∧ ∀ e ∈ out, e.2 = none := by
  induction bs generalizing out shapes' with
  | nil => simp [inlinePass1] at h; exact ⟨h.1.symm, by rw [h.2]; simp⟩
  | cons b rest ih =>
    simp only [inlinePass1, Bool.or_true, if_true] at h
    split at h
    · simp at h
    · rename_i sh o hrec
      simp only [Except.ok.injEq, Prod.mk.injEq] at h
      obtain ⟨i1, i2⟩ := ih sh o hrec
      refine ⟨by rw [← h.1]; exact i1, ?_⟩
      rw [← h.2]
      intro e he
      rcases List.mem_cons.mp he with he | he
      · rw [he]
      · exact i2 e he

/-- **A float met in a line is never placed above an earlier float of the same line**: the floats laid
out on the line form a prefix of the line's floats, everything after the
first deferred float is deferred (and is then laid out from the line's bottom). -/
theorem inline_placed_is_prefix (cb : CB) (lineY : Rat) (shapes : List Shape) (rem : Rat) (bs : List ABox)
    (shapes' : List Shape) (out : List (ABox × Option (Rat × Rat × Rat × Rat)))
    (h : inlinePass1 cb lineY shapes rem false bs = .ok (shapes', out)) :
    ∃ n, (∀ e ∈ out.take n, e.2.isSome = true) ∧ (∀ e ∈ out.drop n, e.2 = none) := by
  induction bs generalizing shapes shapes' rem out with
  | nil => simp [inlinePass1] at h; exact ⟨0, by simp, by rw [h.2]; simp⟩
  | cons b rest ih =>
    simp only [inlinePass1, Bool.or_false] at h
    split at h
    · -- this float waits: everything after it waits
      split at h
      · simp at h
      · rename_i sh o hrec
        simp only [Except.ok.injEq, Prod.mk.injEq] at h
        obtain ⟨_, i2⟩ := inline_waiting_is_suffix cb lineY shapes rem rest sh o hrec
        refine ⟨0, by simp, ?_⟩
        rw [← h.2]
        intro e he
        simp at he
        rcases he with he | he
        · rw [he]
        · exact i2 e he
    · split at h
      · simp at h
      · rename_i b' sh1 hpl
        split at h
        · simp at h
        · rename_i sh o hrec
          simp only [Except.ok.injEq, Prod.mk.injEq] at h
          obtain ⟨n, j1, j2⟩ := ih sh1 _ sh o hrec
          refine ⟨n + 1, ?_, ?_⟩
          · rw [← h.2]
            intro e he
            simp at he
            rcases he with he | he
            · rw [he]; rfl
            · exact j1 e he
          · rw [← h.2]; simpa using j2


end Wp.C11
