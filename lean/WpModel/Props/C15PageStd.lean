/-
C15 — `_standardize_page_based_counters`: theorems about `Model/PageStd.lean`.
-/
import WpModel.Model.PageStd

namespace Wp.C15
open Wp.PageStd

def namesOfPairs (l : Pairs) : List String := l.map Prod.fst

private theorem justify_no_pages (v : Option Pairs) : "pages" ∉ namesOfPairs (justify v).1 := by
  cases v with
  | none => simp [justify, namesOfPairs]
  | some l =>
    simp only [justify, namesOfPairs, List.mem_map, not_exists, not_and]
    intro p hp
    have := (List.mem_filter.mp hp).2
    simpa using this

/-- **C15.standardize_drops_pages** — after the call no counter property of the style names `pages`: neither a
page nor a margin box can reset, set or increment the total page count. -/
theorem standardize_drops_pages (p : CProps) (isPage : Bool) :
    "pages" ∉ namesOfPairs ((standardize p isPage).set.getD []) ∧
    "pages" ∉ namesOfPairs ((standardize p isPage).reset.getD []) ∧
    "pages" ∉ namesOfPairs ((standardize p isPage).incr.getD []) := by
  refine ⟨justify_no_pages p.set, justify_no_pages p.reset, ?_⟩
  simp only [standardize, Option.getD_some]
  split
  · intro h
    simp only [namesOfPairs, List.map_cons, List.mem_cons] at h
    rcases h with h | h
    · exact absurd h (by decide)
    · exact justify_no_pages p.incr h
  · exact justify_no_pages p.incr

/-- In @margin context the call only drops `pages` (and turns `auto` into the empty tuple). -/
theorem standardize_margin (p : CProps) :
    standardize p false = ⟨some (justify p.set).1, some (justify p.reset).1, some (justify p.incr).1⟩ := by
  simp [standardize]

private def touches (l : Pairs) : Bool := l.any (fun p => p.1 = "page")

private theorem touches_justify (v : Option Pairs) : touches (justify v).1 = (justify v).2 := by
  cases v with
  | none => simp [justify, touches]
  | some l =>
    simp only [justify, touches, List.any_filter]
    congr 1
    funext q
    by_cases hq : q.1 = "page" <;> simp [hq]

/-- **C15.standardize_page_counts** — in @page context the resulting style always manipulates the `page`
counter: by the style's own declarations, or by the added `counter-increment: page 1`. -/
theorem standardize_page_counts (p : CProps) :
    (touches ((standardize p true).set.getD []) || touches ((standardize p true).reset.getD []) ||
      touches ((standardize p true).incr.getD [])) = true := by
  simp only [standardize, Option.getD_some, touches_justify]
  cases h1 : (justify p.set).2 <;> cases h2 : (justify p.reset).2 <;> cases h3 : (justify p.incr).2 <;>
    simp [touches]
  · have := touches_justify p.incr
    rw [h3] at this
    simpa [touches] using this

private theorem justify_some (l : Pairs) (h : "pages" ∉ namesOfPairs l) : (justify (some l)).1 = l := by
  simp only [justify]
  apply List.filter_eq_self.mpr
  intro q hq
  have : q.1 ≠ "pages" := fun e => h (by simp only [namesOfPairs, List.mem_map]; exact ⟨q, hq, e⟩)
  simpa using this

private theorem justify_clean (l : Pairs) (h : "pages" ∉ namesOfPairs l) : justify (some l) = (l, touches l) := by
  have := justify_some l h
  simp only [justify] at this ⊢
  rw [this]; rfl

private theorem std_fix (S R I : Pairs) (hS : "pages" ∉ namesOfPairs S) (hR : "pages" ∉ namesOfPairs R)
    (hI : "pages" ∉ namesOfPairs I) (isPage : Bool)
    (hc : isPage = true → (touches S || touches R || touches I) = true) :
    standardize ⟨some S, some R, some I⟩ isPage = ⟨some S, some R, some I⟩ := by
  simp only [standardize, justify_clean S hS, justify_clean R hR, justify_clean I hI]
  cases isPage with
  | false => simp
  | true => simp [hc rfl]

/-- **C15.standardize_idempotent** — the function is applied to its own output whenever a page is made again
(the style object is shared): the second call changes nothing; in particular the page increment is added once. -/
theorem standardize_idempotent (p : CProps) (isPage : Bool) :
    standardize (standardize p isPage) isPage = standardize p isPage := by
  obtain ⟨h1, h2, h3⟩ := standardize_drops_pages p isPage
  have hq : standardize p isPage = ⟨some ((standardize p isPage).set.getD []),
      some ((standardize p isPage).reset.getD []), some ((standardize p isPage).incr.getD [])⟩ := by
    simp [standardize]
  rw [hq]
  refine std_fix _ _ _ ?_ ?_ ?_ isPage ?_
  · simpa [standardize] using h1
  · simpa [standardize] using h2
  · simpa [standardize] using h3
  · intro hb; subst hb
    simpa [standardize] using standardize_page_counts p

/-! Non-vacuity -/
example : standardize ⟨some [], some [("pages", 3), ("c", 1)], none⟩ true =
    ⟨some [], some [("c", 1)], some [("page", 1)]⟩ := by decide
example : standardize ⟨some [("page", 7)], some [], some [("pages", 1), ("d", 2)]⟩ true =
    ⟨some [("page", 7)], some [], some [("d", 2)]⟩ := by decide
example : standardize ⟨some [], some [], none⟩ false = ⟨some [], some [], some []⟩ := by decide

end Wp.C15
