/-
C10 — Tables: grid geometry, width distribution, collapsed borders.  Property theorems only
(helper lemmas are in `Lemmas/TableSums.lean` or `private`).  All statements are about the
executable models `Model/TableWidths.lean` (↔ `weasyprint/layout/table.py`), which the
correspondence harness `py/props/c10.py` runs against the real functions on every check.
-/
import WpModel.Lemmas.TableSums
import WpModel.Model.TableBorders
import WpModel.Model.TableRows

namespace Wp.C10
open Wp Wp.Table

/-! ## Fixed layout (`fixed_table_layout`) -/

private theorem length_fillSpan (cw : List (Option Rat)) (i k : Nat) (v : Rat) :
    (fillSpan cw i k v).length = cw.length := by
  simp [fillSpan]

private theorem length_cellStep (s W : Rat) (st : List (Option Rat) × Nat) (c : FCell) :
    (cellStep s W st c).1.length = st.1.length := by
  unfold cellStep
  dsimp only
  split
  · rfl
  · split
    · rfl
    · exact length_fillSpan _ _ _ _

private theorem length_foldl_cellStep (s W : Rat) (cells : List FCell) (st : List (Option Rat) × Nat) :
    (cells.foldl (cellStep s W) st).1.length = st.1.length := by
  induction cells generalizing st with
  | nil => rfl
  | cons c cs ih => simp only [List.foldl_cons, ih, length_cellStep]

theorem length_fixedAfterCells (W s : Rat) (cols : List Dim) (cells : List FCell) :
    (fixedAfterCells W s cols cells).length = numColumns cols cells := by
  unfold fixedAfterCells
  simp only [length_foldl_cellStep, List.length_append, List.length_map, List.length_replicate]
  unfold numColumns
  omega

private theorem length_fillNone (f : Rat) (cw : List (Option Rat)) : (fillNone f cw).length = cw.length := by
  simp [fillNone]

theorem length_fixedFilled (W s : Rat) (cols : List Dim) (cells : List FCell) :
    (fixedFilled W s cols cells).length = numColumns cols cells := by
  unfold fixedFilled
  simp only [length_fillNone, length_fixedAfterCells]

/-- The result of `fixed_table_layout` in closed form: every column is its filled width plus the
common bump; the table is widened by a negative `extra`. -/
theorem fixed_closed_form (W s : Rat) (cols : List Dim) (cells : List FCell) (o : FixedOut)
    (h : fixedLayout (some W) s cols cells = .ok o) :
    o.cols = (fixedFilled W s cols cells).map (· + fixedBump W s cols cells) ∧
    o.width = W - min (fixedExtra W s cols cells) 0 := by
  unfold fixedLayout at h
  simp only at h
  unfold fixedBump
  split at h
  · rename_i hx
    injection h with h; subst h
    simp [hx]
  · rename_i hx
    have hx' : 0 ≤ fixedExtra W s cols cells := le_of_lt (not_le.mp hx)
    split at h
    · rename_i hn0
      injection h with h; subst h
      simp [hx, hn0, hx']
    · rename_i hn0
      injection h with h; subst h
      simp [hx, hn0, hx']

/-- **fixed_sum.** After `fixed_table_layout`, the column widths plus the `n + 1` border spacings add
up exactly to the (possibly widened) table width, the table is never narrower than requested, and
there is one width per grid column.  (With zero columns the code leaves `table.width` alone, hence
the side condition; the source comment says the same.) -/
theorem fixed_sum (W s : Rat) (cols : List Dim) (cells : List FCell) (o : FixedOut)
    (h : fixedLayout (some W) s cols cells = .ok o)
    (hn : numColumns cols cells ≠ 0 ∨ W ≤ s) :
    sumR o.cols + s * ((o.cols.length : Rat) + 1) = o.width ∧
    W ≤ o.width ∧ o.cols.length = numColumns cols cells := by
  unfold fixedLayout at h
  simp only at h
  have hlen := length_fixedFilled W s cols cells
  have hex : fixedExtra W s cols cells =
      W - sumR (fixedFilled W s cols cells) - s * ((numColumns cols cells : Rat) + 1) := rfl
  split at h
  · rename_i hextra
    injection h with h; subst h
    simp only [hlen]
    refine ⟨by rw [hex]; ring, by linarith, trivial⟩
  · rename_i hextra
    split at h
    · rename_i hn0
      injection h with h; subst h
      simp only [List.length_map, hlen, sumR_map_add]
      have hne : (numColumns cols cells : Rat) ≠ 0 := by exact_mod_cast hn0
      refine ⟨?_, le_refl _, trivial⟩
      rw [hex]
      field_simp
      ring
    · rename_i hn0
      injection h with h; subst h
      simp only [hlen]
      have hz : numColumns cols cells = 0 := by omega
      rcases hn with hn | hn
      · exact absurd hz hn
      · exfalso
        apply hextra
        have hnil : fixedFilled W s cols cells = [] := by
          apply List.eq_nil_of_length_eq_zero; rw [hlen, hz]
        rw [hex, hnil, hz]
        simp
        linarith

/-- `fixed_table_layout` raises only through its `assert table.width != 'auto'`. -/
theorem fixed_total (W s : Rat) (cols : List Dim) (cells : List FCell) :
    ∃ o, fixedLayout (some W) s cols cells = .ok o := by
  unfold fixedLayout
  simp only
  split
  · exact ⟨_, rfl⟩
  · split <;> exact ⟨_, rfl⟩

example : fixedLayout (some 100) 2 [.px 30, .auto] [⟨1, .auto, 0, 0, 0, 0, .content⟩,
    ⟨1, .auto, 0, 0, 0, 0, .content⟩] = .ok ⟨100, [30, 64]⟩ := by
  decide +kernel

/-! ### fixed_honours -/

private theorem sumR_fillNone (f : Rat) (cw : List (Option Rat)) :
    sumR (fillNone f cw) = sumR (cw.filterMap id) + ((cw.filter Option.isNone).length : Rat) * f := by
  induction cw with
  | nil => simp [fillNone]
  | cons o os ih =>
    unfold fillNone at ih ⊢
    cases o with
    | none => simp [ih]; ring
    | some w => simp [ih]; ring

/-- The bump is never negative: columns are only ever widened by the last step. -/
theorem fixedBump_nonneg (W s : Rat) (cols : List Dim) (cells : List FCell) :
    0 ≤ fixedBump W s cols cells := by
  unfold fixedBump
  split
  · exact le_refl _
  · rename_i hx
    split
    · apply div_nonneg (le_of_lt (not_le.mp hx))
      exact_mod_cast Nat.zero_le _
    · exact le_refl _

/-- `extra_width` in closed form: it is 0 as soon as some column is left without a declared width and
the table is at least as wide as the declared total; otherwise it is `table.width − declared total`. -/
theorem fixedExtra_eq (W s : Rat) (cols : List Dim) (cells : List FCell) :
    let cw1 := fixedAfterCells W s cols cells
    let minW := sumR (cw1.filterMap id) + allSpacing s cols cells
    fixedExtra W s cols cells =
      if (cw1.filter Option.isNone).length ≠ 0 ∧ W ≥ minW then 0 else W - minW := by
  intro cw1 minW
  unfold fixedExtra fixedFilled
  rw [sumR_fillNone]
  unfold fixedFill
  simp only
  split
  · rename_i hc
    have hu : (((fixedAfterCells W s cols cells).filter Option.isNone).length : Rat) ≠ 0 := by
      exact_mod_cast hc.1
    field_simp
    ring
  · simp only [mul_zero, add_zero]
    ring

/-- A `some` entry of `column_widths` is never overwritten by a later first-row cell. -/
private theorem fillSpan_some (cw : List (Option Rat)) (i k : Nat) (v w : Rat) (j : Nat)
    (h : cw[j]? = some (some w)) : (fillSpan cw i k v)[j]? = some (some w) := by
  unfold fillSpan
  rw [List.getElem?_mapIdx, h]
  simp only [Option.map_some]
  split <;> rfl

private theorem cellStep_some (s W : Rat) (st : List (Option Rat) × Nat) (c : FCell) (w : Rat) (j : Nat)
    (h : st.1[j]? = some (some w)) : (cellStep s W st c).1[j]? = some (some w) := by
  unfold cellStep
  dsimp only
  split
  · exact h
  · split
    · exact h
    · exact fillSpan_some _ _ _ _ _ _ h

private theorem foldl_cellStep_some (s W : Rat) (cells : List FCell) (st : List (Option Rat) × Nat)
    (w : Rat) (j : Nat) (h : st.1[j]? = some (some w)) :
    (cells.foldl (cellStep s W) st).1[j]? = some (some w) := by
  induction cells generalizing st with
  | nil => exact h
  | cons c cs ih => exact ih _ (cellStep_some s W st c w j h)

private theorem fillNone_some (f w : Rat) (cw : List (Option Rat)) (j : Nat)
    (h : cw[j]? = some (some w)) : (fillNone f cw)[j]? = some w := by
  unfold fillNone
  rw [List.getElem?_map, h]
  rfl

private theorem fillNone_none (f : Rat) (cw : List (Option Rat)) (j : Nat)
    (h : cw[j]? = some none) : (fillNone f cw)[j]? = some f := by
  unfold fillNone
  rw [List.getElem?_map, h]
  rfl

/-- **fixed_honours (columns).** A column whose `<col>` has a declared width (px or %) gets exactly
that width plus the common non-negative bump: it is never shrunk, and it keeps its width exactly
unless all columns are declared and the table is wider than their total (`fixedExtra_eq`). -/
theorem fixed_honours_col (W s : Rat) (cols : List Dim) (cells : List FCell) (o : FixedOut)
    (h : fixedLayout (some W) s cols cells = .ok o)
    (i : Nat) (hi : i < cols.length) (w : Rat) (hw : cols[i].used W = some w) :
    o.cols[i]? = some (w + fixedBump W s cols cells) ∧ w ≤ w + fixedBump W s cols cells := by
  refine ⟨?_, by linarith [fixedBump_nonneg W s cols cells]⟩
  rw [(fixed_closed_form W s cols cells o h).1, List.getElem?_map]
  have h0 : (cols.map (·.used W) ++ List.replicate (numColumns cols cells - cols.length) none)[i]?
      = some (some w) := by
    rw [List.getElem?_append_left (by simpa using hi)]
    simp [hi, hw]
  have h1 : (fixedAfterCells W s cols cells)[i]? = some (some w) := by
    unfold fixedAfterCells
    exact foldl_cellStep_some s W cells _ w i h0
  unfold fixedFilled
  rw [fillNone_some _ w _ i h1]
  rfl

/-- **fixed_honours (first-row cells), one step.** A first-row cell of declared border-box width `bw`
starting at column `i` and spanning `k` columns, `m ≥ 1` of which have no width yet, gives each of
those `max(bw − (k−1)·s − known, 0) / m` (the clamp is the repair 5d962d2: never a negative width);
columns that already have a width and columns outside the span are untouched. -/
theorem fixed_cell_share (s W : Rat) (cw : List (Option Rat)) (i : Nat) (c : FCell) (bw : Rat)
    (hbw : c.borderWidth W = some bw) (hm : spanUnknown cw i c.colspan ≠ 0) (j : Nat) (hj : j < cw.length) :
    (cellStep s W (cw, i) c).1[j]? =
      some (if i ≤ j ∧ j < i + c.colspan then
              (match cw[j] with
               | some w => some w
               | none => some (max (bw - s * ((c.colspan : Rat) - 1) - spanKnown cw i c.colspan) 0 /
                               (spanUnknown cw i c.colspan : Rat)))
            else cw[j]) ∧
    (cellStep s W (cw, i) c).2 = i + c.colspan := by
  unfold cellStep
  simp only [hbw, hm, if_false]
  refine ⟨?_, trivial⟩
  unfold fillSpan cellShare
  rw [List.getElem?_mapIdx, List.getElem?_eq_getElem hj]
  simp only [Option.map_some]
  generalize cw[j] = oj
  by_cases hc : i ≤ j ∧ j < i + c.colspan
  · simp only [hc, and_self, if_true]
    cases oj <;> rfl
  · simp only [hc, if_false]

private def fillOpt (v : Rat) (o : Option Rat) : Option Rat := match o with | some w => some w | none => some v

private theorem window_fillSpan (cw : List (Option Rat)) (i k : Nat) (v : Rat) :
    ((fillSpan cw i k v).drop i).take k = ((cw.drop i).take k).map (fillOpt v) := by
  apply List.ext_getElem?
  intro j
  by_cases hj : j < k
  · rw [List.getElem?_take_of_lt hj, List.getElem?_drop, List.getElem?_map, List.getElem?_take_of_lt hj,
      List.getElem?_drop]
    unfold fillSpan
    rw [List.getElem?_mapIdx]
    cases h : cw[i + j]? with
    | none => simp
    | some o =>
      have hc : i ≤ i + j ∧ i + j < i + k := ⟨by omega, by omega⟩
      simp only [Option.map_some, hc, and_self, if_true]
      cases o <;> rfl
  · rw [List.getElem?_take_eq_none (by omega), List.getElem?_map, List.getElem?_take_eq_none (by omega)]
    rfl

private theorem sum_fill (l : List (Option Rat)) (v : Rat) :
    sumR ((l.map (fillOpt v)).filterMap id) = sumR (l.filterMap id) + ((l.filter Option.isNone).length : Rat) * v ∧
    (l.map (fillOpt v)).filter Option.isNone = [] := by
  induction l with
  | nil => simp
  | cons o os ih =>
    cases o with
    | none =>
      have e1 : ((none :: os).map (fillOpt v)).filterMap id = v :: (os.map (fillOpt v)).filterMap id := rfl
      have e2 : ((none : Option Rat) :: os).filterMap id = os.filterMap id := rfl
      have e3 : (((none : Option Rat) :: os).filter Option.isNone).length = (os.filter Option.isNone).length + 1 := by
        simp
      have e4 : ((none :: os).map (fillOpt v)).filter Option.isNone = (os.map (fillOpt v)).filter Option.isNone := rfl
      rw [e1, e2, e3, e4]
      refine ⟨?_, ih.2⟩
      simp only [sumR]
      rw [ih.1]
      push_cast
      ring
    | some w =>
      have e1 : ((some w :: os).map (fillOpt v)).filterMap id = w :: (os.map (fillOpt v)).filterMap id := rfl
      have e2 : (some w :: os).filterMap id = w :: os.filterMap id := rfl
      have e3 : ((some w :: os).filter Option.isNone).length = (os.filter Option.isNone).length := by simp
      have e4 : ((some w :: os).map (fillOpt v)).filter Option.isNone = (os.map (fillOpt v)).filter Option.isNone := rfl
      rw [e1, e2, e3, e4]
      refine ⟨?_, ih.2⟩
      simp only [sumR]
      rw [ih.1]
      ring

/-- **fixed_honours (first-row cells), exact.** A first-row cell whose declared border-box width `bw`
covers the spacings and the widths already known in its span (`share ≥ 0`: feasible) gets exactly
`bw`: after its step every column of its span has a width and they add up, with the spacings between
them, to `bw`. -/
theorem fixed_cell_exact (s W : Rat) (cw : List (Option Rat)) (i : Nat) (c : FCell) (bw : Rat)
    (hbw : c.borderWidth W = some bw) (hm : spanUnknown cw i c.colspan ≠ 0)
    (hfeas : 0 ≤ cellShare s cw i c.colspan bw) :
    spanUnknown (cellStep s W (cw, i) c).1 i c.colspan = 0 ∧
    spanKnown (cellStep s W (cw, i) c).1 i c.colspan + s * ((c.colspan : Rat) - 1) = bw := by
  obtain ⟨v, hv⟩ : ∃ v, v = max (cellShare s cw i c.colspan bw) 0 / (spanUnknown cw i c.colspan : Rat) := ⟨_, rfl⟩
  have hstep : (cellStep s W (cw, i) c).1 = fillSpan cw i c.colspan v := by
    unfold cellStep
    simp only [hbw, hm, if_false, hv]
  have hu : (((cw.drop i).take c.colspan).filter Option.isNone).length = spanUnknown cw i c.colspan := rfl
  have hk : sumR (((cw.drop i).take c.colspan).filterMap id) = spanKnown cw i c.colspan := rfl
  rw [hstep]
  obtain ⟨h1, h2⟩ := sum_fill ((cw.drop i).take c.colspan) v
  have g1 : spanUnknown (fillSpan cw i c.colspan v) i c.colspan = 0 := by
    unfold spanUnknown
    rw [window_fillSpan, h2]
    rfl
  have g2 : spanKnown (fillSpan cw i c.colspan v) i c.colspan = spanKnown cw i c.colspan +
      (spanUnknown cw i c.colspan : Rat) * v := by
    show sumR ((((fillSpan cw i c.colspan v).drop i).take c.colspan).filterMap id) = _
    rw [window_fillSpan, h1, hu, hk]
  refine ⟨g1, ?_⟩
  rw [g2, hv, max_eq_left hfeas]
  have hne : ((spanUnknown cw i c.colspan : Nat) : Rat) ≠ 0 := by exact_mod_cast hm
  rw [mul_div_cancel₀ _ hne]
  unfold cellShare
  ring

/-- Non-vacuity of `fixed_cell_exact`: `<col width=30><col><col>`, a first-row `<td colspan=3 width=100>`,
spacing 2: the two columns without width get `(100 − 2·2 − 30) / 2 = 33` each and `30 + 33 + 33 + 2·2 = 100`. -/
example : (cellStep 2 200 ([some 30, none, none], 0) ⟨3, .px 100, 0, 0, 0, 0, .content⟩).1 = [some 30, some 33, some 33] := by
  decide +kernel

/-- **fixed_honours (first-row cells), final widths.** The width a cell hands to a column survives
the rest of the algorithm: with `(cw, i)` the state reached before the cell, a spanned column `j`
without width ends up with the cell's equal share (clamped at 0) plus the common bump. -/
theorem fixed_honours_cell (W s : Rat) (cols : List Dim) (pre post : List FCell) (c : FCell) (o : FixedOut)
    (h : fixedLayout (some W) s cols (pre ++ c :: post) = .ok o)
    (bw : Rat) (hbw : c.borderWidth W = some bw) :
    let n := numColumns cols (pre ++ c :: post)
    let st := pre.foldl (cellStep s W) (cols.map (·.used W) ++ List.replicate (n - cols.length) none, 0)
    ∀ j, st.2 ≤ j → j < st.2 + c.colspan → st.1[j]? = some none →
      o.cols[j]? = some (max (cellShare s st.1 st.2 c.colspan bw) 0 / (spanUnknown st.1 st.2 c.colspan : Rat)
                         + fixedBump W s cols (pre ++ c :: post)) := by
  intro n st j hj1 hj2 hnone
  rw [(fixed_closed_form W s cols _ o h).1, List.getElem?_map]
  have hjlen : j < st.1.length := by
    by_contra hcon
    rw [List.getElem?_eq_none (by omega)] at hnone
    cases hnone
  -- the span contains an unknown column, so the cell assigns
  have hm : spanUnknown st.1 st.2 c.colspan ≠ 0 := by
    unfold spanUnknown
    intro h0
    have hmem : (none : Option Rat) ∈ ((st.1.drop st.2).take c.colspan).filter Option.isNone := by
      rw [List.mem_filter]
      refine ⟨?_, rfl⟩
      rw [List.mem_iff_getElem?]
      refine ⟨j - st.2, ?_⟩
      rw [List.getElem?_take_of_lt (by omega), List.getElem?_drop]
      have : st.2 + (j - st.2) = j := by omega
      rw [this, hnone]
    rw [List.eq_nil_of_length_eq_zero h0] at hmem
    cases hmem
  have hstep := (fixed_cell_share s W st.1 st.2 c bw hbw hm j hjlen).1
  have hget : st.1[j] = none := by
    have := List.getElem?_eq_getElem hjlen
    rw [hnone] at this
    injection this with this; exact this.symm
  simp only [hj1, hj2, and_self, if_true, hget] at hstep
  have h1 : (fixedAfterCells W s cols (pre ++ c :: post))[j]? =
      some (some (max (cellShare s st.1 st.2 c.colspan bw) 0 / (spanUnknown st.1 st.2 c.colspan : Rat))) := by
    unfold fixedAfterCells
    simp only [List.foldl_append, List.foldl_cons]
    apply foldl_cellStep_some
    exact hstep
  unfold fixedFilled
  rw [fillNone_some _ _ _ j h1]
  rfl

/-- **fixed_honours (remaining columns).** Columns with no information at all share the remainder
equally: each gets `fixedFill` (= `(W − declared total) / u` when the table is wide enough, else 0)
plus the common bump. -/
theorem fixed_honours_rest (W s : Rat) (cols : List Dim) (cells : List FCell) (o : FixedOut)
    (h : fixedLayout (some W) s cols cells = .ok o) (j : Nat)
    (hj : (fixedAfterCells W s cols cells)[j]? = some none) :
    o.cols[j]? = some (fixedFill W (allSpacing s cols cells) (fixedAfterCells W s cols cells)
                       + fixedBump W s cols cells) := by
  rw [(fixed_closed_form W s cols cells o h).1, List.getElem?_map]
  unfold fixedFilled
  rw [fillNone_none _ _ j hj]
  rfl

/-- Every width known after the first-row pass is `≥ 0` as soon as the declared `<col>` widths are:
a first-row cell hands out `max(share, 0) / m` (repair 5d962d2). -/
private theorem cellStep_nonneg (s W : Rat) (st : List (Option Rat) × Nat) (c : FCell)
    (h : ∀ w, some w ∈ st.1 → 0 ≤ w) : ∀ w, some w ∈ (cellStep s W st c).1 → 0 ≤ w := by
  unfold cellStep
  dsimp only
  split
  · exact h
  · split
    · exact h
    · intro w hw
      unfold fillSpan at hw
      rw [List.mem_mapIdx] at hw
      obtain ⟨j, hj, hw⟩ := hw
      have hmem : st.1[j] ∈ st.1 := List.getElem_mem hj
      split at hw
      · cases hoj : st.1[j] with
        | some x =>
          rw [hoj] at hw hmem
          simp only [Option.some.injEq] at hw
          subst hw
          exact h _ hmem
        | none =>
          rw [hoj] at hw
          simp only [Option.some.injEq] at hw
          subst hw
          apply div_nonneg (le_max_right _ _)
          exact_mod_cast Nat.zero_le _
      · rw [hw] at hmem
        exact h w hmem

private theorem foldl_cellStep_nonneg (s W : Rat) (cells : List FCell) (st : List (Option Rat) × Nat)
    (h : ∀ w, some w ∈ st.1 → 0 ≤ w) : ∀ w, some w ∈ (cells.foldl (cellStep s W) st).1 → 0 ≤ w := by
  induction cells generalizing st with
  | nil => exact h
  | cons c cs ih => exact ih _ (cellStep_nonneg s W st c h)

/-- Non-negative `<col>` declarations (px, or % of the table width). -/
def NonnegCols (W : Rat) (cols : List Dim) : Prop := ∀ d ∈ cols, ∀ w, d.used W = some w → 0 ≤ w

theorem fixedAfterCells_nonneg (W s : Rat) (cols : List Dim) (cells : List FCell)
    (hcols : NonnegCols W cols) : ∀ w, some w ∈ fixedAfterCells W s cols cells → 0 ≤ w := by
  unfold fixedAfterCells
  apply foldl_cellStep_nonneg
  intro w hw
  simp only [List.mem_append, List.mem_map, List.mem_replicate] at hw
  rcases hw with ⟨d, hd, hdw⟩ | ⟨_, hw⟩
  · exact hcols d hd w hdw
  · cases hw

/-- **fixed_nonneg** (full strength since repair 5d962d2; was `fixed_nonneg_partial`, finding
`fixed-negative-column`).  With non-negative `<col>` declarations every final column width is `≥ 0`,
whatever the first-row cells declare (even negative or infeasible widths). -/
theorem fixed_nonneg (W s : Rat) (cols : List Dim) (cells : List FCell) (o : FixedOut)
    (h : fixedLayout (some W) s cols cells = .ok o) (hcols : NonnegCols W cols) :
    ∀ w ∈ o.cols, 0 ≤ w := by
  have hpos := fixedAfterCells_nonneg W s cols cells hcols
  intro w hw
  rw [(fixed_closed_form W s cols cells o h).1, List.mem_map] at hw
  obtain ⟨v, hv, rfl⟩ := hw
  have hb := fixedBump_nonneg W s cols cells
  have hfill : 0 ≤ fixedFill W (allSpacing s cols cells) (fixedAfterCells W s cols cells) := by
    unfold fixedFill
    simp only
    split
    · rename_i hc
      apply div_nonneg
      · linarith [hc.2]
      · exact_mod_cast Nat.zero_le _
    · exact le_refl _
  have : 0 ≤ v := by
    unfold fixedFilled fillNone at hv
    rw [List.mem_map] at hv
    obtain ⟨ov, hov, rfl⟩ := hv
    cases ov with
    | none => exact hfill
    | some x => exact hpos x hov
  linarith

/-- Regression input of the former finding `fixed-negative-column`: `<col width=100><col>`, one
`<td colspan=2 width=50>` in a 60px table: the second column now gets 0 (then nothing: the table is
widened to 100), not −50. -/
example : fixedLayout (some 60) 0 [.px 100, .auto] [⟨2, .px 50, 0, 0, 0, 0, .content⟩] = .ok ⟨100, [100, 0]⟩ := by
  decide +kernel

example : fixedLayout (some 200) 0 [.px 100, .auto, .auto] [⟨2, .px 130, 0, 0, 0, 0, .content⟩]
    = .ok ⟨200, [100, 30, 70]⟩ := by decide +kernel

/-! ## Excess width (`distribute_excess_width`) -/

private theorem shareProp_spec (sel : Sel) (f : ACol → Rat) (excess : Rat) (cols : List ACol)
    (cw : List Rat) (site : String) (hlen : cw.length = cols.length)
    (hpos : ∀ j c, sel j c = true → 0 < f c) (hne : selCount sel 0 cols ≠ 0) :
    ∃ r, shareProp sel f excess cols cw site = .ok r ∧ r.length = cw.length ∧
      sumR r = sumR cw + excess ∧
      r = addSel sel (fun c => f c * (excess / selSum sel f 0 cols)) 0 cols cw := by
  have hp := selSum_pos sel f 0 cols hpos hne
  unfold shareProp
  simp only [ne_of_gt hp, if_false]
  refine ⟨_, rfl, length_addSel _ _ _ _ _ hlen, ?_, rfl⟩
  rw [sumR_addSel _ _ _ _ _ hlen, selSum_mul]
  have : selSum sel f 0 cols ≠ 0 := ne_of_gt hp
  field_simp

private theorem shareEqual_spec (sel : Sel) (excess : Rat) (cols : List ACol)
    (cw : List Rat) (site : String) (hlen : cw.length = cols.length)
    (hne : selCount sel 0 cols ≠ 0) :
    ∃ r, shareEqual sel excess cols cw site = .ok r ∧ r.length = cw.length ∧
      sumR r = sumR cw + excess ∧
      r = addSel sel (fun _ => excess / (selCount sel 0 cols : Rat)) 0 cols cw := by
  unfold shareEqual
  simp only [hne, if_false]
  refine ⟨_, rfl, length_addSel _ _ _ _ _ hlen, ?_, rfl⟩
  rw [sumR_addSel _ _ _ _ _ hlen, selSum_const]
  have : (selCount sel 0 cols : Rat) ≠ 0 := by exact_mod_cast hne
  field_simp

private theorem g1_pos (start : Nat) (stop : Option Nat) (j : Nat) (c : ACol)
    (h : group1 start stop j c = true) : 0 < c.maxW := by
  unfold group1 at h
  simp only [Bool.and_eq_true, decide_eq_true_eq] at h
  exact h.2

private theorem g3_pos (start : Nat) (stop : Option Nat) (j : Nat) (c : ACol)
    (h : group3 start stop j c = true) : 0 < c.maxW := by
  unfold group3 at h
  simp only [Bool.and_eq_true, decide_eq_true_eq] at h
  exact h.2

private theorem g4_pos (start : Nat) (stop : Option Nat) (j : Nat) (c : ACol)
    (h : group4 start stop j c = true) : 0 < c.pct := by
  unfold group4 at h
  simp only [Bool.and_eq_true, decide_eq_true_eq] at h
  exact h.1.2

/-- A non-empty group inside a larger one makes the larger one non-empty. -/
private theorem selCount_mono (sel sel' : Sel) (himp : ∀ j c, sel j c = true → sel' j c = true)
    (i : Nat) (cols : List ACol) (h : selCount sel i cols ≠ 0) : selCount sel' i cols ≠ 0 := by
  induction cols generalizing i with
  | nil => simp [selCount] at h
  | cons c cs ih =>
    simp only [selCount] at h ⊢
    by_cases hc : sel i c = true
    · simp [himp i c hc]
    · simp only [hc] at h
      have := ih (i + 1) (by simpa using h)
      omega

/-- What `distribute_excess_width` does, as one statement: it never raises (no division by zero in
any of the six groups), keeps the number of columns, and adds exactly `excess` in total as soon as
the column slice is not empty (group 6 non-empty); with an empty slice nothing changes. -/
theorem excess_sum (cols : List ACol) (excess : Rat) (cw : List Rat) (start : Nat) (stop : Option Nat)
    (hlen : cw.length = cols.length) :
    ∃ r, distributeExcess cols excess cw start stop = .ok r ∧ r.length = cw.length ∧
      sumR r = sumR cw + (if selCount (group6 start stop) 0 cols ≠ 0 then excess else 0) := by
  have mono : ∀ (sel : Sel), (∀ j c, sel j c = true → group6 start stop j c = true) →
      selCount sel 0 cols ≠ 0 → selCount (group6 start stop) 0 cols ≠ 0 :=
    fun sel himp => selCount_mono sel (group6 start stop) himp 0 cols
  have sub : ∀ (g : Nat → Option Nat → Sel), (∀ j c, g start stop j c = true → inSlice start stop j = true) →
      selCount (g start stop) 0 cols ≠ 0 → selCount (group6 start stop) 0 cols ≠ 0 :=
    fun g hg => mono (g start stop) (fun j c h => by unfold group6; exact hg j c h)
  unfold distributeExcess
  split
  · rename_i h
    have h6 := sub group1 (by intro j c hh; unfold group1 at hh; simp only [Bool.and_eq_true] at hh; exact hh.1.1.1) h
    obtain ⟨r, hr, hl, hs, _⟩ := shareProp_spec _ (·.maxW) excess cols cw "group1" hlen (g1_pos start stop) h
    exact ⟨r, hr, hl, by simp [h6, hs]⟩
  · split
    · rename_i h
      have h6 := sub group2 (by intro j c hh; unfold group2 at hh; simp only [Bool.and_eq_true] at hh; exact hh.1.1) h
      obtain ⟨r, hr, hl, hs, _⟩ := shareEqual_spec _ excess cols cw "group2" hlen h
      exact ⟨r, hr, hl, by simp [h6, hs]⟩
    · split
      · rename_i h
        have h6 := sub group3 (by intro j c hh; unfold group3 at hh; simp only [Bool.and_eq_true] at hh; exact hh.1.1.1) h
        obtain ⟨r, hr, hl, hs, _⟩ := shareProp_spec _ (·.maxW) excess cols cw "group3" hlen (g3_pos start stop) h
        exact ⟨r, hr, hl, by simp [h6, hs]⟩
      · split
        · rename_i h
          have h6 := sub group4 (by intro j c hh; unfold group4 at hh; simp only [Bool.and_eq_true] at hh; exact hh.1.1) h
          obtain ⟨r, hr, hl, hs, _⟩ := shareProp_spec _ (·.pct) excess cols cw "group4" hlen (g4_pos start stop) h
          exact ⟨r, hr, hl, by simp [h6, hs]⟩
        · split
          · rename_i h
            have h6 := sub group5 (by intro j c hh; unfold group5 at hh; simp only [Bool.and_eq_true] at hh; exact hh.1) h
            obtain ⟨r, hr, hl, hs, _⟩ := shareEqual_spec _ excess cols cw "group5" hlen h
            exact ⟨r, hr, hl, by simp [h6, hs]⟩
          · split
            · rename_i h
              obtain ⟨r, hr, hl, hs, _⟩ := shareEqual_spec _ excess cols cw "group6" hlen h
              exact ⟨r, hr, hl, by simp [h, hs]⟩
            · rename_i h
              exact ⟨cw, rfl, rfl, by simp [h]⟩

private theorem addSel_false (i : Nat) (cols : List ACol) (cw : List Rat) (f : ACol → Rat)
    (hlen : cw.length = cols.length) : addSel (fun _ _ => false) f i cols cw = cw := by
  induction cols generalizing i cw with
  | nil => simp [addSel]
  | cons c cs ih =>
    cases cw with
    | nil => simp at hlen
    | cons w ws =>
      simp only [List.length_cons, Nat.add_right_cancel_iff] at hlen
      simp [addSel, ih (i + 1) ws hlen]

/-- The shape of every result of `distribute_excess_width`: some columns *inside the slice* get an
amount added, and the amounts are non-negative when the excess is. -/
theorem excess_shape (cols : List ACol) (excess : Rat) (cw : List Rat) (start : Nat) (stop : Option Nat)
    (hlen : cw.length = cols.length) :
    ∃ (sel : Sel) (amt : ACol → Rat),
      (∀ j c, sel j c = true → inSlice start stop j = true) ∧
      (0 ≤ excess → ∀ j c, sel j c = true → 0 ≤ amt c) ∧
      distributeExcess cols excess cw start stop = .ok (addSel sel amt 0 cols cw) := by
  have propCase : ∀ (sel : Sel) (f : ACol → Rat) (site : String),
      (∀ j c, sel j c = true → inSlice start stop j = true) →
      (∀ j c, sel j c = true → 0 < f c) → selCount sel 0 cols ≠ 0 →
      ∃ (sel' : Sel) (amt : ACol → Rat),
        (∀ j c, sel' j c = true → inSlice start stop j = true) ∧
        (0 ≤ excess → ∀ j c, sel' j c = true → 0 ≤ amt c) ∧
        shareProp sel f excess cols cw site = .ok (addSel sel' amt 0 cols cw) := by
    intro sel f site hin hpos hne
    obtain ⟨r, hr, _, _, hshape⟩ := shareProp_spec sel f excess cols cw site hlen hpos hne
    refine ⟨sel, _, hin, ?_, by rw [hr, hshape]⟩
    intro hex j c hs
    have hp := selSum_pos sel f 0 cols hpos hne
    exact mul_nonneg (le_of_lt (hpos j c hs)) (div_nonneg hex (le_of_lt hp))
  have eqCase : ∀ (sel : Sel) (site : String),
      (∀ j c, sel j c = true → inSlice start stop j = true) → selCount sel 0 cols ≠ 0 →
      ∃ (sel' : Sel) (amt : ACol → Rat),
        (∀ j c, sel' j c = true → inSlice start stop j = true) ∧
        (0 ≤ excess → ∀ j c, sel' j c = true → 0 ≤ amt c) ∧
        shareEqual sel excess cols cw site = .ok (addSel sel' amt 0 cols cw) := by
    intro sel site hin hne
    obtain ⟨r, hr, _, _, hshape⟩ := shareEqual_spec sel excess cols cw site hlen hne
    refine ⟨sel, _, hin, ?_, by rw [hr, hshape]⟩
    intro hex j c _
    exact div_nonneg hex (by exact_mod_cast Nat.zero_le _)
  unfold distributeExcess
  split
  · rename_i h
    exact propCase _ _ _ (by intro j c hh; unfold group1 at hh; simp only [Bool.and_eq_true] at hh; exact hh.1.1.1)
      (g1_pos start stop) h
  · split
    · rename_i h
      exact eqCase _ _ (by intro j c hh; unfold group2 at hh; simp only [Bool.and_eq_true] at hh; exact hh.1.1) h
    · split
      · rename_i h
        exact propCase _ _ _ (by intro j c hh; unfold group3 at hh; simp only [Bool.and_eq_true] at hh; exact hh.1.1.1)
          (g3_pos start stop) h
      · split
        · rename_i h
          exact propCase _ _ _ (by intro j c hh; unfold group4 at hh; simp only [Bool.and_eq_true] at hh; exact hh.1.1)
            (g4_pos start stop) h
        · split
          · rename_i h
            exact eqCase _ _ (by intro j c hh; unfold group5 at hh; simp only [Bool.and_eq_true] at hh; exact hh.1) h
          · split
            · rename_i h
              exact eqCase _ _ (by intro j c hh; unfold group6 at hh; exact hh) h
            · refine ⟨fun _ _ => false, fun _ => 0, ?_, ?_, ?_⟩
              · intro j c hh; cases hh
              · intro _ j c hh; cases hh
              · rw [addSel_false _ _ _ _ hlen]

private theorem LeList_addSel (sel : Sel) (f : ACol → Rat) (i : Nat) (cols : List ACol) (cw : List Rat)
    (hlen : cw.length = cols.length) (hf : ∀ j c, sel j c = true → 0 ≤ f c) :
    LeList cw (addSel sel f i cols cw) := by
  induction cols generalizing i cw with
  | nil =>
    cases cw with
    | nil => trivial
    | cons _ _ => simp at hlen
  | cons c cs ih =>
    cases cw with
    | nil => simp at hlen
    | cons w ws =>
      simp only [List.length_cons, Nat.add_right_cancel_iff] at hlen
      refine ⟨?_, ih (i + 1) ws hlen⟩
      by_cases hc : sel i c = true
      · simp only [hc, if_true]; linarith [hf i c hc]
      · simp [hc]

/-- A non-negative excess never narrows a column. -/
theorem excess_ge (cols : List ACol) (excess : Rat) (cw r : List Rat) (start : Nat) (stop : Option Nat)
    (hlen : cw.length = cols.length) (hex : 0 ≤ excess)
    (h : distributeExcess cols excess cw start stop = .ok r) : LeList cw r := by
  obtain ⟨sel, amt, _, hnn, heq⟩ := excess_shape cols excess cw start stop hlen
  rw [heq] at h
  injection h with h; subst h
  exact LeList_addSel sel amt 0 cols cw hlen (hnn hex)

/-- Columns outside the slice are untouched. -/
theorem excess_outside (cols : List ACol) (excess : Rat) (cw r : List Rat) (start : Nat) (stop : Option Nat)
    (hlen : cw.length = cols.length)
    (h : distributeExcess cols excess cw start stop = .ok r)
    (j : Nat) (hj : inSlice start stop j = false) : r[j]? = cw[j]? := by
  obtain ⟨sel, amt, hin, _, heq⟩ := excess_shape cols excess cw start stop hlen
  rw [heq] at h
  injection h with h; subst h
  by_cases hjl : j < cols.length
  · rw [getElem_addSel sel amt 0 cols cw j hjl hlen]
    have : sel (0 + j) cols[j] = false := by
      cases hs : sel (0 + j) cols[j] with
      | false => rfl
      | true =>
        have := hin _ _ hs
        rw [Nat.zero_add] at this
        rw [this] at hj; cases hj
    rw [this, List.getElem?_eq_getElem (hlen ▸ hjl)]
    rfl
  · rw [List.getElem?_eq_none (by rw [length_addSel _ _ _ _ _ hlen, hlen]; omega),
        List.getElem?_eq_none (by rw [hlen]; omega)]

example : distributeExcess [⟨10, 30, 0, false, true⟩, ⟨5, 10, 0, false, true⟩, ⟨0, 0, 50, true, true⟩]
    20 [30, 10, 0] 0 none = .ok [45, 15, 0] := by decide +kernel

/-! ## Auto layout (`auto_table_layout`, given the preferred widths) -/

/-- **auto_bounds.** The three-way choice of `table.width`: never below the table's min-content
width; for `width: auto` never above its max-content width and equal to the available width when
that lies in between; a specified width is kept unless it is below the min-content width. -/
theorem auto_bounds (W : Len) (avail tmin tmax : Rat) (h : tmin ≤ tmax) :
    tmin ≤ autoTableWidth W avail tmin tmax ∧
    (W = none → autoTableWidth W avail tmin tmax ≤ tmax ∧
       (tmin ≤ avail → avail ≤ tmax → autoTableWidth W avail tmin tmax = avail)) ∧
    (∀ v, W = some v → autoTableWidth W avail tmin tmax = max v tmin) := by
  cases W with
  | none =>
    have key : autoTableWidth none avail tmin tmax =
        if avail ≤ tmin then tmin else if avail < tmax then avail else tmax := rfl
    rw [key]
    refine ⟨?_, fun _ => ⟨?_, ?_⟩, fun v hv => by cases hv⟩
    · by_cases h1 : avail ≤ tmin
      · simp [h1]
      · by_cases h2 : avail < tmax
        · simp only [h1, h2, if_true, if_false]; linarith
        · simp only [h1, h2, if_false]; exact h
    · by_cases h1 : avail ≤ tmin
      · simp only [h1, if_true]; exact h
      · by_cases h2 : avail < tmax
        · simp only [h1, h2, if_true, if_false]; linarith
        · simp [h1, h2]
    · intro h1 h2
      by_cases h3 : avail ≤ tmin
      · simp only [h3, if_true]; linarith
      · by_cases h4 : avail < tmax
        · simp [h3, h4]
        · simp only [h3, h4, if_false]; linarith
  | some w =>
    have key : autoTableWidth (some w) avail tmin tmax = if w < tmin then tmin else w := rfl
    rw [key]
    refine ⟨?_, ?_, ?_⟩
    · by_cases h1 : w < tmin
      · simp [h1]
      · simp only [h1, if_false]; linarith
    · intro hn; cases hn
    · intro v hv
      injection hv with hv; subst hv
      by_cases h1 : w < tmin
      · simp only [h1, if_true]; exact (max_eq_right (le_of_lt h1)).symm
      · simp only [h1, if_false]; exact (max_eq_left (not_lt.mp h1)).symm

/-- Well-formed preferred widths of the columns (what `table_and_columns_preferred_widths` returns:
an input of the model, not modelled). -/
def WfCols (cols : List ACol) : Prop := ∀ c ∈ cols, 0 ≤ c.minW ∧ c.minW ≤ c.maxW ∧ 0 ≤ c.pct

private theorem pyMax_ge_right (a b : Rat) : b ≤ pyMax a b := by
  unfold pyMax; split <;> linarith

private theorem le01 (a : Rat) (cols : List ACol) : LeList (guess0 cols) (guess1 a cols) := by
  unfold guess0 guess1
  apply LeList.map
  intro c _
  split
  · exact pyMax_ge_right _ _
  · exact le_refl _

private theorem le12 (a : Rat) (cols : List ACol) (h : WfCols cols) :
    LeList (guess1 a cols) (guess2 a cols) := by
  unfold guess1 guess2
  apply LeList.map
  intro c hc
  split
  · exact le_refl _
  · split
    · exact (h c hc).2.1
    · exact le_refl _

private theorem le23 (a : Rat) (cols : List ACol) (h : WfCols cols) :
    LeList (guess2 a cols) (guess3 a cols) := by
  unfold guess2 guess3
  apply LeList.map
  intro c hc
  split
  · exact le_refl _
  · split
    · exact le_refl _
    · exact (h c hc).2.1

/-- The four guesses are pointwise increasing (css-tables-3 "width distribution algorithm"). -/
theorem guesses_ordered (a : Rat) (cols : List ACol) (h : WfCols cols) :
    LeList (guess0 cols) (guess1 a cols) ∧ LeList (guess1 a cols) (guess2 a cols) ∧
    LeList (guess2 a cols) (guess3 a cols) := ⟨le01 a cols, le12 a cols h, le23 a cols h⟩

private theorem comparable (a : Rat) (cols : List ACol) (h : WfCols cols) :
    ∀ x ∈ [guess0 cols, guess1 a cols, guess2 a cols, guess3 a cols],
    ∀ y ∈ [guess0 cols, guess1 a cols, guess2 a cols, guess3 a cols], LeList x y ∨ LeList y x := by
  have h01 := le01 a cols
  have h12 := le12 a cols h
  have h23 := le23 a cols h
  have h02 := h01.trans h12
  have h13 := h12.trans h23
  have h03 := h02.trans h23
  intro x hx y hy
  simp only [List.mem_cons, List.not_mem_nil, or_false] at hx hy
  rcases hx with rfl | rfl | rfl | rfl <;> rcases hy with rfl | rfl | rfl | rfl <;>
    first
    | exact Or.inl (LeList.refl _)
    | (left; assumption)
    | (right; assumption)

private theorem ge_guess0 (a : Rat) (cols : List ACol) (h : WfCols cols) :
    ∀ x ∈ [guess0 cols, guess1 a cols, guess2 a cols, guess3 a cols], LeList (guess0 cols) x := by
  have h01 := le01 a cols
  have h12 := le12 a cols h
  have h23 := le23 a cols h
  intro x hx
  simp only [List.mem_cons, List.not_mem_nil, or_false] at hx
  rcases hx with rfl | rfl | rfl | rfl
  · exact LeList.refl _
  · exact h01
  · exact h01.trans h12
  · exact (h01.trans h12).trans h23

private theorem pickLower_mem (a : Rat) (gs : List (List Rat)) (cur : List Rat) :
    pickLower a gs cur ∈ cur :: gs := by
  induction gs generalizing cur with
  | nil => simp [pickLower]
  | cons g rest ih =>
    unfold pickLower
    split
    · have := ih g
      simp only [List.mem_cons] at this ⊢
      rcases this with h | h
      · right; left; exact h
      · right; right; exact h
    · simp

private theorem pickUpper_mem (a : Rat) (gs : List (List Rat)) (cur : List Rat) :
    pickUpper a gs cur ∈ cur :: gs := by
  induction gs generalizing cur with
  | nil => simp [pickUpper]
  | cons g rest ih =>
    unfold pickUpper
    split
    · have := ih g
      simp only [List.mem_cons] at this ⊢
      rcases this with h | h
      · right; left; exact h
      · right; right; exact h
    · simp

private theorem pickLower_le (a : Rat) (gs : List (List Rat)) (cur : List Rat)
    (h : sumR cur ≤ a * (1 + eps)) : sumR (pickLower a gs cur) ≤ a * (1 + eps) := by
  induction gs generalizing cur with
  | nil => exact h
  | cons g rest ih =>
    unfold pickLower
    split
    · rename_i hg; exact ih g hg
    · exact h

private theorem pickUpper_ge (a : Rat) (gs : List (List Rat)) (cur : List Rat)
    (h : sumR cur ≥ a * (1 - eps)) : sumR (pickUpper a gs cur) ≥ a * (1 - eps) := by
  induction gs generalizing cur with
  | nil => exact h
  | cons g rest ih =>
    unfold pickUpper
    split
    · rename_i hg; exact ih g hg
    · exact h

private theorem eps_pos : (0 : Rat) < eps := by unfold eps; norm_num

private theorem lower_in_chain (a : Rat) (cols : List ACol) :
    pickLower a [guess0 cols, guess1 a cols, guess2 a cols, guess3 a cols] (guess0 cols) ∈
      [guess0 cols, guess1 a cols, guess2 a cols, guess3 a cols] := by
  have := pickLower_mem a [guess0 cols, guess1 a cols, guess2 a cols, guess3 a cols] (guess0 cols)
  simp only [List.mem_cons, List.not_mem_nil, or_false] at this ⊢
  rcases this with h | h | h | h | h
  · left; exact h
  · left; exact h
  · right; left; exact h
  · right; right; left; exact h
  · right; right; right; exact h

private theorem upper_in_chain (a : Rat) (cols : List ACol) :
    pickUpper a [guess3 a cols, guess2 a cols, guess1 a cols, guess0 cols] (guess3 a cols) ∈
      [guess0 cols, guess1 a cols, guess2 a cols, guess3 a cols] := by
  have := pickUpper_mem a [guess3 a cols, guess2 a cols, guess1 a cols, guess0 cols] (guess3 a cols)
  simp only [List.mem_cons, List.not_mem_nil, or_false] at this ⊢
  rcases this with h | h | h | h | h
  · right; right; right; exact h
  · right; right; right; exact h
  · right; right; left; exact h
  · right; left; exact h
  · left; exact h

private theorem length_chain (a : Rat) (cols : List ACol) :
    ∀ x ∈ [guess0 cols, guess1 a cols, guess2 a cols, guess3 a cols], x.length = cols.length := by
  intro x hx
  simp only [List.mem_cons, List.not_mem_nil, or_false] at hx
  rcases hx with rfl | rfl | rfl | rfl <;> simp [guess0, guess1, guess2, guess3]

private theorem sumR_interpolate (l u : List Rat) (r : Rat) (h : l.length = u.length) :
    sumR (interpolate l u r) = sumR l + (sumR u - sumR l) * r := by
  induction l generalizing u with
  | nil =>
    cases u with
    | nil => simp [interpolate]
    | cons _ _ => simp at h
  | cons x xs ih =>
    cases u with
    | nil => simp at h
    | cons y ys =>
      simp only [List.length_cons, Nat.add_right_cancel_iff] at h
      have := ih ys h
      unfold interpolate at this ⊢
      simp only [List.zipWith_cons_cons, sumR_cons, this]
      ring

private theorem group6_full_count (i : Nat) (cols : List ACol) :
    selCount (group6 0 none) i cols = cols.length := by
  induction cols generalizing i with
  | nil => rfl
  | cons c cs ih => simp [selCount, ih, group6, inSlice]; omega

/-- **auto_total.** With well-formed preferred widths (`0 ≤ min ≤ max`, percentages `≥ 0`)
`auto_table_layout` never divides by zero: two different guesses have different sums (they are
pointwise ordered), and none of the six excess groups divides by zero. -/
theorem auto_total (a : Rat) (cols : List ACol) (hwf : WfCols cols) :
    ∃ r, autoColumns a cols = .ok r := by
  unfold autoColumns
  simp only
  split
  · split
    · exact ⟨_, rfl⟩
    · rename_i hne
      split
      · rename_i hz
        exfalso
        apply hne
        have hl := lower_in_chain a cols
        have hu := upper_in_chain a cols
        rcases comparable a cols hwf _ hu _ hl with hle | hle
        · exact hle.eq_of_sum_eq (by linarith)
        · exact (hle.eq_of_sum_eq (by linarith)).symm
      · exact ⟨_, rfl⟩
  · obtain ⟨r, hr, _, _⟩ := excess_sum cols (a - sumR (guess3 a cols)) (guess3 a cols) 0 none
      (by simp [guess3])
    rw [hr]
    exact ⟨_, rfl⟩

/-- **auto_sum.** The columns fill the assignable width: in the interpolation branch and in the
excess branch `Σ column_widths = assignable_width` exactly; when one guess is taken as it is
(`upper_guess == lower_guess`), its sum lies within the code's 1e-9 relative tolerance of the
assignable width (exactly equal whenever the comparison was not decided by the tolerance).
Hypotheses: at least one column, `Σ min-content ≤ assignable` (guaranteed by
`table.width ≥ table_min_content_width`), `0 ≤ assignable`. -/
theorem auto_sum (a : Rat) (cols : List ACol) (cw : List Rat) (b : String)
    (h : autoColumns a cols = .ok (cw, b)) (hne : cols ≠ [])
    (hmin : sumR (guess0 cols) ≤ a) (ha : 0 ≤ a) :
    sumR cw = a ∨ (b = "guess" ∧ a * (1 - eps) ≤ sumR cw ∧ sumR cw ≤ a * (1 + eps)) := by
  unfold autoColumns at h
  simp only at h
  have he := eps_pos
  split at h
  · rename_i hlt
    split at h
    · rename_i heq
      injection h with h
      injection h with h1 h2
      subst h1; subst h2
      right
      refine ⟨rfl, ?_, ?_⟩
      · apply pickUpper_ge
        nlinarith
      · rw [heq]
        apply pickLower_le
        nlinarith
    · split at h
      · cases h
      · rename_i hadd
        injection h with h
        injection h with h1 h2
        subst h1
        left
        have hl := length_chain a cols _ (lower_in_chain a cols)
        have hu := length_chain a cols _ (upper_in_chain a cols)
        rw [sumR_interpolate _ _ _ (by rw [hl, hu])]
        field_simp
        ring
  · split at h
    · cases h
    · rename_i r hr
      injection h with h
      injection h with h1 h2
      subst h1
      left
      obtain ⟨r', hr', _, hs⟩ := excess_sum cols (a - sumR (guess3 a cols)) (guess3 a cols) 0 none
        (by simp [guess3])
      rw [hr'] at hr
      injection hr with hr; subst hr
      rw [hs, group6_full_count]
      have : cols.length ≠ 0 := by
        intro h0; exact hne (List.eq_nil_of_length_eq_zero h0)
      simp [this]

example : (autoColumns 100 [⟨10, 30, 0, false, true⟩, ⟨20, 90, 0, false, true⟩]).map (·.1) =
    .ok [230 / 9, 670 / 9] := by decide +kernel

example : (autoColumns 200 [⟨10, 30, 0, false, true⟩, ⟨20, 90, 0, false, true⟩]).map (·.1) =
    .ok [50, 150] := by decide +kernel

/-- The tolerance `1e-9` of the guess selection decides nothing: every guess whose sum passes a
tolerant comparison also passes the exact one (true whenever the tolerance only absorbs float noise). -/
def CleanBand (a : Rat) (cols : List ACol) : Prop :=
  ∀ g ∈ [guess0 cols, guess1 a cols, guess2 a cols, guess3 a cols],
    (sumR g ≤ a * (1 + eps) → sumR g ≤ a) ∧ (sumR g ≥ a * (1 - eps) → sumR g ≥ a)

private theorem LeList_interpolate (l u : List Rat) (r : Rat) (hr : 0 ≤ r) (h : LeList l u) :
    LeList l (interpolate l u r) := by
  induction l generalizing u with
  | nil =>
    cases u with
    | nil => trivial
    | cons _ _ => simp [LeList] at h
  | cons x xs ih =>
    cases u with
    | nil => simp [LeList] at h
    | cons y ys =>
      have := ih ys h.2
      unfold interpolate at this ⊢
      simp only [List.zipWith_cons_cons]
      refine ⟨?_, this⟩
      have : 0 ≤ (y - x) * r := mul_nonneg (by linarith [h.1]) hr
      linarith

/-- **auto_ge_min_partial.** Every column is at least as wide as its min-content width
(`LeList (guess0 cols) cw` is the pointwise statement), provided the 1e-9 tolerance decides nothing
(`CleanBand`).
Full statement (without `CleanBand`) is false of the code by less than `1e-9 · assignable`:
`Witness.C10.auto_band_below_min`. -/
theorem auto_ge_min_partial (a : Rat) (cols : List ACol) (cw : List Rat) (b : String)
    (h : autoColumns a cols = .ok (cw, b)) (hwf : WfCols cols)
    (hmin : sumR (guess0 cols) ≤ a) (ha : 0 ≤ a) (hband : CleanBand a cols) :
    LeList (guess0 cols) cw := by
  unfold autoColumns at h
  simp only at h
  have he := eps_pos
  split at h
  · rename_i hlt
    have hl := lower_in_chain a cols
    have hu := upper_in_chain a cols
    split at h
    · injection h with h
      injection h with h1 h2
      subst h1
      exact ge_guess0 a cols hwf _ hu
    · rename_i hne
      split at h
      · cases h
      · rename_i hadd
        injection h with h
        injection h with h1 h2
        subst h1
        have hls : sumR (pickLower a [guess0 cols, guess1 a cols, guess2 a cols, guess3 a cols]
            (guess0 cols)) ≤ a :=
          (hband _ hl).1 (pickLower_le a _ _ (by nlinarith))
        have hus : a ≤ sumR (pickUpper a [guess3 a cols, guess2 a cols, guess1 a cols, guess0 cols]
            (guess3 a cols)) :=
          (hband _ hu).2 (pickUpper_ge a _ _ (by nlinarith))
        have hle : LeList (pickLower a [guess0 cols, guess1 a cols, guess2 a cols, guess3 a cols]
            (guess0 cols)) (pickUpper a [guess3 a cols, guess2 a cols, guess1 a cols, guess0 cols]
            (guess3 a cols)) := by
          rcases comparable a cols hwf _ hl _ hu with hc | hc
          · exact hc
          · exfalso
            apply hne
            have := hc.sum_le
            exact hc.eq_of_sum_eq (by linarith)
        have hpos : 0 < sumR (pickUpper a [guess3 a cols, guess2 a cols, guess1 a cols, guess0 cols]
            (guess3 a cols)) - sumR (pickLower a [guess0 cols, guess1 a cols, guess2 a cols, guess3 a cols]
            (guess0 cols)) := by
          have := hle.sum_le
          rcases lt_or_eq_of_le this with hlt' | heq'
          · linarith
          · exfalso; exact hadd (by linarith)
        have hr : 0 ≤ (a - sumR (pickLower a [guess0 cols, guess1 a cols, guess2 a cols, guess3 a cols]
            (guess0 cols))) / (sumR (pickUpper a [guess3 a cols, guess2 a cols, guess1 a cols, guess0 cols]
            (guess3 a cols)) - sumR (pickLower a [guess0 cols, guess1 a cols, guess2 a cols, guess3 a cols]
            (guess0 cols))) := div_nonneg (by linarith) (le_of_lt hpos)
        exact (ge_guess0 a cols hwf _ hl).trans (LeList_interpolate _ _ _ hr hle)
  · rename_i hge
    split at h
    · cases h
    · rename_i r hr
      injection h with h
      injection h with h1 h2
      subst h1
      have h3 : LeList (guess3 a cols) r :=
        excess_ge cols _ (guess3 a cols) r 0 none (by simp [guess3]) (by linarith [not_lt.mp hge]) hr
      exact (ge_guess0 a cols hwf (guess3 a cols) (by simp)).trans h3

/-- `auto_table_layout` as a whole: the table width is the three-way choice, and with a non-empty
grid the columns are those of `autoColumns` at `assignable = table.width − total spacing`. -/
theorem autoLayout_eq (inp : AutoIn) (o : AutoOut) (h : autoLayout inp = .ok o) :
    o.width = autoTableWidth inp.tableW (availableWidth inp) inp.tmin inp.tmax ∧
    (inp.cols = [] → o.cols = []) ∧
    (inp.cols ≠ [] → autoColumns (o.width - inp.spacing) inp.cols = .ok (o.cols, o.branch)) := by
  unfold autoLayout at h
  simp only at h
  split at h
  · rename_i heq
    injection h with h; subst h
    exact ⟨rfl, fun _ => rfl, fun hne => absurd heq hne⟩
  · rename_i c cs heq
    split at h
    · cases h
    · rename_i cw b hcols
      injection h with h; subst h
      refine ⟨rfl, fun hnil => ?_, fun _ => hcols⟩
      rw [heq] at hnil; cases hnil

/-- **auto_sum (table level).** With well-formed preferred widths the whole function succeeds and
the columns plus the total border spacing give the table width, up to the code's tolerance in the
single branch where one guess is taken unchanged. -/
theorem auto_sum_table (inp : AutoIn) (hwf : WfCols inp.cols) (hne : inp.cols ≠ [])
    (htmin : inp.spacing + sumR (guess0 inp.cols) ≤ inp.tmin) (htmax : inp.tmin ≤ inp.tmax)
    (hnn : 0 ≤ sumR (guess0 inp.cols)) :
    ∃ o, autoLayout inp = .ok o ∧
      (sumR o.cols + inp.spacing = o.width ∨
       (o.width - inp.spacing) * (1 - eps) ≤ sumR o.cols ∧
       sumR o.cols ≤ (o.width - inp.spacing) * (1 + eps)) := by
  have hw := (auto_bounds inp.tableW (availableWidth inp) inp.tmin inp.tmax htmax).1
  obtain ⟨r, hr⟩ := auto_total (autoTableWidth inp.tableW (availableWidth inp) inp.tmin inp.tmax - inp.spacing)
    inp.cols hwf
  have hok : autoLayout inp = .ok ⟨autoTableWidth inp.tableW (availableWidth inp) inp.tmin inp.tmax, r.1, r.2⟩ := by
    unfold autoLayout
    simp only
    split
    · rename_i heq; exact absurd heq hne
    · rw [hr]
  refine ⟨_, hok, ?_⟩
  have hmin : sumR (guess0 inp.cols) ≤
      autoTableWidth inp.tableW (availableWidth inp) inp.tmin inp.tmax - inp.spacing := by linarith
  rcases auto_sum _ inp.cols r.1 r.2 hr hne hmin (by linarith) with hs | ⟨_, h1, h2⟩
  · left; simp only; linarith
  · right; exact ⟨h1, h2⟩

/-! ## `table_wrapper_width` -/

/-- The fixed algorithm is used exactly for `table-layout: fixed` tables whose width is not `auto`
(CSS 2.1 §17.5.2), and the wrapper is as wide as the table's border box. -/
theorem wrapper_dispatch (layoutFixed : Bool) (width : Dim) (cb pl pr bl br : Rat) (sz : BoxSizing) :
    usesFixed layoutFixed (tableUsedWidth width cb pl pr bl br sz) = true ↔
      layoutFixed = true ∧ width ≠ .auto := by
  unfold usesFixed tableUsedWidth
  cases width <;> cases layoutFixed <;> simp [Dim.used]

theorem wrapper_border_box (W pl pr bl br : Rat) :
    wrapperWidth W pl pr bl br - (pl + pr + bl + br) = W := by
  unfold wrapperWidth; ring

/-! ## Geometry of `table_layout`: column positions and cell extents -/

private theorem getElem?_colPositionsLtr (s : Rat) (x : Rat) (cw : List Rat) (i : Nat) (hi : i < cw.length) :
    (colPositionsLtr s x cw)[i]? = some (x + ((i : Rat) + 1) * s + sumR (cw.take i)) := by
  induction cw generalizing x i with
  | nil => simp at hi
  | cons w ws ih =>
    cases i with
    | zero => simp [colPositionsLtr]
    | succ j =>
      simp only [List.length_cons, Nat.add_lt_add_iff_right] at hi
      simp only [colPositionsLtr, List.getElem?_cons_succ, ih (x + s + w) j hi, List.take_succ_cons,
        sumR_cons]
      congr 1
      push_cast
      ring

private theorem getElem?_colPositionsRtl (s : Rat) (x : Rat) (cw : List Rat) (i : Nat) (hi : i < cw.length) :
    (colPositionsRtl s x cw)[i]? = some (x - ((i : Rat) + 1) * s - sumR (cw.take (i + 1))) := by
  induction cw generalizing x i with
  | nil => simp at hi
  | cons w ws ih =>
    cases i with
    | zero => simp [colPositionsRtl]
    | succ j =>
      simp only [List.length_cons, Nat.add_lt_add_iff_right] at hi
      simp only [colPositionsRtl, List.getElem?_cons_succ, ih (x - s - w) j hi, List.take_succ_cons,
        sumR_cons]
      congr 1
      push_cast
      ring

private theorem length_colPositionsLtr (s x : Rat) (cw : List Rat) :
    (colPositionsLtr s x cw).length = cw.length := by
  induction cw generalizing x with
  | nil => rfl
  | cons w ws ih => simp [colPositionsLtr, ih]

private theorem length_colPositionsRtl (s x : Rat) (cw : List Rat) :
    (colPositionsRtl s x cw).length = cw.length := by
  induction cw generalizing x with
  | nil => rfl
  | cons w ws ih => simp [colPositionsRtl, ih]

/-- **columns_partition.** The column boxes tile the table's content box with the border spacings:
in ltr column `i` starts at `x + (i+1)·s + Σ_{j<i} w_j`; in rtl it *ends* (right edge) at
`x + W − (i+1)·s − Σ_{j<i} w_j`.  Hence consecutive columns are exactly `s` apart, the first one is
`s` from the table's start edge, and — when `Σ w + (n+1)·s = W` (fixed_sum / auto_sum) — the last
one ends `s` before the other edge. -/
theorem columns_partition (ltr : Bool) (x W s : Rat) (cw : List Rat) :
    (colPositions ltr x W s cw).positions.length = cw.length ∧
    ∀ i (hi : i < cw.length),
      (colPositions ltr x W s cw).positions[i]? =
        some (if ltr then x + ((i : Rat) + 1) * s + sumR (cw.take i)
              else x + W - ((i : Rat) + 1) * s - sumR (cw.take i) - cw[i]) := by
  unfold colPositions
  cases ltr with
  | true =>
    simp only [if_true]
    exact ⟨length_colPositionsLtr _ _ _, fun i hi => getElem?_colPositionsLtr s x cw i hi⟩
  | false =>
    simp only [Bool.false_eq_true, if_false]
    refine ⟨length_colPositionsRtl _ _ _, fun i hi => ?_⟩
    rw [getElem?_colPositionsRtl s (x + W) cw i hi, sumR_take_succ cw i hi]
    congr 1
    ring

/-- Corollary: the last column ends one spacing before the far edge of the content box whenever the
widths and spacings add up to the table width. -/
theorem columns_partition_last (ltr : Bool) (x W s : Rat) (cw : List Rat) (n : Nat)
    (hn : cw.length = n + 1) (hsum : sumR cw + s * ((cw.length : Rat) + 1) = W) :
    (colPositions ltr x W s cw).positions[n]? =
      some (if ltr then x + W - s - cw[n]'(by omega) else x + s) := by
  have hi : n < cw.length := by omega
  rw [(columns_partition ltr x W s cw).2 n hi]
  have htake : sumR cw = sumR (cw.take n) + cw[n] := by
    have := sumR_take_succ cw n hi
    rw [← this, List.take_of_length_le (by omega)]
  have hlen : (cw.length : Rat) = (n : Rat) + 1 := by exact_mod_cast hn
  cases ltr with
  | true =>
    simp only [if_true]
    congr 1
    rw [← hsum, htake, hlen]; ring
  | false =>
    simp only [Bool.false_eq_true, if_false]
    congr 1
    rw [← hsum, htake, hlen]; ring

/-- The rows (and row groups) span from the first column's start to the last column's end:
`rows_width = Σ w + (n−1)·s` and they start one spacing inside the content box. -/
theorem rows_extent (ltr : Bool) (x W s : Rat) (cw : List Rat) :
    (colPositions ltr x W s cw).rowsLeftX = x + s ∧
    (colPositions ltr x W s cw).rowsWidth = sumR cw + s * ((cw.length : Rat) - 1) := by
  have hmap : sumR (cw.map (s + ·)) = sumR cw + (cw.length : Rat) * s := sumR_map_const_add cw s
  cases ltr with
  | true =>
    refine ⟨rfl, ?_⟩
    show (x + sumR (cw.map (s + ·))) - (x + s) = _
    rw [hmap]; ring
  | false =>
    refine ⟨rfl, ?_⟩
    show (x + W - s) - (x + W - sumR (cw.map (s + ·))) = _
    rw [hmap]; ring

private theorem sumR_take_drop (cw : List Rat) (g k : Nat) :
    sumR ((cw.drop g).take k) = sumR (cw.take (g + k)) - sumR (cw.take g) := by
  induction cw generalizing g with
  | nil => simp
  | cons w ws ih =>
    cases g with
    | zero => simp
    | succ g' =>
      have : g' + 1 + k = (g' + k) + 1 := by omega
      simp only [List.drop_succ_cons, this, List.take_succ_cons, sumR_cons, ih g']
      ring

/-- **cell_extent.** A cell placed by `table_layout` covers exactly the columns it spans: its border
box starts at the start of its first spanned column (ltr) / of its last spanned column (rtl, the
leftmost one), its width is `Σ spanned widths + (k−1)·s`, so that it ends exactly where the last
(ltr) / first (rtl) spanned column ends.  `k` is the colspan clipped to the grid. -/
theorem cell_extent (ltr : Bool) (x W s : Rat) (cw : List Rat) (g colspan : Nat) (c : CellGeom)
    (h : cellGeom ltr (colPositions ltr x W s cw).positions cw s g colspan = .ok (some c)) :
    c.colspan = min colspan (cw.length - g) ∧ 0 < c.colspan ∧
    c.borderWidth = sumR ((cw.drop g).take colspan) + s * ((c.colspan : Rat) - 1) ∧
    (colPositions ltr x W s cw).positions[if ltr then g else g + c.colspan - 1]? = some c.x ∧
    (∀ (hlast : g + c.colspan - 1 < cw.length) (hfirst : g < cw.length),
      c.x + c.borderWidth =
        (if ltr then x + ((g + c.colspan - 1 : Nat) + 1 : Rat) * s + sumR (cw.take (g + c.colspan - 1))
                     + cw[g + c.colspan - 1]
         else x + W - ((g : Rat) + 1) * s - sumR (cw.take g))) := by
  unfold cellGeom at h
  simp only at h
  split at h
  · cases h
  · rename_i hk
    split at h
    · cases h
    · rename_i px hpx
      injection h with h
      injection h with h
      subst h
      have hklen : ((cw.drop g).take colspan).length = min colspan (cw.length - g) := by simp
      have hkpos : 0 < ((cw.drop g).take colspan).length := Nat.pos_of_ne_zero hk
      refine ⟨hklen, hkpos, rfl, hpx, ?_⟩
      intro hlast hfirst
      simp only at hlast ⊢
      generalize hkdef : ((cw.drop g).take colspan).length = k at *
      have hkle : k ≤ colspan := by omega
      have hsp : sumR ((cw.drop g).take colspan) = sumR (cw.take (g + k)) - sumR (cw.take g) := by
        have h1 : (cw.drop g).take colspan = (cw.drop g).take k := by
          rw [hklen] at hkdef
          by_cases hc : colspan ≤ cw.length - g
          · have : k = colspan := by omega
            rw [this]
          · have : k = cw.length - g := by omega
            rw [this, List.take_of_length_le (by simp; omega), List.take_of_length_le (by simp)]
        rw [h1, sumR_take_drop]
      cases ltr with
      | true =>
        simp only [if_true] at hpx ⊢
        rw [(columns_partition true x W s cw).2 g hfirst] at hpx
        simp only [if_true] at hpx
        injection hpx with hpx
        rw [← hpx, hsp]
        have hgk : g + k = (g + k - 1) + 1 := by omega
        have := sumR_take_succ cw (g + k - 1) hlast
        rw [← hgk] at this
        rw [this]
        have hcast : ((g + k - 1 : Nat) : Rat) = (g : Rat) + (k : Rat) - 1 := by
          have : g + k - 1 + 1 = g + k := by omega
          have h2 : (((g + k - 1 : Nat) : Rat) + 1) = (g : Rat) + (k : Rat) := by exact_mod_cast this
          linarith
        rw [hcast]
        ring
      | false =>
        simp only [Bool.false_eq_true, if_false] at hpx ⊢
        rw [(columns_partition false x W s cw).2 (g + k - 1) hlast] at hpx
        simp only [Bool.false_eq_true, if_false] at hpx
        injection hpx with hpx
        rw [← hpx, hsp]
        have hgk : g + k = (g + k - 1) + 1 := by omega
        have := sumR_take_succ cw (g + k - 1) hlast
        rw [← hgk] at this
        rw [this]
        have hcast : ((g + k - 1 : Nat) : Rat) = (g : Rat) + (k : Rat) - 1 := by
          have : g + k - 1 + 1 = g + k := by omega
          have h2 : (((g + k - 1 : Nat) : Rat) + 1) = (g : Rat) + (k : Rat) := by exact_mod_cast this
          linarith
        rw [hcast]
        ring

example : cellGeom true (colPositions true 10 100 2 [30, 20, 44]).positions [30, 20, 44] 2 1 2
    = .ok (some ⟨44, 66, 2⟩) := by decide +kernel
example : cellGeom false (colPositions false 10 100 2 [30, 20, 44]).positions [30, 20, 44] 2 1 5
    = .ok (some ⟨10, 66, 2⟩) := by decide +kernel

/-! ## Collapsed borders (`collapse_table_borders`) -/

section Borders
open Wp.Borders

/-- The generated style list gives exactly the CSS 2.1 §17.6.2 order
`hidden > double > solid > dashed > dotted > ridge > outset > groove > inset > none`
(`BStyle.all` = none, hidden, dotted, dashed, solid, double, groove, ridge, inset, outset). -/
theorem styleRank_table : BStyle.all.map styleRank = [0, 9, 5, 6, 7, 8, 2, 4, 1, 3] := by decide

/-- Every style has a score (no `KeyError` in `style_scores[style]`). -/
theorem style_in_order (s : BStyle) : s ∈ Gen.BorderStyles.styleOrder := by
  cases s <;> simp [Gen.BorderStyles.styleOrder]

/-- The AST tables and the graph of the real function on 1×1 tables agree: hidden flag, rank and
stored style (`inset → ridge`, `outset → groove`) of each of the ten styles. -/
theorem score_graph_agrees : ∀ e ∈ Gen.BorderStyles.scoreGraph,
    (score ⟨e.1, 1, 1⟩).hidden = e.2.1 ∧ styleRank e.1 = e.2.2.1 ∧ mapStyle e.1 = e.2.2.2 := by
  decide

theorem mapStyle_table : BStyle.all.map mapStyle =
    [.none, .hidden, .dotted, .dashed, .solid, .double, .groove, .ridge, .ridge, .groove] := by decide

/-- The null borders are what CSS 2.1 needs: the weak one loses against everything that is not
`none 0`, the strong one (inside spanning cells) is `hidden`. -/
theorem null_borders : weakNull = ⟨⟨0, 0, 0⟩, ⟨.none, 0, 0⟩⟩ ∧ strongNull = ⟨⟨1, 0, 9⟩, ⟨.hidden, 0, 0⟩⟩ := by
  decide +kernel

/-- `Score.lt` is the lexicographic order on `(hidden, width, rank)`: hidden first, then the wider
border, then the style rank (CSS 2.1 §17.6.2 rules 1–3). -/
theorem score_lt_iff (a b : Score) :
    a.lt b = true ↔ a.hidden < b.hidden ∨ (a.hidden = b.hidden ∧
      (a.width < b.width ∨ (a.width = b.width ∧ a.rank < b.rank))) := by
  unfold Score.lt
  simp only [Bool.or_eq_true, Bool.and_eq_true, decide_eq_true_eq]

private theorem lt_irrefl' (a : Score) : a.lt a = false := by
  cases h : a.lt a with
  | false => rfl
  | true =>
    rw [score_lt_iff] at h
    rcases h with h | ⟨_, h | ⟨_, h⟩⟩
    · exact absurd h (Nat.lt_irrefl _)
    · exact absurd h (lt_irrefl _)
    · exact absurd h (Nat.lt_irrefl _)

private theorem lt_trans' (a b c : Score) (h1 : a.lt b = true) (h2 : b.lt c = true) : a.lt c = true := by
  rw [score_lt_iff] at *
  rcases h1 with h1 | ⟨e1, h1⟩
  · rcases h2 with h2 | ⟨e2, _⟩
    · left; omega
    · left; omega
  · rcases h2 with h2 | ⟨e2, h2⟩
    · left; omega
    · right
      refine ⟨by omega, ?_⟩
      rcases h1 with h1 | ⟨w1, h1⟩
      · rcases h2 with h2 | ⟨w2, _⟩
        · left; linarith
        · left; linarith
      · rcases h2 with h2 | ⟨w2, h2⟩
        · left; linarith
        · right; exact ⟨by linarith, by omega⟩

/-- not (a < b) and not (b < c) gives not (a < c): the order is total on scores. -/
private theorem not_lt_trans (a b c : Score) (h1 : a.lt b = false) (h2 : b.lt c = false) : a.lt c = false := by
  cases h : a.lt c with
  | false => rfl
  | true =>
    exfalso
    rw [score_lt_iff] at h
    have n1 : ¬ (a.lt b = true) := by simp [h1]
    have n2 : ¬ (b.lt c = true) := by simp [h2]
    rw [score_lt_iff] at n1 n2
    push Not at n1 n2
    rcases h with h | ⟨e, h | ⟨w, h⟩⟩
    · have := n1.1; have := n2.1; omega
    · have ha := n1.1; have hb := n2.1
      have e1 : a.hidden = b.hidden := by omega
      have e2 : b.hidden = c.hidden := by omega
      have w1 := (n1.2 e1).1; have w2 := (n2.2 e2).1
      linarith
    · have ha := n1.1; have hb := n2.1
      have e1 : a.hidden = b.hidden := by omega
      have e2 : b.hidden = c.hidden := by omega
      have w1 := (n1.2 e1).1; have w2 := (n2.2 e2).1
      have w3 : b.width = a.width := le_antisymm w1 (by linarith)
      have w4 : c.width = b.width := le_antisymm w2 (by linarith)
      have r1 := (n1.2 e1).2 w3.symm
      have r2 := (n2.2 e2).2 w4.symm
      omega

/-- The entry a border leaves on an edge when it wins. -/
def entryOf (b : Border) : Edge := ⟨score b, ⟨mapStyle b.style, b.width, b.color⟩⟩

private theorem foldl_offer_spec (offers : List Border) (init : Edge) :
    let r := offers.foldl offerEdge init
    (r = init ∧ ∀ b ∈ offers, init.score.lt (score b) = false) ∨
    (∃ pre b post, offers = pre ++ b :: post ∧ r = entryOf b ∧
      init.score.lt (score b) = true ∧
      (∀ p ∈ pre, (score p).lt (score b) = true) ∧
      (∀ q ∈ post, (score b).lt (score q) = false)) := by
  induction offers generalizing init with
  | nil => left; simp
  | cons o os ih =>
    simp only [List.foldl_cons]
    by_cases hlt : init.score.lt (score o) = true
    · have hstep : offerEdge init o = entryOf o := by simp [offerEdge, hlt, entryOf]
      rw [hstep]
      rcases ih (entryOf o) with ⟨hr, hall⟩ | ⟨pre, b, post, heq, hr, hb, hpre, hpost⟩
      · right
        refine ⟨[], o, os, rfl, hr, hlt, by simp, ?_⟩
        intro q hq
        exact hall q hq
      · right
        refine ⟨o :: pre, b, post, by simp [heq], hr, ?_, ?_, hpost⟩
        · exact lt_trans' _ _ _ hlt hb
        · intro p hp
          simp only [List.mem_cons] at hp
          rcases hp with rfl | hp
          · exact hb
          · exact hpre p hp
    · have hf : init.score.lt (score o) = false := by simpa using hlt
      have hstep : offerEdge init o = init := by simp [offerEdge, hf]
      rw [hstep]
      rcases ih init with ⟨hr, hall⟩ | ⟨pre, b, post, heq, hr, hb, hpre, hpost⟩
      · left
        refine ⟨hr, ?_⟩
        intro b hb
        simp only [List.mem_cons] at hb
        rcases hb with rfl | hb
        · exact hf
        · exact hall b hb
      · right
        refine ⟨o :: pre, b, post, by simp [heq], hr, hb, ?_, hpost⟩
        intro p hp
        simp only [List.mem_cons] at hp
        rcases hp with rfl | hp
        · -- o ≤ init < b
          cases h : (score p).lt (score b) with
          | true => rfl
          | false =>
            have := not_lt_trans _ _ _ hf h
            rw [this] at hb; cases hb
        · exact hpre p hp

/-- **border_winner.** The entry left on a grid edge by any sequence of `set_one_border` offers is
the maximum of the initial entry and all offers under `(hidden, width, style rank)`, it is the
*earliest* offer attaining that maximum (ties go to the earlier offer: cell before row before row
group before column before column group before table, see `offers_in_css_order`), and it beats the
initial entry strictly.  For every list of offers, any length. -/
theorem border_winner (offers : List Border) (init : Edge) :
    (∀ b ∈ offers, (offers.foldl offerEdge init).score.lt (score b) = false) ∧
    (offers.foldl offerEdge init).score.lt init.score = false ∧
    ((offers.foldl offerEdge init = init ∧ ∀ b ∈ offers, init.score.lt (score b) = false) ∨
     (∃ pre b post, offers = pre ++ b :: post ∧ offers.foldl offerEdge init = entryOf b ∧
        init.score.lt (score b) = true ∧
        (∀ p ∈ pre, (score p).lt (score b) = true) ∧ (∀ q ∈ post, (score b).lt (score q) = false))) := by
  have h := foldl_offer_spec offers init
  simp only at h
  refine ⟨?_, ?_, h⟩
  · rcases h with ⟨hr, hall⟩ | ⟨pre, b, post, heq, hr, hb, hpre, hpost⟩
    · intro b hb; rw [hr]; exact hall b hb
    · intro c hc
      rw [hr]
      show (score b).lt (score c) = false
      rw [heq] at hc
      simp only [List.mem_append, List.mem_cons] at hc
      rcases hc with hc | rfl | hc
      · cases h' : (score b).lt (score c) with
        | false => rfl
        | true =>
          have := lt_trans' _ _ _ (hpre c hc) h'
          rw [lt_irrefl'] at this; cases this
      · exact lt_irrefl' _
      · exact hpost c hc
  · rcases h with ⟨hr, _⟩ | ⟨pre, b, post, _, hr, hb, _, _⟩
    · rw [hr]; exact lt_irrefl' _
    · rw [hr]
      cases h' : (entryOf b).score.lt init.score with
      | false => rfl
      | true =>
        have := lt_trans' _ _ _ hb h'
        rw [lt_irrefl'] at this; cases this

/-- A `hidden` offer beats every non-hidden one whatever the widths (CSS 2.1 §17.6.2 rule 1), and the
strong null border forced inside a spanning cell can only be replaced by a `hidden` border. -/
theorem hidden_wins (b c : Border) (hb : b.style = .hidden) (hc : c.style ≠ .hidden) :
    (score c).lt (score b) = true := by
  rw [score_lt_iff]
  left
  simp [score, hb, hc]

example : [(⟨.solid, 2, 1⟩ : Border), ⟨.double, 2, 2⟩, ⟨.dashed, 3, 3⟩, ⟨.dotted, 3, 4⟩].foldl offerEdge weakNull
    = entryOf ⟨.dashed, 3, 3⟩ := by decide +kernel

private theorem setBorders_src (ltr : Bool) (src : Src) (s : Sides) (x y w h : Nat) :
    ∀ op ∈ setBorders ltr src s x y w h, op.src = src := by
  intro op hop
  unfold setBorders at hop
  split at hop <;>
  · simp only [List.mem_append, List.mem_flatMap, List.mem_cons, List.not_mem_nil, or_false] at hop
    rcases hop with ⟨_, _, rfl | rfl⟩ | ⟨_, _, rfl | rfl⟩ <;> rfl

private theorem cellOps_src (ltr : Bool) (c : BCell) (y : Nat) : ∀ op ∈ cellOps ltr c y, op.src = .cell := by
  intro op hop
  unfold cellOps at hop
  simp only [List.mem_append] at hop
  rcases hop with (hop | hop) | hop
  · simp only [List.mem_flatMap, List.mem_map] at hop
    obtain ⟨_, _, _, _, rfl⟩ := hop
    rfl
  · simp only [List.mem_flatMap, List.mem_map] at hop
    obtain ⟨_, _, _, _, rfl⟩ := hop
    rfl
  · exact setBorders_src _ _ _ _ _ _ _ op hop

private theorem pw_step (a b : List Op) (k k' : Nat) (s : Src) (hs : s.rank = k')
    (ha : a.Pairwise (fun x y => x.src.rank ≤ y.src.rank)) (hak : ∀ op ∈ a, op.src.rank ≤ k)
    (hb : ∀ op ∈ b, op.src = s) (hk : k ≤ k') :
    (a ++ b).Pairwise (fun x y => x.src.rank ≤ y.src.rank) ∧ ∀ op ∈ a ++ b, op.src.rank ≤ k' := by
  have hbp : b.Pairwise (fun x y => x.src.rank ≤ y.src.rank) := by
    clear ha hak
    induction b with
    | nil => exact List.Pairwise.nil
    | cons o os ih =>
      refine List.Pairwise.cons ?_ (ih (fun op hop => hb op (by simp [hop])))
      intro c hc
      rw [hb o (by simp), hb c (by simp [hc])]
  refine ⟨List.pairwise_append.mpr ⟨ha, hbp, ?_⟩, ?_⟩
  · intro x hx y hy
    rw [hb y hy, hs]
    exact Nat.le_trans (hak x hx) hk
  · intro op hop
    simp only [List.mem_append] at hop
    rcases hop with hop | hop
    · exact Nat.le_trans (hak op hop) hk
    · rw [hb op hop, hs]

/-- **offers_in_css_order.** The grid writes of `collapse_table_borders` are made in the order
cells, rows, row groups, columns, column groups, table (CSS 2.1 §17.6.2 rule 4): together with the
tie rule of `border_winner`, "a style set on a cell wins over one on a row, which wins over a row
group, column, column group and, lastly, table". -/
theorem offers_in_css_order (t : BTable) (gw gh : Nat) :
    (genOps t gw gh).Pairwise (fun a b => a.src.rank ≤ b.src.rank) := by
  have h1 : ∀ op ∈ (rowsWithY t.groups).flatMap (fun (y, r) => r.cells.flatMap (fun c => cellOps t.ltr c y)),
      op.src = .cell := by
    intro op hop
    simp only [List.mem_flatMap] at hop
    obtain ⟨_, _, c, _, hc⟩ := hop
    exact cellOps_src _ _ _ op hc
  have h2 : ∀ op ∈ (rowsWithY t.groups).flatMap (fun (y, r) => setBorders t.ltr .row r.sides 0 y gw 1),
      op.src = .row := by
    intro op hop
    simp only [List.mem_flatMap] at hop
    obtain ⟨_, _, hc⟩ := hop
    exact setBorders_src _ _ _ _ _ _ _ op hc
  have h3 : ∀ op ∈ (groupsWithY 0 t.groups).flatMap
      (fun (y, g) => setBorders t.ltr .rowGroup g.sides 0 y gw g.rows.length), op.src = .rowGroup := by
    intro op hop
    simp only [List.mem_flatMap] at hop
    obtain ⟨_, _, hc⟩ := hop
    exact setBorders_src _ _ _ _ _ _ _ op hc
  have h4 : ∀ op ∈ t.colGroups.flatMap (fun cg => cg.cols.flatMap
      (fun c => setBorders t.ltr .column c.sides c.gridX 0 1 gh)), op.src = .column := by
    intro op hop
    simp only [List.mem_flatMap] at hop
    obtain ⟨_, _, _, _, hc⟩ := hop
    exact setBorders_src _ _ _ _ _ _ _ op hc
  have h5 : ∀ op ∈ t.colGroups.flatMap
      (fun cg => setBorders t.ltr .columnGroup cg.sides cg.gridX 0 cg.span gh), op.src = .columnGroup := by
    intro op hop
    simp only [List.mem_flatMap] at hop
    obtain ⟨_, _, hc⟩ := hop
    exact setBorders_src _ _ _ _ _ _ _ op hc
  have h6 := setBorders_src t.ltr .table t.sides 0 0 gw gh
  unfold genOps
  have s1 := pw_step [] _ 0 0 .cell rfl List.Pairwise.nil (by simp) h1 (Nat.le_refl _)
  rw [List.nil_append] at s1
  have s2 := pw_step _ _ 0 1 .row rfl s1.1 s1.2 h2 (by omega)
  have s3 := pw_step _ _ 1 2 .rowGroup rfl s2.1 s2.2 h3 (by omega)
  have s4 := pw_step _ _ 2 3 .column rfl s3.1 s3.2 h4 (by omega)
  have s5 := pw_step _ _ 3 4 .columnGroup rfl s4.1 s4.2 h5 (by omega)
  exact (pw_step _ _ 4 5 .table rfl s5.1 s5.2 h6 (by omega)).1

private theorem bind_ok {α β} (x : Except PyErr α) (f : α → Except PyErr β) (r : β)
    (h : (x >>= f) = .ok r) : ∃ a, x = .ok a ∧ f a = .ok r := by
  cases x with
  | error e => cases h
  | ok a => exact ⟨a, rfl, h⟩

/-- What `cellUsed` stores, ltr: each used width is half the maximum winning width along that side. -/
theorem cellUsed_ltr (v h : Grid) (c : BCell) (y : Nat) (u : Used)
    (hu : cellUsed true v h c y = .ok u) :
    maxHorizontal h c.gridX y (some ((c.gridX : Int) + c.colspan)) = .ok (2 * u.top) ∧
    maxHorizontal h c.gridX (y + c.rowspan) (some ((c.gridX : Int) + c.colspan)) = .ok (2 * u.bottom) ∧
    maxVertical v c.gridX y (y + c.rowspan) = .ok (2 * u.left) ∧
    maxVertical v ((c.gridX : Int) + c.colspan) y (y + c.rowspan) = .ok (2 * u.right) := by
  unfold cellUsed at hu
  simp only [if_true] at hu
  obtain ⟨t, ht, hu⟩ := bind_ok _ _ _ hu
  obtain ⟨b, hb, hu⟩ := bind_ok _ _ _ hu
  obtain ⟨l, hl, hu⟩ := bind_ok _ _ _ hu
  obtain ⟨r, hr, hu⟩ := bind_ok _ _ _ hu
  injection hu with hu
  subst hu
  refine ⟨?_, ?_, ?_, ?_⟩
  · rw [ht]; congr 1; ring
  · rw [hb]; congr 1; ring
  · rw [hl]; congr 1; ring
  · rw [hr]; congr 1; ring

/-- The same in rtl, with the code's negative indices. -/
theorem cellUsed_rtl (v h : Grid) (c : BCell) (y : Nat) (u : Used)
    (hu : cellUsed false v h c y = .ok u) :
    maxVertical v (-1 - (c.colspan : Int) - c.gridX) y (y + c.rowspan) = .ok (2 * u.left) ∧
    maxVertical v (-1 - (c.gridX : Int)) y (y + c.rowspan) = .ok (2 * u.right) ∧
    (∃ stop, maxHorizontal h (-(c.colspan : Int) - c.gridX) y stop = .ok (2 * u.top) ∧
             maxHorizontal h (-(c.colspan : Int) - c.gridX) (y + c.rowspan) stop = .ok (2 * u.bottom)) := by
  unfold cellUsed at hu
  simp only [Bool.false_eq_true, if_false] at hu
  obtain ⟨t, ht, hu⟩ := bind_ok _ _ _ hu
  obtain ⟨b, hb, hu⟩ := bind_ok _ _ _ hu
  obtain ⟨l, hl, hu⟩ := bind_ok _ _ _ hu
  obtain ⟨r, hr, hu⟩ := bind_ok _ _ _ hu
  injection hu with hu
  subst hu
  refine ⟨?_, ?_, (if -(c.gridX : Int) = 0 then none else some (-(c.gridX : Int))), ?_, ?_⟩
  · rw [hl]; congr 1; ring
  · rw [hr]; congr 1; ring
  · rw [ht]; congr 1; ring
  · rw [hb]; congr 1; ring

/-- **border_halves.** Two horizontally adjacent cells (B starts in the column after A's last one,
same rows) share the edge between them: the used border width of A on that side plus the one of B
is exactly the maximum winning width along the shared edge (each stores half of it). ltr and rtl. -/
theorem border_halves (ltr : Bool) (v h : Grid) (A B : BCell) (y : Nat) (uA uB : Used)
    (hA : cellUsed ltr v h A y = .ok uA) (hB : cellUsed ltr v h B y = .ok uB)
    (hadj : B.gridX = A.gridX + A.colspan) (hrs : A.rowspan = B.rowspan) :
    ∃ m, maxVertical v (if ltr then (B.gridX : Int) else -1 - (B.gridX : Int)) y (y + A.rowspan) = .ok m ∧
      (if ltr then uA.right + uB.left else uA.left + uB.right) = m := by
  cases ltr with
  | true =>
    obtain ⟨_, _, _, hAr⟩ := cellUsed_ltr v h A y uA hA
    obtain ⟨_, _, hBl, _⟩ := cellUsed_ltr v h B y uB hB
    have hx : (B.gridX : Int) = (A.gridX : Int) + A.colspan := by exact_mod_cast hadj
    rw [← hx] at hAr
    rw [← hrs] at hBl
    rw [hAr] at hBl
    injection hBl with hBl
    refine ⟨2 * uA.right, by simpa using hAr, ?_⟩
    simp only [if_true]
    linarith
  | false =>
    obtain ⟨hAl, _, _⟩ := cellUsed_rtl v h A y uA hA
    obtain ⟨_, hBr, _⟩ := cellUsed_rtl v h B y uB hB
    have hx : (-1 - (A.colspan : Int) - A.gridX) = -1 - (B.gridX : Int) := by
      have : (B.gridX : Int) = (A.gridX : Int) + A.colspan := by exact_mod_cast hadj
      rw [this]; ring
    rw [hx] at hAl
    rw [← hrs] at hBr
    rw [hAl] at hBr
    injection hBr with hBr
    refine ⟨2 * uA.left, by simpa using hAl, ?_⟩
    simp only [Bool.false_eq_true, if_false]
    linarith

/-- **border_halves (vertical neighbours, ltr).** A above B (same columns, B starts in the row after
A's last one): `A.bottom + B.top` is the maximum winning width along the shared edge. -/
theorem border_halves_vertical (v h : Grid) (A B : BCell) (y : Nat) (uA uB : Used)
    (hA : cellUsed true v h A y = .ok uA) (hB : cellUsed true v h B (y + A.rowspan) = .ok uB)
    (hx : B.gridX = A.gridX) (hcs : B.colspan = A.colspan) :
    ∃ m, maxHorizontal h A.gridX (y + A.rowspan) (some ((A.gridX : Int) + A.colspan)) = .ok m ∧
      uA.bottom + uB.top = m := by
  obtain ⟨_, hAb, _, _⟩ := cellUsed_ltr v h A y uA hA
  obtain ⟨hBt, _, _, _⟩ := cellUsed_ltr v h B (y + A.rowspan) uB hB
  rw [hx, hcs, hAb] at hBt
  injection hBt with hBt
  exact ⟨2 * uA.bottom, hAb, by linarith⟩

/-! ### From single edges to the whole grids -/

/-- The entry of a border grid at row `y`, (resolved) column `xi`. -/
def edgeAt (g : Grid) (y xi : Nat) : Option Edge := (g[y]?).bind (·[xi]?)

/-- All rows have `w` entries. -/
def Rect (g : Grid) (w : Nat) : Prop := ∀ row ∈ g, row.length = w

theorem applyTo_spec (g g' : Grid) (w : Nat) (x : Int) (y : Nat) (b : Option Border)
    (hr : Rect g w) (h : applyTo g x y b = .ok g') :
    Rect g' w ∧ ∃ xi, pyIndex w x = some xi ∧
      ∀ y' xi', edgeAt g' y' xi' =
        if y' = y ∧ xi' = xi then (edgeAt g y' xi').map (applyEdge · b) else edgeAt g y' xi' := by
  unfold applyTo at h
  split at h
  · cases h
  · rename_i row hrow
    have hmem : row ∈ g := List.mem_of_getElem? hrow
    have hlen : row.length = w := hr row hmem
    rw [hlen] at h
    split at h
    · cases h
    · rename_i xi hxi
      split at h
      · cases h
      · rename_i prev hprev
        injection h with h
        subst h
        refine ⟨?_, xi, hxi, ?_⟩
        · intro r hrmem
          rcases List.mem_or_eq_of_mem_set hrmem with h1 | h1
          · exact hr r h1
          · rw [h1, List.length_set]; exact hlen
        · intro y' xi'
          unfold edgeAt
          rw [List.getElem?_set]
          by_cases hy : y = y'
          · subst hy
            have hylt : y < g.length := by
              rcases Nat.lt_or_ge y g.length with h1 | h1
              · exact h1
              · rw [List.getElem?_eq_none h1] at hrow; cases hrow
            simp only [hylt, if_true, true_and, hrow, Option.bind_some]
            rw [List.getElem?_set]
            by_cases hx : xi = xi'
            · subst hx
              have hxlt : xi < row.length := by
                rcases Nat.lt_or_ge xi row.length with h1 | h1
                · exact h1
                · rw [List.getElem?_eq_none h1] at hprev; cases hprev
              have hget : row[xi] = prev := by
                have := List.getElem?_eq_getElem hxlt
                rw [hprev] at this
                injection this with this
                exact this.symm
              simp [hxlt, hget]
            · have hx' : ¬ xi' = xi := fun e => hx e.symm
              simp [hx, hx']
          · have hy' : ¬ y' = y := fun e => hy e.symm
            simp [hy, hy']

/-- `op` writes to entry `(y, xi)` of grid `which` (rows of `w` entries). -/
def targets (w : Nat) (which : Which) (y xi : Nat) (op : Op) : Bool :=
  decide (op.which = which) && decide (op.y = y) && decide (pyIndex w op.x = some xi)

def foldEdge (e : Edge) (ops : List Op) : Edge := ops.foldl (fun e op => applyEdge e op.border) e

theorem runOps_spec (wV wH : Nat) (ops : List Op) (st st' : Grid × Grid)
    (hV : Rect st.1 wV) (hH : Rect st.2 wH) (h : runOps st ops = .ok st') :
    (∀ y xi, edgeAt st'.1 y xi =
        (edgeAt st.1 y xi).map (fun e => foldEdge e (ops.filter (targets wV .V y xi)))) ∧
    (∀ y xi, edgeAt st'.2 y xi =
        (edgeAt st.2 y xi).map (fun e => foldEdge e (ops.filter (targets wH .H y xi)))) := by
  induction ops generalizing st with
  | nil =>
    unfold runOps at h
    injection h with h; subst h
    constructor <;> intro y xi <;> simp [foldEdge]
  | cons op ops ih =>
    unfold runOps at h
    split at h
    · cases h
    · rename_i st1 hstep
      unfold applyOp at hstep
      cases hw : op.which with
      | V =>
        rw [hw] at hstep
        simp only at hstep
        cases hap : applyTo st.1 op.x op.y op.border with
        | error e => rw [hap] at hstep; cases hstep
        | ok v =>
          rw [hap] at hstep
          injection hstep with hstep
          subst hstep
          obtain ⟨hV1, xi0, hxi0, hedge⟩ := applyTo_spec st.1 v wV op.x op.y op.border hV hap
          obtain ⟨ihV, ihH⟩ := ih (v, st.2) hV1 hH h
          constructor
          · intro y xi
            rw [ihV y xi, hedge y xi]
            simp only [List.filter_cons]
            by_cases ht : targets wV .V y xi op = true
            · have : y = op.y ∧ xi = xi0 := by
                unfold targets at ht
                simp only [Bool.and_eq_true, decide_eq_true_eq] at ht
                refine ⟨ht.1.2.symm, ?_⟩
                have := ht.2
                rw [hxi0] at this
                injection this with this
                exact this.symm
              obtain ⟨hy, hx⟩ := this
              subst hy; subst hx
              simp only [ht, if_true, and_self]
              cases edgeAt st.1 op.y xi <;> simp [foldEdge]
            · have hne : ¬ (y = op.y ∧ xi = xi0) := by
                intro hc
                apply ht
                unfold targets
                simp [hw, hc.1, hc.2, hxi0]
              simp only [ht, hne, if_false]
              rfl
          · intro y xi
            rw [ihH y xi]
            have : targets wH .H y xi op = false := by
              unfold targets; simp [hw]
            simp [List.filter_cons, this]
      | H =>
        rw [hw] at hstep
        simp only at hstep
        cases hap : applyTo st.2 op.x op.y op.border with
        | error e => rw [hap] at hstep; cases hstep
        | ok v =>
          rw [hap] at hstep
          injection hstep with hstep
          subst hstep
          obtain ⟨hH1, xi0, hxi0, hedge⟩ := applyTo_spec st.2 v wH op.x op.y op.border hH hap
          obtain ⟨ihV, ihH⟩ := ih (st.1, v) hV hH1 h
          constructor
          · intro y xi
            rw [ihV y xi]
            have : targets wV .V y xi op = false := by
              unfold targets; simp [hw]
            simp [List.filter_cons, this]
          · intro y xi
            rw [ihH y xi, hedge y xi]
            simp only [List.filter_cons]
            by_cases ht : targets wH .H y xi op = true
            · have : y = op.y ∧ xi = xi0 := by
                unfold targets at ht
                simp only [Bool.and_eq_true, decide_eq_true_eq] at ht
                refine ⟨ht.1.2.symm, ?_⟩
                have := ht.2
                rw [hxi0] at this
                injection this with this
                exact this.symm
              obtain ⟨hy, hx⟩ := this
              subst hy; subst hx
              simp only [ht, if_true, and_self]
              cases edgeAt st.2 op.y xi <;> simp [foldEdge]
            · have hne : ¬ (y = op.y ∧ xi = xi0) := by
                intro hc
                apply ht
                unfold targets
                simp [hw, hc.1, hc.2, hxi0]
              simp only [ht, hne, if_false]
              rfl

private theorem rect_replicate (n w : Nat) (e : Edge) : Rect (List.replicate n (List.replicate w e)) w := by
  intro row hrow
  rw [List.mem_replicate] at hrow
  rw [hrow.2, List.length_replicate]

private theorem edgeAt_replicate (n w : Nat) (e : Edge) (y xi : Nat) (hy : y < n) (hx : xi < w) :
    edgeAt (List.replicate n (List.replicate w e)) y xi = some e := by
  unfold edgeAt
  simp [hy, hx]

/-- **collapse_edge.** Every entry of the two grids returned by `collapse_table_borders` is the fold,
from the weak null border, of exactly the grid writes of the function that target that entry, in
execution order (Python's negative rtl indices resolved by `pyIndex`). -/
theorem collapse_edge (t : BTable) (gw gh : Nat) (o : Out) (h : collapse t gw gh = .ok o)
    (hw : gw ≠ 0) (hh : gh ≠ 0) :
    (∀ y xi, y < gh → xi < gw + 1 → edgeAt o.vertical y xi =
        some (foldEdge weakNull ((genOps t gw gh).filter (targets (gw + 1) .V y xi)))) ∧
    (∀ y xi, y < gh + 1 → xi < gw → edgeAt o.horizontal y xi =
        some (foldEdge weakNull ((genOps t gw gh).filter (targets gw .H y xi)))) := by
  unfold collapse at h
  have hne : ¬ (gw = 0 ∨ gh = 0) := by omega
  simp only [hne, if_false] at h
  split at h
  · cases h
  · rename_i v hgrid hrun
    split at h
    · cases h
    · split at h
      · cases h
      · injection h with h
        subst h
        have hV : Rect (initGrids gw gh).1 (gw + 1) := rect_replicate _ _ _
        have hH : Rect (initGrids gw gh).2 gw := rect_replicate _ _ _
        obtain ⟨sV, sH⟩ := runOps_spec (gw + 1) gw _ _ _ hV hH hrun
        constructor
        · intro y xi hy hx
          rw [sV y xi]
          unfold initGrids
          simp only
          rw [edgeAt_replicate gh (gw + 1) weakNull y xi hy hx]
          rfl
        · intro y xi hy hx
          rw [sH y xi]
          unfold initGrids
          simp only
          rw [edgeAt_replicate (gh + 1) gw weakNull y xi hy hx]
          rfl

private theorem foldl_applyEdge_some (bs : List Border) (e : Edge) :
    (bs.map some).foldl applyEdge e = bs.foldl offerEdge e := by
  induction bs generalizing e with
  | nil => rfl
  | cons b bs ih => simp only [List.map_cons, List.foldl_cons, applyEdge, ih]

private theorem foldl_applyEdge_force (pre : List (Option Border)) (bs : List Border) (e : Edge) :
    (pre ++ none :: bs.map some).foldl applyEdge e = bs.foldl offerEdge strongNull := by
  rw [List.foldl_append, List.foldl_cons]
  simp only [applyEdge]
  exact foldl_applyEdge_some bs strongNull

private theorem split_last_none (l : List (Option Border)) :
    (∃ bs : List Border, l = bs.map some) ∨
    (∃ (pre : List (Option Border)) (bs : List Border), l = pre ++ none :: bs.map some) := by
  induction l with
  | nil => left; exact ⟨[], rfl⟩
  | cons a rest ih =>
    rcases ih with ⟨bs, hbs⟩ | ⟨pre, bs, hbs⟩
    · cases a with
      | none => right; exact ⟨[], bs, by rw [hbs]; rfl⟩
      | some b => left; exact ⟨b :: bs, by rw [hbs]; rfl⟩
    · right; exact ⟨a :: pre, bs, by rw [hbs]; rfl⟩

private theorem foldEdge_eq (e : Edge) (ops : List Op) :
    foldEdge e ops = (ops.map (·.border)).foldl applyEdge e := by
  unfold foldEdge
  rw [List.foldl_map]

/-- **border_winner (grid level).** Every entry of the grids returned by `collapse_table_borders` is
`offers.foldl offerEdge init`, where `offers` are the borders offered to that edge after the last
time it was forced to the strong null border (inside a spanning cell), in the CSS 2.1 §17.6.2 order
(`offers_in_css_order`), and `init` is the weak null border (never forced) or the strong one — so
`border_winner` characterises it as the first maximum under `(hidden, width, style rank)`. -/
theorem border_winner_grid (t : BTable) (gw gh : Nat) (o : Out) (h : collapse t gw gh = .ok o)
    (hw : gw ≠ 0) (hh : gh ≠ 0) :
    (∀ y xi, y < gh → xi < gw + 1 → ∃ (init : Edge) (offers : List Border),
        (init = weakNull ∨ init = strongNull) ∧
        (∀ b ∈ offers, ∃ op ∈ genOps t gw gh, op.border = some b ∧ targets (gw + 1) .V y xi op = true) ∧
        edgeAt o.vertical y xi = some (offers.foldl offerEdge init)) ∧
    (∀ y xi, y < gh + 1 → xi < gw → ∃ (init : Edge) (offers : List Border),
        (init = weakNull ∨ init = strongNull) ∧
        (∀ b ∈ offers, ∃ op ∈ genOps t gw gh, op.border = some b ∧ targets gw .H y xi op = true) ∧
        edgeAt o.horizontal y xi = some (offers.foldl offerEdge init)) := by
  obtain ⟨hV, hH⟩ := collapse_edge t gw gh o h hw hh
  have key : ∀ (ops : List Op), ∃ (init : Edge) (offers : List Border),
      (init = weakNull ∨ init = strongNull) ∧
      (∀ b ∈ offers, ∃ op ∈ ops, op.border = some b) ∧
      foldEdge weakNull ops = offers.foldl offerEdge init := by
    intro ops
    rw [foldEdge_eq]
    rcases split_last_none (ops.map (·.border)) with ⟨bs, hbs⟩ | ⟨pre, bs, hbs⟩
    · refine ⟨weakNull, bs, Or.inl rfl, ?_, by rw [hbs, foldl_applyEdge_some]⟩
      intro b hb
      have : some b ∈ ops.map (·.border) := by rw [hbs]; exact List.mem_map_of_mem hb
      rw [List.mem_map] at this
      obtain ⟨op, hop, hbo⟩ := this
      exact ⟨op, hop, hbo⟩
    · refine ⟨strongNull, bs, Or.inr rfl, ?_, by rw [hbs, foldl_applyEdge_force]⟩
      intro b hb
      have : some b ∈ ops.map (·.border) := by
        rw [hbs]
        simp only [List.mem_append, List.mem_cons, List.mem_map]
        right; right; exact ⟨b, hb, rfl⟩
      rw [List.mem_map] at this
      obtain ⟨op, hop, hbo⟩ := this
      exact ⟨op, hop, hbo⟩
  constructor
  · intro y xi hy hx
    obtain ⟨init, offers, hi, hmem, hfold⟩ := key ((genOps t gw gh).filter (targets (gw + 1) .V y xi))
    refine ⟨init, offers, hi, ?_, by rw [hV y xi hy hx, hfold]⟩
    intro b hb
    obtain ⟨op, hop, hbo⟩ := hmem b hb
    rw [List.mem_filter] at hop
    exact ⟨op, hop.1, hbo, hop.2⟩
  · intro y xi hy hx
    obtain ⟨init, offers, hi, hmem, hfold⟩ := key ((genOps t gw gh).filter (targets gw .H y xi))
    refine ⟨init, offers, hi, ?_, by rw [hH y xi hy hx, hfold]⟩
    intro b hb
    obtain ⟨op, hop, hbo⟩ := hmem b hb
    rw [List.mem_filter] at hop
    exact ⟨op, hop.1, hbo, hop.2⟩

/-- A 2×1 table: left cell `solid 4px` all round, right cell `double 2px`, table `dashed 4px`:
the shared edge takes the wider `solid 4`, the outer edges tie at width 4 and go to `solid` (rank 7)
on the left cell's sides and to the table's `dashed 4` (wider than `double 2`) on the right cell's;
each cell stores the halves. -/
private def exSides (s : BStyle) (w : Rat) (c : Nat) : Sides := ⟨⟨s, w, c⟩, ⟨s, w, c⟩, ⟨s, w, c⟩, ⟨s, w, c⟩⟩
private def exTable : BTable :=
  ⟨true, exSides .dashed 4 3,
   [⟨exSides .none 0 0, [⟨exSides .none 0 0, [⟨0, 1, 1, exSides .solid 4 1⟩, ⟨1, 1, 1, exSides .double 2 2⟩]⟩]⟩], []⟩

example : (collapse exTable 2 1).map (·.cells) = .ok [⟨2, 2, 2, 2⟩, ⟨2, 2, 2, 2⟩] := by decide +kernel
example : (collapse exTable 2 1).map (fun o => o.vertical.map (·.map (·.border.style))) =
    .ok [[.solid, .solid, .dashed]] := by decide +kernel

end Borders

/-! ## Rows: vertical stacking, and soundness of the pagination checker -/

section Rows
open Wp.TableRows

/-- Rows follow each other one spacing apart: row `i` starts at `y + Σ_{j<i} (h_j + sp)`. -/
theorem stackY_spec (sp y : Rat) (hs : List Rat) (i : Nat) (hi : i < hs.length) :
    (stackY sp y hs)[i]? = some (y + sumR ((hs.take i).map (· + sp))) := by
  induction hs generalizing y i with
  | nil => simp at hi
  | cons h hs ih =>
    cases i with
    | zero => simp [stackY]
    | succ j =>
      simp only [List.length_cons, Nat.add_lt_add_iff_right] at hi
      simp only [stackY, List.getElem?_cons_succ, ih (y + h + sp) j hi, List.take_succ_cons, List.map_cons,
        sumR_cons]
      congr 1
      ring

/-- **row_share.** A cell placed by the model starts at its row's top; a cell that does not span rows
is exactly as high as its row, and a row-spanning cell ends at the bottom of the last row it spans. -/
theorem cell_row_share (groups : List (List Rat)) (geom : List GroupGeom) (g r rowspan : Nat)
    (cy ch : Rat) (h : cellV groups geom g r rowspan = .ok (cy, ch)) :
    ∃ hs gg, groups[g]? = some hs ∧ geom[g]? = some gg ∧ gg.rowYs[r]? = some cy ∧
      (∃ yl hl, gg.rowYs[r + rowspan - 1]? = some yl ∧ hs[r + rowspan - 1]? = some hl ∧ cy + ch = yl + hl) ∧
      (rowspan = 1 → hs[r]? = some ch) := by
  unfold cellV at h
  split at h
  · rename_i hs gg hg1 hg2
    simp only at h
    split at h
    · rename_i y yl hl h1 h2 h3
      injection h with h
      injection h with hy hh
      subst hy; subst hh
      refine ⟨hs, gg, hg1, hg2, h1, ⟨yl, hl, h2, h3, by ring⟩, ?_⟩
      intro h1s
      subst h1s
      simp only [Nat.add_sub_cancel] at h2 h3
      rw [h1] at h2
      injection h2 with h2
      rw [h3, h2]
      congr 1
      ring
    · cases h
  · cases h

private theorem mem_dedupAdj (l : List Nat) (x : Nat) : x ∈ dedupAdj l ↔ x ∈ l := by
  induction l with
  | nil => simp [dedupAdj]
  | cons a rest ih =>
    cases rest with
    | nil => simp [dedupAdj]
    | cons b rest' =>
      unfold dedupAdj
      simp only
      split
      · rename_i hab
        subst hab
        rw [ih]
        simp
      · rw [List.mem_cons, ih]
        simp

private theorem checkFragments_parts (n : Nat) (declH declF lo : Bool) (frags : List Frag)
    (h : checkFragments n declH declF lo frags = true) :
    lo = true ∧ dedupAdj (frags.flatMap (·.rows)) = List.range n ∧
    ∀ f ∈ frags, fragOk n declH declF f = true := by
  unfold checkFragments at h
  simp only [Bool.and_eq_true, decide_eq_true_eq, List.all_eq_true] at h
  exact ⟨h.1.1, h.1.2, h.2⟩

/-- **rows_once** (soundness of the checker, rows).  If the checker accepts the fragments of a table
with `n` body rows, then every body row `0 … n-1` is on some fragment, no other row is, and — reading
the fragments in order and merging a row cut by a page break with its continuation — the rows are
exactly `0, 1, …, n-1` in order; moreover every row's first-cell content was found exactly once. -/
theorem rows_once (n : Nat) (declH declF lo : Bool) (frags : List Frag)
    (h : checkFragments n declH declF lo frags = true) :
    (∀ i, i < n → ∃ f ∈ frags, i ∈ f.rows) ∧ (∀ f ∈ frags, ∀ i ∈ f.rows, i < n) ∧
    dedupAdj (frags.flatMap (·.rows)) = List.range n ∧ lo = true := by
  obtain ⟨hlo, hrows, _⟩ := checkFragments_parts n declH declF lo frags h
  refine ⟨?_, ?_, hrows, hlo⟩
  · intro i hi
    have : i ∈ dedupAdj (frags.flatMap (·.rows)) := by rw [hrows]; simpa using hi
    rw [mem_dedupAdj, List.mem_flatMap] at this
    exact this
  · intro f hf i hif
    have : i ∈ dedupAdj (frags.flatMap (·.rows)) := by
      rw [mem_dedupAdj, List.mem_flatMap]; exact ⟨f, hf, hif⟩
    rw [hrows] at this
    simpa using this

/-- **header_footer_repeat** (soundness of the checker, header/footer).  On every accepted fragment
that holds a body row: if header, first row and footer fit together above the page bottom
(`y0 + header + row + footer ≤ limit`), the declared header and footer groups are both present; a
header or footer is never the only content of a fragment unless the table has no body row; no
fragment shows a group the table does not have; and a fragment with more than one body row ends above
the page bottom (up to the code's 1e-9 tolerance). -/
theorem header_footer_repeat (n : Nat) (declH declF lo : Bool) (frags : List Frag)
    (h : checkFragments n declH declF lo frags = true) (f : Frag) (hf : f ∈ frags) :
    (f.rows ≠ [] → f.y0 + f.headerH + f.firstH + f.footerH ≤ f.limit →
       (declH = true → f.hasHeader = true) ∧ (declF = true → f.hasFooter = true)) ∧
    ((f.hasHeader = true ∨ f.hasFooter = true) → f.rows ≠ [] ∨ n = 0) ∧
    (f.hasHeader = true → declH = true) ∧ (f.hasFooter = true → declF = true) ∧
    (1 < f.rows.length → f.endY ≤ f.pageBottom * (1 + 1 / 1000000000)) := by
  obtain ⟨_, _, hall⟩ := checkFragments_parts n declH declF lo frags h
  have hok := hall f hf
  unfold fragOk Frag.fits at hok
  simp only [Bool.and_eq_true, Bool.or_eq_true, Bool.not_eq_true', decide_eq_true_eq,
    beq_iff_eq, decide_eq_false_iff_not] at hok
  obtain ⟨⟨⟨⟨h1, h2⟩, h3⟩, h4⟩, h5⟩ := hok
  have hemp : ∀ {l : List Nat}, l.isEmpty = false → l ≠ [] := by
    intro l hl hnil; rw [hnil] at hl; cases hl
  have hemp' : ∀ {l : List Nat}, l.isEmpty = true → l = [] := by
    intro l hl; exact List.isEmpty_iff.mp hl
  refine ⟨?_, ?_, ?_, ?_, ?_⟩
  rotate_left 4
  · intro hlen
    rcases h5 with h5 | h5
    · omega
    · exact h5
  · intro hne hfit
    rcases h4 with (h4 | h4) | h4
    · exact absurd (hemp' h4) hne
    · exact absurd hfit h4
    · constructor
      · intro hd
        rcases h4.1 with h5 | h5
        · rw [hd] at h5; cases h5
        · exact h5
      · intro hd
        rcases h4.2 with h5 | h5
        · rw [hd] at h5; cases h5
        · exact h5
  · intro hh
    rcases h1 with (h1 | h1) | h1
    · rcases hh with hh | hh
      · rw [h1.1] at hh; cases hh
      · rw [h1.2] at hh; cases hh
    · left; exact hemp h1
    · right; exact h1
  · intro hh
    rcases h2 with h2 | h2
    · exact h2
    · rw [h2] at hh; cases hh
  · intro hh
    rcases h3 with h3 | h3
    · exact h3
    · rw [h3] at hh; cases hh

example : checkFragments 5 true true true
    [⟨true, true, [0, 1, 2], 0, 12, 12, 12, 60, 60, 60⟩, ⟨true, false, [2, 3], 0, 12, 12, 30, 40, 40, 40⟩,
     ⟨true, true, [4], 0, 12, 12, 12, 60, 36, 60⟩] = true := by decide +kernel

end Rows

end Wp.C10
