/-
C07 (part 6) — the descriptor funnel (`preprocess_descriptors`: @font-face, @counter-style) and `font-variant`.
-/
import WpModel.Model.DescriptorsC07
import WpModel.Lemmas.C07Generic

namespace Wp.C07
open Wp Wp.Decl

/-! ## 23. Descriptors: invalid ones vanish, the rest of the block is as if they were absent -/

theorem descriptor_not_print_media_agrees :
    Gen.DescriptorsC07.notPrintMediaAst = Gen.DescriptorsC07.notPrintMedia := rfl

section Descriptors
variable {β : Type} (rule : String) (v : String → Desc → R (Option β))

/-- Every way in which a descriptor is dropped: not a declaration, `!important`, no value at all, not print
media, unknown for this at-rule, refused by its validator (`None` or `InvalidValues`). -/
theorem descriptor_dropped (d : Desc)
    (h : d.kind ≠ .declaration ∨ d.important = true ∨ d.noTokens = true ∨
      Gen.DescriptorsC07.notPrintMedia.contains d.name = true ∨
      (knownDescriptors rule).contains d.name = false ∨ v d.name d = .ok none ∨ v d.name d = .error .invalid) :
    preprocessDescriptorOne rule v d = .ok [] := by
  unfold preprocessDescriptorOne
  by_cases h1 : (decide (d.kind ≠ .declaration) || d.important) = true
  · simp only [h1, if_true]; rfl
  · simp only [h1, Bool.false_eq_true, if_false]
    by_cases h0 : d.noTokens = true
    · simp only [h0, if_true]; rfl
    · simp only [h0, Bool.false_eq_true, if_false]
      by_cases h2 : Gen.DescriptorsC07.notPrintMedia.contains d.name = true
      · simp only [h2, if_true]; rfl
      · simp only [h2, Bool.false_eq_true, if_false]
        by_cases h3 : (knownDescriptors rule).contains d.name = true
        · simp only [h3, Bool.not_true, Bool.false_eq_true, if_false]
          rcases h with h | h | h | h | h | h | h
          · exact absurd (by simp [h]) h1
          · exact absurd (by simp [h]) h1
          · exact absurd h h0
          · exact absurd h h2
          · rw [h3] at h; cases h
          · rw [h]; rfl
          · rw [h]; rfl
        · have h3' : (knownDescriptors rule).contains d.name = false := by simpa using h3
          simp only [h3', Bool.not_false, if_true]; rfl

/-- **A descriptor without a value never reaches its validator** (`fix:` d71ddd0; regression of
`counter-style-system-empty-indexerror`): whatever the validator would do on the empty token list — `tokens[0]`
raised `IndexError` in `system` — the descriptor is dropped like an empty declaration. -/
theorem descriptor_empty_dropped (d : Desc) (h : d.noTokens = true) :
    preprocessDescriptorOne rule v d = .ok [] :=
  descriptor_dropped rule v d (Or.inr (Or.inr (Or.inl h)))

theorem descriptors_append (a b : List Desc) :
    preprocessDescriptors rule v (a ++ b) = (do
      let x ← preprocessDescriptors rule v a
      let y ← preprocessDescriptors rule v b
      pure (x ++ y)) := by
  induction a with
  | nil =>
    simp only [List.nil_append, preprocessDescriptors]
    cases preprocessDescriptors rule v b <;> rfl
  | cons d rest ih =>
    simp only [List.cons_append, preprocessDescriptors, ih]
    cases preprocessDescriptorOne rule v d with
    | error f => rfl
    | ok x =>
      cases preprocessDescriptors rule v rest with
      | error f => rfl
      | ok y =>
        cases preprocessDescriptors rule v b with
        | error f => rfl
        | ok z => simp [bind, Except.bind, pure, Except.pure, List.append_assoc]

/-- **A dropped descriptor anywhere in an @font-face / @counter-style block is as if absent.** -/
theorem descriptor_invalid_vanish (a b : List Desc) (d : Desc) (h : preprocessDescriptorOne rule v d = .ok []) :
    preprocessDescriptors rule v (a ++ d :: b) = preprocessDescriptors rule v (a ++ b) := by
  rw [descriptors_append, descriptors_append]
  simp only [preprocessDescriptors, h]
  cases preprocessDescriptors rule v a with
  | error f => rfl
  | ok x => cases preprocessDescriptors rule v b <;> rfl

/-- The funnel itself never fails: what leaves it is an exception of a descriptor validator other than
`InvalidValues` (runtime assumption; the two descriptor crashes that violated it were repaired by be7a07b and
d71ddd0), and it comes from a descriptor that has a value. -/
theorem descriptors_only_propagate (ds : List Desc) (f : Fail) (h : preprocessDescriptors rule v ds = .error f) :
    ∃ d ∈ ds, v d.name d = .error f ∧ f ≠ .invalid ∧ d.noTokens = false := by
  induction ds with
  | nil => cases h
  | cons d rest ih =>
    simp only [preprocessDescriptors] at h
    cases hp : preprocessDescriptorOne rule v d with
    | ok l =>
      rw [hp] at h
      cases hr : preprocessDescriptors rule v rest with
      | ok r => rw [hr] at h; cases h
      | error g =>
        rw [hr] at h
        have : g = f := by cases h; rfl
        subst this
        obtain ⟨x, hx, rest'⟩ := ih hr
        exact ⟨x, by simp [hx], rest'⟩
    | error g =>
      rw [hp] at h
      have : g = f := by cases h; rfl
      subst this
      refine ⟨d, by simp, ?_⟩
      unfold preprocessDescriptorOne at hp
      split at hp
      · cases hp
      · split at hp
        · cases hp
        · rename_i hnt
          split at hp
          · cases hp
          · split at hp
            · cases hp
            · split at hp
              · cases hp
              · cases hp
              · cases hp
              · rename_i f' hne hv
                have : f' = g := by cases hp; rfl
                subst this
                exact ⟨hv, hne, by simpa using hnt⟩

end Descriptors

/-- Non-vacuity: `font-family: x; SRC: url(a); src: url(b) !important; font-display: swap; src: url(c)`. -/
example :
    let v : String → Desc → R (Option String) := fun name d => .ok (some (name ++ toString d.id))
    let d (n : String) (imp : Bool) (i : Nat) : Desc := { kind := .declaration, name := n, important := imp, id := i }
    preprocessDescriptors "font-face" v
      [d "font-family" false 0, d "SRC" false 1, d "src" true 2, d "font-display" false 3, d "src" false 4]
      = .ok [("font_family", "font-family0"), ("src", "src4")] := by decide

/-- Regression (`@counter-style a { system: ; }`, repaired by d71ddd0, and `src: format("woff")`, repaired by
be7a07b inside the `src` validator, which now returns `None`): with a validator that would crash on an empty value
the empty descriptor is dropped and the valid descriptors around it are kept; a validator answering `None` drops
its descriptor only. -/
example :
    let v : String → Desc → R (Option String) := fun name d =>
      if d.noTokens then .error .indexError else if name = "src" then .ok none else .ok (some "x")
    let d (n : String) (e : Bool) (i : Nat) : Desc :=
      { kind := .declaration, name := n, important := false, noTokens := e, id := i }
    preprocessDescriptors "counter-style" v [d "system" true 0, d "symbols" false 1] = .ok [("symbols", "x")] ∧
    preprocessDescriptors "font-face" v [d "font-family" false 0, d "src" false 1] = .ok [("font_family", "x")] := by
  decide

/-! ## 24. font-variant -/

/-- `font-variant: normal` and `font-variant: none` set all six longhands (ligatures to none for `none`). -/
theorem font_variant_keyword {α : Type} (normalTok noneTok : α) (toks : List (VariantTok α)) :
    (fontVariantRaw (some "normal") normalTok noneTok toks).items =
      [("-alternates", [normalTok]), ("-caps", [normalTok]), ("-east-asian", [normalTok]), ("-numeric", [normalTok]),
       ("-position", [normalTok]), ("-ligatures", [normalTok])] ∧
    (fontVariantRaw (some "none") normalTok noneTok toks).items =
      [("-alternates", [normalTok]), ("-caps", [normalTok]), ("-east-asian", [normalTok]), ("-numeric", [normalTok]),
       ("-position", [normalTok]), ("-ligatures", [noneTok])] := by
  constructor <;> simp [fontVariantRaw] <;> decide

private theorem variantCollect_keys {α : Type} :
    ∀ (toks : List (VariantTok α)) (acc out : List (String × List α)), variantCollect toks acc = some out →
      out.map Prod.fst = acc.map Prod.fst
  | [], acc, out, h => by simp [variantCollect] at h; subst h; rfl
  | t :: rest, acc, out, h => by
    unfold variantCollect at h
    cases hn : t.isNormal with
    | true => simp [hn] at h
    | false =>
      simp only [hn, Bool.false_eq_true, if_false] at h
      cases hf : t.feature with
      | none => simp [hf] at h
      | some f =>
        simp only [hf] at h
        rw [variantCollect_keys rest _ out h]
        simp only [List.map_map]
        apply List.map_congr_left
        intro p _
        obtain ⟨k, v⟩ := p
        simp only [Function.comp]
        split <;> rfl

/-- Whatever the tokens, `font-variant` yields each longhand suffix at most once, and only declared ones: the
generic wrapper can never refuse it for a duplicate nor trip its assertion. -/
theorem font_variant_names {α : Type} (kw : Option String) (normalTok noneTok : α) (toks : List (VariantTok α))
    (hkw : kw ≠ some "normal" ∧ kw ≠ some "none") :
    ((fontVariantRaw kw normalTok noneTok toks).items.map Prod.fst).Nodup ∧
    ∀ n ∈ (fontVariantRaw kw normalTok noneTok toks).items.map Prod.fst,
      n ∈ ["-alternates", "-caps", "-east-asian", "-ligatures", "-numeric", "-position"] := by
  have h1 : (kw == some "normal") = false := by simpa using hkw.1
  have h2 : (kw == some "none") = false := by simpa using hkw.2
  unfold fontVariantRaw
  simp only [h1, h2, Bool.or_self, Bool.false_eq_true, if_false]
  cases hc : variantCollect toks (variantFeatures.map fun f => (f, [])) with
  | none => simp
  | some features =>
    have hk := variantCollect_keys toks _ features hc
    have hkeys : features.map Prod.fst = variantFeatures := by
      rw [hk]; simp [List.map_map, Function.comp_def]
    simp only
    have hsub : ((features.filter fun p => !p.2.isEmpty).map Prod.fst).Sublist (features.map Prod.fst) :=
      (List.filter_sublist).map Prod.fst
    have hmap : ((features.filter fun p => !p.2.isEmpty).map fun p => ("-" ++ p.1, p.2)).map Prod.fst =
        ((features.filter fun p => !p.2.isEmpty).map Prod.fst).map ("-" ++ ·) := by
      simp [List.map_map, Function.comp_def]
    rw [hkeys] at hsub
    have hnodup : (variantFeatures.map ("-" ++ ·)).Nodup := by decide
    have hsub' := hsub.map ("-" ++ ·)
    constructor
    · rw [hmap]
      exact hsub'.nodup hnodup
    · intro n hn
      have hn' : n ∈ ((features.filter fun p => !p.2.isEmpty).map Prod.fst).map ("-" ++ ·) := by
        rw [← hmap]; exact hn
      have hmem := hsub'.subset hn'
      have hlist : variantFeatures.map ("-" ++ ·) =
          ["-alternates", "-caps", "-east-asian", "-ligatures", "-numeric", "-position"] := by decide
      rw [hlist] at hmem
      exact hmem

example : (fontVariantRaw (α := String) none "normal" "none"
    [⟨false, some "caps", "small-caps"⟩, ⟨false, some "numeric", "oldstyle-nums"⟩, ⟨false, some "numeric", "slashed-zero"⟩]).items
    = [("-caps", ["small-caps"]), ("-numeric", ["oldstyle-nums", "slashed-zero"])] := by decide

end Wp.C07
