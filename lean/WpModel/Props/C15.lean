/-
C15 — Counters and cross-references print the right numbers.  Property theorems (helper lemmas are
`private`).  All statements are about the executable models of
  weasyprint/css/counters.py            (Model/Counters.lean),
  weasyprint/formatting_structure/build.py counter scoping (Model/CounterScope.lean),
  the layout_document / make_all_pages re-pagination control (Model/Repaginate.lean)
which the correspondence harness (py/props/c15.py) runs against the real functions on every check,
and about the UA counter-style table regenerated from the source (Gen/CounterStyles.lean).
-/
import WpModel.Model.Counters
import WpModel.Model.CounterScope
import WpModel.Model.Repaginate
import WpModel.Gen.CounterStyles

namespace Wp.C15
open Wp.Counters

/-! ## Number systems -/

def decodeNum (k : Nat) (ds : List Nat) : Nat := ds.foldl (fun a d => a * k + d) 0
def decodeAlpha (k : Nat) (ds : List Nat) : Nat := ds.foldl (fun a d => a * k + d + 1) 0

private theorem numAux_acc (k : Nat) : ∀ fuel n acc,
    numDigitsAux k fuel n acc = numDigitsAux k fuel n [] ++ acc := by
  intro fuel
  induction fuel with
  | zero => intro n acc; simp [numDigitsAux]
  | succ f ih =>
    intro n acc
    unfold numDigitsAux
    by_cases h : n = 0
    · simp [h]
    · simp only [h, if_false]
      rw [ih (n / k) (n % k :: acc), ih (n / k) [n % k]]
      simp

private theorem alphaAux_acc (k : Nat) : ∀ fuel n acc,
    alphaDigitsAux k fuel n acc = alphaDigitsAux k fuel n [] ++ acc := by
  intro fuel
  induction fuel with
  | zero => intro n acc; simp [alphaDigitsAux]
  | succ f ih =>
    intro n acc
    unfold alphaDigitsAux
    by_cases h : n = 0
    · simp [h]
    · simp only [h, if_false]
      rw [ih ((n - 1) / k) ((n - 1) % k :: acc), ih ((n - 1) / k) [(n - 1) % k]]
      simp

private theorem div_le_pred (n k : Nat) (hn : n ≠ 0) (hk : 2 ≤ k) : n / k ≤ n - 1 := by
  have : n / k < n := Nat.div_lt_self (Nat.pos_of_ne_zero hn) hk
  omega

private theorem numAux_decode (k : Nat) (hk : 2 ≤ k) : ∀ fuel n, n ≤ fuel →
    decodeNum k (numDigitsAux k fuel n []) = n := by
  intro fuel
  induction fuel with
  | zero => intro n h; have : n = 0 := by omega
            subst this; simp [numDigitsAux, decodeNum]
  | succ f ih =>
    intro n h
    unfold numDigitsAux
    by_cases h0 : n = 0
    · simp [h0, decodeNum]
    · simp only [h0, if_false]
      rw [numAux_acc]
      have hle : n / k ≤ f := by have := div_le_pred n k h0 hk; omega
      have := ih (n / k) hle
      unfold decodeNum at this ⊢
      rw [List.foldl_append, this]
      simp only [List.foldl_cons, List.foldl_nil]
      exact Nat.div_add_mod' n k

/-- **C15.numeric_roundtrip** — for a numeric system with `k ≥ 2` symbols the digit list printed for
`n` decodes positionally to `n` (all `n ≥ 0`); together with `numeric_digits_lt` and
`numeric_no_leading_zero` the representation is the canonical base-`k` numeral. -/
theorem numeric_roundtrip (k n : Nat) (hk : 2 ≤ k) : decodeNum k (numDigits k n) = n :=
  numAux_decode k hk n n (Nat.le_refl n)

theorem numeric_injective (k : Nat) (hk : 2 ≤ k) (m n : Nat) (h : numDigits k m = numDigits k n) : m = n := by
  have hm := numeric_roundtrip k m hk
  have hn := numeric_roundtrip k n hk
  rw [h] at hm; omega

private theorem numAux_bound (k : Nat) (hk : 0 < k) : ∀ fuel n, ∀ d ∈ numDigitsAux k fuel n [], d < k := by
  intro fuel
  induction fuel with
  | zero => intro n d hd; simp [numDigitsAux] at hd
  | succ f ih =>
    intro n d hd
    unfold numDigitsAux at hd
    by_cases h0 : n = 0
    · simp [h0] at hd
    · simp only [h0, if_false] at hd
      rw [numAux_acc] at hd
      rcases List.mem_append.mp hd with h | h
      · exact ih _ d h
      · simp at h; subst h; exact Nat.mod_lt _ hk

theorem numeric_digits_lt (k n : Nat) (hk : 0 < k) : ∀ d ∈ numDigits k n, d < k :=
  numAux_bound k hk n n

private theorem numAux_head (k : Nat) (hk : 2 ≤ k) : ∀ fuel n, n ≤ fuel → n ≠ 0 →
    ∃ d rest, numDigitsAux k fuel n [] = d :: rest ∧ d ≠ 0 := by
  intro fuel
  induction fuel with
  | zero => intro n h hn; omega
  | succ f ih =>
    intro n h hn
    unfold numDigitsAux
    simp only [hn, if_false]
    rw [numAux_acc]
    by_cases hq : n / k = 0
    · have hlt : n < k := by
        rcases Nat.div_eq_zero_iff.mp hq with h | h
        · omega
        · exact h
      refine ⟨n % k, [], ?_, ?_⟩
      · cases f with
        | zero => simp [numDigitsAux]
        | succ f' => simp [numDigitsAux, hq]
      · rw [Nat.mod_eq_of_lt hlt]; exact hn
    · have hle : n / k ≤ f := by have := div_le_pred n k hn hk; omega
      obtain ⟨d, rest, he, hd⟩ := ih (n / k) hle hq
      exact ⟨d, rest ++ [n % k], by rw [he]; simp, hd⟩

/-- No leading zero digit: the first digit of a non-zero value is not the zero symbol. -/
theorem numeric_no_leading_zero (k n : Nat) (hk : 2 ≤ k) (hn : n ≠ 0) :
    ∃ d rest, numDigits k n = d :: rest ∧ d ≠ 0 :=
  numAux_head k hk n n (Nat.le_refl n) hn

theorem numeric_zero (k : Nat) : numDigits k 0 = [] := by simp [numDigits, numDigitsAux]

private theorem alphaAux_decode (k : Nat) (hk : 1 ≤ k) : ∀ fuel n, n ≤ fuel →
    decodeAlpha k (alphaDigitsAux k fuel n []) = n := by
  intro fuel
  induction fuel with
  | zero => intro n h; have : n = 0 := by omega
            subst this; simp [alphaDigitsAux, decodeAlpha]
  | succ f ih =>
    intro n h
    unfold alphaDigitsAux
    by_cases h0 : n = 0
    · simp [h0, decodeAlpha]
    · simp only [h0, if_false]
      rw [alphaAux_acc]
      have hle : (n - 1) / k ≤ f := by
        have : (n - 1) / k ≤ n - 1 := Nat.div_le_self _ _
        omega
      have := ih ((n - 1) / k) hle
      unfold decodeAlpha at this ⊢
      rw [List.foldl_append, this]
      simp only [List.foldl_cons, List.foldl_nil]
      have := Nat.div_add_mod' (n - 1) k
      omega

/-- **C15.alphabetic_bijective** — bijective base-`k`: decoding the printed symbol indices gives `n`
back for every `n ≥ 0` (`n = 0` is the empty string), hence distinct values print distinct texts. -/
theorem alphabetic_roundtrip (k n : Nat) (hk : 1 ≤ k) : decodeAlpha k (alphaDigits k n) = n :=
  alphaAux_decode k hk n n (Nat.le_refl n)

theorem alphabetic_injective (k : Nat) (hk : 1 ≤ k) (m n : Nat) (h : alphaDigits k m = alphaDigits k n) : m = n := by
  have hm := alphabetic_roundtrip k m hk
  have hn := alphabetic_roundtrip k n hk
  rw [h] at hm; omega

private theorem alphaAux_bound (k : Nat) (hk : 0 < k) : ∀ fuel n, ∀ d ∈ alphaDigitsAux k fuel n [], d < k := by
  intro fuel
  induction fuel with
  | zero => intro n d hd; simp [alphaDigitsAux] at hd
  | succ f ih =>
    intro n d hd
    unfold alphaDigitsAux at hd
    by_cases h0 : n = 0
    · simp [h0] at hd
    · simp only [h0, if_false] at hd
      rw [alphaAux_acc] at hd
      rcases List.mem_append.mp hd with h | h
      · exact ih _ d h
      · simp at h; subst h; exact Nat.mod_lt _ hk

theorem alphabetic_digits_lt (k n : Nat) (hk : 0 < k) : ∀ d ∈ alphaDigits k n, d < k :=
  alphaAux_bound k hk n n

/-! ## Additive system -/

/-- Sum of the weights of the emitted additive tuples. -/
def weightSum (parts : List (Nat × Sym)) : Nat := (parts.map (·.1)).sum

private theorem weightSum_append (a b : List (Nat × Sym)) : weightSum (a ++ b) = weightSum a + weightSum b := by
  simp [weightSum]

private theorem weightSum_replicate (n w : Nat) (s : Sym) : weightSum (List.replicate n (w, s)) = n * w := by
  induction n with
  | zero => simp [weightSum]
  | succ n ih =>
    simp only [List.replicate_succ, weightSum, List.map_cons, List.sum_cons] at ih ⊢
    rw [ih]; rw [Nat.succ_mul]; omega

private theorem additiveLoop_sum : ∀ (tuples : List (Nat × Sym)) (remaining : Nat) (parts out : List (Nat × Sym)),
    additiveLoop tuples remaining parts = some out → weightSum out = weightSum parts + remaining := by
  intro tuples
  induction tuples with
  | nil => intro r p o h; simp [additiveLoop] at h
  | cons t rest ih =>
    intro r p o h
    obtain ⟨w, s⟩ := t
    unfold additiveLoop at h
    by_cases hw : w = 0
    · simp only [hw, if_true] at h
      exact ih r p o h
    · simp only [hw, if_false] at h
      have hdm := Nat.div_add_mod r w
      have hmul : w * (r / w) ≤ r := Nat.mul_div_le r w
      by_cases hz : r - w * (r / w) = 0
      · simp only [hz, if_true] at h
        cases h
        rw [weightSum_append, weightSum_replicate]
        have : r / w * w = w * (r / w) := Nat.mul_comm _ _
        omega
      · simp only [hz, if_false] at h
        have := ih _ _ _ h
        rw [weightSum_append, weightSum_replicate] at this
        have hc : r / w * w = w * (r / w) := Nat.mul_comm _ _
        omega

/-- additive system: when the greedy loop succeeds, the weights of the emitted symbols add up to the
value (zero weights are skipped: no division by zero exists in the model). -/
theorem additive_sum (tuples : List (Nat × Sym)) (n : Nat) (out : List (Nat × Sym))
    (h : additiveLoop tuples n [] = some out) : weightSum out = n := by
  have := additiveLoop_sum tuples n [] out h
  simpa [weightSum] using this

private theorem additiveLoop_mem : ∀ (tuples : List (Nat × Sym)) (remaining : Nat) (parts out : List (Nat × Sym)),
    additiveLoop tuples remaining parts = some out →
    ∃ extra, out = parts ++ extra ∧ ∀ p ∈ extra, p ∈ tuples ∧ p.1 ≠ 0 := by
  intro tuples
  induction tuples with
  | nil => intro r p o h; simp [additiveLoop] at h
  | cons t rest ih =>
    intro r p o h
    obtain ⟨w, s⟩ := t
    unfold additiveLoop at h
    by_cases hw : w = 0
    · simp only [hw, if_true] at h
      obtain ⟨e, he, hm⟩ := ih r p o h
      exact ⟨e, he, fun q hq => ⟨List.mem_cons_of_mem _ (hm q hq).1, (hm q hq).2⟩⟩
    · simp only [hw, if_false] at h
      by_cases hz : r - w * (r / w) = 0
      · simp only [hz, if_true] at h
        cases h
        refine ⟨List.replicate (r / w) (w, s), rfl, ?_⟩
        intro q hq
        have := List.eq_of_mem_replicate hq
        subst this
        exact ⟨List.mem_cons_self, hw⟩
      · simp only [hz, if_false] at h
        obtain ⟨e, he, hm⟩ := ih _ _ _ h
        refine ⟨List.replicate (r / w) (w, s) ++ e, by rw [he]; simp, ?_⟩
        intro q hq
        rcases List.mem_append.mp hq with hq | hq
        · have := List.eq_of_mem_replicate hq
          subst this
          exact ⟨List.mem_cons_self, hw⟩
        · exact ⟨List.mem_cons_of_mem _ (hm q hq).1, (hm q hq).2⟩

/-- Every emitted symbol is one of the style's tuples, with a non-zero weight. -/
theorem additive_parts_from_tuples (tuples : List (Nat × Sym)) (n : Nat) (out : List (Nat × Sym))
    (h : additiveLoop tuples n [] = some out) : ∀ p ∈ out, p ∈ tuples ∧ p.1 ≠ 0 := by
  obtain ⟨e, he, hm⟩ := additiveLoop_mem tuples n [] out h
  simp at he; subst he; exact hm

/-- Greedy: the first tuple with a non-zero weight is used `⌊n / weight⌋` times, then the loop goes
on with the remainder `n mod weight`. -/
theorem additive_greedy (w : Nat) (s : Sym) (rest : List (Nat × Sym)) (n : Nat) (hw : w ≠ 0) :
    additiveLoop ((w, s) :: rest) n [] =
      if n % w = 0 then some (List.replicate (n / w) (w, s))
      else additiveLoop rest (n % w) (List.replicate (n / w) (w, s)) := by
  have hmod : n - w * (n / w) = n % w := by
    have := Nat.div_add_mod n w; omega
  simp [additiveLoop, hw, hmod]

/-- Weights of the output are non-increasing when the tuples are listed by decreasing weight (what the
descriptor validator enforces). -/
theorem additive_sorted : ∀ (tuples : List (Nat × Sym)) (n : Nat) (parts out : List (Nat × Sym)),
    tuples.Pairwise (fun a b => a.1 ≥ b.1) → parts.Pairwise (fun a b => a.1 ≥ b.1) →
    (∀ p ∈ parts, ∀ t ∈ tuples, p.1 ≥ t.1) →
    additiveLoop tuples n parts = some out → out.Pairwise (fun a b => a.1 ≥ b.1) := by
  intro tuples
  induction tuples with
  | nil => intro n p o _ _ _ h; simp [additiveLoop] at h
  | cons t rest ih =>
    intro n p o hs hp hpt h
    obtain ⟨w, s⟩ := t
    have hrest := (List.pairwise_cons.mp hs)
    unfold additiveLoop at h
    by_cases hw : w = 0
    · simp only [hw, if_true] at h
      exact ih n p o hrest.2 hp (fun q hq t ht => hpt q hq t (List.mem_cons_of_mem _ ht)) h
    · simp only [hw, if_false] at h
      have hnew : (p ++ List.replicate (n / w) (w, s)).Pairwise (fun a b => a.1 ≥ b.1) := by
        rw [List.pairwise_append]
        refine ⟨hp, ?_, ?_⟩
        · rw [List.pairwise_replicate]; right; exact Nat.le_refl _
        · intro a ha b hb
          have := List.eq_of_mem_replicate hb
          subst this
          exact hpt a ha (w, s) List.mem_cons_self
      by_cases hz : n - w * (n / w) = 0
      · simp only [hz, if_true] at h
        cases h; exact hnew
      · simp only [hz, if_false] at h
        refine ih _ _ _ hrest.2 hnew ?_ h
        intro q hq t ht
        rcases List.mem_append.mp hq with hq | hq
        · exact hpt q hq t (List.mem_cons_of_mem _ ht)
        · have := List.eq_of_mem_replicate hq
          subst this
          exact hrest.1 t ht

/-! ## Step 3: index formulas, fallbacks -/

/-- cyclic: the symbol at index `(n − 1) mod k` (Euclidean: also for n ≤ 0), in range `0 … k−1`. -/
theorem cyclic_formula (c : Desc) (syms : List Sym) (fixed : Option Int) (v : Int) (isNeg : Bool)
    (hs : c.symbols = some syms) (hk : 1 ≤ syms.length) :
    step3 c "cyclic" fixed v isNeg = .initial (symAt syms ((v - 1) % (syms.length : Int)).toNat) ∧
    ((v - 1) % (syms.length : Int)).toNat < syms.length := by
  constructor
  · have : ¬ syms.length < 1 := by omega
    simp [step3, hs, this]
  · have hpos : (0 : Int) < (syms.length : Int) := by omega
    have h1 := Int.emod_nonneg (v - 1) (Int.ne_of_gt hpos)
    have h2 := Int.emod_lt_of_pos (v - 1) hpos
    omega

/-- fixed: symbol `n − first` inside the window, the fallback style (with the value) outside. -/
theorem fixed_formula (c : Desc) (syms : List Sym) (first v : Int) (isNeg : Bool)
    (hs : c.symbols = some syms) (hk : 1 ≤ syms.length) :
    step3 c "fixed" (some first) v isNeg =
      if 0 ≤ v - first ∧ v - first < syms.length then .initial (symAt syms (v - first).toNat)
      else .fallback v := by
  have : ¬ syms.length < 1 := by omega
  simp only [step3, hs, this]
  simp

/-- symbolic: the symbol at index `(n − 1) mod k`, repeated `⌊(n − 1) / k⌋ + 1 = ⌈n / k⌉` times. -/
theorem symbolic_formula (c : Desc) (syms : List Sym) (fixed : Option Int) (v : Int) (isNeg : Bool)
    (hs : c.symbols = some syms) (hk : 1 ≤ syms.length) :
    step3 c "symbolic" fixed v isNeg =
      .initial (repeatStr (symAt syms ((v - 1) % (syms.length : Int)).toNat)
        ((v - 1) / (syms.length : Int) + 1)) := by
  have : ¬ syms.length < 1 := by omega
  simp [step3, hs, this]

/-- `⌊(n − 1) / k⌋ + 1` is the ceiling of `n / k` for `n ≥ 1`. -/
theorem symbolic_repeat_is_ceil (n k : Nat) (hn : 1 ≤ n) (hk : 1 ≤ k) :
    ((n : Int) - 1) / (k : Int) + 1 = ((n + k - 1) / k : Nat) := by
  have h1 : ((n : Int) - 1) = ((n - 1 : Nat) : Int) := by omega
  rw [h1]
  have h2 : ((n - 1 : Nat) : Int) / (k : Int) = (((n - 1) / k : Nat) : Int) := by
    exact (Int.natCast_ediv _ _).symm
  rw [h2]
  have h3 : (n + k - 1) / k = (n - 1) / k + 1 := by
    have : n + k - 1 = (n - 1) + k := by omega
    rw [this, Nat.add_div_right _ (by omega)]
  rw [h3]; omega

/-- alphabetic / numeric: the text is the concatenation of the symbols designated by the digit list
the round-trip theorems speak about. -/
theorem alphabetic_formula (c : Desc) (syms : List Sym) (fixed : Option Int) (v : Int) (isNeg : Bool)
    (hs : c.symbols = some syms) (hk : 2 ≤ syms.length) :
    step3 c "alphabetic" fixed v isNeg = .initial (joinSyms syms (alphaDigits syms.length v.toNat)) := by
  have : ¬ syms.length < 2 := by omega
  simp [step3, hs, this]

theorem numeric_formula (c : Desc) (syms : List Sym) (fixed : Option Int) (v : Int) (isNeg : Bool)
    (hs : c.symbols = some syms) (hk : 2 ≤ syms.length) (hv : v ≠ 0) :
    step3 c "numeric" fixed v isNeg = .initial (joinSyms syms (numDigits syms.length v.natAbs)) := by
  have : ¬ syms.length < 2 := by omega
  simp [step3, hs, this, hv]

theorem numeric_zero_formula (c : Desc) (syms : List Sym) (fixed : Option Int) (isNeg : Bool)
    (hs : c.symbols = some syms) (hk : 2 ≤ syms.length) :
    step3 c "numeric" fixed 0 isNeg = .initial (symAt syms 0) := by
  have : ¬ syms.length < 2 := by omega
  simp [step3, hs, this]

/-- `original_value`: what step 3 hands to its `decimal` and `fallback` exits of the four sign-using
systems is the value `render_value` was called with. -/
private theorem orig_value (system : String) (value : Int) (hu : usesNegative system = true) :
    (if decide (value < 0) = true then -(step3Value system value) else step3Value system value) = value := by
  unfold step3Value
  by_cases hneg : value < 0
  · simp [hneg, hu]
  · simp [hneg]

private theorem step3Value_plain (system : String) (value : Int) (hu : usesNegative system = false) :
    step3Value system value = value := by
  simp [step3Value, hu]

/-- An unrepresentable value goes to the fallback style **with the original value** (sign restored):
`step3` only asks for the fallback with the value `render_value` was called with. -/
theorem fallback_original_value (c : Desc) (system : String) (fixed : Option Int) (value w : Int)
    (h : step3 c system fixed (step3Value system value) (decide (value < 0)) = .fallback w) : w = value := by
  by_cases h1 : system = "cyclic"
  · subst h1
    cases hsym : c.symbols with
    | none => simp [step3, hsym] at h
    | some syms => by_cases hl : syms.length < 1 <;> simp [step3, hsym, hl] at h
  by_cases h2 : system = "fixed"
  · subst h2
    cases hsym : c.symbols with
    | none => simp [step3, hsym] at h
    | some syms =>
      by_cases hl : syms.length < 1
      · simp [step3, hsym, hl] at h
      · cases fixed with
        | none => simp [step3, hsym, hl] at h
        | some f =>
          simp only [step3, hsym, hl, step3Value, usesNegative] at h
          simp at h
          split at h
          · simp at h
          · simp at h; exact h.symm
  by_cases h3 : system = "symbolic"
  · subst h3
    cases hsym : c.symbols with
    | none => simp [step3, hsym] at h
    | some syms => by_cases hl : syms.length < 1 <;> simp [step3, hsym, hl] at h
  by_cases h4 : system = "alphabetic"
  · subst h4
    cases hsym : c.symbols with
    | none => simp [step3, hsym] at h
    | some syms => by_cases hl : syms.length < 2 <;> simp [step3, hsym, hl] at h
  by_cases h5 : system = "numeric"
  · subst h5
    cases hsym : c.symbols with
    | none => simp [step3, hsym] at h
    | some syms =>
      by_cases hl : syms.length < 2
      · simp [step3, hsym, hl] at h
      · simp only [step3, hsym, hl] at h
        simp at h
        split at h <;> simp at h
  by_cases h6 : system = "additive"
  · subst h6
    have ho := orig_value "additive" value (by decide)
    cases hadd : c.additive with
    | none => simp [step3, hadd] at h
    | some tuples =>
      simp only [step3, hadd, ho] at h
      simp at h
      split at h
      · split at h <;> simp at h
        exact h.symm
      · split at h
        · simp at h
        · split at h <;> simp at h
          exact h.symm
  simp [step3, h1, h2, h3, h4, h5, h6] at h

/-- **C15.decimal_fallback_value** (full strength since `fix:` 1bdaf16; before it the four sign-using
systems handed `abs(value)` to decimal, finding `extends-own-symbols-loses-sign`): the decimal fallback
taken when a style has too few symbols renders the value the style was asked to render. -/
theorem decimal_fallback_value (c : Desc) (system : String) (fixed : Option Int) (value w : Int)
    (h : step3 c system fixed (step3Value system value) (decide (value < 0)) = .decimal w) : w = value := by
  by_cases h1 : system = "cyclic"
  · subst h1
    rw [step3Value_plain "cyclic" value (by decide)] at h
    cases hsym : c.symbols with
    | none => simp [step3, hsym] at h
    | some syms => by_cases hl : syms.length < 1 <;> simp [step3, hsym, hl] at h; exact h.symm
  by_cases h2 : system = "fixed"
  · subst h2
    rw [step3Value_plain "fixed" value (by decide)] at h
    cases hsym : c.symbols with
    | none => simp [step3, hsym] at h
    | some syms =>
      by_cases hl : syms.length < 1
      · simp [step3, hsym, hl] at h; exact h.symm
      · cases fixed with
        | none => simp [step3, hsym, hl] at h
        | some f =>
          simp only [step3, hsym, hl] at h
          simp at h
          split at h <;> simp at h
  by_cases h3 : system = "symbolic"
  · subst h3
    have ho := orig_value "symbolic" value (by decide)
    cases hsym : c.symbols with
    | none => simp [step3, hsym] at h
    | some syms =>
      by_cases hl : syms.length < 1
      · simp only [step3, hsym, hl, ho] at h
        simp at h; exact h.symm
      · simp [step3, hsym, hl] at h
  by_cases h4 : system = "alphabetic"
  · subst h4
    have ho := orig_value "alphabetic" value (by decide)
    cases hsym : c.symbols with
    | none => simp [step3, hsym] at h
    | some syms =>
      by_cases hl : syms.length < 2
      · simp only [step3, hsym, hl, ho] at h
        simp at h; exact h.symm
      · simp [step3, hsym, hl] at h
  by_cases h5 : system = "numeric"
  · subst h5
    have ho := orig_value "numeric" value (by decide)
    cases hsym : c.symbols with
    | none => simp [step3, hsym] at h
    | some syms =>
      by_cases hl : syms.length < 2
      · simp only [step3, hsym, hl, ho] at h
        simp at h; exact h.symm
      · simp only [step3, hsym, hl] at h
        simp at h
        split at h <;> simp at h
  by_cases h6 : system = "additive"
  · subst h6
    have ho := orig_value "additive" value (by decide)
    cases hadd : c.additive with
    | none => simp [step3, hadd] at h
    | some tuples =>
      simp only [step3, hadd, ho] at h
      simp at h
      split at h
      · split at h <;> simp at h
      · split at h
        · simp at h; exact h.symm
        · split at h <;> simp at h
  simp [step3, h1, h2, h3, h4, h5, h6] at h

/-- **C15.numeric_never_indexes_empty** (since `fix:` 1bdaf16; before it `symbols[0]` was read before the
length test, finding `extends-empty-symbols-index-error`): step 3 raises no IndexError, whatever the
symbols. -/
theorem step3_no_index_error (c : Desc) (system : String) (fixed : Option Int) (v : Int) (isNeg : Bool) :
    step3 c system fixed v isNeg ≠ .err .indexError := by
  unfold step3
  intro h
  repeat' split at h
  all_goals first | (simp at h; done) | (simp at h; split at h <;> simp at h)

/-- Only the four systems named by the specification use the `negative` descriptor. -/
theorem usesNegative_iff (system : String) :
    usesNegative system = true ↔
      system = "symbolic" ∨ system = "alphabetic" ∨ system = "numeric" ∨ system = "additive" := by
  simp [usesNegative, or_assoc]

private theorem join_foldl_length (l : List String) (acc : String) :
    (l.foldl (fun r s => r ++ s) acc).length = acc.length + (l.map String.length).sum := by
  induction l generalizing acc with
  | nil => simp
  | cons x xs ih => simp [ih, String.length_append]; omega

private theorem join_length (l : List String) : (String.join l).length = (l.map String.length).sum := by
  simp [String.join, join_foldl_length]

theorem repeatStr_length (s : String) (n : Int) : (repeatStr s n).length = n.toNat * s.length := by
  unfold repeatStr
  rw [join_length]
  induction n.toNat with
  | zero => simp
  | succ k ih => simp [List.replicate_succ, ih, Nat.succ_mul]; omega

/-- Without the negative sign the result is the padding followed by the initial representation. -/
theorem pad_without_sign (c : Desc) (s : String) :
    ∃ padding, padNeg c false s = padding ++ s := by
  unfold padNeg
  simp only [Bool.false_eq_true, if_false]
  split
  · exact ⟨_, rfl⟩
  · exact ⟨"", by simp⟩

/-- With the sign, the padded representation is wrapped in the two `negative` symbols. -/
theorem negative_wraps (c : Desc) (s : String) :
    ∃ padding, padNeg c true s =
      (c.negative.getD (.str "-", .str "")).1.text ++ (padding ++ s) ++ (c.negative.getD (.str "-", .str "")).2.text := by
  unfold padNeg
  simp only [if_true]
  split
  · exact ⟨_, rfl⟩
  · exact ⟨"", by simp⟩

/-- `pad`: with a one-character pad symbol the result has exactly `max(pad, natural length)` characters,
the negative sign symbols counted. -/
theorem pad_length (c : Desc) (useNeg : Bool) (s : String) (n : Nat) (p : Sym)
    (hp : c.pad = some (n, p)) (hl : p.text.length = 1) :
    (padNeg c useNeg s).length =
      max n (s.length + (if useNeg then (c.negative.getD (.str "-", .str "")).1.text.length +
        (c.negative.getD (.str "-", .str "")).2.text.length else 0)) := by
  unfold padNeg
  simp only [hp, Option.getD_some]
  cases useNeg with
  | false =>
    simp only [Bool.false_eq_true, if_false, Nat.add_zero]
    split
    · rename_i h
      simp only [String.length_append, repeatStr_length, hl]
      omega
    · rename_i h
      omega
  | true =>
    simp only [if_true]
    split
    · rename_i h
      simp only [String.length_append, repeatStr_length, hl]
      omega
    · rename_i h
      simp only [String.length_append]
      omega

/-- For any non-empty pad symbol the result is at least `pad` characters long. -/
theorem pad_length_ge (c : Desc) (useNeg : Bool) (s : String) (n : Nat) (p : Sym)
    (hp : c.pad = some (n, p)) (hl : 1 ≤ p.text.length) : n ≤ (padNeg c useNeg s).length := by
  unfold padNeg
  simp only [hp, Option.getD_some]
  cases useNeg with
  | false =>
    simp only [Bool.false_eq_true, if_false]
    split
    · rename_i h
      simp only [String.length_append, repeatStr_length]
      have : ((n : Int) - (s.length : Int)).toNat ≤ ((n : Int) - (s.length : Int)).toNat * p.text.length :=
        Nat.le_mul_of_pos_right _ hl
      omega
    · rename_i h
      omega
  | true =>
    simp only [if_true]
    split
    · rename_i h
      simp only [String.length_append, repeatStr_length]
      generalize hd : ((n : Int) - (s.length : Int) - (((c.negative.getD (.str "-", .str "")).1.text.length : Int) +
        ((c.negative.getD (.str "-", .str "")).2.text.length : Int))).toNat = d at *
      have : d ≤ d * p.text.length := Nat.le_mul_of_pos_right _ hl
      omega
    · rename_i h
      simp only [String.length_append]
      omega

/-- Without a `pad` descriptor nothing is added. -/
theorem no_pad (c : Desc) (s : String) (hp : c.pad = none) : padNeg c false s = s := by
  unfold padNeg
  simp [hp]
  intro h
  omega

/-! ## Fallback and `extends` chains terminate -/

/-- Number of table entries whose name is not yet in `previous_types`. -/
def fresh (cs : Styles) (prev : List CName) : Nat :=
  (cs.filter (fun p => !prev.contains (.named p.1))).length

private theorem fresh_le (cs : Styles) (prev : List CName) : fresh cs prev ≤ cs.length :=
  List.length_filter_le _ _

private theorem filter_len_mono {α} (f g : α → Bool) (l : List α) (h : ∀ x ∈ l, g x = true → f x = true) :
    (l.filter g).length ≤ (l.filter f).length := by
  induction l with
  | nil => simp
  | cons x xs ih =>
    have ih' := ih (fun y hy => h y (List.mem_cons_of_mem _ hy))
    have hx := h x List.mem_cons_self
    simp only [List.filter_cons]
    cases hg : g x with
    | false => cases hf : f x <;> simp <;> omega
    | true => simp [hx hg]; omega

private theorem filter_len_lt {α} (f g : α → Bool) (l : List α) (h : ∀ x ∈ l, g x = true → f x = true)
    (hex : ∃ x ∈ l, f x = true ∧ g x = false) : (l.filter g).length < (l.filter f).length := by
  induction l with
  | nil => obtain ⟨x, hx, _⟩ := hex; simp at hx
  | cons x xs ih =>
    have hmono := filter_len_mono f g xs (fun y hy => h y (List.mem_cons_of_mem _ hy))
    simp only [List.filter_cons]
    obtain ⟨y, hy, hfy, hgy⟩ := hex
    rcases List.mem_cons.mp hy with e | hmem
    · subst e
      simp [hfy, hgy]; omega
    · have ih' := ih (fun z hz => h z (List.mem_cons_of_mem _ hz)) ⟨y, hmem, hfy, hgy⟩
      have hx := h x List.mem_cons_self
      cases hg : g x with
      | false => cases hf : f x <;> simp <;> omega
      | true => simp [hx hg]; omega

private theorem fresh_mono (cs : Styles) (prev extra : List CName) : fresh cs (prev ++ extra) ≤ fresh cs prev := by
  apply filter_len_mono
  intro x _ hx
  simp only [Bool.not_eq_true', List.contains_eq_mem, List.mem_append, decide_eq_false_iff_not] at hx ⊢
  exact fun h => hx (Or.inl h)

private theorem lookup_mem (cs : Styles) (n : String) (d : Desc) (h : lookup cs n = some d) :
    ∃ p ∈ cs, p.1 = n := by
  induction cs with
  | nil => simp [lookup] at h
  | cons x xs ih =>
    obtain ⟨k, e⟩ := x
    unfold lookup at h
    by_cases hk : k = n
    · exact ⟨(k, e), List.mem_cons_self, hk⟩
    · simp only [hk, if_false] at h
      obtain ⟨p, hp, hpn⟩ := ih h
      exact ⟨p, List.mem_cons_of_mem _ hp, hpn⟩

private theorem fresh_lt (cs : Styles) (prev extra : List CName) (n : String) (d : Desc)
    (h : lookup cs n = some d) (hn : prev.contains (.named n) = false) :
    fresh cs (prev ++ [.named n] ++ extra) < fresh cs prev := by
  apply filter_len_lt
  · intro x _ hx
    simp only [Bool.not_eq_true', List.contains_eq_mem, List.mem_append, decide_eq_false_iff_not] at hx ⊢
    exact fun h => hx (Or.inl (Or.inl h))
  · obtain ⟨p, hp, hpn⟩ := lookup_mem cs n d h
    refine ⟨p, hp, ?_, ?_⟩
    · rw [hpn]
      have : ¬ CName.named n ∈ prev := by simpa using hn
      simp [this]
    · rw [hpn]; simp

/-- `decimal`, when defined, is not an `extends` style (the UA table satisfies this, `ua_decimal_ok`). -/
def DecimalPlain (cs : Styles) : Prop := ∀ d, lookup cs "decimal" = some d → (sysOf d).1 = false

private theorem sysOf_with (c : Desc) (s : Option Sys) : sysOf { c with system := s } = sysOf { system := s } := by
  simp [sysOf]

private theorem resolveLoop_noext (cs : Styles) (fuel : Nat) (c : Desc) (system : String) (prev : List CName) :
    resolveLoop cs (fuel + 1) c false system prev = .ok (c, prev) := by
  simp [resolveLoop]

/-- Regular states of the `while extends` loop of `resolve_counter` terminate within
`fresh + 2` iterations, and `previous_types` only grows. -/
private theorem resolveLoop_ok (cs : Styles) (hd : DecimalPlain cs) : ∀ fuel counter ext system prev,
    (ext = true → prev.contains (.named system) = false ∨ system = "decimal") →
    fresh cs prev + 2 ≤ fuel →
    ∃ c extra, resolveLoop cs fuel counter ext system prev = .ok (c, prev ++ extra) := by
  intro fuel
  induction fuel with
  | zero => intro _ _ _ _ _ h; omega
  | succ f ih =>
    intro counter ext system prev hreg hfuel
    cases ext with
    | false => exact ⟨counter, [], by simp [resolveLoop]⟩
    | true =>
      unfold resolveLoop
      simp only [Bool.not_true, Bool.false_eq_true, if_false]
      cases hl : lookup cs system with
      | none => exact ⟨counter, [], by simp⟩
      | some e =>
        simp only
        have hsys : sysOf { counter with system := e.system } = sysOf e := by simp [sysOf]
        rw [hsys]
        rcases hreg rfl with hfresh | hdec
        · -- `system` is a new name of the table: the measure decreases
          have hlt := fresh_lt cs prev [] system e hl hfresh
          simp only [List.append_nil] at hlt
          split
          · obtain ⟨c, extra, h⟩ := ih { counter with system := e.system } true "decimal"
              (prev ++ [.named system]) (fun _ => Or.inr rfl) (by omega)
            exact ⟨c, [.named system] ++ extra, by rw [h]; simp⟩
          · rename_i hcond
            obtain ⟨c, extra, h⟩ := ih (merge { counter with system := e.system } e) (sysOf e).1 (sysOf e).2.1
              (prev ++ [.named system])
              (by
                intro hext
                left
                simp only [hext, Bool.true_and, Bool.not_eq_true] at hcond
                exact hcond)
              (by omega)
            exact ⟨c, [.named system] ++ extra, by rw [h]; simp⟩
        · -- forced or natural `decimal`: not an extends style, the loop ends at the next test
          subst hdec
          have hplain := hd e hl
          simp only [hplain, Bool.false_and, Bool.false_eq_true, if_false]
          cases f with
          | zero => omega
          | succ f' =>
            exact ⟨merge { counter with system := e.system } e, [.named "decimal"], by
              rw [resolveLoop_noext]⟩

/-- Any entry state (the first looked-up name may already be in `previous_types`). -/
private theorem resolveLoop_ok_entry (cs : Styles) (hd : DecimalPlain cs) (fuel : Nat) (counter : Desc)
    (ext : Bool) (system : String) (prev : List CName) (hfuel : fresh cs prev + 3 ≤ fuel) :
    ∃ c extra, resolveLoop cs fuel counter ext system prev = .ok (c, prev ++ extra) := by
  by_cases hreg : prev.contains (.named system) = false ∨ system = "decimal"
  · exact resolveLoop_ok cs hd fuel counter ext system prev (fun _ => hreg) (by omega)
  · cases fuel with
    | zero => omega
    | succ f =>
      cases ext with
      | false => exact ⟨counter, [], by simp [resolveLoop]⟩
      | true =>
        unfold resolveLoop
        simp only [Bool.not_true, Bool.false_eq_true, if_false]
        cases hl : lookup cs system with
        | none => exact ⟨counter, [], by simp⟩
        | some e =>
          simp only
          have hsys : sysOf { counter with system := e.system } = sysOf e := by simp [sysOf]
          rw [hsys]
          have hmono := fresh_mono cs prev [.named system]
          split
          · obtain ⟨c, extra, h⟩ := resolveLoop_ok cs hd f { counter with system := e.system } true "decimal"
              (prev ++ [.named system]) (fun _ => Or.inr rfl) (by omega)
            exact ⟨c, [.named system] ++ extra, by rw [h]; simp⟩
          · rename_i hcond
            obtain ⟨c, extra, h⟩ := resolveLoop_ok cs hd f (merge { counter with system := e.system } e)
              (sysOf e).1 (sysOf e).2.1 (prev ++ [.named system])
              (by
                intro hext
                left
                simp only [hext, Bool.true_and, Bool.not_eq_true] at hcond
                exact hcond)
              (by omega)
            exact ⟨c, [.named system] ++ extra, by rw [h]; simp⟩


/-- The `while extends` loop of `render_value` ends within `fresh + 2` iterations; the
`previous_types` it hands on extend the ones it received. -/
private theorem extLoop_ok (cs : Styles) : ∀ fuel counter ext system fixed prev,
    fresh cs prev + 2 ≤ fuel →
    renderExtLoop cs fuel counter ext system fixed prev = .ok .decimal ∨
    ∃ c s f extra, renderExtLoop cs fuel counter ext system fixed prev = .ok (.go c s f (prev ++ extra)) := by
  intro fuel
  induction fuel with
  | zero => intro _ _ _ _ _ h; omega
  | succ n ih =>
    intro counter ext system fixed prev hfuel
    cases ext with
    | false => exact Or.inr ⟨counter, system, fixed, [], by simp [renderExtLoop]⟩
    | true =>
      unfold renderExtLoop
      simp only [Bool.not_true, Bool.false_eq_true, if_false]
      cases hl : lookup cs system with
      | none => exact Or.inl rfl
      | some e =>
        simp only
        have hsys : sysOf { counter with system := e.system } = sysOf e := by simp [sysOf]
        rw [hsys]
        split
        · exact Or.inl rfl
        · rename_i hcond
          have hnot : prev.contains (.named (sysOf e).2.1) = false := by simpa using hcond
          cases hl2 : lookup cs (sysOf e).2.1 with
          | some e2 =>
            have hlt := fresh_lt cs prev [] _ e2 hl2 hnot
            simp only [List.append_nil] at hlt
            rcases ih (merge { counter with system := e.system } e) (sysOf e).1 (sysOf e).2.1 (sysOf e).2.2
              (prev ++ [.named (sysOf e).2.1]) (by omega) with h | ⟨c, s, f, extra, h⟩
            · exact Or.inl h
            · exact Or.inr ⟨c, s, f, [.named (sysOf e).2.1] ++ extra, by rw [h]; simp⟩
          | none =>
            cases n with
            | zero => omega
            | succ n' =>
              cases hext : (sysOf e).1 with
              | false =>
                exact Or.inr ⟨merge { counter with system := e.system } e, (sysOf e).2.1, (sysOf e).2.2,
                  [.named (sysOf e).2.1], by simp [renderExtLoop]⟩
              | true =>
                left
                simp [renderExtLoop, hl2]

/-- `decimal`, when defined, is a numeric style with at least two symbols and the automatic range
(`ua_decimal_total` for the UA table): it renders every integer without falling back. -/
def DecimalTotal (cs : Styles) : Prop :=
  ∀ d, lookup cs "decimal" = some d →
    d.system = some ⟨false, "numeric", none⟩ ∧ (∃ syms, d.symbols = some syms ∧ 2 ≤ syms.length) ∧
    (d.range = none ∨ d.range = some .auto)

private theorem decimalTotal_plain (cs : Styles) (h : DecimalTotal cs) : DecimalPlain cs := by
  intro d hd
  obtain ⟨hs, _, _⟩ := h d hd
  simp [sysOf, hs]

private theorem loopFuel_succ (cs : Styles) : loopFuel cs = (2 * cs.length + 3) + 1 := by simp [loopFuel]

private theorem extLoop_noext (cs : Styles) (c : Desc) (system : String) (fixed : Option Int) (prev : List CName) :
    renderExtLoop cs (loopFuel cs) c false system fixed prev = .ok (.go c system fixed prev) := by
  rw [loopFuel_succ]; simp [renderExtLoop]

private theorem step3_numeric_initial (d : Desc) (syms : List Sym) (v : Int) (b : Bool) (fixed : Option Int)
    (hs : d.symbols = some syms) (hl : 2 ≤ syms.length) : ∃ s, step3 d "numeric" fixed v b = .initial s := by
  have : ¬ syms.length < 2 := by omega
  by_cases hv : v = 0
  · exact ⟨symAt syms 0, by simp [step3, hs, hv, this]⟩
  · exact ⟨joinSyms syms (numDigits syms.length v.natAbs), by simp [step3, hs, hv, this]⟩

/-- A call `render_value(v, 'decimal')` needs one level only. -/
private theorem decimal_call_ok (cs : Styles) (ht : DecimalTotal cs) (fuel : Nat) (v : Int) :
    ∃ s, renderValue cs (fuel + 1) v (.named "decimal") none = .ok s := by
  unfold renderValue
  cases hl : lookup cs "decimal" with
  | none => exact ⟨"", by simp [resolveCounter, hl]⟩
  | some d =>
    obtain ⟨hsys, ⟨syms, hsyms, hlen⟩, hrange⟩ := ht d hl
    have hso : sysOf d = (false, "numeric", none) := by simp [sysOf, hsys]
    have hres : resolveCounter cs (.named "decimal") none = .ok (some d, none) := by
      simp only [resolveCounter, hl, hso]
      rw [loopFuel_succ]
      simp [resolveLoop, bind, Except.bind, pure, Except.pure]
    obtain ⟨s, hs3⟩ := step3_numeric_initial d syms (step3Value "numeric" v) (decide (v < 0)) none hsyms hlen
    have hin : inRange d "numeric" v = .ok true := by
      rcases hrange with h | h <;> simp [inRange, h, autoRange, Bound.leInt, Bound.geInt]
    refine ⟨padNeg d (decide (v < 0) && usesNegative "numeric") s, ?_⟩
    simp only [hres, hso, isCircular, Bool.false_eq_true, if_false, extLoop_noext, renderTail, hin, hs3]


private theorem inRanges_err (v : Int) : ∀ l e, inRanges v l = .error e → e = .valueError := by
  intro l
  induction l with
  | nil => intro e h; simp [inRanges] at h
  | cons x xs ih =>
    intro e h
    cases x with
    | autoKw => simp [inRanges] at h; exact h.symm
    | pair lo hi =>
      unfold inRanges at h
      split at h
      · simp at h
      · exact ih e h

private theorem inRange_err (c : Desc) (system : String) (v : Int) (e : CErr)
    (h : inRange c system v = .error e) : e = .valueError := by
  unfold inRange at h
  split at h
  all_goals first
    | exact inRanges_err v _ e h
    | (revert h; cases autoRange system; simp)

private theorem step3_no_recursion (c : Desc) (system : String) (fixed : Option Int) (v : Int) (b : Bool) :
    step3 c system fixed v b ≠ .err .recursion := by
  intro h
  by_cases h1 : system = "cyclic"
  · subst h1
    cases hsym : c.symbols with
    | none => simp [step3, hsym] at h
    | some syms => by_cases hl : syms.length < 1 <;> simp [step3, hsym, hl] at h
  by_cases h2 : system = "fixed"
  · subst h2
    cases hsym : c.symbols with
    | none => simp [step3, hsym] at h
    | some syms =>
      by_cases hl : syms.length < 1
      · simp [step3, hsym, hl] at h
      · cases fixed with
        | none => simp [step3, hsym, hl] at h
        | some f =>
          simp only [step3, hsym, hl] at h
          simp at h
          split at h <;> simp at h
  by_cases h3 : system = "symbolic"
  · subst h3
    cases hsym : c.symbols with
    | none => simp [step3, hsym] at h
    | some syms => by_cases hl : syms.length < 1 <;> simp [step3, hsym, hl] at h
  by_cases h4 : system = "alphabetic"
  · subst h4
    cases hsym : c.symbols with
    | none => simp [step3, hsym] at h
    | some syms => by_cases hl : syms.length < 2 <;> simp [step3, hsym, hl] at h
  by_cases h5 : system = "numeric"
  · subst h5
    cases hsym : c.symbols with
    | none => simp [step3, hsym] at h
    | some syms =>
      by_cases hl : syms.length < 2
      · simp [step3, hsym, hl] at h
      · simp only [step3, hsym, hl] at h
        simp at h
        split at h <;> simp at h
  by_cases h6 : system = "additive"
  · subst h6
    cases hadd : c.additive with
    | none => simp [step3, hadd] at h
    | some tuples =>
      simp only [step3, hadd] at h
      simp at h
      split at h
      · split at h <;> simp at h
      · split at h
        · simp at h
        · split at h <;> simp at h
  simp [step3, h1, h2, h3, h4, h5, h6] at h

/-- `renderTail` runs out of fuel only if one of its recursive calls does. -/
private theorem renderTail_no_recursion (recur : Int → CName → Option (List CName) → Except CErr String)
    (value : Int) (counter : Desc) (system : String) (fixed : Option Int) (prev : List CName)
    (h1 : ∀ w, recur w (.named (counter.fallback.getD "decimal")) (some prev) ≠ .error .recursion)
    (h2 : ∀ w, recur w (.named "decimal") none ≠ .error .recursion) :
    renderTail recur value counter system fixed prev ≠ .error .recursion := by
  unfold renderTail
  cases hin : inRange counter system value with
  | error e =>
    have := inRange_err _ _ _ _ hin
    subst this
    simp
  | ok b =>
    cases b with
    | false => simpa using h1 value
    | true =>
      simp only
      cases hs : step3 counter system fixed (step3Value system value) (decide (value < 0)) with
      | err e =>
        have := step3_no_recursion counter system fixed (step3Value system value) (decide (value < 0))
        rw [hs] at this
        simp only [ne_eq, Step3.err.injEq] at this
        simpa using this
      | decimal w => simpa using h2 w
      | fallback w => simpa using h1 w
      | initial s => simp

private theorem resolve_named_some (cs : Styles) (hd : DecimalPlain cs) (n : String) (prev : List CName) :
    resolveCounter cs (.named n) (some prev) = .ok (none, some prev) ∨
    ∃ d c extra, lookup cs n = some d ∧ prev.contains (.named n) = false ∧
      resolveCounter cs (.named n) (some prev) = .ok (some c, some (prev ++ [.named n] ++ extra)) := by
  cases hl : lookup cs n with
  | none => left; simp [resolveCounter, hl]
  | some d =>
    by_cases hc : prev.contains (.named n) = true
    · left; simp only [resolveCounter, hl, hc, if_true]
    · right
      have hc' : prev.contains (.named n) = false := by simpa using hc
      have hfuel : fresh cs (prev ++ [.named n]) + 3 ≤ loopFuel cs := by
        have := fresh_le cs (prev ++ [.named n]); simp [loopFuel]; omega
      obtain ⟨c, extra, hr⟩ := resolveLoop_ok_entry cs hd (loopFuel cs) d (sysOf d).1 (sysOf d).2.1
        (prev ++ [.named n]) hfuel
      exact ⟨d, c, extra, rfl, hc', by
        simp only [resolveCounter, hl, hc, hr, bind, Except.bind, pure, Except.pure]; rfl⟩

private theorem resolve_none (cs : Styles) (hd : DecimalPlain cs) (name : CName) :
    resolveCounter cs name none = .ok (none, none) ∨ ∃ c, resolveCounter cs name none = .ok (some c, none) := by
  cases name with
  | str s => exact Or.inr ⟨_, rfl⟩
  | symbols sys args => exact Or.inr ⟨_, rfl⟩
  | named n =>
    cases hl : lookup cs n with
    | none => left; simp [resolveCounter, hl]
    | some d =>
      right
      have hfuel : fresh cs ([] ++ [CName.named n]) + 3 ≤ loopFuel cs := by
        have := fresh_le cs ([] ++ [CName.named n]); simp only [loopFuel]; omega
      obtain ⟨c, extra, hr⟩ := resolveLoop_ok_entry cs hd (loopFuel cs) d (sysOf d).1 (sysOf d).2.1
        ([] ++ [.named n]) hfuel
      exact ⟨c, by simp only [resolveCounter, hl, hr, bind, Except.bind, pure, Except.pure]⟩

/-- Fallback chains terminate: a call with a `previous_types` list needs at most `fresh + 3` levels. -/
private theorem renderValue_chain (cs : Styles) (ht : DecimalTotal cs) : ∀ fuel v n prev,
    fresh cs prev + 3 ≤ fuel → renderValue cs fuel v (.named n) (some prev) ≠ .error .recursion := by
  have hd := decimalTotal_plain cs ht
  intro fuel
  induction fuel with
  | zero => intro _ _ _ h; omega
  | succ f ih =>
    intro v n prev hfuel
    have hdec : ∀ w, renderValue cs f w (.named "decimal") none ≠ .error .recursion := by
      intro w
      cases f with
      | zero => omega
      | succ f' =>
        obtain ⟨s, hs⟩ := decimal_call_ok cs ht f' w
        rw [hs]; simp
    unfold renderValue
    rcases resolve_named_some cs hd n prev with hr | ⟨d, c, extra, hl, hc, hr⟩
    · rw [hr]
      simp only
      split
      · exact hdec v
      · simp
    · rw [hr]
      simp only
      split
      · exact hdec v
      · have hfl : fresh cs ((some (prev ++ [CName.named n] ++ extra)).getD [] ++ [CName.named n]) + 2 ≤ loopFuel cs := by
          have := fresh_le cs ((some (prev ++ [CName.named n] ++ extra)).getD [] ++ [CName.named n])
          simp [loopFuel] at *; omega
        rcases extLoop_ok cs (loopFuel cs) c (sysOf c).1 (sysOf c).2.1 (sysOf c).2.2 _ hfl with he | ⟨c2, s2, f2, extra2, he⟩
        · rw [he]; exact hdec v
        · rw [he]
          simp only
          apply renderTail_no_recursion
          · intro w
            apply ih
            have hlt := fresh_lt cs prev (extra ++ [CName.named n] ++ extra2) n d hl hc
            simp only [Option.getD_some, List.append_assoc] at hlt ⊢
            omega
          · exact hdec

/-- **Termination of fallbacks and `extends` chains** (C15.range_fallback, second half): on a table whose
`decimal` is total, a top-level `render_value` never exhausts the model's fuel — neither through
cyclic `fallback` descriptors nor through cyclic `extends`. -/
theorem render_terminates (cs : Styles) (ht : DecimalTotal cs) (v : Int) (name : CName) :
    renderValueTop cs v name ≠ .error .recursion := by
  have hd := decimalTotal_plain cs ht
  unfold renderValueTop
  have hfu : topFuel cs = (2 * cs.length + 7) + 1 := by simp [topFuel]
  rw [hfu]
  have hdec : ∀ w, renderValue cs (2 * cs.length + 7) w (.named "decimal") none ≠ .error .recursion := by
    intro w
    obtain ⟨s, hs⟩ := decimal_call_ok cs ht (2 * cs.length + 6) w
    rw [hs]; simp
  unfold renderValue
  rcases resolve_none cs hd name with hr | ⟨c, hr⟩
  · rw [hr]
    simp only
    split
    · exact hdec v
    · simp
  · rw [hr]
    simp only [isCircular, Bool.false_eq_true, if_false]
    have hfl : fresh cs ((none : Option (List CName)).getD [] ++ [name]) + 2 ≤ loopFuel cs := by
      have := fresh_le cs ((none : Option (List CName)).getD [] ++ [name])
      simp [loopFuel] at *; omega
    rcases extLoop_ok cs (loopFuel cs) c (sysOf c).1 (sysOf c).2.1 (sysOf c).2.2 _ hfl with he | ⟨c2, s2, f2, extra2, he⟩
    · rw [he]; exact hdec v
    · rw [he]
      simp only
      apply renderTail_no_recursion
      · intro w
        apply renderValue_chain cs ht
        have := fresh_le cs ((none : Option (List CName)).getD [] ++ [name] ++ extra2)
        omega
      · exact hdec

/-! ## Scoping: the implementation's state machine refines the reference semantics -/

open Spec in
/-- The refinement relation between `(counter_values, counter_scopes)` and the frame stack. -/
structure Rel (st : CState) (fr : Spec.Frames) : Prop where
  scopes : st.scopes = fr.map (·.map Prod.fst)
  values : ∀ n, vget st.values n = Spec.optStack (Spec.stack fr n)
  nodup : ∀ f ∈ fr, (f.map Prod.fst).Nodup

private theorem vget_vset_same (vs : Values) (n : String) (s : List Int) : vget (vset vs n s) n = some s := by
  induction vs with
  | nil => simp [vset, vget]
  | cons x xs ih =>
    obtain ⟨k, t⟩ := x
    by_cases h : k = n <;> simp [vset, vget, h, ih]

private theorem vget_vset_other (vs : Values) (n m : String) (s : List Int) (h : m ≠ n) :
    vget (vset vs n s) m = vget vs m := by
  induction vs with
  | nil => simp [vset, vget, h.symm]
  | cons x xs ih =>
    obtain ⟨k, t⟩ := x
    by_cases hk : k = n
    · subst hk; simp [vset, vget, h.symm]
    · by_cases hm : k = m
      · subst hm; simp [vset, vget, hk]
      · simp [vset, vget, hk, hm, ih]

private theorem vget_verase_same (vs : Values) (n : String) : vget (verase vs n) n = none := by
  induction vs with
  | nil => simp [verase, vget]
  | cons x xs ih =>
    obtain ⟨k, t⟩ := x
    by_cases h : k = n <;> simp [verase, vget, h, ih]

private theorem vget_verase_other (vs : Values) (n m : String) (h : m ≠ n) :
    vget (verase vs n) m = vget vs m := by
  induction vs with
  | nil => simp [verase, vget]
  | cons x xs ih =>
    obtain ⟨k, t⟩ := x
    by_cases hk : k = n
    · subst hk; simp [verase, vget, h.symm, ih]
    · by_cases hm : k = m
      · subst hm; simp [verase, vget, hk]
      · simp [verase, vget, hk, hm, ih]

open Spec in
private theorem flookup_mem (f : Frame) (n : String) : (flookup f n).isSome = (f.map Prod.fst).contains n := by
  induction f with
  | nil => simp [flookup]
  | cons x xs ih =>
    obtain ⟨k, v⟩ := x
    by_cases h : k = n
    · simp [flookup, h]
    · have h' : ¬ n = k := fun e => h e.symm
      simp [flookup, h, h', ih]

open Spec in
private theorem fset_keys_mem (f : Frame) (n : String) (v : Int) (h : (f.map Prod.fst).contains n = true) :
    (fset f n v).map Prod.fst = f.map Prod.fst := by
  induction f with
  | nil => simp at h
  | cons x xs ih =>
    obtain ⟨k, w⟩ := x
    by_cases hk : k = n
    · simp [fset, hk]
    · have h' : ¬ n = k := fun e => hk e.symm
      simp [h'] at h
      simp [fset, hk]
      exact ih (by simpa using h)

open Spec in
private theorem fset_keys_new (f : Frame) (n : String) (v : Int) (h : (f.map Prod.fst).contains n = false) :
    (fset f n v).map Prod.fst = f.map Prod.fst ++ [n] := by
  induction f with
  | nil => simp [fset]
  | cons x xs ih =>
    obtain ⟨k, w⟩ := x
    have hk : ¬ k = n := by
      intro e; subst e; simp at h
    have h2 : (xs.map Prod.fst).contains n = false := by
      simp at h ⊢; exact h.2
    simp [fset, hk, ih h2]

open Spec in
private theorem flookup_fset_same (f : Frame) (n : String) (v : Int) : flookup (fset f n v) n = some v := by
  induction f with
  | nil => simp [fset, flookup]
  | cons x xs ih =>
    obtain ⟨k, w⟩ := x
    by_cases hk : k = n <;> simp [fset, flookup, hk, ih]

open Spec in
private theorem flookup_fset_other (f : Frame) (n m : String) (v : Int) (h : m ≠ n) :
    flookup (fset f n v) m = flookup f m := by
  induction f with
  | nil => simp [fset, flookup, h.symm]
  | cons x xs ih =>
    obtain ⟨k, w⟩ := x
    by_cases hk : k = n
    · subst hk; simp [fset, flookup, h.symm]
    · by_cases hm : k = m
      · subst hm; simp [fset, flookup, hk]
      · simp [fset, flookup, hk, hm, ih]

open Spec in
private theorem optStack_cons (v : Int) (l : List Int) : optStack (v :: l) = some (v :: l) := by
  simp [optStack]

open Spec in
private theorem optStack_getD (l : List Int) : (optStack l).getD [] = l := by
  cases l <;> simp [optStack]

/-- `counter-reset` on one name. -/
private theorem rel_reset (st : CState) (fr : Spec.Frames) (h : Rel st fr) (hne : fr ≠ []) (n : String) (v : Int) :
    ∃ st', resetOne st n v = .ok st' ∧ Rel st' (Spec.reset fr n v) := by
  cases fr with
  | nil => exact absurd rfl hne
  | cons f rest =>
    obtain ⟨hsc, hval, hnd⟩ := h
    have hsc' : st.scopes = f.map Prod.fst :: rest.map (·.map Prod.fst) := by simpa using hsc
    unfold resetOne
    rw [hsc']
    simp only
    cases hc : (f.map Prod.fst).contains n with
    | true =>
      have hlook : (Spec.flookup f n).isSome = true := by rw [flookup_mem]; exact hc
      obtain ⟨old, hold⟩ := Option.isSome_iff_exists.mp hlook
      have hv := hval n
      simp only [Spec.stack, hold, optStack_cons] at hv
      simp only [if_true, hv]
      refine ⟨_, rfl, ?_, ?_, ?_⟩
      · simp [Spec.reset, fset_keys_mem f n v hc]
      · intro m
        by_cases hm : m = n
        · subst hm
          simp [vget_vset_same, Spec.reset, Spec.stack, flookup_fset_same, optStack_cons]
        · rw [vget_vset_other _ _ _ _ hm, hval m]
          simp [Spec.reset, Spec.stack, flookup_fset_other f n m v hm]
      · intro g hg
        simp only [Spec.reset, List.mem_cons] at hg
        rcases hg with e | hg
        · subst e; rw [fset_keys_mem f n v hc]; exact hnd f List.mem_cons_self
        · exact hnd g (List.mem_cons_of_mem _ hg)
    | false =>
      have hlook : Spec.flookup f n = none := by
        have := flookup_mem f n
        rw [hc] at this
        simpa using this
      have hv := hval n
      simp only [Spec.stack, hlook] at hv
      simp only [Bool.false_eq_true, if_false]
      refine ⟨_, rfl, ?_, ?_, ?_⟩
      · simp [Spec.reset, fset_keys_new f n v hc]
      · intro m
        by_cases hm : m = n
        · subst hm
          simp [vget_vset_same, Spec.reset, Spec.stack, flookup_fset_same, optStack_cons, hv, optStack_getD]
        · simp only
          rw [vget_vset_other _ _ _ _ hm, hval m]
          simp [Spec.reset, Spec.stack, flookup_fset_other f n m v hm]
      · intro g hg
        simp only [Spec.reset, List.mem_cons] at hg
        rcases hg with e | hg
        · subst e
          rw [fset_keys_new f n v hc]
          have := hnd f List.mem_cons_self
          rw [List.nodup_append]
          refine ⟨this, by simp, ?_⟩
          intro a ha b hb
          simp at hb; subst hb
          intro e; subst e
          have : (f.map Prod.fst).contains a = true := by simpa using ha
          rw [hc] at this; cases this
        · exact hnd g (List.mem_cons_of_mem _ hg)


open Spec in
private theorem fmodify_keys (f : Frame) (n : String) (g : Int → Int) :
    (fmodify f n g).map Prod.fst = f.map Prod.fst := by
  induction f with
  | nil => simp [fmodify]
  | cons x xs ih =>
    obtain ⟨k, w⟩ := x
    by_cases hk : k = n <;> simp [fmodify, hk, ih]

open Spec in
private theorem flookup_fmodify_same (f : Frame) (n : String) (g : Int → Int) :
    flookup (fmodify f n g) n = (flookup f n).map g := by
  induction f with
  | nil => simp [fmodify, flookup]
  | cons x xs ih =>
    obtain ⟨k, w⟩ := x
    by_cases hk : k = n <;> simp [fmodify, flookup, hk, ih]

open Spec in
private theorem flookup_fmodify_other (f : Frame) (n m : String) (g : Int → Int) (h : m ≠ n) :
    flookup (fmodify f n g) m = flookup f m := by
  induction f with
  | nil => simp [fmodify, flookup]
  | cons x xs ih =>
    obtain ⟨k, w⟩ := x
    by_cases hk : k = n
    · subst hk; simp [fmodify, flookup, h.symm]
    · by_cases hm : k = m
      · subst hm; simp [fmodify, flookup, hk]
      · simp [fmodify, flookup, hk, hm, ih]

open Spec in
private theorem flookup_append (f : Frame) (n m : String) (v : Int) :
    flookup (f ++ [(n, v)]) m = (flookup f m).orElse (fun _ => if n = m then some v else none) := by
  induction f with
  | nil => simp [flookup]
  | cons x xs ih =>
    obtain ⟨k, w⟩ := x
    by_cases hk : k = m <;> simp [flookup, hk, ih]

open Spec in
private theorem modifyInner_none (g : Int → Int) (n : String) (fr : Frames) (h : stack fr n = []) :
    modifyInner g n fr = none := by
  induction fr with
  | nil => rfl
  | cons f rest ih =>
    unfold stack at h
    unfold modifyInner
    cases hl : flookup f n with
    | some v => simp [hl] at h
    | none =>
      simp only [hl] at h ⊢
      simp [ih h]

open Spec in
private theorem modifyInner_some (g : Int → Int) (n : String) (fr : Frames) (top : Int) (tl : List Int)
    (h : stack fr n = top :: tl) :
    ∃ fr', modifyInner g n fr = some fr' ∧ fr'.map (·.map Prod.fst) = fr.map (·.map Prod.fst) ∧
      stack fr' n = g top :: tl ∧ ∀ m, m ≠ n → stack fr' m = stack fr m := by
  induction fr with
  | nil => simp [stack] at h
  | cons f rest ih =>
    unfold stack at h
    unfold modifyInner
    cases hl : flookup f n with
    | some v =>
      simp only [hl] at h ⊢
      injection h with h1 h2
      subst h1 h2
      refine ⟨_, rfl, by simp [fmodify_keys], ?_, ?_⟩
      · simp [stack, flookup_fmodify_same, hl]
      · intro m hm
        simp [stack, flookup_fmodify_other f n m g hm]
    | none =>
      simp only [hl] at h ⊢
      obtain ⟨fr', h1, h2, h3, h4⟩ := ih h
      refine ⟨f :: fr', by simp [h1], by simp [h2], ?_, ?_⟩
      · simp [stack, hl, h3]
      · intro m hm
        simp [stack, h4 m hm]

/-- `counter-set` / `counter-increment` on one name. -/
private theorem rel_touch (g : Int → Int) (st : CState) (fr : Spec.Frames) (h : Rel st fr) (hne : fr ≠ [])
    (n : String) : ∃ st', touchOne g st n = .ok st' ∧ Rel st' (Spec.touch g fr n) := by
  cases fr with
  | nil => exact absurd rfl hne
  | cons f rest =>
    obtain ⟨hsc, hval, hnd⟩ := h
    have hsc' : st.scopes = f.map Prod.fst :: rest.map (·.map Prod.fst) := by simpa using hsc
    unfold touchOne
    rw [hsc']
    simp only
    rw [hval n, optStack_getD]
    cases hst : Spec.stack (f :: rest) n with
    | nil =>
      have hlook : Spec.flookup f n = none := by
        cases hl : Spec.flookup f n with
        | none => rfl
        | some v => simp [Spec.stack, hl] at hst
      have hrest : Spec.stack rest n = [] := by simpa [Spec.stack, hlook] using hst
      have hc : (f.map Prod.fst).contains n = false := by
        have := flookup_mem f n
        rw [hlook] at this
        simpa using this.symm
      simp only [hc, Bool.false_eq_true, if_false]
      refine ⟨_, rfl, ?_, ?_, ?_⟩
      · simp [Spec.touch, modifyInner_none g n (f :: rest) hst]
      · intro m
        simp only [Spec.touch, modifyInner_none g n (f :: rest) hst]
        by_cases hm : m = n
        · subst hm
          simp [vget_vset_same, Spec.stack, flookup_append, hlook, hrest, Spec.optStack]
        · have hnm : ¬ n = m := fun e => hm e.symm
          rw [vget_vset_other _ _ _ _ hm, hval m]
          simp only [Spec.stack, flookup_append, hnm, if_false]
          cases Spec.flookup f m <;> simp
      · intro g' hg
        simp only [Spec.touch, modifyInner_none g n (f :: rest) hst, List.mem_cons] at hg
        rcases hg with e | hg
        · subst e
          have := hnd f List.mem_cons_self
          simp only [List.map_append, List.map_cons, List.map_nil]
          rw [List.nodup_append]
          refine ⟨this, by simp, ?_⟩
          intro a ha b hb
          simp at hb; subst hb
          intro e; subst e
          have : (f.map Prod.fst).contains a = true := by simpa using ha
          rw [hc] at this; cases this
        · exact hnd g' (List.mem_cons_of_mem _ hg)
    | cons top tl =>
      obtain ⟨fr', h1, h2, h3, h4⟩ := modifyInner_some g n (f :: rest) top tl hst
      simp only
      refine ⟨_, rfl, ?_, ?_, ?_⟩
      · simp only [Spec.touch, h1, h2]; simp
      · intro m
        simp only [Spec.touch, h1]
        by_cases hm : m = n
        · subst hm; simp [vget_vset_same, h3, Spec.optStack]
        · rw [vget_vset_other _ _ _ _ hm, hval m, h4 m hm]
      · intro g' hg
        simp only [Spec.touch, h1] at hg
        have hk : (g'.map Prod.fst) ∈ fr'.map (·.map Prod.fst) := List.mem_map_of_mem hg
        rw [h2] at hk
        obtain ⟨f0, hf0, he⟩ := List.mem_map.mp hk
        rw [← he]; exact hnd f0 hf0


private theorem reset_ne (fr : Spec.Frames) (n : String) (v : Int) (h : fr ≠ []) : Spec.reset fr n v ≠ [] := by
  cases fr with
  | nil => exact absurd rfl h
  | cons f rest => simp [Spec.reset]

private theorem touch_ne (g : Int → Int) (fr : Spec.Frames) (n : String) (h : fr ≠ []) : Spec.touch g fr n ≠ [] := by
  cases fr with
  | nil => exact absurd rfl h
  | cons f rest =>
    cases hm : Spec.modifyInner g n (f :: rest) with
    | none => simp [Spec.touch, hm]
    | some fr' =>
      simp only [Spec.touch, hm]
      intro e; subst e
      unfold Spec.modifyInner at hm
      cases hl : Spec.flookup f n with
      | some v => simp [hl] at hm
      | none => simp [hl] at hm

private theorem rel_fold (fi : CState → String → Int → Except CErr CState)
    (fs : Spec.Frames → String → Int → Spec.Frames)
    (hstep : ∀ st fr, Rel st fr → fr ≠ [] → ∀ n v, ∃ st', fi st n v = .ok st' ∧ Rel st' (fs fr n v) ∧ fs fr n v ≠ []) :
    ∀ (l : List (String × Int)) st fr, Rel st fr → fr ≠ [] →
      ∃ st', foldPairs fi l st = .ok st' ∧ Rel st' (Spec.foldPairs fs l fr) ∧ Spec.foldPairs fs l fr ≠ [] := by
  intro l
  induction l with
  | nil => intro st fr h hne; exact ⟨st, rfl, h, hne⟩
  | cons x xs ih =>
    intro st fr h hne
    obtain ⟨n, v⟩ := x
    obtain ⟨st1, h1, hr1, hne1⟩ := hstep st fr h hne n v
    obtain ⟨st2, h2, hr2, hne2⟩ := ih st1 _ hr1 hne1
    exact ⟨st2, by simp [foldPairs, h1, h2, bind, Except.bind], by simpa [Spec.foldPairs] using hr2,
      by simpa [Spec.foldPairs] using hne2⟩

/-- `update_counters` never raises on a state related to a frame stack and follows the reference. -/
theorem update_refines (st : CState) (fr : Spec.Frames) (h : Rel st fr) (hne : fr ≠ []) (o : Ops) :
    ∃ st', updateCounters st o = .ok st' ∧ Rel st' (Spec.update fr o) ∧ Spec.update fr o ≠ [] := by
  unfold updateCounters Spec.update
  obtain ⟨st1, h1, r1, n1⟩ := rel_fold resetOne Spec.reset
    (fun st fr h hne n v => by
      obtain ⟨st', a, b⟩ := rel_reset st fr h hne n v
      exact ⟨st', a, b, reset_ne fr n v hne⟩) o.reset st fr h hne
  obtain ⟨st2, h2, r2, n2⟩ := rel_fold (fun s n v => touchOne (fun _ => v) s n) (fun s n v => Spec.touch (fun _ => v) s n)
    (fun st fr h hne n v => by
      obtain ⟨st', a, b⟩ := rel_touch (fun _ => v) st fr h hne n
      exact ⟨st', a, b, touch_ne _ fr n hne⟩) o.set st1 _ r1 n1
  obtain ⟨st3, h3, r3, n3⟩ := rel_fold (fun s n v => touchOne (fun t => t + v) s n) (fun s n v => Spec.touch (fun t => t + v) s n)
    (fun st fr h hne n v => by
      obtain ⟨st', a, b⟩ := rel_touch (fun t => t + v) st fr h hne n
      exact ⟨st', a, b, touch_ne _ fr n hne⟩)
    (match o.incr with
      | some l => l
      | none => if o.disp = .listItem then [("list-item", 1)] else []) st2 _ r2 n2
  exact ⟨st3, by simp only [h1, h2, bind, Except.bind]; exact h3, r3, n3⟩

theorem push_refines (st : CState) (fr : Spec.Frames) (h : Rel st fr) : Rel (pushScope st) ([] :: fr) := by
  obtain ⟨hsc, hval, hnd⟩ := h
  refine ⟨by simp [pushScope, hsc], ?_, ?_⟩
  · intro n; simp [pushScope, Spec.stack, Spec.flookup, hval n]
  · intro f hf
    rcases List.mem_cons.mp hf with e | hf
    · subst e; simp
    · exact hnd f hf

open Spec in
private theorem popNames_refines (rest : Frames) : ∀ (f : Frame) (vs : Values), (f.map Prod.fst).Nodup →
    (∀ n, vget vs n = optStack (stack (f :: rest) n)) →
    ∃ vs', popNames (f.map Prod.fst) vs = .ok vs' ∧ ∀ n, vget vs' n = optStack (stack rest n) := by
  intro f
  induction f with
  | nil =>
    intro vs _ hv
    exact ⟨vs, rfl, fun n => by simpa [stack, flookup] using hv n⟩
  | cons x xs ih =>
    intro vs hnd hv
    obtain ⟨k, w⟩ := x
    have hnd' : (xs.map Prod.fst).Nodup := (List.nodup_cons.mp (by simpa using hnd)).2
    have hk : ¬ k ∈ xs.map Prod.fst := (List.nodup_cons.mp (by simpa using hnd)).1
    have hxk : flookup xs k = none := by
      have := flookup_mem xs k
      cases hl : flookup xs k with
      | none => rfl
      | some v =>
        rw [hl] at this
        have : k ∈ xs.map Prod.fst := by simpa using this.symm
        exact absurd this hk
    have hvk := hv k
    simp only [stack, flookup, if_true, optStack_cons] at hvk
    simp only [List.map_cons, popNames, hvk]
    have key : ∀ vs1 : Values, (vget vs1 k = optStack (stack rest k)) → (∀ m, m ≠ k → vget vs1 m = vget vs m) →
        ∀ n, vget vs1 n = optStack (stack (xs :: rest) n) := by
      intro vs1 h1 h2 n
      by_cases hn : n = k
      · subst hn; simp [stack, hxk, h1]
      · rw [h2 n hn, hv n]
        have : ¬ k = n := fun e => hn e.symm
        simp [stack, flookup, this]
    cases hr : stack rest k with
    | nil =>
      exact ih (verase vs k) hnd' (key _ (by simp [vget_verase_same, hr, optStack])
        (fun m hm => vget_verase_other vs k m hm))
    | cons a b =>
      exact ih (vset vs k (a :: b)) hnd' (key _ (by simp [vget_vset_same, hr, optStack])
        (fun m hm => vget_vset_other vs k m _ hm))

theorem pop_refines (st : CState) (fr : Spec.Frames) (h : Rel st fr) (hne : fr ≠ []) :
    ∃ st', popScope st = .ok st' ∧ Rel st' fr.tail := by
  cases fr with
  | nil => exact absurd rfl hne
  | cons f rest =>
    obtain ⟨hsc, hval, hnd⟩ := h
    have hsc' : st.scopes = f.map Prod.fst :: rest.map (·.map Prod.fst) := by simpa using hsc
    obtain ⟨vs', h1, h2⟩ := popNames_refines rest f st.values (hnd f List.mem_cons_self) hval
    refine ⟨⟨vs', rest.map (·.map Prod.fst)⟩, ?_, ?_, ?_, ?_⟩
    · simp [popScope, hsc', h1, bind, Except.bind, pure, Except.pure]
    · simp
    · exact h2
    · intro g hg; exact hnd g (List.mem_cons_of_mem _ hg)

/-! ## Generic simulation over the traversal of `element_to_box` -/

/-- Two computations fail with the same Python exception or succeed with related results. -/
def ExSim {α β : Type} (P : α → β → Prop) : Except CErr α → Except CErr β → Prop
  | .ok a, .ok b => P a b
  | .error e, .error e' => e = e'
  | _, _ => False

private theorem ExSim.bind {α β γ δ : Type} {P : α → β → Prop} {Q : γ → δ → Prop}
    {x : Except CErr α} {y : Except CErr β} {f : α → Except CErr γ} {g : β → Except CErr δ}
    (h : ExSim P x y) (hf : ∀ a b, P a b → ExSim Q (f a) (g b)) : ExSim Q (x >>= f) (y >>= g) := by
  cases x <;> cases y <;> simp_all [ExSim, Bind.bind, Except.bind]

private theorem ExSim.of_eq {α : Type} (x : Except CErr α) : ExSim Eq x x := by
  cases x <;> simp [ExSim]

/-- Generic simulation: two counter machines related level by level (the level is the number of open
elements) produce the same generated texts and the same target snapshots. -/
structure Simulation {σ τ : Type} (A : Machine σ) (B : Machine τ) (R : Nat → σ → τ → Prop) : Prop where
  update : ∀ k a b o, R k a b → ExSim (R k) (A.update a o) (B.update b o)
  push : ∀ k a b, R k a b → R (k + 1) (A.push a) (B.push b)
  pop : ∀ k a b, R (k + 1) a b → ExSim (R k) (A.pop a) (B.pop b)
  stack : ∀ k a b, R k a b → A.stack a = B.stack b

def RunRel {σ τ : Type} (R : σ → τ → Prop) (r : RunOut σ) (r' : RunOut τ) : Prop :=
  r.obs = r'.obs ∧ r.stored = r'.stored ∧ R r.state r'.state

section
variable {σ τ : Type} {A : Machine σ} {B : Machine τ} {R : Nat → σ → τ → Prop}

private theorem sim_pseudo (S : Simulation A B R) (cs : Styles) (targets : Targets) (kind : String)
    (p : Option Pseudo) (k : Nat) (a : σ) (b : τ) (h : R k a b) :
    ExSim (fun x y => x.1 = y.1 ∧ R k x.2 y.2) (pseudoRun A cs targets kind p a) (pseudoRun B cs targets kind p b) := by
  cases p with
  | none => simp [pseudoRun, ExSim, h]
  | some p =>
    simp only [pseudoRun]
    refine ExSim.bind (S.update k a b p.ops h) ?_
    intro a1 b1 h1
    rw [S.stack k a1 b1 h1]
    refine ExSim.bind (ExSim.of_eq _) ?_
    intro t t' ht
    subst ht
    simp [ExSim, pure, Except.pure, h1]

mutual
theorem sim_elem (S : Simulation A B R) (cs : Styles) (targets : Targets) :
    ∀ (e : Elem) (k : Nat) (a : σ) (b : τ) (stored : Targets), R k a b →
      ExSim (RunRel (R k)) (elemRun A cs targets e a stored) (elemRun B cs targets e b stored)
  | .mk ops listStyle markerContent anchor before after kids, k, a, b, stored, h => by
    unfold elemRun
    by_cases hd : ops.disp = .none
    · simp [hd, ExSim, RunRel, h]
    · simp only [hd, if_false]
      refine ExSim.bind (S.update k a b ops h) ?_
      intro a1 b1 h1
      have h2 := S.push k a1 b1 h1
      rw [S.stack (k + 1) _ _ h2]
      by_cases hli : ops.disp = .listItem
      all_goals
        simp only [hli, if_true, if_false]
        refine ExSim.bind (ExSim.of_eq _) ?_
        intro mk mk' hmk
        subst hmk
        refine ExSim.bind (sim_pseudo S cs targets "before" before (k + 1) _ _ h2) ?_
        intro pb pb' hpb
        obtain ⟨hob, hrb⟩ := hpb
        rw [S.stack (k + 1) _ _ hrb]
        refine ExSim.bind (sim_kids S cs targets kids (k + 1) pb.2 pb'.2 _ hrb) ?_
        intro r r' hr
        obtain ⟨hro, hrs, hrr⟩ := hr
        refine ExSim.bind (sim_pseudo S cs targets "after" after (k + 1) _ _ hrr) ?_
        intro pa pa' hpa
        obtain ⟨hoa, hra⟩ := hpa
        refine ExSim.bind (S.pop k _ _ hra) ?_
        intro a3 b3 h3
        simp [ExSim, pure, Except.pure, RunRel, hob, hro, hoa, hrs, h3]
theorem sim_kids (S : Simulation A B R) (cs : Styles) (targets : Targets) :
    ∀ (es : List Elem) (k : Nat) (a : σ) (b : τ) (stored : Targets), R k a b →
      ExSim (RunRel (R k)) (kidsRun A cs targets es a stored) (kidsRun B cs targets es b stored)
  | [], k, a, b, stored, h => by simp [kidsRun, ExSim, RunRel, h]
  | e :: rest, k, a, b, stored, h => by
    unfold kidsRun
    refine ExSim.bind (sim_elem S cs targets e k a b stored h) ?_
    intro r1 r1' hr1
    obtain ⟨ho1, hs1, hr1⟩ := hr1
    rw [hs1]
    refine ExSim.bind (sim_kids S cs targets rest k _ _ _ hr1) ?_
    intro r2 r2' hr2
    obtain ⟨ho2, hs2, hr2⟩ := hr2
    simp [ExSim, pure, Except.pure, RunRel, ho1, ho2, hs2, hr2]
end

end

/-! ## `render_value`: range, fallback, representable values; `render_marker` -/

/-- `render_value` once `resolve_counter` returned a style whose system is not `extends` and the
circularity test does not fire: steps 2–6 (`renderTail`) with `previous_types + [counter_name]`. -/
theorem renderValue_resolved (cs : Styles) (fuel : Nat) (value : Int) (name : CName)
    (prev prev' : Option (List CName)) (counter : Desc) (system : String) (fixed : Option Int)
    (hr : resolveCounter cs name prev = .ok (some counter, prev'))
    (hs : sysOf counter = (false, system, fixed)) (hc : isCircular prev' system = false) :
    renderValue cs (fuel + 1) value name prev =
      renderTail (renderValue cs fuel) value counter system fixed (prev'.getD [] ++ [name]) := by
  unfold renderValue
  simp only [hr, hs, hc, Bool.false_eq_true, if_false, extLoop_noext]

/-- **C15.range_fallback** — outside the (automatic or explicit) range the `fallback` style (default
`decimal`) renders the *same value*, with `previous_types` handed on (`render_terminates` shows the
chain ends, also for cyclic fallbacks). -/
theorem range_fallback (recur : Int → CName → Option (List CName) → Except CErr String) (value : Int)
    (counter : Desc) (system : String) (fixed : Option Int) (prev : List CName)
    (h : inRange counter system value = .ok false) :
    renderTail recur value counter system fixed prev =
      recur value (.named (counter.fallback.getD "decimal")) (some prev) := by
  simp [renderTail, h]

/-- The automatic range: `1 …` for alphabetic and symbolic, `0 …` for additive, everything otherwise. -/
theorem auto_range (counter : Desc) (system : String) (v : Int) (h : counter.range = none ∨ counter.range = some .auto) :
    inRange counter system v = .ok (
      if system = "alphabetic" ∨ system = "symbolic" then decide (1 ≤ v)
      else if system = "additive" then decide (0 ≤ v) else true) := by
  rcases h with h | h <;>
  · simp only [inRange, h, autoRange]
    by_cases h1 : system = "alphabetic" ∨ system = "symbolic"
    · rcases h1 with h1 | h1 <;> simp [h1, Bound.leInt, Bound.geInt]
    · have ha : ¬ system = "alphabetic" := fun e => h1 (Or.inl e)
      have hs : ¬ system = "symbolic" := fun e => h1 (Or.inr e)
      by_cases h2 : system = "additive" <;> simp [ha, hs, h2, Bound.leInt, Bound.geInt]

private theorem inRanges_pairs (v : Int) : ∀ (l : List (Bound × Bound)),
    inRanges v (l.map fun p => .pair p.1 p.2) = .ok (l.any fun p => p.1.leInt v && p.2.geInt v) := by
  intro l
  induction l with
  | nil => simp [inRanges]
  | cons p ps ih =>
    simp only [List.map_cons, inRanges, List.any_cons]
    by_cases hp : (p.1.leInt v && p.2.geInt v) = true
    · simp [hp]
    · simp only [hp, Bool.false_eq_true, if_false, Bool.false_or]
      exact ih

/-- An explicit range is a union of closed intervals (`infinite` bounds allowed). -/
theorem explicit_range (counter : Desc) (system : String) (v : Int) (l : List (Bound × Bound))
    (h : counter.range = some (.entries (l.map fun p => .pair p.1 p.2))) :
    inRange counter system v = .ok (l.any fun p => p.1.leInt v && p.2.geInt v) := by
  simp only [inRange, h]
  exact inRanges_pairs v l

private theorem inRanges_total (v : Int) : ∀ (l : List RangeEntry), RangeEntry.autoKw ∉ l →
    ∃ b, inRanges v l = .ok b := by
  intro l
  induction l with
  | nil => intro _; exact ⟨false, rfl⟩
  | cons x xs ih =>
    intro h
    cases x with
    | autoKw => simp at h
    | pair lo hi =>
      unfold inRanges
      split
      · exact ⟨true, rfl⟩
      · exact ih (fun hm => h (List.mem_cons_of_mem _ hm))

/-- The range test of `render_value` fails only on a tuple holding something that is not a pair.  No
validator produces such a tuple since `fix:` 5be1d36 (`C15.range_test_total` in Props/C15Desc.lean is the
full statement over validated descriptors; before the repair `range: auto` was stored as `('auto',)`). -/
theorem range_test_total_pairs (counter : Desc) (system : String) (v : Int)
    (h : ∀ l, counter.range = some (.entries l) → RangeEntry.autoKw ∉ l) :
    ∃ b, inRange counter system v = .ok b := by
  cases hr : counter.range with
  | none => exact ⟨(autoRange system).1.leInt v && (autoRange system).2.geInt v, by simp only [inRange, hr]⟩
  | some r =>
    cases r with
    | auto => exact ⟨(autoRange system).1.leInt v && (autoRange system).2.geInt v, by simp only [inRange, hr]⟩
    | entries l =>
      obtain ⟨b, hb⟩ := inRanges_total v l (h l hr)
      exact ⟨b, by simp only [inRange, hr, hb]⟩

/-- In range and representable: the text is the initial representation, padded and signed. -/
theorem render_representable (recur : Int → CName → Option (List CName) → Except CErr String) (value : Int)
    (counter : Desc) (system : String) (fixed : Option Int) (prev : List CName) (s : String)
    (hin : inRange counter system value = .ok true)
    (h3 : step3 counter system fixed (step3Value system value) (decide (value < 0)) = .initial s) :
    renderTail recur value counter system fixed prev =
      .ok (padNeg counter (decide (value < 0) && usesNegative system) s) := by
  simp [renderTail, hin, h3]

/-- In range but not representable (fixed outside its window, additive remainder): the fallback style
renders the **original** value (`fallback_original_value`). -/
theorem unrepresentable_fallback (recur : Int → CName → Option (List CName) → Except CErr String) (value w : Int)
    (counter : Desc) (system : String) (fixed : Option Int) (prev : List CName)
    (hin : inRange counter system value = .ok true)
    (h3 : step3 counter system fixed (step3Value system value) (decide (value < 0)) = .fallback w) :
    renderTail recur value counter system fixed prev =
      recur value (.named (counter.fallback.getD "decimal")) (some prev) := by
  have := fallback_original_value counter system fixed value w h3
  subst this
  simp [renderTail, hin, h3]

/-- **C15.too_few_symbols_decimal** (since `fix:` 1bdaf16, for every system and every sign): a resolved style
whose algorithm has too few symbols (possible only through `extends`) renders the value exactly as `decimal`
renders **that value** — `render_value(value, 'decimal')`. -/
theorem too_few_symbols_decimal (recur : Int → CName → Option (List CName) → Except CErr String) (value w : Int)
    (counter : Desc) (system : String) (fixed : Option Int) (prev : List CName)
    (hin : inRange counter system value = .ok true)
    (h3 : step3 counter system fixed (step3Value system value) (decide (value < 0)) = .decimal w) :
    renderTail recur value counter system fixed prev = recur value (.named "decimal") none := by
  have := decimal_fallback_value counter system fixed value w h3
  subst this
  simp [renderTail, hin, h3]

/-- The negative sign is used exactly when the value is negative and the system is one of the four. -/
theorem sign_used_iff (value : Int) (system : String) :
    (decide (value < 0) && usesNegative system) = true ↔
      value < 0 ∧ (system = "symbolic" ∨ system = "alphabetic" ∨ system = "numeric" ∨ system = "additive") := by
  simp [usesNegative_iff]

/-- **C15.marker** — `render_marker = prefix ++ render_value ++ suffix`, the default suffix being `". "`. -/
theorem marker (cs : Styles) (name : CName) (value : Int) (c : Desc) (p : Option (List CName))
    (hr : resolveCounter cs name none = .ok (some c, p)) :
    renderMarker cs name value =
      (renderValueTop cs value name).map fun t =>
        (c.pfx.getD (.str "")).text ++ t ++ (c.sfx.getD (.str ". ")).text := by
  unfold renderMarker
  simp only [hr, bind, Except.bind]
  cases renderValueTop cs value name <;> rfl

theorem marker_default_suffix (c : Desc) (h : c.sfx = none) : (c.sfx.getD (.str ". ")).text = ". " := by
  simp [h, Sym.text]

/-- A style that is not an `extends` style resolves to itself. -/
theorem resolve_plain (cs : Styles) (n : String) (d : Desc) (h : lookup cs n = some d) (he : (sysOf d).1 = false) :
    resolveCounter cs (.named n) none = .ok (some d, none) := by
  simp only [resolveCounter, h]
  rw [loopFuel_succ]
  simp [resolveLoop, he, bind, Except.bind, pure, Except.pure]

/-- End to end for a named style that is not an `extends` style: a top-level `render_value` is steps
2–6 on the style's own descriptors, with `previous_types = [name]` for the fallback. -/
theorem render_plain (cs : Styles) (n : String) (d : Desc) (system : String) (fixed : Option Int) (v : Int)
    (h : lookup cs n = some d) (hs : sysOf d = (false, system, fixed)) :
    renderValueTop cs v (.named n) =
      renderTail (renderValue cs (2 * cs.length + 7)) v d system fixed [.named n] := by
  have hfu : topFuel cs = (2 * cs.length + 7) + 1 := by simp [topFuel]
  unfold renderValueTop
  rw [hfu, renderValue_resolved cs _ v (.named n) none none d system fixed
    (resolve_plain cs n d h (by rw [hs])) hs rfl]
  simp

/-! ## Facts about the generated UA table (re-checked whenever html5_ua.css changes) -/

/-- `decimal` of the UA table is the numeric style over ten digits with the automatic range. -/
theorem ua_decimal : lookup Gen.uaCounterStyles "decimal" = some
    { system := some ⟨false, "numeric", none⟩,
      symbols := some [.str "0", .str "1", .str "2", .str "3", .str "4", .str "5", .str "6", .str "7",
        .str "8", .str "9"] } := by
  decide

theorem ua_decimal_total : DecimalTotal Gen.uaCounterStyles := by
  intro d hd
  rw [ua_decimal] at hd
  cases hd
  exact ⟨rfl, ⟨_, rfl, by decide⟩, Or.inl rfl⟩

/-- No predefined style can make `render_value` run forever, whatever its fallback / extends chain. -/
theorem ua_render_terminates (v : Int) (name : CName) :
    renderValueTop Gen.uaCounterStyles v name ≠ .error .recursion :=
  render_terminates _ ua_decimal_total v name

private theorem lookup_append (a b : Styles) (n : String) :
    lookup (a ++ b) n = (lookup a n).orElse fun _ => lookup b n := by
  induction a with
  | nil => simp [lookup]
  | cons x xs ih =>
    obtain ⟨k, d⟩ := x
    by_cases hk : k = n <;> simp [lookup, hk, ih]

/-- Author styles on top of the UA table (they cannot redefine `decimal`:
`parse_counter_style_name`): still terminating. -/
theorem author_render_terminates (author : Styles) (h : lookup author "decimal" = none) (v : Int) (name : CName) :
    renderValueTop (author ++ Gen.uaCounterStyles) v name ≠ .error .recursion := by
  apply render_terminates
  intro d hd
  rw [lookup_append, h] at hd
  exact ua_decimal_total d hd

/-- Every predefined additive style lists its weights in strictly decreasing order (so that
`additive_sorted` applies), and every `range` is made of pairs. -/
theorem ua_additive_descending : ∀ p ∈ Gen.uaCounterStyles,
    (p.2.additive.getD []).Pairwise (fun a b => a.1 > b.1) := by
  decide

/-- No predefined style has a range tuple holding a non-pair (which would make `render_value` raise). -/
def rangeIsPairs : Option RangeDesc → Bool
  | some (.entries l) => !l.contains .autoKw
  | _ => true

theorem ua_ranges_are_pairs : ∀ p ∈ Gen.uaCounterStyles, rangeIsPairs p.2.range = true := by
  decide

/-- Every `extends` of the UA table names an existing style that does not itself extend. -/
theorem ua_extends_resolved : ∀ p ∈ Gen.uaCounterStyles, (sysOf p.2).1 = true →
    ((lookup Gen.uaCounterStyles (sysOf p.2).2.1).any fun d => !(sysOf d).1) = true := by
  decide

/-- Every predefined non-`extends` style has the symbols its system needs (no TypeError / IndexError /
decimal-fallback branch of step 3 is reachable from the UA table). -/
theorem ua_symbol_counts : ∀ p ∈ Gen.uaCounterStyles, (sysOf p.2).1 = false →
    (if (sysOf p.2).2.1 = "additive" then (p.2.additive.getD []).length ≥ 1
     else if (sysOf p.2).2.1 = "numeric" ∨ (sysOf p.2).2.1 = "alphabetic" then (p.2.symbols.getD []).length ≥ 2
     else (p.2.symbols.getD []).length ≥ 1) := by
  decide


/-- Well-known renderings of the predefined styles (css-counter-styles-3 §6), evaluated on the generated
table: an edit of html5_ua.css that changes one of them breaks this proof. -/
theorem ua_samples :
    renderValueTop Gen.uaCounterStyles 42 (.named "decimal") = .ok "42" ∧
    renderValueTop Gen.uaCounterStyles (-7) (.named "decimal") = .ok "-7" ∧
    renderValueTop Gen.uaCounterStyles 7 (.named "decimal-leading-zero") = .ok "07" ∧
    renderValueTop Gen.uaCounterStyles (-7) (.named "decimal-leading-zero") = .ok "-7" ∧
    renderValueTop Gen.uaCounterStyles 1994 (.named "lower-roman") = .ok "mcmxciv" ∧
    renderValueTop Gen.uaCounterStyles 2024 (.named "upper-roman") = .ok "MMXXIV" ∧
    renderValueTop Gen.uaCounterStyles 4000 (.named "upper-roman") = .ok "4000" ∧
    renderValueTop Gen.uaCounterStyles 0 (.named "lower-roman") = .ok "0" ∧
    renderValueTop Gen.uaCounterStyles 28 (.named "lower-alpha") = .ok "ab" ∧
    renderValueTop Gen.uaCounterStyles 27 (.named "upper-alpha") = .ok "AA" ∧
    renderValueTop Gen.uaCounterStyles 0 (.named "lower-alpha") = .ok "0" ∧
    renderValueTop Gen.uaCounterStyles 3 (.named "lower-latin") = .ok "c" ∧
    renderValueTop Gen.uaCounterStyles 26 (.named "upper-latin") = .ok "Z" ∧
    renderValueTop Gen.uaCounterStyles 3 (.named "lower-greek") = .ok "γ" ∧
    renderValueTop Gen.uaCounterStyles 5 (.named "disc") = .ok "•" ∧
    renderValueTop Gen.uaCounterStyles 10 (.named "cjk-decimal") = .ok "一〇" ∧
    renderValueTop Gen.uaCounterStyles (-1) (.named "cjk-decimal") = .ok "-1" ∧
    renderValueTop Gen.uaCounterStyles 1 (.named "hiragana") = .ok "あ" ∧
    renderValueTop Gen.uaCounterStyles 2 (.named "katakana") = .ok "イ" ∧
    renderValueTop Gen.uaCounterStyles 15 (.named "hebrew") = .ok "טו" ∧
    renderValueTop Gen.uaCounterStyles 10 (.named "arabic-indic") = .ok "١٠" ∧
    renderValueTop Gen.uaCounterStyles 4 (.named "bengali") = .ok "৪" ∧
    renderValueTop Gen.uaCounterStyles 3 (.named "thai") = .ok "๓" ∧
    renderValueTop Gen.uaCounterStyles 0 (.named "japanese-informal") = .ok "〇" ∧
    renderValueTop Gen.uaCounterStyles 7 (.named "no-such-style") = .ok "7" ∧
    renderMarker Gen.uaCounterStyles (.named "decimal") 3 = .ok "3. " ∧
    renderMarker Gen.uaCounterStyles (.named "disc") 3 = .ok "• " ∧
    renderMarker Gen.uaCounterStyles (.named "cjk-decimal") 3 = .ok "三、" := by
  decide

/-! ## Scoping: `update_counters` + `element_to_box` refine the reference semantics -/

private theorem modifyInner_length (g : Int → Int) (n : String) : ∀ (fr fr' : Spec.Frames),
    Spec.modifyInner g n fr = some fr' → fr'.length = fr.length := by
  intro fr
  induction fr with
  | nil => intro fr' h; simp [Spec.modifyInner] at h
  | cons f rest ih =>
    intro fr' h
    unfold Spec.modifyInner at h
    cases hl : Spec.flookup f n with
    | some v => simp only [hl] at h; cases h; simp
    | none =>
      simp only [hl] at h
      cases hm : Spec.modifyInner g n rest with
      | none => simp [hm] at h
      | some r => simp [hm] at h; subst h; simp [ih r hm]

private theorem reset_length (fr : Spec.Frames) (n : String) (v : Int) : (Spec.reset fr n v).length = fr.length := by
  cases fr <;> simp [Spec.reset]

private theorem touch_length (g : Int → Int) (fr : Spec.Frames) (n : String) : (Spec.touch g fr n).length = fr.length := by
  cases fr with
  | nil => simp [Spec.touch]
  | cons f rest =>
    cases hm : Spec.modifyInner g n (f :: rest) with
    | none => simp [Spec.touch, hm]
    | some fr' => simp [Spec.touch, hm, modifyInner_length g n _ _ hm]

private theorem fold_length (fs : Spec.Frames → String → Int → Spec.Frames)
    (h : ∀ fr n v, (fs fr n v).length = fr.length) : ∀ (l : List (String × Int)) fr,
    (Spec.foldPairs fs l fr).length = fr.length := by
  intro l
  induction l with
  | nil => intro fr; rfl
  | cons x xs ih => intro fr; obtain ⟨n, v⟩ := x; simp [Spec.foldPairs, ih, h]

private theorem update_length (fr : Spec.Frames) (o : Ops) : (Spec.update fr o).length = fr.length := by
  unfold Spec.update
  simp only
  rw [fold_length _ (fun fr n v => touch_length _ fr n), fold_length _ (fun fr n v => touch_length _ fr n),
    fold_length _ reset_length]

/-- The level-indexed relation: `k` elements are open (the frame stack has `k + 1` frames). -/
def RelAt (k : Nat) (st : CState) (fr : Spec.Frames) : Prop := Rel st fr ∧ fr.length = k + 1

private theorem ne_nil_of_length {α} (l : List α) (k : Nat) (h : l.length = k + 1) : l ≠ [] := by
  intro e; subst e; simp at h

/-- The implementation's machine and the reference machine are in simulation. -/
theorem impl_simulates_spec : Simulation implMachine Spec.machine RelAt where
  update := by
    intro k a b o ⟨h, hl⟩
    obtain ⟨st', h1, h2, _⟩ := update_refines a b h (ne_nil_of_length b k hl) o
    simp only [implMachine, Spec.machine, h1, ExSim]
    exact ⟨h2, by rw [update_length]; exact hl⟩
  push := by
    intro k a b ⟨h, hl⟩
    exact ⟨push_refines a b h, by simp [Spec.machine, hl]⟩
  pop := by
    intro k a b ⟨h, hl⟩
    obtain ⟨st', h1, h2⟩ := pop_refines a b h (ne_nil_of_length b (k + 1) hl)
    simp only [implMachine, Spec.machine, h1, ExSim]
    exact ⟨h2, by simp [hl]⟩
  stack := by
    intro k a b ⟨h, _⟩
    funext n
    exact h.values n

theorem init_related : RelAt 0 initState Spec.init := by
  refine ⟨⟨rfl, ?_, ?_⟩, rfl⟩
  · intro n
    by_cases h : "footnote" = n
    · subst h; simp [initState, Spec.init, vget, Spec.stack, Spec.flookup, Spec.optStack]
    · simp [initState, Spec.init, vget, Spec.stack, Spec.flookup, Spec.optStack, h]
  · intro f hf
    simp [Spec.init] at hf
    subst hf
    simp

private theorem exsim_eq {α : Type} {x y : Except CErr α} (h : ExSim Eq x y) : x = y := by
  cases x <;> cases y <;> simp_all [ExSim]

/-- **C15.scope_refines** — for every element tree, the texts of all `::marker` / `::before` /
`::after` boxes (and the failures) produced by the model of `update_counters` + `element_to_box`
(`counter_values` stacks and `counter_scopes` sets) are those of the reference semantics
`Spec.counters` (frames of counter instances: reset replaces the sibling-level instance or adds one,
set/increment act on the innermost instance, leaving an element drops its frame); in particular
`update_counters` and the scope pop never raise on a reachable state. -/
theorem scope_refines (cs : Styles) (root : Elem) : buildTexts cs root = Spec.counters cs root := by
  unfold buildTexts Spec.counters buildTextsWith
  apply exsim_eq
  refine ExSim.bind (sim_elem impl_simulates_spec cs [] root 0 initState Spec.init [] init_related) ?_
  intro r1 r1' ⟨_, hs, _⟩
  rw [hs]
  refine ExSim.bind (sim_elem impl_simulates_spec cs r1'.stored root 0 initState Spec.init [] init_related) ?_
  intro r2 r2' ⟨ho, _, _⟩
  simp [ExSim, pure, Except.pure, ho]

/-- Reachable states never make `update_counters` raise (KeyError / IndexError / AssertionError are
outcomes of the model only on states that break the stack/scope invariant). -/
theorem update_counters_total (st : CState) (fr : Spec.Frames) (k : Nat) (h : RelAt k st fr) (o : Ops) :
    ∃ st', updateCounters st o = .ok st' ∧ RelAt k st' (Spec.update fr o) := by
  obtain ⟨st', h1, h2, _⟩ := update_refines st fr h.1 (ne_nil_of_length fr k h.2) o
  exact ⟨st', h1, h2, by rw [update_length]; exact h.2⟩

/-! ### Reference semantics: the clauses of the property, read off `Spec` -/

/-- `counter-reset` opens a scope: afterwards the innermost instance of the name has the reset value,
and the instances created by ancestors' frames are still below it (`counters()` prints them). -/
theorem spec_reset_innermost (f : Spec.Frame) (rest : Spec.Frames) (n : String) (v : Int) :
    Spec.stack (Spec.reset (f :: rest) n v) n = v :: Spec.stack rest n := by
  simp [Spec.reset, Spec.stack, flookup_fset_same]

/-- A reset on a later sibling (or a second reset on the same element) replaces the sibling-level
instance instead of nesting. -/
theorem spec_reset_replaces (f : Spec.Frame) (rest : Spec.Frames) (n : String) (v w : Int) :
    Spec.stack (Spec.reset (Spec.reset (f :: rest) n v) n w) n = w :: Spec.stack rest n := by
  simp [Spec.reset, Spec.stack, flookup_fset_same]

/-- `counter-increment` / `counter-set` act on the innermost instance only. -/
theorem spec_touch_innermost (g : Int → Int) (fr : Spec.Frames) (n : String) (top : Int) (tl : List Int)
    (h : Spec.stack fr n = top :: tl) (hne : fr ≠ []) : Spec.stack (Spec.touch g fr n) n = g top :: tl := by
  obtain ⟨fr', h1, _, h3, _⟩ := modifyInner_some g n fr top tl h
  cases fr with
  | nil => exact absurd rfl hne
  | cons f rest => simp [Spec.touch, h1, h3]

/-- … and create an instance at the element when none is in scope. -/
theorem spec_touch_creates (g : Int → Int) (f : Spec.Frame) (rest : Spec.Frames) (n : String)
    (h : Spec.stack (f :: rest) n = []) : Spec.stack (Spec.touch g (f :: rest) n) n = [g 0] := by
  have hlook : Spec.flookup f n = none := by
    cases hl : Spec.flookup f n with
    | none => rfl
    | some v => simp [Spec.stack, hl] at h
  have hrest : Spec.stack rest n = [] := by simpa [Spec.stack, hlook] using h
  simp [Spec.touch, modifyInner_none g n (f :: rest) h, Spec.stack, flookup_append, hlook, hrest]

/-- Other counters are not affected. -/
theorem spec_touch_other (g : Int → Int) (fr : Spec.Frames) (n m : String) (hm : m ≠ n) (hne : fr ≠ []) :
    Spec.stack (Spec.touch g fr n) m = Spec.stack fr m := by
  cases fr with
  | nil => exact absurd rfl hne
  | cons f rest =>
    cases hs : Spec.stack (f :: rest) n with
    | nil =>
      have hnm : ¬ n = m := fun e => hm e.symm
      simp only [Spec.touch, modifyInner_none g n (f :: rest) hs, Spec.stack, flookup_append, hnm, if_false]
      cases Spec.flookup f m <;> simp
    | cons top tl =>
      obtain ⟨fr', h1, _, _, h4⟩ := modifyInner_some g n (f :: rest) top tl hs
      simp [Spec.touch, h1, h4 m hm]

/-- Leaving an element ends the scopes its children opened: the outer instances are what they were
when only the frame is dropped. -/
theorem spec_leave (f : Spec.Frame) (rest : Spec.Frames) : (Spec.machine.pop (f :: rest)) = .ok rest := rfl

/-! ## List numbering (corollary of the reference semantics, hence of the implementation by `scope_refines`) -/

/-- Holds of the result when the computation succeeds. -/
def ExAll {α : Type} (P : α → Prop) : Except CErr α → Prop
  | .ok a => P a
  | .error _ => True

private theorem ExAll.bind {α β : Type} {P : α → Prop} {Q : β → Prop} {x : Except CErr α} {f : α → Except CErr β}
    (h : ExAll P x) (hf : ∀ a, P a → ExAll Q (f a)) : ExAll Q (x >>= f) := by
  cases x <;> simp_all [ExAll, Bind.bind, Except.bind]

private theorem ExAll.triv {α : Type} (x : Except CErr α) : ExAll (fun _ => True) x := by
  cases x <;> simp [ExAll]

def namesOf (l : List (String × Int)) : List String := l.map Prod.fst

/-- The style does not mention counter `n` (no reset / set / increment, explicit or implicit). -/
def opsQuiet (n : String) (o : Ops) : Bool :=
  !(namesOf o.reset).contains n && !(namesOf o.set).contains n &&
  (match o.incr with
   | some l => !(namesOf l).contains n
   | none => !(o.disp = .listItem && n = "list-item"))

def pseudoQuiet (n : String) : Option Pseudo → Bool
  | none => true
  | some p => opsQuiet n p.ops

mutual
/-- No element or pseudo-element of the subtree mentions counter `n`. -/
def quiet (n : String) : Elem → Bool
  | .mk ops _ _ _ before after kids =>
    ops.disp = .none || (opsQuiet n ops && pseudoQuiet n before && pseudoQuiet n after && quietAll n kids)
def quietAll (n : String) : List Elem → Bool
  | [] => true
  | e :: es => quiet n e && quietAll n es
end

/-- The instances of `n`, frame by frame. -/
def column (n : String) (fr : Spec.Frames) : List (Option Int) := fr.map (Spec.flookup · n)

private theorem stack_of_column (n : String) (fr : Spec.Frames) : Spec.stack fr n = (column n fr).filterMap id := by
  induction fr with
  | nil => rfl
  | cons f rest ih =>
    simp only [Spec.stack, column, List.map_cons, List.filterMap_cons] at ih ⊢
    cases Spec.flookup f n <;> simp [ih, column]

private theorem column_reset (n m : String) (v : Int) (fr : Spec.Frames) (h : n ≠ m) :
    column n (Spec.reset fr m v) = column n fr := by
  cases fr with
  | nil => rfl
  | cons f rest => simp [Spec.reset, column, flookup_fset_other f m n v h]

private theorem column_modifyInner (g : Int → Int) (n m : String) (h : n ≠ m) : ∀ fr fr',
    Spec.modifyInner g m fr = some fr' → column n fr' = column n fr := by
  intro fr
  induction fr with
  | nil => intro fr' hm; simp [Spec.modifyInner] at hm
  | cons f rest ih =>
    intro fr' hm
    unfold Spec.modifyInner at hm
    cases hl : Spec.flookup f m with
    | some v =>
      simp only [hl] at hm; cases hm
      simp [column, flookup_fmodify_other f m n g h]
    | none =>
      simp only [hl] at hm
      cases hr : Spec.modifyInner g m rest with
      | none => simp [hr] at hm
      | some r =>
        simp [hr] at hm; subst hm
        have := ih r hr
        simp only [column] at this ⊢
        simp [this]

private theorem column_touch (g : Int → Int) (n m : String) (fr : Spec.Frames) (h : n ≠ m) :
    column n (Spec.touch g fr m) = column n fr := by
  cases fr with
  | nil => rfl
  | cons f rest =>
    cases hm : Spec.modifyInner g m (f :: rest) with
    | some fr' => simp only [Spec.touch, hm]; exact column_modifyInner g n m h _ _ hm
    | none =>
      have hmn : ¬ m = n := fun e => h e.symm
      simp only [Spec.touch, hm, column, List.map_cons, flookup_append, hmn, if_false]
      cases Spec.flookup f n <;> simp

private theorem column_fold (n : String) (fs : Spec.Frames → String → Int → Spec.Frames)
    (h : ∀ fr m v, n ≠ m → column n (fs fr m v) = column n fr) : ∀ (l : List (String × Int)) fr,
    (namesOf l).contains n = false → column n (Spec.foldPairs fs l fr) = column n fr := by
  intro l
  induction l with
  | nil => intro fr _; rfl
  | cons x xs ih =>
    intro fr hq
    obtain ⟨m, v⟩ := x
    have hne : n ≠ m := by
      intro e; subst e; simp [namesOf] at hq
    have hq' : (namesOf xs).contains n = false := by
      simp [namesOf] at hq ⊢; exact hq.2
    simp only [Spec.foldPairs]
    rw [ih _ hq', h fr m v hne]

private theorem column_update (n : String) (fr : Spec.Frames) (o : Ops) (h : opsQuiet n o = true) :
    column n (Spec.update fr o) = column n fr := by
  simp only [opsQuiet, Bool.and_eq_true, Bool.not_eq_true'] at h
  obtain ⟨⟨h1, h2⟩, h3⟩ := h
  unfold Spec.update
  simp only
  rw [column_fold n _ (fun fr m v hne => column_touch _ n m fr hne),
    column_fold n _ (fun fr m v hne => column_touch _ n m fr hne) _ _ h2,
    column_fold n _ (fun fr m v hne => column_reset n m v fr hne) _ _ h1]
  cases hi : o.incr with
  | some l => simpa [hi] using h3
  | none =>
    simp only [hi] at h3 ⊢
    by_cases hli : o.disp = .listItem
    · simp only [hli, if_true]
      have : ¬ n = "list-item" := by simpa [hli] using h3
      simp [namesOf]
      exact this
    · simp [hli, namesOf]

/-! ### The order of `counter-set` and `counter-increment` -/

/-- What `touch g · n` does to the column of `n`: the innermost instance is modified, or one is created in the
innermost frame. -/
private def cmodify (g : Int → Int) : List (Option Int) → Option (List (Option Int))
  | [] => none
  | some v :: rest => some (some (g v) :: rest)
  | none :: rest => (cmodify g rest).map (none :: ·)

private def ctouch (g : Int → Int) (col : List (Option Int)) : List (Option Int) :=
  match cmodify g col with
  | some c => c
  | none => match col with
    | [] => []
    | _ :: rest => some (g 0) :: rest

private theorem column_modifyInner_same (g : Int → Int) (n : String) : ∀ fr : Spec.Frames,
    (Spec.modifyInner g n fr).map (column n) = cmodify g (column n fr) := by
  intro fr
  induction fr with
  | nil => rfl
  | cons f rest ih =>
    cases hl : Spec.flookup f n with
    | some y => simp [Spec.modifyInner, hl, column, cmodify, flookup_fmodify_same]
    | none =>
      simp only [Spec.modifyInner, hl, column, List.map_cons, cmodify]
      rw [← show (Spec.modifyInner g n rest).map (column n) = cmodify g (rest.map (Spec.flookup · n)) from ih]
      cases Spec.modifyInner g n rest <;> simp [column, hl]

private theorem column_touch_same (g : Int → Int) (n : String) (fr : Spec.Frames) :
    column n (Spec.touch g fr n) = ctouch g (column n fr) := by
  cases fr with
  | nil => rfl
  | cons f rest =>
    have h := column_modifyInner_same g n (f :: rest)
    unfold ctouch
    cases hm : Spec.modifyInner g n (f :: rest) with
    | some fr' =>
      rw [hm] at h
      simp only [Option.map_some] at h
      simp only [Spec.touch, hm, ← h]
    | none =>
      rw [hm] at h
      simp only [Option.map_none] at h
      simp only [Spec.touch, hm, ← h]
      have hf : Spec.flookup f n = none := by
        cases hl : Spec.flookup f n with
        | none => rfl
        | some y => simp [Spec.modifyInner, hl] at hm
      simp [column, flookup_append, hf]

/-- A fold of touches acts on the column of `n` as a function of that column alone. -/
private theorem column_fold_congr (n : String) (G : Int → Int → Int) : ∀ (l : List (String × Int)) (a b : Spec.Frames),
    column n a = column n b →
    column n (Spec.foldPairs (fun s k v => Spec.touch (G v) s k) l a) =
      column n (Spec.foldPairs (fun s k v => Spec.touch (G v) s k) l b) := by
  intro l
  induction l with
  | nil => intro a b h; exact h
  | cons x xs ih =>
    intro a b h
    obtain ⟨k, v⟩ := x
    simp only [Spec.foldPairs]
    apply ih
    by_cases hk : n = k
    · subst hk
      rw [column_touch_same, column_touch_same, h]
    · rw [column_touch _ n k a hk, column_touch _ n k b hk, h]

/-- **C15.update_order_partial** — the order `update_counters` uses (reset, **set, increment**) and the order of
css-lists-3 §4.5 (reset, **increment, set**) give every counter the same instances and values, except a counter
that the element both sets and increments (there the code adds the increment to the set value: witness
`Witness.C15.set_before_increment`, finding `counter-set-before-increment`). -/
theorem update_order_partial (fr : Spec.Frames) (o : Ops) (n : String)
    (h : (namesOf o.set).contains n = false ∨ (namesOf (Spec.effIncr o)).contains n = false) :
    Spec.stack (Spec.update fr o) n = Spec.stack (Spec.updateCss fr o) n := by
  rw [stack_of_column, stack_of_column]
  congr 1
  have hupd : Spec.update fr o =
      Spec.foldPairs (fun s k v => Spec.touch (fun t => t + v) s k) (Spec.effIncr o)
        (Spec.foldPairs (fun s k v => Spec.touch (fun _ => v) s k) o.set (Spec.foldPairs Spec.reset o.reset fr)) := by
    unfold Spec.update Spec.effIncr; rfl
  rw [hupd]
  unfold Spec.updateCss
  simp only
  rcases h with h | h
  · -- `n` is not set: the set fold does not touch its column, before or after the increments
    rw [column_fold n _ (fun fr m v hne => column_touch _ n m fr hne) o.set _ h]
    exact column_fold_congr n (fun v t => t + v) _ _ _
      (column_fold n _ (fun fr m v hne => column_touch _ n m fr hne) o.set _ h)
  · -- `n` is not incremented
    rw [column_fold n _ (fun fr m v hne => column_touch _ n m fr hne) (Spec.effIncr o) _ h]
    exact (column_fold_congr n (fun v _ => v) _ _ _
      (column_fold n _ (fun fr m v hne => column_touch _ n m fr hne) (Spec.effIncr o) _ h)).symm

private theorem quiet_pseudo (n : String) (cs : Styles) (targets : Targets) (kind : String) (p : Option Pseudo)
    (fr : Spec.Frames) (h : pseudoQuiet n p = true) :
    ExAll (fun x => column n x.2 = column n fr) (pseudoRun Spec.machine cs targets kind p fr) := by
  cases p with
  | none => simp [pseudoRun, ExAll]
  | some p =>
    simp only [pseudoRun, Spec.machine]
    show ExAll _ (Except.ok (Spec.update fr p.ops) >>= _)
    refine ExAll.bind (P := fun a => a = Spec.update fr p.ops) rfl ?_
    intro a ha
    subst ha
    refine ExAll.bind (ExAll.triv _) ?_
    intro t _
    simp only [ExAll, pure, Except.pure]
    exact column_update n fr p.ops h

mutual
/-- A subtree that does not mention `n` leaves every instance of `n` as it was. -/
theorem quiet_elem (n : String) (cs : Styles) (targets : Targets) :
    ∀ (e : Elem) (fr : Spec.Frames) (stored : Targets), quiet n e = true →
      ExAll (fun r => column n r.state = column n fr) (elemRun Spec.machine cs targets e fr stored)
  | .mk ops listStyle markerContent anchor before after kids, fr, stored, h => by
    unfold elemRun
    unfold quiet at h
    by_cases hd : ops.disp = .none
    · simp [hd, ExAll]
    · simp only [hd, if_false]
      simp only [hd, decide_false, Bool.false_or, Bool.and_eq_true] at h
      obtain ⟨⟨⟨hq, hb⟩, ha⟩, hk⟩ := h
      show ExAll _ (Except.ok (Spec.update fr ops) >>= _)
      refine ExAll.bind (P := fun a => a = Spec.update fr ops) rfl ?_
      intro a1 ha1
      subst ha1
      by_cases hli : ops.disp = .listItem
      all_goals
        simp only [hli, if_true, if_false]
        refine ExAll.bind (ExAll.triv _) ?_
        intro mk _
        refine ExAll.bind (quiet_pseudo n cs targets "before" before _ hb) ?_
        intro pb hpb
        refine ExAll.bind (quiet_kids n cs targets kids pb.2 _ hk) ?_
        intro r hr
        refine ExAll.bind (quiet_pseudo n cs targets "after" after _ ha) ?_
        intro pa hpa
        show ExAll _ (Except.ok pa.2.tail >>= _)
        simp only [ExAll, Bind.bind, Except.bind, pure, Except.pure]
        have h1 : column n pa.2 = none :: column n fr := by
          rw [hpa, hr, hpb]
          simp only [Spec.machine, column, List.map_cons, Spec.flookup, List.cons.injEq, true_and]
          exact column_update n fr ops hq
        cases hp : pa.2 with
        | nil => rw [hp] at h1; simp [column] at h1
        | cons f rest =>
          rw [hp] at h1
          simp only [column, List.map_cons, List.cons.injEq] at h1
          simp [column, h1.2]
theorem quiet_kids (n : String) (cs : Styles) (targets : Targets) :
    ∀ (es : List Elem) (fr : Spec.Frames) (stored : Targets), quietAll n es = true →
      ExAll (fun r => column n r.state = column n fr) (kidsRun Spec.machine cs targets es fr stored)
  | [], fr, stored, _ => by simp [kidsRun, ExAll]
  | e :: rest, fr, stored, h => by
    unfold kidsRun
    unfold quietAll at h
    simp only [Bool.and_eq_true] at h
    refine ExAll.bind (quiet_elem n cs targets e fr stored h.1) ?_
    intro r1 hr1
    refine ExAll.bind (quiet_kids n cs targets rest r1.state r1.stored h.2) ?_
    intro r2 hr2
    simp only [ExAll, pure, Except.pure]
    rw [hr2, hr1]
end

/-- An element whose pseudo-elements and descendants do not mention `n`: the instances of `n` after it
are those right after its own `counter-*` declarations. -/
theorem own_ops_only (n : String) (cs : Styles) (targets : Targets) (ops : Ops) (listStyle : Option CName)
    (markerContent : Option (List Item)) (anchor : Option String) (before after : Option Pseudo) (kids : List Elem)
    (fr : Spec.Frames) (stored : Targets) (hd : ops.disp ≠ .none)
    (hb : pseudoQuiet n before = true) (ha : pseudoQuiet n after = true) (hk : quietAll n kids = true) :
    ExAll (fun r => column n r.state = column n (Spec.update fr ops))
      (elemRun Spec.machine cs targets (.mk ops listStyle markerContent anchor before after kids) fr stored) := by
  unfold elemRun
  simp only [hd, if_false]
  show ExAll _ (Except.ok (Spec.update fr ops) >>= _)
  refine ExAll.bind (P := fun a => a = Spec.update fr ops) rfl ?_
  intro a1 ha1
  subst ha1
  by_cases hli : ops.disp = .listItem
  all_goals
    simp only [hli, if_true, if_false]
    refine ExAll.bind (ExAll.triv _) ?_
    intro mk _
    refine ExAll.bind (quiet_pseudo n cs targets "before" before _ hb) ?_
    intro pb hpb
    refine ExAll.bind (quiet_kids n cs targets kids pb.2 _ hk) ?_
    intro r hr
    refine ExAll.bind (quiet_pseudo n cs targets "after" after _ ha) ?_
    intro pa hpa
    show ExAll _ (Except.ok pa.2.tail >>= _)
    simp only [ExAll, Bind.bind, Except.bind, pure, Except.pure]
    have h1 : column n pa.2 = none :: column n (Spec.update fr ops) := by
      rw [hpa, hr, hpb]
      simp only [Spec.machine, column, List.map_cons, Spec.flookup]
    cases hp : pa.2 with
    | nil => rw [hp] at h1; simp [column] at h1
    | cons f rest =>
      rw [hp] at h1
      simp only [column, List.map_cons, List.cons.injEq] at h1
      simp [column, h1.2]

/-- `<li>` without counter declarations of its own, whose content does not mention `list-item`
(the UA sheet gives it `display: list-item`, hence the implicit `counter-increment: list-item 1`). -/
def isPlainItem : Elem → Bool
  | .mk ops _ _ _ before after kids =>
    ops.disp = .listItem && ops.reset.isEmpty && ops.set.isEmpty && ops.incr.isNone &&
    pseudoQuiet "list-item" before && pseudoQuiet "list-item" after && quietAll "list-item" kids

private theorem plain_update (ops : Ops) (fr : Spec.Frames) (h1 : ops.disp = .listItem) (h2 : ops.reset.isEmpty = true)
    (h3 : ops.set.isEmpty = true) (h4 : ops.incr.isNone = true) :
    Spec.update fr ops = Spec.touch (fun t => t + 1) fr "list-item" := by
  have e2 : ops.reset = [] := by simpa using h2
  have e3 : ops.set = [] := by simpa using h3
  have e4 : ops.incr = none := by simpa using h4
  simp [Spec.update, e2, e3, e4, h1, Spec.foldPairs]

/-- The value the marker of a plain item reads: one more than the innermost `list-item` instance
before the item. -/
theorem item_marker_value (ops : Ops) (fr : Spec.Frames) (v : Int) (tl : List Int)
    (h1 : ops.disp = .listItem) (h2 : ops.reset.isEmpty = true) (h3 : ops.set.isEmpty = true)
    (h4 : ops.incr.isNone = true) (hs : Spec.stack fr "list-item" = v :: tl) :
    Spec.machine.stack (Spec.machine.push (Spec.update fr ops)) "list-item" = some ((v + 1) :: tl) := by
  have hne : fr ≠ [] := by intro e; subst e; simp [Spec.stack] at hs
  rw [plain_update ops fr h1 h2 h3 h4]
  simp [Spec.machine, Spec.stack, Spec.flookup, spec_touch_innermost _ fr "list-item" v tl hs hne, Spec.optStack]

/-- **C15.list_numbers** — the items of a list count `start + 1, start + 2, …`: after `k` plain items
the innermost `list-item` instance has grown by exactly `k`, whatever (list-item-free) content the
items have; with `item_marker_value` the `i`-th marker prints `start + i`.  By `scope_refines` the same
holds of the implementation's `counter_values`. -/
theorem list_numbers (cs : Styles) (targets : Targets) : ∀ (items : List Elem) (fr : Spec.Frames) (stored : Targets)
    (v : Int) (tl : List Int), (∀ e ∈ items, isPlainItem e = true) → Spec.stack fr "list-item" = v :: tl →
    ExAll (fun r => Spec.stack r.state "list-item" = (v + items.length) :: tl)
      (kidsRun Spec.machine cs targets items fr stored) := by
  intro items
  induction items with
  | nil => intro fr stored v tl _ hs; simp [kidsRun, ExAll, hs]
  | cons e rest ih =>
    intro fr stored v tl hp hs
    unfold kidsRun
    have hne : fr ≠ [] := by intro e; subst e; simp [Spec.stack] at hs
    have he := hp e List.mem_cons_self
    obtain ⟨ops, listStyle, markerContent, anchor, before, after, kids⟩ := e
    simp only [isPlainItem, Bool.and_eq_true, decide_eq_true_eq] at he
    obtain ⟨⟨⟨⟨⟨⟨h1, h2⟩, h3⟩, h4⟩, hb⟩, ha⟩, hk⟩ := he
    have hd : ops.disp ≠ .none := by rw [h1]; decide
    refine ExAll.bind (own_ops_only "list-item" cs targets ops listStyle markerContent anchor before after kids
      fr stored hd hb ha hk) ?_
    intro r1 hr1
    have hs1 : Spec.stack r1.state "list-item" = (v + 1) :: tl := by
      rw [stack_of_column, hr1, ← stack_of_column, plain_update ops fr h1 h2 h3 h4]
      exact spec_touch_innermost _ fr "list-item" v tl hs hne
    refine ExAll.bind (ih r1.state r1.stored (v + 1) tl (fun x hx => hp x (List.mem_cons_of_mem _ hx)) hs1) ?_
    intro r2 hr2
    simp only [ExAll, pure, Except.pure, hr2, List.length_cons]
    congr 1
    omega



/-! ### Nested lists: a reset on a child shields the outer instances -/

/-- `j` frames from the top there is an instance of `n`, and below it the instances are `crest`. -/
def Shield (n : String) (j : Nat) (crest : List (Option Int)) (fr : Spec.Frames) : Prop :=
  ∃ cp x, cp.length = j ∧ column n fr = cp ++ some x :: crest

private theorem shield_of_column_eq (n : String) (j : Nat) (crest : List (Option Int)) (fr fr' : Spec.Frames)
    (h : column n fr' = column n fr) (hs : Shield n j crest fr) : Shield n j crest fr' := by
  obtain ⟨cp, x, h1, h2⟩ := hs
  exact ⟨cp, x, h1, by rw [h, h2]⟩

private theorem shield_reset (n : String) (j : Nat) (crest : List (Option Int)) (fr : Spec.Frames) (m : String) (v : Int)
    (hs : Shield n j crest fr) : Shield n j crest (Spec.reset fr m v) := by
  by_cases hm : n = m
  · subst hm
    obtain ⟨cp, x, h1, h2⟩ := hs
    cases fr with
    | nil => simp [column] at h2
    | cons f rest =>
      simp only [column, List.map_cons] at h2
      cases cp with
      | nil =>
        simp only [List.nil_append, List.cons.injEq] at h2
        exact ⟨[], v, h1, by simp [Spec.reset, column, flookup_fset_same, h2.2]⟩
      | cons c0 cp' =>
        simp only [List.cons_append, List.cons.injEq] at h2
        exact ⟨some v :: cp', x, by simpa using h1, by simp [Spec.reset, column, flookup_fset_same, h2.2]⟩
  · exact shield_of_column_eq n j crest fr _ (column_reset n m v fr hm) hs

private theorem shield_modifyInner (g : Int → Int) (n : String) (crest : List (Option Int)) :
    ∀ (fr : Spec.Frames) (cp : List (Option Int)) (x : Int), column n fr = cp ++ some x :: crest →
      ∃ fr' cp' x', Spec.modifyInner g n fr = some fr' ∧ cp'.length = cp.length ∧
        column n fr' = cp' ++ some x' :: crest := by
  intro fr
  induction fr with
  | nil => intro cp x h; simp [column] at h
  | cons f rest ih =>
    intro cp x h
    simp only [column, List.map_cons] at h
    unfold Spec.modifyInner
    cases hl : Spec.flookup f n with
    | some y =>
      rw [hl] at h
      cases cp with
      | nil =>
        simp only [List.nil_append, List.cons.injEq] at h
        exact ⟨_, [], g y, rfl, rfl, by simp [column, flookup_fmodify_same, hl, h.2]⟩
      | cons c0 cp' =>
        simp only [List.cons_append, List.cons.injEq] at h
        exact ⟨_, some (g y) :: cp', x, rfl, by simp, by simp [column, flookup_fmodify_same, hl, h.2]⟩
    | none =>
      rw [hl] at h
      cases cp with
      | nil => simp at h
      | cons c0 cp' =>
        simp only [List.cons_append, List.cons.injEq] at h
        obtain ⟨fr', cp'', x', h1, h2, h3⟩ := ih cp' x (by simpa [column] using h.2)
        refine ⟨f :: fr', none :: cp'', x', by simp [h1], by simp [h2], ?_⟩
        simp only [column, List.map_cons, hl, List.cons_append, List.cons.injEq, true_and]
        simpa [column] using h3

private theorem shield_touch (g : Int → Int) (n : String) (j : Nat) (crest : List (Option Int)) (fr : Spec.Frames)
    (m : String) (hs : Shield n j crest fr) : Shield n j crest (Spec.touch g fr m) := by
  by_cases hm : n = m
  · subst hm
    obtain ⟨cp, x, h1, h2⟩ := hs
    obtain ⟨fr', cp', x', h3, h4, h5⟩ := shield_modifyInner g n crest fr cp x h2
    cases fr with
    | nil => simp [column] at h2
    | cons f rest => exact ⟨cp', x', by omega, by simp only [Spec.touch, h3]; exact h5⟩
  · exact shield_of_column_eq n j crest fr _ (column_touch g n m fr hm) hs

private theorem shield_fold (n : String) (j : Nat) (crest : List (Option Int))
    (fs : Spec.Frames → String → Int → Spec.Frames)
    (h : ∀ fr m v, Shield n j crest fr → Shield n j crest (fs fr m v)) : ∀ (l : List (String × Int)) fr,
    Shield n j crest fr → Shield n j crest (Spec.foldPairs fs l fr) := by
  intro l
  induction l with
  | nil => intro fr hs; exact hs
  | cons x xs ih => intro fr hs; obtain ⟨m, v⟩ := x; exact ih _ (h fr m v hs)

private theorem shield_update (n : String) (j : Nat) (crest : List (Option Int)) (fr : Spec.Frames) (o : Ops)
    (hs : Shield n j crest fr) : Shield n j crest (Spec.update fr o) := by
  unfold Spec.update
  exact shield_fold n j crest _ (fun fr m v h => shield_touch _ n j crest fr m h) _ _
    (shield_fold n j crest _ (fun fr m v h => shield_touch _ n j crest fr m h) _ _
      (shield_fold n j crest _ (fun fr m v h => shield_reset n j crest fr m v h) _ _ hs))

private theorem shield_push (n : String) (j : Nat) (crest : List (Option Int)) (fr : Spec.Frames)
    (hs : Shield n j crest fr) : Shield n (j + 1) crest ([] :: fr) := by
  obtain ⟨cp, x, h1, h2⟩ := hs
  exact ⟨none :: cp, x, by simp [h1], by simp [column, Spec.flookup] at h2 ⊢; exact h2⟩

private theorem shield_pop (n : String) (j : Nat) (crest : List (Option Int)) (fr : Spec.Frames)
    (hs : Shield n (j + 1) crest fr) : Shield n j crest fr.tail := by
  obtain ⟨cp, x, h1, h2⟩ := hs
  cases cp with
  | nil => simp at h1
  | cons c0 cp' =>
    cases fr with
    | nil => simp [column] at h2
    | cons f rest =>
      simp only [column, List.map_cons, List.cons_append, List.cons.injEq] at h2
      exact ⟨cp', x, by simpa using h1, by simpa [column] using h2.2⟩

private theorem shield_pseudo (n : String) (j : Nat) (crest : List (Option Int)) (cs : Styles) (targets : Targets)
    (kind : String) (p : Option Pseudo) (fr : Spec.Frames) (hs : Shield n j crest fr) :
    ExAll (fun x => Shield n j crest x.2) (pseudoRun Spec.machine cs targets kind p fr) := by
  cases p with
  | none => simp [pseudoRun, ExAll, hs]
  | some p =>
    simp only [pseudoRun, Spec.machine]
    show ExAll _ (Except.ok (Spec.update fr p.ops) >>= _)
    refine ExAll.bind (P := fun a => a = Spec.update fr p.ops) rfl ?_
    intro a ha
    subst ha
    refine ExAll.bind (ExAll.triv _) ?_
    intro t _
    simp only [ExAll, pure, Except.pure]
    exact shield_update n j crest fr p.ops hs

/-- The shield holds right after the element's own `counter-*` declarations (or before the element when
it is not displayed). -/
def shieldPre (n : String) (j : Nat) (crest : List (Option Int)) : Elem → Spec.Frames → Prop
  | .mk ops _ _ _ _ _ _, fr =>
    if ops.disp = .none then Shield n j crest fr else Shield n j crest (Spec.update fr ops)

private theorem ExAll.mono {α : Type} {P Q : α → Prop} {x : Except CErr α} (h : ExAll P x) (hq : ∀ a, P a → Q a) :
    ExAll Q x := by
  cases x <;> simp_all [ExAll]

mutual
/-- Once an instance of `n` sits `j` frames from the top, no element whatsoever changes the instances
below it. -/
theorem shield_elem (n : String) (crest : List (Option Int)) (cs : Styles) (targets : Targets) :
    ∀ (e : Elem) (j : Nat) (fr : Spec.Frames) (stored : Targets), shieldPre n j crest e fr →
      ExAll (fun r => Shield n j crest r.state) (elemRun Spec.machine cs targets e fr stored)
  | .mk ops listStyle markerContent anchor before after kids, j, fr, stored, h => by
    unfold elemRun
    unfold shieldPre at h
    by_cases hd : ops.disp = .none
    · simp only [hd, if_true] at h ⊢
      simpa [ExAll] using h
    · simp only [hd, if_false] at h ⊢
      show ExAll _ (Except.ok (Spec.update fr ops) >>= _)
      refine ExAll.bind (P := fun a => a = Spec.update fr ops) rfl ?_
      intro a1 ha1
      subst ha1
      have h2 := shield_push n j crest _ h
      by_cases hli : ops.disp = .listItem
      all_goals
        simp only [hli, if_true, if_false]
        refine ExAll.bind (ExAll.triv _) ?_
        intro mk _
        refine ExAll.bind (shield_pseudo n (j + 1) crest cs targets "before" before _ h2) ?_
        intro pb hpb
        refine ExAll.bind (shield_kids n crest cs targets kids (j + 1) pb.2 _ hpb) ?_
        intro r hr
        refine ExAll.bind (shield_pseudo n (j + 1) crest cs targets "after" after _ hr) ?_
        intro pa hpa
        show ExAll _ (Except.ok pa.2.tail >>= _)
        simp only [ExAll, Bind.bind, Except.bind, pure, Except.pure]
        exact shield_pop n j crest _ hpa
theorem shield_kids (n : String) (crest : List (Option Int)) (cs : Styles) (targets : Targets) :
    ∀ (es : List Elem) (j : Nat) (fr : Spec.Frames) (stored : Targets), Shield n j crest fr →
      ExAll (fun r => Shield n j crest r.state) (kidsRun Spec.machine cs targets es fr stored)
  | [], j, fr, stored, h => by simpa [kidsRun, ExAll] using h
  | e :: rest, j, fr, stored, h => by
    unfold kidsRun
    refine ExAll.bind (shield_elem n crest cs targets e j fr stored ?_) ?_
    · obtain ⟨ops, _, _, _, _, _, _⟩ := e
      simp only [shieldPre]
      by_cases hd : ops.disp = .none
      · simp only [hd, if_true]; exact h
      · simp only [hd, if_false]; exact shield_update n j crest fr ops h
    · intro r1 hr1
      refine ExAll.bind (shield_kids n crest cs targets rest j r1.state r1.stored hr1) ?_
      intro r2 hr2
      simpa [ExAll, pure, Except.pure] using hr2
end

/-- The element itself resets `n` (and is displayed). -/
def resetsFirst (n : String) : Elem → Bool
  | .mk ops _ _ _ _ _ _ => !(ops.disp = .none) && (namesOf ops.reset).contains n

/-- A sequence of siblings that leaves the outer instances of `n` alone: list-item-free elements up to the
first one that resets `n` itself (a nested `ol`); what follows a reset is unconstrained. -/
def containedSeq (n : String) : List Elem → Bool
  | [] => true
  | e :: es => resetsFirst n e || (quiet n e && containedSeq n es)

private theorem reset_enters (n : String) (c1 : List (Option Int)) : ∀ (l : List (String × Int)) (fr : Spec.Frames)
    (c0 : Option Int), column n fr = c0 :: c1 → (namesOf l).contains n = true →
    Shield n 0 c1 (Spec.foldPairs Spec.reset l fr) := by
  intro l
  induction l with
  | nil => intro fr c0 _ h; simp [namesOf] at h
  | cons x xs ih =>
    intro fr c0 hc h
    obtain ⟨m, v⟩ := x
    simp only [Spec.foldPairs]
    by_cases hm : n = m
    · subst hm
      apply shield_fold n 0 c1 _ (fun fr m v h => shield_reset n 0 c1 fr m v h)
      cases fr with
      | nil => simp [column] at hc
      | cons f rest =>
        simp only [column, List.map_cons, List.cons.injEq] at hc
        exact ⟨[], v, rfl, by simp [Spec.reset, column, flookup_fset_same, hc.2]⟩
    · have hn : (namesOf xs).contains n = true := by
        simp only [namesOf, List.map_cons, List.contains_cons, Bool.or_eq_true, beq_iff_eq] at h
        rcases h with h | h
        · exact absurd h hm
        · simpa [namesOf] using h
      exact ih _ c0 (by rw [column_reset n m v fr hm]; exact hc) hn

/-- The invariant along a contained sibling sequence: untouched so far, or shielded. -/
private def SeqInv (n : String) (c0 : Option Int) (c1 : List (Option Int)) (fr : Spec.Frames) : Prop :=
  column n fr = c0 :: c1 ∨ Shield n 0 c1 fr

private theorem contained_kids (n : String) (c0 : Option Int) (c1 : List (Option Int)) (cs : Styles) (targets : Targets) :
    ∀ (es : List Elem) (fr : Spec.Frames) (stored : Targets), SeqInv n c0 c1 fr → containedSeq n es = true →
      ExAll (fun r => SeqInv n c0 c1 r.state) (kidsRun Spec.machine cs targets es fr stored) := by
  intro es
  induction es with
  | nil => intro fr stored h _; simpa [kidsRun, ExAll] using h
  | cons e rest ih =>
    intro fr stored hinv hc
    rcases hinv with hA | hB
    · unfold containedSeq at hc
      unfold kidsRun
      by_cases hr : resetsFirst n e = true
      · -- the element resets `n` itself: shielded from here on
        obtain ⟨ops, ls, mc, an, be, af, ks⟩ := e
        simp only [resetsFirst, Bool.and_eq_true, Bool.not_eq_true', decide_eq_false_iff_not] at hr
        have hsh : Shield n 0 c1 (Spec.update fr ops) := by
          unfold Spec.update
          exact shield_fold n 0 c1 _ (fun fr m v h => shield_touch _ n 0 c1 fr m h) _ _
            (shield_fold n 0 c1 _ (fun fr m v h => shield_touch _ n 0 c1 fr m h) _ _
              (reset_enters n c1 ops.reset fr c0 hA hr.2))
        refine ExAll.bind (shield_elem n c1 cs targets (.mk ops ls mc an be af ks) 0 fr stored
          (by unfold shieldPre; simp only [hr.1, if_false]; exact hsh)) ?_
        intro r1 hr1
        refine ExAll.bind (shield_kids n c1 cs targets rest 0 r1.state r1.stored hr1) ?_
        intro r2 hr2
        simp only [ExAll, pure, Except.pure]
        exact Or.inr hr2
      · simp only [hr, Bool.false_or, Bool.and_eq_true] at hc
        refine ExAll.bind (quiet_elem n cs targets e fr stored hc.1) ?_
        intro r1 hr1
        refine ExAll.bind (ih r1.state r1.stored (Or.inl (by rw [hr1]; exact hA)) hc.2) ?_
        intro r2 hr2
        simpa [ExAll, pure, Except.pure] using hr2
    · exact ExAll.mono (shield_kids n c1 cs targets (e :: rest) 0 fr stored hB) (fun r hr => Or.inr hr)

private theorem shield_pop_zero (n : String) (crest : List (Option Int)) (fr : Spec.Frames)
    (hs : Shield n 0 crest fr) : column n fr.tail = crest := by
  obtain ⟨cp, x, h1, h2⟩ := hs
  cases cp with
  | cons _ _ => simp at h1
  | nil =>
    cases fr with
    | nil => simp [column] at h2
    | cons f rest =>
      simp only [column, List.map_cons, List.nil_append, List.cons.injEq] at h2
      simpa [column] using h2.2

/-- An element whose `::before` does not mention `n`, whose children are a contained sequence and whose
`::after` does not mention `n`: the instances of `n` after it are those right after its own
declarations — nested lists included. -/
theorem own_ops_only_nested (n : String) (cs : Styles) (targets : Targets) (ops : Ops) (listStyle : Option CName)
    (markerContent : Option (List Item)) (anchor : Option String) (before after : Option Pseudo) (kids : List Elem)
    (fr : Spec.Frames) (stored : Targets) (hd : ops.disp ≠ .none)
    (hb : pseudoQuiet n before = true) (ha : pseudoQuiet n after = true) (hk : containedSeq n kids = true) :
    ExAll (fun r => column n r.state = column n (Spec.update fr ops))
      (elemRun Spec.machine cs targets (.mk ops listStyle markerContent anchor before after kids) fr stored) := by
  unfold elemRun
  simp only [hd, if_false]
  show ExAll _ (Except.ok (Spec.update fr ops) >>= _)
  refine ExAll.bind (P := fun a => a = Spec.update fr ops) rfl ?_
  intro a1 ha1
  subst ha1
  by_cases hli : ops.disp = .listItem
  all_goals
    simp only [hli, if_true, if_false]
    refine ExAll.bind (ExAll.triv _) ?_
    intro mk _
    refine ExAll.bind (quiet_pseudo n cs targets "before" before _ hb) ?_
    intro pb hpb
    have hinv : SeqInv n none (column n (Spec.update fr ops)) pb.2 := by
      left; rw [hpb]; simp [Spec.machine, column, Spec.flookup]
    refine ExAll.bind (contained_kids n none _ cs targets kids pb.2 _ hinv hk) ?_
    intro r hr
    have hafter : ExAll (fun x => SeqInv n none (column n (Spec.update fr ops)) x.2)
        (pseudoRun Spec.machine cs targets "after" after r.state) := by
      rcases hr with hA | hB
      · have := quiet_pseudo n cs targets "after" after r.state ha
        cases hp : pseudoRun Spec.machine cs targets "after" after r.state with
        | error e => simp [ExAll]
        | ok x => rw [hp] at this; simp only [ExAll] at this ⊢; exact Or.inl (by rw [this]; exact hA)
      · have := shield_pseudo n 0 _ cs targets "after" after r.state hB
        cases hp : pseudoRun Spec.machine cs targets "after" after r.state with
        | error e => simp [ExAll]
        | ok x => rw [hp] at this; simp only [ExAll] at this ⊢; exact Or.inr this
    refine ExAll.bind hafter ?_
    intro pa hpa
    show ExAll _ (Except.ok pa.2.tail >>= _)
    simp only [ExAll, Bind.bind, Except.bind, pure, Except.pure]
    rcases hpa with hA | hB
    · cases hp : pa.2 with
      | nil => rw [hp] at hA; simp [column] at hA
      | cons f rest =>
        rw [hp] at hA
        simp only [column, List.map_cons, List.cons.injEq] at hA
        simp [column, hA.2]
    · exact shield_pop_zero n _ pa.2 hB

/-- `<li>` without counter declarations of its own whose content is a contained sequence for
`list-item` (text, list-item-free elements, nested lists that reset `list-item`, anything after them). -/
def isItem : Elem → Bool
  | .mk ops _ _ _ before after kids =>
    ops.disp = .listItem && ops.reset.isEmpty && ops.set.isEmpty && ops.incr.isNone &&
    pseudoQuiet "list-item" before && pseudoQuiet "list-item" after && containedSeq "list-item" kids

/-- **C15.list_numbers**, nesting included — the items of a list count `start + 1, start + 2, …`
independently of the lists nested in them: after `k` items the innermost `list-item` instance of the
list has grown by exactly `k`. -/
theorem list_numbers_nested (cs : Styles) (targets : Targets) : ∀ (items : List Elem) (fr : Spec.Frames)
    (stored : Targets) (v : Int) (tl : List Int), (∀ e ∈ items, isItem e = true) →
    Spec.stack fr "list-item" = v :: tl →
    ExAll (fun r => Spec.stack r.state "list-item" = (v + items.length) :: tl)
      (kidsRun Spec.machine cs targets items fr stored) := by
  intro items
  induction items with
  | nil => intro fr stored v tl _ hs; simp [kidsRun, ExAll, hs]
  | cons e rest ih =>
    intro fr stored v tl hp hs
    unfold kidsRun
    have hne : fr ≠ [] := by intro e; subst e; simp [Spec.stack] at hs
    have he := hp e List.mem_cons_self
    obtain ⟨ops, listStyle, markerContent, anchor, before, after, kids⟩ := e
    simp only [isItem, Bool.and_eq_true, decide_eq_true_eq] at he
    obtain ⟨⟨⟨⟨⟨⟨h1, h2⟩, h3⟩, h4⟩, hb⟩, ha⟩, hk⟩ := he
    have hd : ops.disp ≠ .none := by rw [h1]; decide
    refine ExAll.bind (own_ops_only_nested "list-item" cs targets ops listStyle markerContent anchor before after
      kids fr stored hd hb ha hk) ?_
    intro r1 hr1
    have hs1 : Spec.stack r1.state "list-item" = (v + 1) :: tl := by
      rw [stack_of_column, hr1, ← stack_of_column, plain_update ops fr h1 h2 h3 h4]
      exact spec_touch_innermost _ fr "list-item" v tl hs hne
    refine ExAll.bind (ih r1.state r1.stored (v + 1) tl (fun x hx => hp x (List.mem_cons_of_mem _ hx)) hs1) ?_
    intro r2 hr2
    simp only [ExAll, pure, Except.pure, hr2, List.length_cons]
    congr 1
    omega


/-! ### `counters()` nesting and target snapshots -/

/-- **C15.counters_path** — `counters(name, sep, style)` prints the instances in scope outermost first,
joined by the separator (the stack is kept innermost first). -/
theorem counters_path (cs : Styles) (style : CName) (sep : String) (stack : List Int) (texts : List String)
    (h : stack.reverse.mapM (fun v => renderValueTop cs v style) = .ok texts) :
    renderStack cs style sep stack = .ok (sep.intercalate texts) := by
  simp [renderStack, h, bind, Except.bind, pure, Except.pure]

/-- The innermost instance comes first in `Spec.stack`, the instances of enclosing scopes follow. -/
theorem spec_stack_nesting (f : Spec.Frame) (rest : Spec.Frames) (n : String) (v : Int)
    (h : Spec.flookup f n = some v) : Spec.stack (f :: rest) n = v :: Spec.stack rest n := by
  simp [Spec.stack, h]

/-- `counter(name, style)`: the innermost instance, `0` when none is in scope. -/
theorem counter_item (cs : Styles) (targets : Targets) (values : Snapshot) (name : String) (style : CName)
    (rest : List Item) (acc t : String) (hs : style ≠ .named "none")
    (h : renderValueTop cs (((values name).getD [0]).headD 0) style = .ok t) :
    evalContent cs targets values (.counter name style :: rest) acc =
      evalContent cs targets values rest (acc ++ t) := by
  simp only [evalContent, hs, if_false, bind, Except.bind]
  rw [h]

/-- **C15.target_values** (printing side) — `target-counter(anchor, name, style)` prints the innermost
instance of `name` in the snapshot stored for the anchor; an anchor without stored target ends the list. -/
theorem target_counter_item (cs : Styles) (targets : Targets) (values tv : Snapshot) (anchor name : String)
    (style : CName) (rest : List Item) (acc t : String) (hs : style ≠ .named "none")
    (ht : tget targets anchor = some tv)
    (h : renderValueTop cs (((tv name).getD [0]).headD 0) style = .ok t) :
    evalContent cs targets values (.targetCounter anchor name style :: rest) acc =
      evalContent cs targets values rest (acc ++ t) := by
  simp only [evalContent, hs, if_false, ht, bind, Except.bind]
  rw [h]

theorem target_counter_missing (cs : Styles) (targets : Targets) (values : Snapshot) (anchor name : String)
    (style : CName) (rest : List Item) (acc : String) (hs : style ≠ .named "none")
    (ht : tget targets anchor = none) :
    evalContent cs targets values (.targetCounter anchor name style :: rest) acc = .ok acc := by
  simp [evalContent, hs, ht]

/-- `store_target`: the first box stored under an anchor wins. -/
theorem storeTarget_first_wins (ts : Targets) (a : String) (s s' : Snapshot) (h : tget ts a = some s) :
    storeTarget ts a s' = ts := by
  simp [storeTarget, h]

private theorem tget_append_new (ts : Targets) (a b : String) (s : Snapshot) :
    tget (ts ++ [(b, s)]) a = (tget ts a).orElse fun _ => if b = a then some s else none := by
  induction ts with
  | nil => simp [tget]
  | cons x xs ih =>
    obtain ⟨k, v⟩ := x
    by_cases hk : k = a <;> simp [tget, hk, ih]

theorem storeTarget_stores (ts : Targets) (a : String) (s : Snapshot) (h : tget ts a = none) :
    tget (storeTarget ts a s) a = some s := by
  simp [storeTarget, h, tget_append_new]

theorem storeTarget_keeps (ts : Targets) (a b : String) (s s' : Snapshot) (h : tget ts a = some s) :
    tget (storeTarget ts b s') a = some s := by
  unfold storeTarget
  cases hb : tget ts b with
  | some _ => exact h
  | none => simp [tget_append_new, h]

section
variable {σ : Type} (m : Machine σ)

mutual
/-- A stored snapshot is never replaced by the rest of the walk. -/
theorem stored_kept_elem (cs : Styles) (targets : Targets) (a : String) (s : Snapshot) :
    ∀ (e : Elem) (st : σ) (stored : Targets), tget stored a = some s →
      ExAll (fun r => tget r.stored a = some s) (elemRun m cs targets e st stored)
  | .mk ops listStyle markerContent anchor before after kids, st, stored, h => by
    unfold elemRun
    by_cases hd : ops.disp = .none
    · simp [hd, ExAll, h]
    · simp only [hd, if_false]
      refine ExAll.bind (ExAll.triv _) ?_
      intro st1 _
      by_cases hli : ops.disp = .listItem
      all_goals
        simp only [hli, if_true, if_false]
        refine ExAll.bind (ExAll.triv _) ?_
        intro mk _
        refine ExAll.bind (ExAll.triv _) ?_
        intro pb _
        have hst : tget (match anchor with
            | some a' => storeTarget stored a' (m.stack pb.2)
            | none => stored) a = some s := by
          cases anchor with
          | none => exact h
          | some a' => exact storeTarget_keeps stored a a' s _ h
        refine ExAll.bind (stored_kept_kids cs targets a s kids pb.2 _ hst) ?_
        intro r hr
        refine ExAll.bind (ExAll.triv _) ?_
        intro pa _
        refine ExAll.bind (ExAll.triv _) ?_
        intro st3 _
        simpa [ExAll, pure, Except.pure] using hr
theorem stored_kept_kids (cs : Styles) (targets : Targets) (a : String) (s : Snapshot) :
    ∀ (es : List Elem) (st : σ) (stored : Targets), tget stored a = some s →
      ExAll (fun r => tget r.stored a = some s) (kidsRun m cs targets es st stored)
  | [], st, stored, h => by simpa [kidsRun, ExAll] using h
  | e :: rest, st, stored, h => by
    unfold kidsRun
    refine ExAll.bind (stored_kept_elem cs targets a s e st stored h) ?_
    intro r1 hr1
    refine ExAll.bind (stored_kept_kids cs targets a s rest r1.state r1.stored hr1) ?_
    intro r2 hr2
    simpa [ExAll, pure, Except.pure] using hr2
end

/-- **C15.target_values** (storing side) — for a displayed element carrying an anchor that no earlier
element carried, the snapshot kept for the whole document is the counter state right after the element's
own `counter-*` declarations and its `::before`, before its children and `::after` — and nothing later
replaces it. -/
theorem target_snapshot (cs : Styles) (targets : Targets) (ops : Ops) (listStyle : Option CName)
    (markerContent : Option (List Item)) (a : String) (before after : Option Pseudo) (kids : List Elem)
    (st : σ) (stored : Targets) (hd : ops.disp ≠ .none) (hnew : tget stored a = none) :
    ExAll (fun r => ∃ st1 pb, m.update st ops = .ok st1 ∧
        pseudoRun m cs targets "before" before (m.push st1) = .ok pb ∧
        tget r.stored a = some (m.stack pb.2))
      (elemRun m cs targets (.mk ops listStyle markerContent (some a) before after kids) st stored) := by
  have self : ∀ {α : Type} (x : Except CErr α), ExAll (fun v => x = .ok v) x := by
    intro α x; cases x <;> simp [ExAll]
  unfold elemRun
  simp only [hd, if_false]
  refine ExAll.bind (self _) ?_
  intro st1 hu
  by_cases hli : ops.disp = .listItem
  all_goals
    simp only [hli, if_true, if_false]
    refine ExAll.bind (ExAll.triv _) ?_
    intro mk _
    refine ExAll.bind (self _) ?_
    intro pb hp
    have hst : tget (storeTarget stored a (m.stack pb.2)) a = some (m.stack pb.2) :=
      storeTarget_stores stored a _ hnew
    refine ExAll.bind (stored_kept_kids m cs targets a _ kids pb.2 _ hst) ?_
    intro r hr
    refine ExAll.bind (ExAll.triv _) ?_
    intro pa _
    refine ExAll.bind (ExAll.triv _) ?_
    intro st3 _
    simp only [ExAll, pure, Except.pure]
    exact ⟨st1, pb, hu, hp, hr⟩

end

/- `ExAll` is used through its lemmas only from here on: unfolding it on a concrete run would make the
elaborator evaluate the whole traversal. -/
attribute [irreducible] ExAll

/-! ## Re-pagination loop -/

open Wp.Repaginate

/-- **C15.bounded** — `layout_document` makes at most `max_loops` passes. -/
theorem bounded {σ : Type} (step : σ → σ × PassObs) : ∀ (k total : Nat) (last : Option (Nat × PassObs)) (s : σ),
    (loopFrom step k total last s).passes ≤ k := by
  intro k
  induction k with
  | zero => intro total last s; simp [loopFrom]
  | succ k ih =>
    intro total last s
    unfold loopFrom
    simp only
    split
    · have := ih (step s).2.pages (some (total, (step s).2)) (step s).1
      simp only; omega
    · simp

theorem layout_bounded {σ : Type} (step : σ → σ × PassObs) (maxLoops : Nat) (s : σ) :
    (layoutLoop step maxLoops s).passes ≤ maxLoops := bounded step maxLoops 0 none s

/-- When the loop is left by its `break`, the last pass raised no `content_changed` flag, and either
no page wants `pages` or the page count did not change during that pass; the returned page count is
the one of that pass. -/
theorem fixpoint_flags {σ : Type} (step : σ → σ × PassObs) : ∀ (k total : Nat) (last : Option (Nat × PassObs)) (s : σ),
    (loopFrom step k total last s).converged = true →
    ∃ initial o, (loopFrom step k total last s).last = some (initial, o) ∧
      reloopContent o = false ∧ (o.flags.any (·.pagesWanted) = true → initial = o.pages) ∧
      (loopFrom step k total last s).pages = o.pages := by
  intro k
  induction k with
  | zero => intro total last s h; simp [loopFrom] at h
  | succ k ih =>
    intro total last s h
    unfold loopFrom at h ⊢
    simp only at h ⊢
    split
    · rename_i hre
      simp only [hre, if_true] at h
      exact ih _ _ _ h
    · rename_i hre
      refine ⟨total, (step s).2, rfl, ?_, ?_, rfl⟩
      · simp only [reloop, Bool.or_eq_true, not_or] at hre
        simpa using hre.1
      · intro hpw
        simp only [reloop, Bool.or_eq_true, not_or, reloopPages, hpw, Bool.true_and] at hre
        simpa using hre.2

/-- The state a pass leaves: which number every page-based reference prints, and on which page its
target lies in the pagination of that pass. -/
structure World (σ : Type) where
  step : σ → σ × PassObs
  labels : σ → List (Nat × Nat)

/-- The contract of `make_page` / `cache_target_page_counters` assumed by `fixpoint_consistent`: a pass
after which some printed number differs from the page of its target raises `content_changed`
somewhere (sampled by the `toc-labels` correspondence on real documents). -/
def World.Sound {σ : Type} (w : World σ) : Prop :=
  ∀ s, (∃ l ∈ w.labels (w.step s).1, l.1 ≠ l.2) → reloopContent (w.step s).2 = true

private theorem loop_state {σ : Type} (step : σ → σ × PassObs) : ∀ (k total : Nat) (last : Option (Nat × PassObs)) (s : σ),
    (loopFrom step k total last s).converged = true →
    ∃ s0 initial, (loopFrom step k total last s).state = (step s0).1 ∧
      (loopFrom step k total last s).last = some (initial, (step s0).2) := by
  intro k
  induction k with
  | zero => intro total last s h; simp [loopFrom] at h
  | succ k ih =>
    intro total last s h
    unfold loopFrom at h ⊢
    simp only at h ⊢
    split
    · rename_i hre
      simp only [hre, if_true] at h
      exact ih _ _ _ h
    · exact ⟨s, total, rfl, rfl⟩

/-- **C15.fixpoint_consistent** — if `layout_document` leaves its loop by the `break` (no
`content_changed`, no effective `pages_wanted`) and the flags are sound, every printed page-based
number equals the page of its target in the *returned* pagination. -/
theorem fixpoint_consistent {σ : Type} (w : World σ) (hs : w.Sound) (maxLoops : Nat) (s : σ)
    (hc : (layoutLoop w.step maxLoops s).converged = true) :
    ∀ l ∈ w.labels (layoutLoop w.step maxLoops s).state, l.1 = l.2 := by
  unfold layoutLoop at hc ⊢
  obtain ⟨s0, i0, hst, hlast⟩ := loop_state w.step maxLoops 0 none s hc
  obtain ⟨initial, o, hl, hcontent, _, _⟩ := fixpoint_flags w.step maxLoops 0 none s hc
  rw [hl] at hlast
  have ho : o = (w.step s0).2 := by
    have := Option.some.inj hlast
    exact (Prod.mk.inj this).2
  intro l hmem
  rw [hst] at hmem
  by_cases hne : l.1 = l.2
  · exact hne
  · have := hs s0 ⟨l, hmem, hne⟩
    rw [← ho, hcontent] at this
    cases this

/-- `counter(pages)`: when the loop converged and some page printed `pages`, the total it was laid out
with (the previous pass's count) is the returned page count. -/
theorem pages_consistent {σ : Type} (step : σ → σ × PassObs) (maxLoops : Nat) (s : σ)
    (hc : (layoutLoop step maxLoops s).converged = true) :
    ∃ initial o, (layoutLoop step maxLoops s).last = some (initial, o) ∧
      (o.flags.any (·.pagesWanted) = true → initial = (layoutLoop step maxLoops s).pages) := by
  obtain ⟨initial, o, h1, _, h3, h4⟩ := fixpoint_flags step maxLoops 0 none s hc
  exact ⟨initial, o, h1, fun h => by rw [show (layoutLoop step maxLoops s).pages = o.pages from h4]; exact h3 h⟩

/-- `make_all_pages`: a page is reused only when pages exist and neither flag of its entry is set. -/
theorem reuse_only_if_clean (pagesEmpty : Bool) (f : Flags) :
    mustRemake pagesEmpty f = false ↔ pagesEmpty = false ∧ f.contentChanged = false ∧ f.pagesWanted = false := by
  cases pagesEmpty <;> cases f with | mk a b => cases a <;> cases b <;> simp [mustRemake]

/-! ## Non-vacuity: every hypothesis used above is satisfiable on a concrete, non-trivial input -/

section Examples
private def roman : List (Nat × Sym) :=
  [(1000, .str "m"), (900, .str "cm"), (500, .str "d"), (400, .str "cd"), (100, .str "c"), (90, .str "xc"),
   (50, .str "l"), (40, .str "xl"), (10, .str "x"), (9, .str "ix"), (5, .str "v"), (4, .str "iv"), (1, .str "i")]

example : numDigits 10 2024 = [2, 0, 2, 4] := by decide
example : decodeNum 10 (numDigits 10 2024) = 2024 := numeric_roundtrip 10 2024 (by decide)
example : alphaDigits 26 28 = [0, 1] := by decide          -- "ab"
example : decodeAlpha 26 (alphaDigits 26 703) = 703 := alphabetic_roundtrip 26 703 (by decide)
example : (additiveLoop roman 1994 []).map weightSum = some 1994 := by decide
example : (additiveLoop roman 1994 []).map (fun l => String.join (l.map (·.2.text))) = some "mcmxciv" := by decide
example : additiveLoop [(5, .str "V"), (0, .str "Z"), (2, .str "II")] 3 [] = none := by decide
example : roman.Pairwise (fun a b => a.1 ≥ b.1) := by decide
-- cyclic / fixed / symbolic hypotheses
example : step3 { symbols := some [.str "a", .str "b", .str "c"] } "cyclic" none (-1) true = .initial "b" := by
  decide
example : step3 { symbols := some [.str "a", .str "b"] } "fixed" (some 3) 5 false = .fallback 5 := by decide
example : step3 { symbols := some [.str "*", .str "+"] } "symbolic" none 5 false = .initial "***" := by decide
-- fallback_original_value: additive remainder on a negative value
example : step3 { additive := some [(5, .str "V")] } "additive" none (step3Value "additive" (-3)) (decide ((-3 : Int) < 0))
    = .fallback (-3) := by decide
-- range_fallback / render_representable hypotheses
example : inRange { range := some (.entries [.pair (.fin 1) (.fin 3999)]) } "additive" 4000 = .ok false := by decide
example : inRange {} "alphabetic" 0 = .ok false := by decide
-- pad / negative
example : padNeg { pad := some (3, .str "0") } true "7" = "-07" := by decide
example : padNeg { pad := some (5, .str "0"), negative := some (.str "(", .str ")") } true "7" = "(007)" := by decide
-- marker
example : renderMarker Gen.uaCounterStyles (.named "lower-roman") 4 = .ok "iv. " := by decide
example : renderMarker Gen.uaCounterStyles (.named "cjk-decimal") 10 = .ok "一〇、" := by decide
-- termination hypothesis and a cyclic fallback
private def cyc : Styles :=
  [("a", { system := some ⟨false, "cyclic", none⟩, symbols := some [.str "x"], range := some (.entries [.pair (.fin 1) (.fin 2)]), fallback := some "b" }),
   ("b", { system := some ⟨false, "cyclic", none⟩, symbols := some [.str "y"], range := some (.entries [.pair (.fin 1) (.fin 2)]), fallback := some "a" })]
example : lookup cyc "decimal" = none := by decide
example : renderValueTop (cyc ++ Gen.uaCounterStyles) 7 (.named "a") = .ok "7" := by decide
-- scoping: the relation is inhabited beyond the initial state
example : (updateCounters initState ⟨.other, [("c", 3)], [], some [("c", 2), ("d", 1)]⟩).map
    (fun st => (vget st.values "c", vget st.values "d", st.scopes)) = .ok (some [5], some [1], [["footnote", "c", "d"]]) := by
  decide
example : Spec.stack (Spec.update Spec.init ⟨.listItem, [("c", 3)], [], none⟩) "list-item" = [1] := by decide
-- list numbering with a nested list inside an item
private def li (kids : List Elem) : Elem := .mk ⟨.listItem, [], [], none⟩ (some (.named "decimal")) none none none none kids
private def ol (start : Int) (kids : List Elem) : Elem := .mk ⟨.other, [("list-item", start)], [], some []⟩ none none none none none kids
private def exItems : List Elem := [li [], li [ol 0 [li [], li []]], li []]
private def exFrames : Spec.Frames := [[], [("list-item", 4), ("footnote", 0)], []]
private theorem exItems_ok : ∀ e ∈ exItems, isItem e = true := by
  intro e he
  simp only [exItems, List.mem_cons, List.mem_nil_iff, or_false] at he
  rcases he with h | h | h <;> subst h <;>
    simp [isItem, li, ol, pseudoQuiet, containedSeq, resetsFirst, namesOf]
/-- three items, the second containing a nested two-item list: the outer counter ends at 4 + 3 -/
example : ExAll (fun r => Spec.stack r.state "list-item" = (4 + (exItems.length : Int)) :: [])
    (kidsRun Spec.machine Gen.uaCounterStyles [] exItems exFrames []) :=
  list_numbers_nested Gen.uaCounterStyles [] exItems exFrames [] 4 [] exItems_ok
    (by simp [exFrames, Spec.stack, Spec.flookup])
-- re-pagination: a converging run (3 passes, the usual table of contents)
private def tocStep : Nat → Nat × PassObs
  | 0 => (1, ⟨3, [⟨true, false⟩, ⟨false, false⟩]⟩)
  | 1 => (2, ⟨3, [⟨true, false⟩, ⟨false, false⟩]⟩)
  | n => (n + 1, ⟨3, [⟨false, false⟩, ⟨false, false⟩]⟩)
example : (layoutLoop tocStep 8 0).converged = true ∧ (layoutLoop tocStep 8 0).passes = 3 := by decide
end Examples

/-! `update_order_partial`: hypothesis satisfiable (different counters), and the excluded case differs -/
example : Spec.stack (Spec.update Spec.init ⟨.other, [("c", 3)], [("c", 5)], some [("d", 1)]⟩) "c" =
    Spec.stack (Spec.updateCss Spec.init ⟨.other, [("c", 3)], [("c", 5)], some [("d", 1)]⟩) "c" :=
  update_order_partial _ _ "c" (Or.inr (by decide))
example : Spec.stack (Spec.update Spec.init ⟨.other, [], [("c", 5)], some [("c", 1)]⟩) "c" = [6] ∧
    Spec.stack (Spec.updateCss Spec.init ⟨.other, [], [("c", 5)], some [("c", 1)]⟩) "c" = [5] := by decide

end Wp.C15
