/-
C05 — refinement: the verified checker of used values (`Model/UsedCheck.lean`) accepts, clause by clause,
every box the block-tree model (`Model/BlockTree.lean`) produces, in ltr and in rtl — so the checker run on rendered documents
and the model compared with the real functions are tied by proof, not only by testing.
Core Lean only.
-/
import WpModel.Props.C05
import WpModel.Props.C05Check

namespace Wp.C05Refine
open Wp Wp.BoxModel Wp.BlockTree Wp.UsedCheck Wp.C05

set_option linter.unusedSimpArgs false

/-- `max-width` as the checker reads it (`none` = unbounded). -/
def extToOpt : Ext → Option Rat
  | .fin m => some m
  | _ => none

/-- The checker's view of a box laid out by the tree model (horizontal clauses; the tree model has no
vertical half: `y`, `h` are 0 and the box counts as fragmented so that no height clause applies). -/
def uboxOf (g : Geo) (u : Used) (rtl : Bool) : UBox :=
  { x := g.x, y := 0, w := g.w, h := 0, ml := g.ml, mr := g.mr, mt := g.mt, mb := g.mb, pl := g.pl, pr := g.pr,
    pt := g.pt, pb := g.pb, bl := g.bl, br := g.br, bt := g.bt, bb := g.bb, minW := u.minWidth,
    maxW := extToOpt u.maxWidth, minH := 0, maxH := none, mlAuto := u.marginLeft.isNone,
    mrAuto := u.marginRight.isNone, wAuto := u.width.isNone, hAuto := true, kind := .flow, rtl := rtl,
    whole := false }

/-- Paddings, borders and `min-width` resolved to non-negative values (true of every valid style sheet:
the CSS grammar rejects negative paddings, borders and min-widths). -/
def NonNegUsed (u : Used) : Prop :=
  0 ≤ u.paddingLeft ∧ 0 ≤ u.paddingRight ∧ 0 ≤ u.paddingTop ∧ 0 ≤ u.paddingBottom ∧
  0 ≤ u.borderLeft ∧ 0 ≤ u.borderRight ∧ 0 ≤ u.borderTop ∧ 0 ≤ u.borderBottom ∧ 0 ≤ u.minWidth

private theorem bind_eq_ok {α β} (a : Except BErr α) (f : α → Except BErr β) (r : β) :
    (a >>= f) = .ok r ↔ ∃ x, a = .ok x ∧ f x = .ok r := by
  cases a <;> simp [bind, Except.bind]

private theorem lenToRat_ok {site : String} {l : Len} {q : Rat} (h : lenToRat site l = .ok q) :
    l = some q := by
  cases l <;> simp [lenToRat] at h
  rw [h]

/-- `layoutBox` unfolded: the decorated `block_level_width` ran on `aboxOfUsed u x` and `g` reads its
result. -/
theorem layoutBox_unfold (cb : CB) (cbH : Len) (x fs : Rat) (s : NStyle) (g : Geo) (u : Used)
    (h : layoutBox cb cbH x fs s = .ok (g, u)) :
    ∃ r, blockLevelWidthMinMax cb (aboxOfUsed u x) = .ok r ∧
      r.ml = some g.ml ∧ r.mr = some g.mr ∧ r.w = some g.w ∧ g.x = r.posX ∧
      g.pl = u.paddingLeft ∧ g.pr = u.paddingRight ∧ g.bl = u.borderLeft ∧ g.br = u.borderRight ∧
      g.pt = u.paddingTop ∧ g.pb = u.paddingBottom ∧ g.bt = u.borderTop ∧ g.bb = u.borderBottom := by
  unfold layoutBox at h
  simp only [bind_eq_ok] at h
  obtain ⟨style, _, u', hu, r, hr, g', hg, hp⟩ := h
  simp only [pure, Except.pure, Except.ok.injEq, Prod.mk.injEq] at hp
  obtain ⟨rfl, rfl⟩ := hp
  unfold geoOf at hg
  simp only [bind_eq_ok] at hg
  obtain ⟨ml, hml, mr, hmr, w, hw, hg⟩ := hg
  simp only [pure, Except.pure, Except.ok.injEq] at hg
  subst hg
  obtain ⟨w', e, _⟩ := minmax_last_pass cb.width cb.direction (aboxOfUsed u' x) r hr
  have hk := specified_kept cb.width cb.direction
    { aboxOfUsed u' x with w := w', posX := (aboxOfUsed u' x).posX }
  rw [← e] at hk
  obtain ⟨_, _, _, hpl, hpr, hbl, hbr, _⟩ := hk
  exact ⟨r, hr, lenToRat_ok hml, lenToRat_ok hmr, lenToRat_ok hw, rfl, hpl, hpr, hbl, hbr, rfl, rfl, rfl, rfl⟩

/-- (b) after the decorated `block_level_width` the margin box fills the containing block, **or** the
checker's evidence of over-constraint holds: the width is a fixed one (specified, `min-width` or
`max-width`) and both margins are specified, or the auto ones are 0 and the box is wider than its
containing block.  (For every input: this is the exact disjunction the checker tests.) -/
theorem minmax_equation_or_evidence (cbw : Rat) (dir : Dir) (b r : ABox)
    (h : handleMinMaxWidth (fun b => .ok (blwCore cbw dir b)) b = .ok r) :
    outer? r = some cbw ∨
    (∃ w l m, r.w = some w ∧ r.ml = some l ∧ r.mr = some m ∧
      (b.w = some w ∨ w = b.minW ∨ b.maxW = .fin w) ∧
      ((b.ml ≠ none ∧ b.mr ≠ none) ∨
       ((b.ml = none → l = 0) ∧ (b.mr = none → m = 0) ∧ l + b.bl + b.pl + w + b.pr + b.br + m > cbw))) := by
  obtain ⟨w', e, hw'⟩ := minmax_last_pass cbw dir b r h
  by_cases hov : OverC cbw { b with w := w', posX := b.posX }
  · right
    obtain ⟨hw, hl, hm, _⟩ := overconstrained_geometry cbw dir _ hov
    obtain ⟨w, hww, hcase⟩ := hov
    simp only at hww hw hl hm hcase
    rw [← e] at hw hl hm
    refine ⟨w, orZero b.ml, orZero b.mr, by rw [hw, hww], hl, hm, ?_, ?_⟩
    · rcases hw' with h1 | h1 | ⟨m, hm', h1⟩
      · left; rw [← h1]; exact hww
      · right; left; rw [h1] at hww; exact (Option.some.inj hww).symm
      · right; right; rw [h1] at hww; rw [← Option.some.inj hww]; exact hm'
    · rcases hcase with hboth | hgt
      · exact Or.inl hboth
      · right
        refine ⟨?_, ?_, ?_⟩
        · intro hn; simp [hn, orZero]
        · intro hn; simp [hn, orZero]
        · have : ABox.specTotal { b with w := w', posX := b.posX } w = b.pb + w + orZero b.ml + orZero b.mr := rfl
          rw [this] at hgt
          unfold ABox.pb at hgt
          grind
  · left
    rw [e]
    exact (width_equation_partial cbw dir _ hov).1

/-- **Refinement, one box, ltr and rtl** (full strength since /repo 165e254; before, the rtl half needed
"at most the last pass is over-constrained"): every box the tree model lays out passes all horizontal
clauses of the checker exactly (tolerance 0): non-negative sizes, `min-width ≤ width` (`≤ max-width` when
`min ≤ max`), margin-left edge at the parent's content edge in ltr / margin-right edge at its end in rtl,
and the width equation or the evidence of over-constraint. -/
theorem layoutBox_accepted (pw : Rat) (dir : Dir) (cbH : Len) (x fs : Rat) (s : NStyle) (g : Geo) (u : Used)
    (rtl : Bool) (h : layoutBox (.box pw dir) cbH x fs s = .ok (g, u)) (hnn : NonNegUsed u) :
    nodeOk 0 { cx := x, pw := pw, prtl := dir == .rtl } (uboxOf g u rtl) = true := by
  have hflush : ∀ r, blockLevelWidthMinMax (.box pw dir) (aboxOfUsed u x) = .ok r → EdgeFlush pw dir x r :=
    fun r hr => edge_flush_minmax pw dir (aboxOfUsed u x) r hr
  obtain ⟨r, hr, hml, hmr, hw, hx, hpl, hpr, hbl, hbr, hpt, hpb, hbt, hbb⟩ :=
    layoutBox_unfold _ cbH x fs s g u h
  obtain ⟨p1, p2, p3, p4, p5, p6, p7, p8, p9⟩ := hnn
  -- (c) min/max
  obtain ⟨w, hw1, hmin, hmax⟩ := blw_minmax _ _ _ hr
  rw [hw] at hw1
  have ew : g.w = w := Option.some.inj hw1
  subst ew
  simp only [aboxOfUsed] at hmin hmax
  -- what the last pass keeps
  have hkept : r.bl = g.bl ∧ r.pl = g.pl ∧ r.pr = g.pr ∧ r.br = g.br ∧ r.isColumn = false := by
    obtain ⟨w'', e, _⟩ := minmax_last_pass pw dir (aboxOfUsed u x) r hr
    have hk := specified_kept pw dir { aboxOfUsed u x with w := w'', posX := (aboxOfUsed u x).posX }
    rw [← e] at hk
    obtain ⟨_, _, _, k1, k2, k3, k4, _, _, k7⟩ := hk
    simp only [aboxOfUsed] at k1 k2 k3 k4 k7
    exact ⟨by rw [k3, hbl], by rw [k1, hpl], by rw [k2, hpr], by rw [k4, hbr], k7⟩
  obtain ⟨e1, e2, e3, e4, ecol⟩ := hkept
  -- (f) edge
  obtain ⟨o, ho, hfl⟩ := hflush r hr
  simp only [outer?, hml, hmr, hw, Option.some.injEq, e1, e2, e3, e4] at ho
  rw [ecol] at hfl
  -- (b) equation
  have heq := minmax_equation_or_evidence pw dir (aboxOfUsed u x) r hr
  have hnonneg : nonneg (uboxOf g u rtl) = true := by
    simp only [nonneg, uboxOf, Bool.and_eq_true, decide_eq_true_eq, hpl, hpr, hbl, hbr, hpt, hpb, hbt, hbb]
    refine ⟨⟨⟨⟨⟨⟨⟨⟨⟨?_, Rat.le_refl⟩, p1⟩, p2⟩, p3⟩, p4⟩, p5⟩, p6⟩, p7⟩, p8⟩
    exact Rat.le_trans p9 hmin
  have hmm : minMaxW 0 (uboxOf g u rtl) = true := by
    simp only [minMaxW, uboxOf, Bool.and_eq_true, decide_eq_true_eq, Rat.add_zero]
    refine ⟨hmin, ?_⟩
    cases hm : u.maxWidth with
    | fin m =>
      simp only [extToOpt, Bool.or_eq_true, Bool.not_eq_true', decide_eq_false_iff_not, decide_eq_true_eq]
      by_cases hle : u.minWidth ≤ m
      · exact Or.inr (hmax m hm hle)
      · exact Or.inl (decide_eq_false hle)
    | inf => rfl
    | ninf => rfl
    | nan => rfl
  have hmh : minMaxH 0 (uboxOf g u rtl) = true := by simp [minMaxH, uboxOf]
  have hed : edge 0 { cx := x, pw := pw, prtl := dir == .rtl } (uboxOf g u rtl) = true := by
    cases dir with
    | ltr =>
      simp only [Bool.and_eq_true, decide_eq_true_eq, Bool.not_eq_true', reduceCtorEq, false_and,
        Bool.false_eq_true, if_false] at hfl
      have hxx : g.x = x := by rw [hx, hfl]
      have : (Dir.ltr == Dir.rtl) = false := rfl
      simp only [edge, this, uboxOf, Bool.false_eq_true, if_false, near, hxx, Bool.and_eq_true, decide_eq_true_eq]
      constructor <;> grind
    | rtl =>
      simp only [Bool.not_false, Bool.and_true, decide_true, if_true] at hfl
      have : (Dir.rtl == Dir.rtl) = true := rfl
      simp only [edge, this, if_true, near, UBox.outer, uboxOf, Bool.and_eq_true, decide_eq_true_eq]
      constructor <;> grind
  have hequ : equation 0 { cx := x, pw := pw, prtl := dir == .rtl } (uboxOf g u rtl) = true := by
    simp only [equation, Bool.or_eq_true]
    rcases heq with he | ⟨w', l, m, hw', hl, hm, hfix, hev⟩
    · left
      simp only [outer?, hml, hmr, hw, Option.some.injEq] at he
      simp only [near, UBox.outer, uboxOf, Bool.and_eq_true, decide_eq_true_eq]
      rw [e1, e2, e3, e4] at he
      constructor <;> grind
    · right
      rw [hw] at hw'; rw [hml] at hl; rw [hmr] at hm
      have e1 : g.w = w' := Option.some.inj hw'
      have e2 : g.ml = l := Option.some.inj hl
      have e3 : g.mr = m := Option.some.inj hm
      subst e1 e2 e3
      simp only [aboxOfUsed] at hfix hev
      have hnear : ∀ a : Rat, near 0 a a = true := by
        intro a; rw [C05Check.near_iff]; constructor <;> grind
      have hwf : widthFixed 0 (uboxOf g u rtl) = true := by
        unfold widthFixed
        rcases hfix with h1 | h1 | h1
        · have : (uboxOf g u rtl).wAuto = false := by simp [uboxOf, h1]
          rw [this]; rfl
        · have : near 0 (uboxOf g u rtl).w (uboxOf g u rtl).minW = true := by
            show near 0 g.w u.minWidth = true
            rw [h1]; exact hnear _
          rw [this]; simp
        · have e : (uboxOf g u rtl).maxW = some g.w := by simp [uboxOf, h1, extToOpt]
          rw [e]
          have : near 0 (uboxOf g u rtl).w g.w = true := hnear _
          simp only [this, Bool.or_true]
      have hrest : ((!(uboxOf g u rtl).mlAuto && !(uboxOf g u rtl).mrAuto) ||
          ((!(uboxOf g u rtl).mlAuto || decide ((uboxOf g u rtl).ml = 0)) &&
           (!(uboxOf g u rtl).mrAuto || decide ((uboxOf g u rtl).mr = 0)) &&
           decide ((uboxOf g u rtl).outer > pw))) = true := by
        rcases hev with ⟨hl', hm'⟩ | ⟨hl', hm', hgt⟩
        · have a1 : (uboxOf g u rtl).mlAuto = false := by
            cases hq : u.marginLeft with
            | none => exact absurd hq hl'
            | some v => simp [uboxOf, hq]
          have a2 : (uboxOf g u rtl).mrAuto = false := by
            cases hq : u.marginRight with
            | none => exact absurd hq hm'
            | some v => simp [uboxOf, hq]
          rw [a1, a2]; rfl
        · have a1 : (!(uboxOf g u rtl).mlAuto || decide ((uboxOf g u rtl).ml = 0)) = true := by
            cases hq : u.marginLeft with
            | none =>
              have : (uboxOf g u rtl).ml = 0 := hl' hq
              rw [decide_eq_true this]; simp
            | some v =>
              have : (uboxOf g u rtl).mlAuto = false := by simp [uboxOf, hq]
              rw [this]; rfl
          have a2 : (!(uboxOf g u rtl).mrAuto || decide ((uboxOf g u rtl).mr = 0)) = true := by
            cases hq : u.marginRight with
            | none =>
              have : (uboxOf g u rtl).mr = 0 := hm' hq
              rw [decide_eq_true this]; simp
            | some v =>
              have : (uboxOf g u rtl).mrAuto = false := by simp [uboxOf, hq]
              rw [this]; rfl
          have a3 : decide ((uboxOf g u rtl).outer > pw) = true := by
            apply decide_eq_true
            show g.ml + g.bl + g.pl + g.w + g.pr + g.br + g.mr > pw
            rw [hpl, hpr, hbl, hbr]
            exact hgt
          rw [a1, a2, a3]; simp
      show overConstrained 0 { cx := x, pw := pw, prtl := dir == .rtl } (uboxOf g u rtl) = true
      unfold overConstrained
      rw [hwf]
      exact hrest
  have hk : ((uboxOf g u rtl).kind != Kind.flow) = false := rfl
  unfold nodeOk nodeVerdict
  simp only [hnonneg, hmm, hmh, hed, hequ, hk, Bool.not_true, Bool.false_eq_true, if_false, Option.isNone_none]

/-- **Refinement, one box, ltr**. -/
theorem layoutBox_accepted_ltr (pw : Rat) (cbH : Len) (x fs : Rat) (s : NStyle) (g : Geo) (u : Used)
    (rtl : Bool) (h : layoutBox (.box pw .ltr) cbH x fs s = .ok (g, u)) (hnn : NonNegUsed u) :
    nodeOk 0 { cx := x, pw := pw, prtl := false } (uboxOf g u rtl) = true :=
  layoutBox_accepted pw .ltr cbH x fs s g u rtl h hnn

/-- **Refinement, one box, rtl** — every input (was `layoutBox_accepted_rtl_partial` with the hypotheses
"first pass not over-constrained, `min-width ≤ max-width`" until the repair of
`rtl-minmax-shift-accumulates`). -/
theorem layoutBox_accepted_rtl (pw : Rat) (cbH : Len) (x fs : Rat) (s : NStyle) (g : Geo) (u : Used)
    (rtl : Bool) (h : layoutBox (.box pw .rtl) cbH x fs s = .ok (g, u)) (hnn : NonNegUsed u) :
    nodeOk 0 { cx := x, pw := pw, prtl := true } (uboxOf g u rtl) = true :=
  layoutBox_accepted pw .rtl cbH x fs s g u rtl h hnn

/-! ### whole trees -/

mutual
/-- The traced layout is the layout the driver runs (and the harness compares with rendered documents). -/
theorem layoutNodeT_geo (cb : CB) (cbH : Len) (x : Rat) (d : Dir) (fs : Rat) : ∀ n : Node,
    (layoutNodeT cb cbH x d fs n).map (fun l => l.map (·.g)) = layoutNode cb cbH x d fs n
  | .mk s kids => by
    simp only [layoutNodeT, layoutNode, bind, Except.bind]
    cases layoutBox cb cbH x (match s.fontSize with | some f => f | none => fs) s with
    | error e => rfl
    | ok gu =>
      obtain ⟨g, u⟩ := gu
      simp only
      rw [← layoutKidsT_geo]
      cases layoutKidsT (CB.box g.w (match s.dir with | some d' => d' | none => d)) u.height g.contentX
        (match s.dir with | some d' => d' | none => d) (match s.fontSize with | some f => f | none => fs) kids with
      | error e => rfl
      | ok rest => rfl
theorem layoutKidsT_geo (cb : CB) (cbH : Len) (x : Rat) (d : Dir) (fs : Rat) : ∀ ns : List Node,
    (layoutKidsT cb cbH x d fs ns).map (fun l => l.map (·.g)) = layoutKids cb cbH x d fs ns
  | [] => rfl
  | n :: ns => by
    simp only [layoutKidsT, layoutKids, bind, Except.bind]
    rw [← layoutNodeT_geo cb cbH x d fs n, ← layoutKidsT_geo cb cbH x d fs ns]
    cases layoutNodeT cb cbH x d fs n with
    | error e => rfl
    | ok a =>
      cases layoutKidsT cb cbH x d fs ns with
      | error e => rfl
      | ok b => simp [Except.map, pure, Except.pure]
end

mutual
/-- Every entry of the traced layout is a `layoutBox` result in the containing block it records. -/
theorem layoutNodeT_entries (cb : CB) (cbH : Len) (x : Rat) (d : Dir) (fs : Rat) : ∀ (n : Node) (out : List Placed),
    layoutNodeT cb cbH x d fs n = .ok out →
    ∀ p ∈ out, ∃ cbH' fs' s', layoutBox p.cb cbH' p.x fs' s' = .ok (p.g, p.u)
  | .mk s kids, out => by
    intro h p hp
    simp only [layoutNodeT, bind_eq_ok] at h
    obtain ⟨⟨g, u⟩, hb, rest, hr, ho⟩ := h
    simp only [pure, Except.pure, Except.ok.injEq] at ho
    subst ho
    simp only [List.mem_cons] at hp
    rcases hp with rfl | hp
    · exact ⟨_, _, _, hb⟩
    · exact layoutKidsT_entries _ _ _ _ _ kids rest hr p hp
theorem layoutKidsT_entries (cb : CB) (cbH : Len) (x : Rat) (d : Dir) (fs : Rat) : ∀ (ns : List Node) (out : List Placed),
    layoutKidsT cb cbH x d fs ns = .ok out →
    ∀ p ∈ out, ∃ cbH' fs' s', layoutBox p.cb cbH' p.x fs' s' = .ok (p.g, p.u)
  | [], out => by
    intro h p hp
    simp only [layoutKidsT, pure, Except.pure, Except.ok.injEq] at h
    subst h
    cases hp
  | n :: ns, out => by
    intro h p hp
    simp only [layoutKidsT, bind_eq_ok] at h
    obtain ⟨a, ha, b, hb, ho⟩ := h
    simp only [pure, Except.pure, Except.ok.injEq] at ho
    subst ho
    simp only [List.mem_append] at hp
    rcases hp with hp | hp
    · exact layoutNodeT_entries cb cbH x d fs n a ha p hp
    · exact layoutKidsT_entries cb cbH x d fs ns b hb p hp
end

/-- Every containing block of the traced layout is a box (never the `(width, height)` tuple form) as
soon as the outermost one is. -/
private theorem cb_is_box (cb : CB) : (∃ pw d, cb = .box pw d) → CB.box cb.width cb.direction = cb := by
  rintro ⟨pw, d, rfl⟩; rfl

/-- **Refinement, whole trees, ltr and rtl** (`check (model x) = true`): in the layout of any tree of blocks
by the model, every box (with non-negative resolved paddings, borders and `min-width`) laid out in a box
containing block of either direction passes every horizontal clause of the verified checker, with
tolerance 0, in the context of its own containing block. -/
theorem layoutNode_accepted (cb : CB) (cbH : Len) (x : Rat) (d : Dir) (fs : Rat) (n : Node)
    (out : List Placed) (h : layoutNodeT cb cbH x d fs n = .ok out) :
    ∀ p ∈ out, (∃ pw dir, p.cb = .box pw dir) → NonNegUsed p.u →
      nodeOk 0 { cx := p.x, pw := p.cb.width, prtl := p.cb.direction == .rtl }
        (uboxOf p.g p.u (p.dir == .rtl)) = true := by
  intro p hp hbox hnn
  obtain ⟨cbH', fs', s', hb⟩ := layoutNodeT_entries cb cbH x d fs n out h p hp
  rw [← cb_is_box p.cb hbox] at hb
  exact layoutBox_accepted p.cb.width p.cb.direction cbH' p.x fs' s' p.g p.u _ hb hnn

/-- The ltr instance under its former name. -/
theorem layoutNode_accepted_ltr (cb : CB) (cbH : Len) (x : Rat) (d : Dir) (fs : Rat) (n : Node)
    (out : List Placed) (h : layoutNodeT cb cbH x d fs n = .ok out) :
    ∀ p ∈ out, (∃ pw, p.cb = .box pw .ltr) → NonNegUsed p.u →
      nodeOk 0 { cx := p.x, pw := p.cb.width, prtl := false } (uboxOf p.g p.u (p.dir == .rtl)) = true := by
  intro p hp ⟨pw, hcb⟩ hnn
  have := layoutNode_accepted cb cbH x d fs n out h p hp ⟨pw, .ltr, hcb⟩ hnn
  rw [hcb] at this ⊢
  exact this

/-- Non-vacuity: a parent of 200px with a centred child of 50% width and a grandchild with paddings. -/
def exStyle : NStyle where
  ml := .px 0
  mr := .px 0
  mt := .px 0
  mb := .px 0
  pl := .px 0
  pr := .px 0
  pt := .px 0
  pb := .px 0
  bl := .px 0
  br := .px 0
  bt := .px 0
  bb := .px 0
  width := .auto
  height := .auto
  minW := .auto
  minH := .auto
  maxW := .none
  maxH := .none
  boxSizing := .contentBox
  dir := none
  fontSize := none

def exNode : Node :=
  .mk exStyle [.mk { exStyle with ml := .auto, mr := .auto, width := .pct 50 }
    [.mk { exStyle with pl := .em 1, bl := .px 2 } []]]

example : (match layoutNodeT (.box 200 .ltr) none 0 .ltr 16 exNode with
    | .ok l => l.map (fun p => (p.x, p.g.ml, p.g.w, p.g.mr))
    | .error _ => []) = [(0, 0, 200, 0), (0, 50, 100, 50), (50, 0, 82, 0)] := by
  decide +kernel

/-- Regression (`fixed: rtl-minmax-shift-accumulates`, /repo 165e254): on `width: 200px; max-width: 50px` in
a 100px rtl containing block the model — like the code — now puts the 50px box at x = 50 (it used to be
−50: one shift per pass of the min/max wrapper) and the checker accepts it. -/
example : (match layoutBox (.box 100 .rtl) none 0 16 { exStyle with width := .px 200, maxW := .px 50 } with
    | .ok (g, u) => (g.x, nodeVerdict 0 { cx := 0, pw := 100, prtl := true } (uboxOf g u true))
    | .error _ => (0, some "error")) = (50, none) := by
  decide +kernel

/-- Non-vacuity of the rtl half on a tree: an rtl parent of 200px, an over-constrained child clamped by
`max-width`, a grandchild clamped by `min-width`: all three accepted. -/
example : (match layoutNodeT (.box 200 .rtl) none 0 .rtl 16
      (.mk exStyle [.mk { exStyle with width := .px 300, maxW := .px 80 }
        [.mk { exStyle with width := .px 10, minW := .px 120, ml := .px 5 } []]]) with
    | .ok l => l.map (fun p => (p.x, p.g.x, p.g.w,
        nodeVerdict 0 { cx := p.x, pw := p.cb.width, prtl := p.cb.direction == .rtl } (uboxOf p.g p.u true)))
    | .error _ => []) = [(0, 0, 200, none), (0, 120, 80, none), (120, 75, 120, none)] := by
  decide +kernel

end Wp.C05Refine
