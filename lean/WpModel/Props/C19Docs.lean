/-
C19 — the image cache at document level (`Model/ImageCache.runDocs`): renders that share `options['cache']`.  The
function-level theorems (`C19.cache_transparent`, `payload_transparent`) composed over any sequence of documents:
"rendering the same input again … with a warm or cold image cache gives the same" for all inputs of the model.  The tie
of `runDocs` to the source is the `image-docs` correspondence section (real `HTML.render(cache=…)` over sequences of
documents with `<img>` / `<embed>` / `<object>`, recording fetcher).
-/
import WpModel.Props.C19

namespace Wp.C19
open Wp Wp.ImageCache

/-- What every request of every document returned. -/
def renderDocs (f : Fetcher) (c : Cache) (docs : List (List Call)) : List (List (Except PyErr Entry)) :=
  (runDocs f c docs).map (fun rs => rs.map (·.value))

theorem payloadConsistent_consistent (f : Fetcher) (c : Cache) (h : PayloadConsistent f c) : Consistent f c :=
  fun url o opts e he forced => (h url o opts e he forced).1

theorem finalCache_payloadConsistent (f : Fetcher) (hx : Exclusive f) (c : Cache) (hc : PayloadConsistent f c)
    (d : List Call) : PayloadConsistent f (finalCache f c d) := by
  induction d generalizing c with
  | nil => exact hc
  | cons call rest ih =>
    simp only [finalCache]
    apply ih
    exact payload_consistent_history f hx c hc [call] _ (by simp [runCalls])

/-- **documents_independent_of_history** (document level, all inputs): in any sequence of renders sharing one image
cache — any documents, any orientations and forced MIME types, image options that differ from render to render —
every request of every document returns what it returns when that document is rendered alone on a cold cache. -/
theorem documents_independent_of_history (f : Fetcher) (hx : Exclusive f) (c : Cache) (hc : PayloadConsistent f c)
    (docs : List (List Call)) : renderDocs f c docs = docs.map (fun d => d.map (cold f)) := by
  induction docs generalizing c with
  | nil => rfl
  | cons d rest ih =>
    simp only [renderDocs, runDocs, List.map_cons, List.cons.injEq]
    exact ⟨cache_transparent f hx c (payloadConsistent_consistent f c hc) d,
      ih _ (finalCache_payloadConsistent f hx c hc d)⟩

/-- A document rendered after any history of other documents (warm cache) gets the images of a cold render. -/
theorem warm_equals_cold (f : Fetcher) (hx : Exclusive f) (history : List (List Call)) (d : List Call) :
    (renderDocs f [] (history ++ [d])).getLast? = (renderDocs f [] [d]).head? := by
  rw [documents_independent_of_history f hx [] (payloadConsistent_empty f),
    documents_independent_of_history f hx [] (payloadConsistent_empty f)]
  simp

/-- … and after the whole sequence the cache still holds, for every request of every document, the bytes a cold
render of that request stores (no document's image data was replaced by another document's). -/
theorem documents_keep_cold_bytes (f : Fetcher) (hx : Exclusive f) (docs : List (List Call)) (call : Call) (e : Entry)
    (hmem : lookup (finalCache f [] docs.flatten) (keyStr call.url call.orientation call.opts) = some e)
    (dk : String) (p : Payload) (hb : lookup (coldResult f call).cache dk = some (.bytes p)) :
    lookup (finalCache f [] docs.flatten) dk = some (.bytes p) :=
  ((finalCache_payloadConsistent f hx [] (payloadConsistent_empty f) docs.flatten) call.url call.orientation
    call.opts e hmem call.forced).2 dk p hb

example :
    let f : Fetcher := fun _ => .ok (some "image/jpeg") none ⟨1, false, some ⟨.jpeg, false, true⟩⟩
    renderDocs f [] [[⟨"u", "", .none, ⟨false, some 5, none⟩⟩], [⟨"u", "", .none, ⟨false, none, none⟩⟩,
      ⟨"u", "", .angle .q90 false, ⟨false, none, none⟩⟩]] =
      [[cold f ⟨"u", "", .none, ⟨false, some 5, none⟩⟩], [cold f ⟨"u", "", .none, ⟨false, none, none⟩⟩,
        cold f ⟨"u", "", .angle .q90 false, ⟨false, none, none⟩⟩]] := by decide

end Wp.C19
