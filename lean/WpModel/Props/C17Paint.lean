/-
C17 — paint-once for every kind of item, tables included, and exception-freedom of the paint
sequence.  Property theorems (second file; the first is `Props/C17.lean`).

`Sel` (Lemmas/PaintCount.lean) abstracts "the items I count"; the instances here are
`roleSel r i` — the items of role `r` (background, border, text, outline, column background, replaced
content, collapsed borders) of box `i` — and `raiseSel` — Python exceptions.
-/
import WpModel.Props.C17
import WpModel.Lemmas.PaintCount
import WpModel.Lemmas.PaintCountTransfer
import WpModel.Lemmas.PaintEnv

set_option linter.unusedSimpArgs false

namespace Wp.C17
open Wp Wp.Stacking Wp.Gen

/-! ## Selectors -/

/-- Is this the item of role `r` of box `i`? -/
def pickRole (r : Role) (i : Nat) : Item → Bool
  | .paint r' j _ _ => decide (r' = r) && decide (j = i)
  | .raise _ => false

def isColour : Option (Option Nat) → Bool
  | some (some _) => true
  | _ => false

/-- How many `r`-items of box `i` each primitive emits. -/
def roleSel (r : Role) (i : Nat) : Sel where
  pick := pickRole r i
  bg := fun role id b => if role = r ∧ id = i ∧ isColour b = true then 1 else 0
  border := fun a =>
    if r = .border ∧ a.id = i ∧ a.visible = true ∧ a.border.isSome = true then
      (if a.borderSides = 4 then 1 else a.borderSides) else 0
  text := fun a => if r = .text ∧ a.id = i ∧ a.visible = true then 1 else 0
  outline := fun a =>
    if r = .outline ∧ a.id = i ∧ a.visible = true ∧ a.outline.isSome = true then 4 else 0
  repl := fun a => if r = .replaced ∧ a.id = i ∧ a.visible = true then 1 else 0
  collapsed := fun a => if r = .collapsedBorders ∧ a.id = i then 1 else 0
  h_bg := by
    intro role id b cb e
    unfold drawBackground
    cases b with
    | none => simp [isColour]
    | some b' =>
      cases b' with
      | none => simp [isColour]
      | some c =>
        by_cases h1 : role = r <;> by_cases h2 : id = i <;> simp [pickRole, isColour, h1, h2]
  h_border := by
    intro a e
    unfold drawBorder
    by_cases hv : a.visible = true
    · cases hb : a.border with
      | none => simp [hv]
      | some c =>
        by_cases h1 : r = .border
        · by_cases h2 : a.id = i
          · by_cases h4 : a.borderSides = 4
            · simp [hv, h1, h2, h4, pickRole]
            · simp [hv, h1, h2, h4, pickRole, List.countP_replicate]
          · by_cases h4 : a.borderSides = 4 <;>
              simp [hv, h1, h2, h4, pickRole, List.countP_replicate]
        · have h1' : ¬ Role.border = r := fun h => h1 h.symm
          by_cases h4 : a.borderSides = 4 <;>
            simp [hv, h1, h1', h4, pickRole, List.countP_replicate]
    · simp [hv]
  h_text := by
    intro a e
    unfold drawText
    by_cases hv : a.visible = true
    · by_cases h1 : r = .text
      · by_cases h2 : a.id = i <;> simp [hv, h1, h2, pickRole]
      · have h1' : ¬ Role.text = r := fun h => h1 h.symm
        simp [hv, h1, h1', pickRole]
    · simp [hv]
  h_outline := by
    intro a e
    unfold ownOutline
    cases ho : a.outline with
    | none => simp
    | some c =>
      by_cases hv : a.visible = true
      · by_cases h1 : r = .outline
        · by_cases h2 : a.id = i <;> simp [hv, h1, h2, pickRole, List.countP_replicate]
        · have h1' : ¬ Role.outline = r := fun h => h1 h.symm
          simp [hv, h1, h1', pickRole, List.countP_replicate]
      · simp [hv]
  h_repl := by
    intro a e
    unfold drawReplaced
    by_cases hv : a.visible = true
    · by_cases h1 : r = .replaced
      · by_cases h2 : a.id = i <;> simp [hv, h1, h2, pickRole]
      · have h1' : ¬ Role.replaced = r := fun h => h1 h.symm
        simp [hv, h1, h1', pickRole]
    · simp [hv]
  h_collapsed := by
    intro a e
    by_cases h1 : r = .collapsedBorders
    · by_cases h2 : a.id = i <;> simp [h1, h2, pickRole]
    · have h1' : ¬ Role.collapsedBorders = r := fun h => h1 h.symm
      simp [h1, h1', pickRole]

def isRaise : Item → Bool
  | .raise _ => true
  | _ => false

/-- Counts the Python exceptions of a display list: no primitive raises. -/
def raiseSel : Sel where
  pick := isRaise
  bg := fun _ _ _ => 0
  border := fun _ => 0
  text := fun _ => 0
  outline := fun _ => 0
  repl := fun _ => 0
  collapsed := fun _ => 0
  h_bg := by
    intro role id b cb e
    unfold drawBackground
    cases b with
    | none => rfl
    | some b' => cases b' <;> simp [isRaise]
  h_border := by
    intro a e
    unfold drawBorder
    split
    · rfl
    · split
      · rfl
      · split <;> simp [isRaise, List.countP_replicate]
  h_text := by
    intro a e; unfold drawText; split <;> simp [isRaise]
  h_outline := by
    intro a e
    unfold ownOutline
    split
    · split <;> simp [isRaise, List.countP_replicate]
    · rfl
  h_repl := by intro a e; unfold drawReplaced; split <;> simp [isRaise]
  h_collapsed := by intro a e; simp [isRaise]

/-! ## paint_count: every item kind, tables included -/

/-- **Every kind of item is painted exactly as often as due.**  For a well-formed context (`okCtx`:
painted root classes, lists as built by the dispatcher, block / line / inline / atomic-inline / table
grammar) and every selector, the display list of `draw_stacking_context` contains exactly `expN` items:
each box's background, border (one path, or one per non-zero side), text, outline (four sides),
replaced content; for a table its background, its column backgrounds, its border or its collapsed
borders, the backgrounds of row groups and rows, and of the cells subject to `empty-cells`; nothing
at or below a singular transform. -/
theorem paint_count (s : Sel) (pov : Bool) (c : Node) (h : okCtx c) (e : Env) :
    s.cnt (paint pov c e) = expN s false c := by
  have := (count_node s pov c).ctx (by simp [okCtxL, h]) false e
  simpa [paintList, expL] using this

/-- Text: each visible text box of a well-formed context is shown exactly as often as it occurs in
the structure (once, with distinct ids), and not at all below a singular transform. -/
theorem paint_text_once (pov : Bool) (c : Node) (h : okCtx c) (i : Nat) (e : Env) :
    (paint pov c e).countP (pickRole .text i) = expN (roleSel .text i) false c :=
  paint_count (roleSel .text i) pov c h e

private theorem sum_map_zero {α} (l : List α) (f : α → Nat) (h : ∀ x, f x = 0) : (l.map f).sum = 0 := by
  induction l with
  | nil => rfl
  | cons x xs ih => simp [h x, ih]

private theorem raise_cols (t : Attrs) : raiseSel.cols t = 0 := by
  unfold Sel.cols
  apply sum_map_zero
  intro g
  simp [raiseSel, sum_map_zero]

private theorem raise_plainOwn (a : Attrs) : raiseSel.plainOwn a = 0 := by
  simp [Sel.plainOwn, Sel.deco, raiseSel]

private theorem raise_nodeOwn (tc : Bool) (a : Attrs) : raiseSel.nodeOwn tc a = 0 := by
  unfold Sel.nodeOwn
  split
  · simp [Sel.cellOwn, raiseSel]
  · split
    · simp [Sel.tableOwn, raise_cols]; simp [raiseSel]
    · exact raise_plainOwn a

mutual
private theorem expN_raise : ∀ (tc : Bool) (n : Node), expN raiseSel tc n = 0
  | tc, .leaf a => by simp [expN, raise_nodeOwn]
  | tc, .node a kids => by
    simp [expN, raise_nodeOwn, expL_raise (if a.kind.drawTable then a.collapse else tc) kids]
  | tc, .ph _ => rfl
  | tc, .ctx (.leaf a) neg zero pos _ floats _ _ => by
    simp [expN, expL_raise false neg, expL_raise false zero, expL_raise false pos,
      expL_raise false floats, raise_plainOwn]
  | tc, .ctx (.node a kids) neg zero pos _ floats _ _ => by
    simp [expN, expL_raise false kids, expL_raise false neg, expL_raise false zero,
      expL_raise false pos, expL_raise false floats, raise_plainOwn]
  | tc, .ctx (.ph _) .. => rfl
  | tc, .ctx (.ctx ..) .. => rfl
private theorem expL_raise : ∀ (tc : Bool) (l : List Node), expL raiseSel tc l = 0
  | tc, [] => rfl
  | tc, n :: ns => by simp [expL, expN_raise tc n, expL_raise tc ns]
end

/-- **The paint sequence raises nothing on well-formed structures**: neither the asserts of
`draw_inline_level` nor an attribute error (a StackingContext where a box is expected) is reachable. -/
theorem paint_total (pov : Bool) (c : Node) (h : okCtx c) (e : Env) :
    ∀ it ∈ paint pov c e, isRaise it = false := by
  have hc := paint_count raiseSel pov c h e
  rw [expN_raise] at hc
  intro it hit
  have : (paint pov c e).countP isRaise = 0 := hc
  rw [List.countP_eq_zero] at this
  simpa using this it hit

/-- The grammar on the laid-out tree (tables included) is inherited by everything the dispatcher
builds. -/
theorem dispatch_preserves_table_grammar (b : Box) :
    (hFlow b → optFlow (dispatchS b).1 ∧ okCtxL (dispatchS b).2.cc ∧ okCtxL (dispatchS b).2.floats) ∧
    (hInline b → optInline (dispatchS b).1 ∧ okCtxL (dispatchS b).2.cc ∧ okCtxL (dispatchS b).2.floats) :=
  ⟨(tr_box b).flow, (tr_box b).inl⟩

private theorem okCtxL_map_fromBoxS (l : List Box) (hk : ∀ b ∈ l, hRoot b) : okCtxL (l.map fromBoxS) := by
  rw [okCtxL_iff]
  intro n hn
  rcases List.mem_map.mp hn with ⟨b, hb, rfl⟩
  exact okCtx_fromBoxS b (hk b hb)

private theorem expL_map_fromBoxS (s : Sel) (l : List Box) (hk : ∀ b ∈ l, hRoot b) (hs : singOKL l) :
    expL s false (l.map fromBoxS) = (l.map (dueRoot s)).sum := by
  induction l with
  | nil => rfl
  | cons x xs ih =>
    rw [singOKL] at hs
    simp [expL, expN_fromBoxS s false x hs.1 (hk x (by simp)),
      ih (fun b hb => hk b (by simp [hb])) hs.2]

/-- **paint_count for a page.**  In the display list of `draw_page`, for every selector: the page's
background, the canvas background, the page border and outline, plus what every child of the page is
due (`dueRoot`: each box its own items, cells according to `empty-cells` and their table's
`border-collapse`, nothing at or below a singular transform).  Hypotheses: the page box is a plain
page box; its children are context roots of painted classes over the grammar (`hRoot`); a singular
matrix only occurs with `transform` (`singOK`). -/
theorem paint_count_page (s : Sel) (page : Attrs) (canvas : Option (Option Nat)) (kids : List Box)
    (hp2 : page.kind.drawOwnDecoration = false) (hp6 : page.kind.drawInline = false)
    (hpr : page.kind.drawReplaced = false) (hpm : page.matrix ≠ .singular)
    (hk : ∀ b ∈ kids, hRoot b) (hs : singOKL kids) :
    s.cnt (drawPage page canvas kids) =
      s.bg .bg page.id page.bg + s.bg .canvas page.id canvas + s.border page + s.outline page +
        (kids.map (dueRoot s)).sum := by
  have hw := okCtxL_map_fromBoxS kids hk
  have hsum := expL_init s false (kids.map fromBoxS)
  have hmap := expL_map_fromBoxS s kids hk hs
  have hn := (count_list s page.overflowVisible _).ctx
    (okCtxL_sortZ (okCtxL_filter (fun n => decide (n.zIndex < 0)) hw)) false
  have hz := (count_list s page.overflowVisible _).ctx
    (okCtxL_filter (fun n => decide (n.zIndex = 0)) hw) false
  have hp := (count_list s page.overflowVisible _).ctx
    (okCtxL_sortZ (okCtxL_filter (fun n => decide (0 < n.zIndex)) hw)) false
  unfold drawPage
  rw [fromPage_refines]
  simp only [fromPageS, init_lists, paint, Sel.cnt_append, Sel.cnt_drawBackground, Sel.cnt_drawBorder]
  rw [s.cnt_paintBodyWith _ _ _ _ _ _ _ _ _ _ _ (by simp [hp6])]
  simp only [hpm, ↓reduceIte, hp2, hp6, Bool.false_eq_true, List.flatMap_nil, Sel.cnt_nil,
    Sel.cnt_append, s.cnt_point7With page [] _ _ hpr, lastIsLine, List.getLast?_nil, point7List,
    paintList, outlineList, hn, hz, hp]
  omega

/-- Text on a page: each text box is shown exactly as often as due. -/
theorem paint_text_once_page (page : Attrs) (canvas : Option (Option Nat)) (kids : List Box)
    (hp2 : page.kind.drawOwnDecoration = false) (hp6 : page.kind.drawInline = false)
    (hpr : page.kind.drawReplaced = false) (hpm : page.matrix ≠ .singular)
    (hk : ∀ b ∈ kids, hRoot b) (hs : singOKL kids) (i : Nat) :
    (drawPage page canvas kids).countP (pickRole .text i) =
      (kids.map (dueRoot (roleSel .text i))).sum := by
  have := paint_count_page (roleSel .text i) page canvas kids hp2 hp6 hpr hpm hk hs
  simpa [Sel.cnt, roleSel] using this

mutual
private theorem dueN_raise : ∀ (tc : Bool) (b : Box), dueN raiseSel tc b = 0
  | tc, .ph b => by rw [dueN]; exact dueN_raise tc b
  | tc, .leaf a => by
    rw [dueN]; split
    · rfl
    · split
      · exact raise_plainOwn a
      · exact raise_nodeOwn tc a
  | tc, .node a kids => by
    rw [dueN]; split
    · rfl
    · split
      · rw [raise_plainOwn, dueL_raise false kids]
      · rw [raise_nodeOwn, dueL_raise _ kids]
private theorem dueL_raise : ∀ (tc : Bool) (l : List Box), dueL raiseSel tc l = 0
  | tc, [] => rfl
  | tc, b :: bs => by rw [dueL, dueN_raise tc b, dueL_raise tc bs]
end

/-- **`draw_page` raises nothing** on pages over the grammar: no assert of `draw_inline_level`, no
attribute error. -/
theorem draw_page_total (page : Attrs) (canvas : Option (Option Nat)) (kids : List Box)
    (hp2 : page.kind.drawOwnDecoration = false) (hp6 : page.kind.drawInline = false)
    (hpr : page.kind.drawReplaced = false) (hpm : page.matrix ≠ .singular)
    (hk : ∀ b ∈ kids, hRoot b) (hs : singOKL kids) :
    ∀ it ∈ drawPage page canvas kids, isRaise it = false := by
  have hc := paint_count_page raiseSel page canvas kids hp2 hp6 hpr hpm hk hs
  have hz : (kids.map (dueRoot raiseSel)).sum = 0 := by
    apply sum_map_zero
    intro b
    cases b with
    | leaf a => simp [dueRoot, raise_plainOwn]
    | node a ks => simp [dueRoot, raise_plainOwn, dueL_raise]
    | ph b => rfl
  have h0 : raiseSel.cnt (drawPage page canvas kids) = 0 := by
    rw [hc, hz]; simp [raiseSel]
  intro it hit
  have : (drawPage page canvas kids).countP isRaise = 0 := h0
  rw [List.countP_eq_zero] at this
  simpa using this it hit

/-! ## subtree_atomic, continued: transforms and the overflow clip -/

/-- A (regular) transform reaches every item of the subtree. -/
theorem transform_applies_to_subtree (pov : Bool) (a : Attrs) (kids children blocks floats bc : List Node)
    (env : Env) (code : Nat) (h : a.matrix = .regular code) :
    ∀ it ∈ paint pov (mkCtx (.node a kids) children blocks floats bc) env,
      ∀ r i c f, it = .paint r i c f → code ∈ f.transforms := by
  intro it hit r i c f hf
  have hle := subtree_atomic pov a kids children blocks floats bc env it hit r i c f hf
  have : code ∈ (ctxEnv a pov env).transforms := by
    unfold ctxEnv
    simp [h]
  exact hle.2.1.subset this

/-- The viewport clip of the root element and the `clip` rectangle of an absolutely positioned box
reach every item of the subtree, the box's own decoration included: they are on every item's clip
stack, right after the clips the context was drawn in. -/
theorem outer_clips_apply_to_subtree (pov : Bool) (a : Attrs) (kids children blocks floats bc : List Node)
    (env : Env) :
    ∀ it ∈ paint pov (mkCtx (.node a kids) children blocks floats bc) env,
      ∀ r i c f, it = .paint r i c f →
        env.clips ++ (if a.isRoot && !pov then [Clip.viewport] else []) ++
          (if a.absPos && a.clipProp then [Clip.clipProp a.id] else []) <+: f.clips := by
  intro it hit r i c f hf
  have hle := subtree_atomic pov a kids children blocks floats bc env it hit r i c f hf
  have : (ctxEnv a pov env).clips =
      env.clips ++ (if a.isRoot && !pov then [Clip.viewport] else []) ++
        (if a.absPos && a.clipProp then [Clip.clipProp a.id] else []) := by
    unfold ctxEnv
    by_cases h1 : (a.isRoot && !pov) = true <;> by_cases h2 : (a.absPos && a.clipProp) = true <;>
      by_cases h3 : a.opacity < 1 <;> cases a.matrix <;> simp [h1, h2, h3, Env.clip]
  rw [← this]
  exact hle.2.2

/-- The overflow clip — the rounded padding box of the context's box — is on the clip stack of
everything the context paints *inside* (child contexts of every sign, block decorations, floats,
inline content), right after the context's own stack; the context's own border, background and outline
are painted in `ctxEnv` (`paint_order`) and so are not clipped by it. -/
theorem overflow_clip_reaches_descendants (pov : Bool) (a : Attrs) (l : List Node) (env : Env)
    (ho : a.overflowVisible = false) (hp : a.kind.drawPage = false) :
    (innerEnv a pov env).clips = (ctxEnv a pov env).clips ++ [Clip.overflow a.id] ∧
    (∀ it ∈ paintList pov l (innerEnv a pov env) ++ inlKids pov l (innerEnv a pov env) ++
        inlList pov l (innerEnv a pov env) ++ point7List pov l (innerEnv a pov env) ++
        l.flatMap (drawBlock · (innerEnv a pov env)),
      ∀ r i c f, it = .paint r i c f → (ctxEnv a pov env).clips ++ [Clip.overflow a.id] <+: f.clips) := by
  have hc : (innerEnv a pov env).clips = (ctxEnv a pov env).clips ++ [Clip.overflow a.id] := by
    simp [innerEnv, ho, hp, Env.clip]
  refine ⟨hc, ?_⟩
  intro it hit r i c f hf
  subst hf
  have hg := ge_list pov l (innerEnv a pov env)
  have hall : AllGe (innerEnv a pov env)
      (paintList pov l (innerEnv a pov env) ++ inlKids pov l (innerEnv a pov env) ++
        inlList pov l (innerEnv a pov env) ++ point7List pov l (innerEnv a pov env) ++
        l.flatMap (drawBlock · (innerEnv a pov env))) :=
    (((hg.paint.append hg.kids).append hg.lines).append hg.pt7).append
      (AllGe.flatMap _ _ (fun b _ => allGe_drawBlock b _))
  have := (hall _ hit).2.2
  rw [← hc]
  exact this

example : ({ plain 1 .BlockBox with overflowVisible := false } : Attrs).overflowVisible = false ∧
    (plain 1 .BlockBox).kind.drawPage = false := by decide

/-! ## Non-vacuity -/

/-- `<div><table><tr><td>t</td><td style="position:relative">u</td></tr></table></div>` laid out. -/
def exTable : Box :=
  .node (plain 1 .BlockBox) [
    .node (plain 2 .TableBox) [
      .node { plain 3 .TableRowGroupBox with border := none } [
        .node { plain 4 .TableRowBox with border := none } [
          .node (plain 5 .TableCellBox) [
            .node { plain 6 .LineBox with bg := none } [.leaf { plain 7 .TextBox with bg := none }]],
          .node { plain 8 .TableCellBox with positioned := true } [
            .node { plain 9 .LineBox with bg := none } [.leaf { plain 10 .TextBox with bg := none }]]]]]]

example : hRoot exTable := by
  simp [exTable, hRoot, hFlowL, hFlow, hGroups, hGroup, hRows, hRow, hCells, hCell, hInlineL, hInline,
    rootPainted, leafUnitOK, leavesTree, definesContext, plain, noDeco, listS, dispatchS, coreS, mkCtx,
    splitZ, sortZ, Delta.append, lastIsLine, Node.attrs?,
    Kind.drawOwnDecoration, Kind.drawInline, Kind.drawReplaced, Kind.dispBlockLevel, Kind.dispCell,
    Kind.drawLine, Kind.dilInlineOrLine, Kind.dilTextChild, Kind.dilText, Kind.dispStackingClass,
    Kind.drawTable, Kind.dilInlineReplaced]

example : singOKL [exTable] := by
  simp [exTable, singOKL, singOK, plain]

/-- Box 7 (text in the first cell) and box 10 (text in the positioned cell) are due once each,
box 5's background once, and nothing is due for an id that does not occur. -/
example : dueRoot (roleSel .text 7) exTable = 1 ∧ dueRoot (roleSel .text 10) exTable = 1 ∧
    dueRoot (roleSel .bg 5) exTable = 1 ∧ dueRoot (roleSel .text 11) exTable = 0 := by
  simp [exTable, dueRoot, dueL, dueN, roleSel, Sel.plainOwn, Sel.nodeOwn, Sel.cellOwn, Sel.tableOwn,
    Sel.deco, Sel.cols, plain, leavesTree, definesContext, isColour,
    Kind.dilText, Kind.drawReplaced, Kind.dispCell, Kind.drawTable, Kind.dispStackingClass]

/-- The hypotheses of `paint_count_page` / `draw_page_total` on the page box itself. -/
example : (plain 0 .PageBox).kind.drawOwnDecoration = false ∧ (plain 0 .PageBox).kind.drawInline = false ∧
    (plain 0 .PageBox).kind.drawReplaced = false ∧ (plain 0 .PageBox).matrix ≠ .singular := by decide

end Wp.C17
