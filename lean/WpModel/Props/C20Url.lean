/-
C20 — "… is obtained by calling the url_fetcher supplied by the caller with the absolute URL".
Theorems about the URL resolution model (`Model/ResourcesUrl.lean`: urllib.parse.urljoin, `iri_to_uri`,
`url_join`, `get_url_attribute`, `_find_base_url`), tied to the real functions by the `url-resolution`
correspondence section of py/props/c20.py.
-/
import WpModel.Model.ResourcesUrl

namespace Wp.C20.Url
open Wp Wp.Res Wp.Res.Url

/-- ASCII and legal in a URI (unreserved, reserved, or `%`). -/
def isUriChar (c : Char) : Bool := isUriByte c.toNat

/-! ## `iri_to_uri` -/

private theorem quoteByte_uri_small : ∀ b : Fin 128, isUriByte b.val = true →
    (quoteByte b.val).all isUriChar = true := by decide +kernel

private theorem quoteByte_id_small : ∀ b : Fin 128, isUriByte b.val = true →
    quoteByte b.val = [Char.ofNat b.val] := by decide +kernel

private theorem hexUpper_uri : ∀ k : Fin 16, isUriChar (hexUpper k.val) = true := by decide +kernel

private theorem isUriByte_lt (b : Nat) (h : isUriByte b = true) : b < 128 := by
  unfold isUriByte at h
  simp only [Bool.and_eq_true, decide_eq_true_eq] at h
  exact h.1

private theorem quoteByte_uri (b : Nat) : (quoteByte b).all isUriChar = true := by
  by_cases h : isUriByte b = true
  · exact quoteByte_uri_small ⟨b, isUriByte_lt b h⟩ h
  · have h1 := hexUpper_uri ⟨b / 16 % 16, Nat.mod_lt _ (by decide)⟩
    have h2 := hexUpper_uri ⟨b % 16, Nat.mod_lt _ (by decide)⟩
    have hp : isUriChar '%' = true := by decide
    simp only [quoteByte, h, Bool.false_eq_true, ↓reduceIte, List.all_cons, List.all_nil, Bool.and_true,
      Bool.and_eq_true]
    exact ⟨hp, h1, h2⟩

private theorem flat_fix (l : List Char) (h : l.all isUriChar = true) :
    (l.flatMap utf8).flatMap quoteByte = l := by
  induction l with
  | nil => rfl
  | cons c rest ih =>
    simp only [List.all_cons, Bool.and_eq_true] at h
    have hc : isUriByte c.toNat = true := h.1
    have hlt := isUriByte_lt _ hc
    have hu : utf8 c = [c.toNat] := by simp [utf8, hlt]
    have hq : quoteByte c.toNat = [c] := by
      rw [quoteByte_id_small ⟨c.toNat, hlt⟩ hc, Char.ofNat_toNat]
    simp [List.flatMap_cons, List.flatMap_append, hu, hq, ih h.2]

/-- `iri_to_uri` "turns a Unicode IRI into an ASCII-only URI": for every string that is not a `data:`
URL, every character of the result is ASCII and legal in a URI — whatever the input contains (spaces,
quotes, control characters, any Unicode). -/
theorem iri_to_uri_ascii (url : List Char) (h : url.take 5 ≠ "data:".toList) :
    (iriToUri url).all isUriChar = true := by
  have hb : (url.take 5 == "data:".toList) = false := by simpa using h
  simp only [iriToUri, hb, Bool.false_eq_true, ↓reduceIte, List.all_flatMap]
  rw [List.all_eq_true]
  intro c _
  rw [List.all_eq_true]
  intro b _
  exact quoteByte_uri b

/-- On a string that is already an ASCII URI, `iri_to_uri` is the identity (in particular `%` is never
double-encoded) … -/
theorem iri_to_uri_fixpoint (url : List Char) (h : url.all isUriChar = true) : iriToUri url = url := by
  unfold iriToUri
  split
  · rfl
  · exact flat_fix url h

/-- … hence it is idempotent. -/
theorem iri_to_uri_idempotent (url : List Char) : iriToUri (iriToUri url) = iriToUri url := by
  by_cases h : url.take 5 = "data:".toList
  · have hb : (url.take 5 == "data:".toList) = true := by simpa using h
    have h1 : iriToUri url = url := by simp only [iriToUri, hb, ↓reduceIte]
    rw [h1, h1]
  · exact iri_to_uri_fixpoint _ (iri_to_uri_ascii url h)

example : String.ofList (iriToUri "http://a.test/é b".toList) = "http://a.test/%C3%A9%20b" := by decide +kernel

/-! ## `url_join`, `get_url_attribute` -/

/-- `url_join` returns `None` (and logs "Relative URI reference without a base URI") exactly when the
reference is relative, there is no base URL and relative results are not allowed. -/
theorem url_join_none_iff (base url : List Char) (allowRelative : Bool) :
    urlJoin base url allowRelative = none ↔
      (urlIsAbsolute (String.ofList url) = false ∧ base = [] ∧ allowRelative = false) := by
  unfold urlJoin
  cases ha : urlIsAbsolute (String.ofList url) <;> cases base <;> cases allowRelative <;> simp

/-- An absolute reference ignores the base URL. -/
theorem url_join_absolute (base base' url : List Char) (a a' : Bool) (h : urlIsAbsolute (String.ofList url) = true) :
    urlJoin base url a = urlJoin base' url a' ∧ urlJoin base url a = some (iriToUri url) := by
  simp [urlJoin, h]

/-- A missing, empty or blank attribute gives no URL: nothing is fetched for it. -/
theorem get_url_attribute_blank (attr : Option (List Char)) (base : Option (List Char)) (a : Bool)
    (h : pyStrip (attr.getD []) = []) : getUrlAttribute attr base a = none := by
  simp [getUrlAttribute, h]

example : getUrlAttribute (some " \t ".toList) (some "http://a.test/".toList) true = none := by decide +kernel
example : (getUrlAttribute (some " x.png ".toList) (some "http://a.test/d/e.html".toList) false).map String.ofList =
    some "http://a.test/d/x.png" := by decide +kernel

/-! ## what reaches the fetcher is absolute -/

/-- A scheme as `UNICODE_SCHEME_RE` wants it: a letter, then at least one more scheme character. -/
def validScheme (s : List Char) : Bool :=
  match s with
  | c :: d :: rest => isAlpha c && (d :: rest).all isSchemeChar
  | _ => false

private theorem splitFirst_append_sep (sep : Char) (s rest : List Char) (h : s.all (· != sep) = true) :
    splitFirst sep (s ++ sep :: rest) = (s, some rest) := by
  induction s with
  | nil => simp [splitFirst]
  | cons c cs ih =>
    simp only [List.all_cons, Bool.and_eq_true, bne_iff_ne, ne_eq] at h
    have hc : (c == sep) = false := by simpa using h.1
    simp only [List.cons_append, splitFirst, hc, Bool.false_eq_true, ↓reduceIte]
    rw [ih (by simpa using h.2)]

private theorem schemeChar_ne_colon (c : Char) (h : isSchemeChar c = true) : (c != ':') = true := by
  by_cases hc : c = ':'
  · subst hc; exact absurd h (by decide)
  · simpa using hc

/-- A string that starts with a valid scheme and a colon is absolute for `url_is_absolute`. -/
theorem absolute_of_scheme_prefix (s rest : List Char) (h : validScheme s = true) :
    urlIsAbsolute (String.ofList (s ++ ':' :: rest)) = true := by
  match s, h with
  | c :: d :: more, h =>
    simp only [validScheme, Bool.and_eq_true] at h
    have hall : (c :: d :: more).all (· != ':') = true := by
      have hc : isSchemeChar c = true := by simp [isSchemeChar, h.1]
      simp only [List.all_cons, Bool.and_eq_true]
      refine ⟨schemeChar_ne_colon c hc, ?_⟩
      have := h.2
      simp only [List.all_cons, Bool.and_eq_true] at this
      refine ⟨schemeChar_ne_colon d this.1, ?_⟩
      rw [List.all_eq_true] at this ⊢
      intro x hx
      exact schemeChar_ne_colon x (this.2 x hx)
    unfold urlIsAbsolute
    rw [String.toList_ofList, splitFirst_append_sep ':' _ rest hall]
    simp [h.1, h.2]

/-- `iri_to_uri` keeps a valid scheme prefix as it is. -/
private theorem schemeChar_uri (c : Char) (h : isSchemeChar c = true) : isUriChar c = true := by
  have hlt : c.toNat < 128 := by
    unfold isSchemeChar isAlpha isDigit at h
    by_cases h1 : c.toNat < 128
    · exact h1
    · exfalso
      have : ¬ (c ≤ 'z') := by
        intro hle
        have : c.toNat ≤ 'z'.toNat := hle
        have hz : 'z'.toNat = 122 := by decide
        omega
      have h2 : ¬ (c ≤ 'Z') := by
        intro hle
        have : c.toNat ≤ 'Z'.toNat := hle
        have hz : 'Z'.toNat = 90 := by decide
        omega
      have h3 : ¬ (c ≤ '9') := by
        intro hle
        have : c.toNat ≤ '9'.toNat := hle
        have hz : '9'.toNat = 57 := by decide
        omega
      have h4 : c ≠ '+' := by intro e; subst e; exact h1 (by decide)
      have h5 : c ≠ '-' := by intro e; subst e; exact h1 (by decide)
      have h6 : c ≠ '.' := by intro e; subst e; exact h1 (by decide)
      simp [this, h2, h3, h4, h5, h6] at h
  have key : ∀ b : Fin 128, isSchemeChar (Char.ofNat b.val) = true → isUriByte b.val = true := by decide +kernel
  have := key ⟨c.toNat, hlt⟩ (by simpa [Char.ofNat_toNat] using h)
  exact this

theorem iri_to_uri_keeps_scheme (s rest : List Char) (h : validScheme s = true) :
    ∃ rest', iriToUri (s ++ ':' :: rest) = s ++ ':' :: rest' := by
  unfold iriToUri
  split
  · exact ⟨rest, rfl⟩
  · have hs : s.all isUriChar = true := by
      match s, h with
      | c :: d :: more, h =>
        simp only [validScheme, Bool.and_eq_true] at h
        have hc : isSchemeChar c = true := by simp [isSchemeChar, h.1]
        rw [List.all_eq_true]
        intro x hx
        simp only [List.mem_cons] at hx
        rcases hx with hx | hx | hx
        · subst hx; exact schemeChar_uri _ hc
        · subst hx
          have := h.2; simp only [List.all_cons, Bool.and_eq_true] at this
          exact schemeChar_uri _ this.1
        · have := h.2; simp only [List.all_cons, Bool.and_eq_true] at this
          exact schemeChar_uri _ ((List.all_eq_true.mp this.2) x hx)
    have hflat : ((s ++ [':']).flatMap utf8).flatMap quoteByte = s ++ [':'] := flat_fix _ (by
      simp only [List.all_append, hs, Bool.true_and, List.all_cons, List.all_nil, Bool.and_true]
      decide)
    refine ⟨(rest.flatMap utf8).flatMap quoteByte, ?_⟩
    have : s ++ ':' :: rest = (s ++ [':']) ++ rest := by simp
    rw [this, List.flatMap_append, List.flatMap_append, hflat]
    simp

/-! ## `urljoin`: a relative reference against a hierarchical base gives an absolute URL -/

private theorem urlparse_scheme (url d : List Char) :
    (urlparse url d).scheme = (splitSchemeD (clean url) d).1 := by
  simp only [urlparse]
  split <;> rfl

private theorem urlunparse_scheme_prefix (p : Parts) (h : p.scheme ≠ []) :
    ∃ rest, urlunparse p = p.scheme ++ ':' :: rest := by
  have hne : (!p.scheme.isEmpty) = true := by
    cases hp : p.scheme with
    | nil => exact absurd hp h
    | cons a b => rfl
  unfold urlunparse
  simp only [hne, ↓reduceIte]
  split <;> split <;> exact ⟨_, by simp only [List.append_assoc, List.cons_append]; rfl⟩

/-- The reference has no scheme of its own (`urlsplit` finds none). -/
def isRelativeRef (url : List Char) : Bool := (splitScheme (clean url)).1.isEmpty

private theorem splitSchemeD_relative (url d : List Char) (h : isRelativeRef url = true) :
    (splitSchemeD (clean url) d).1 = d := by
  unfold isRelativeRef at h
  unfold splitSchemeD
  split
  · rfl
  · rename_i s rest hne heq
    rw [heq] at h
    simp only [List.isEmpty_iff] at h
    exact absurd h (fun e => hne e)

/-- `urljoin(base, url)` for a relative reference and a base whose scheme is hierarchical
(`uses_relative`): the result carries the base's scheme — it is never relative. -/
theorem urljoin_relative_has_scheme (base url : List Char) (hu : url ≠ []) (hrel : isRelativeRef url = true)
    (hs : (urlparse base []).scheme ≠ []) (hr : inList usesRelative (urlparse base []).scheme = true) :
    ∃ rest, urljoin base url = (urlparse base []).scheme ++ ':' :: rest := by
  have hb : base ≠ [] := by
    intro e; subst e
    exact hs (by decide)
  have hsch : (urlparse url (urlparse base []).scheme).scheme = (urlparse base []).scheme := by
    rw [urlparse_scheme, splitSchemeD_relative url _ hrel]
  unfold urljoin
  have hbe : base.isEmpty = false := by cases base <;> simp_all
  have hue : url.isEmpty = false := by cases url <;> simp_all
  simp only [hbe, hue, Bool.false_eq_true, ↓reduceIte, hsch, bne_self_eq_false, hr, Bool.not_true, Bool.or_self]
  split
  · obtain ⟨rest, h⟩ := urlunparse_scheme_prefix (urlparse url (urlparse base []).scheme) (by rw [hsch]; exact hs)
    rw [hsch] at h; exact ⟨rest, h⟩
  · split
    · exact urlunparse_scheme_prefix _ hs
    · exact urlunparse_scheme_prefix _ hs

private theorem splitFirst_some (sep : Char) (l a b : List Char) (h : splitFirst sep l = (a, some b)) :
    l = a ++ sep :: b := by
  induction l generalizing a b with
  | nil => simp [splitFirst] at h
  | cons c cs ih =>
    unfold splitFirst at h
    by_cases hc : (c == sep) = true
    · simp only [hc, ↓reduceIte, Prod.mk.injEq, Option.some.injEq] at h
      have : c = sep := by simpa using hc
      rw [← h.1, ← h.2, this]; rfl
    · simp only [hc, Bool.false_eq_true, ↓reduceIte] at h
      cases hr : splitFirst sep cs with
      | mk a' b' =>
        rw [hr] at h
        simp only [Prod.mk.injEq] at h
        obtain ⟨h1, h2⟩ := h
        subst h2
        rw [← h1, ih a' b hr]; rfl

private theorem absolute_has_valid_scheme (url : List Char) (h : urlIsAbsolute (String.ofList url) = true) :
    ∃ s rest, url = s ++ ':' :: rest ∧ validScheme s = true := by
  unfold urlIsAbsolute at h
  rw [String.toList_ofList] at h
  cases hs : splitFirst ':' url with
  | mk pre post =>
    rw [hs] at h
    match pre, post, h with
    | c :: d :: more, some r, h =>
      exact ⟨c :: d :: more, r, splitFirst_some ':' url _ _ hs, by simpa [validScheme] using h⟩

private theorem usesRelative_valid : ∀ x ∈ usesRelative, x ≠ "" → validScheme x.toList = true := by decide +kernel

/-- The URL handed to the fetcher is absolute.  For a reference that is absolute, or relative (no
scheme of its own) with a base URL whose scheme is hierarchical (`http`, `https`, `file`, `ftp`, …),
`url_join` — hence `get_url_attribute`, used for `<img src>`, `<link href>`, `<object data>`, SVG
`href`, … — returns a URL that `url_is_absolute` accepts, ASCII-only.
(A reference like `x:y`, with a one-letter scheme, is neither: `urljoin` leaves it as it is.) -/
theorem resolved_url_is_absolute (base value : List Char) (allowRelative : Bool)
    (hs : (urlparse base []).scheme ≠ []) (hr : inList usesRelative (urlparse base []).scheme = true)
    (hv : urlIsAbsolute (String.ofList value) = true ∨ (value ≠ [] ∧ isRelativeRef value = true)) :
    ∃ u, urlJoin base value allowRelative = some u ∧ urlIsAbsolute (String.ofList u) = true := by
  by_cases ha : urlIsAbsolute (String.ofList value) = true
  · obtain ⟨s, rest, hval, hvalid⟩ := absolute_has_valid_scheme value ha
    refine ⟨iriToUri value, by simp [urlJoin, ha], ?_⟩
    obtain ⟨rest', hk⟩ := iri_to_uri_keeps_scheme s rest hvalid
    rw [hval, hk]
    exact absolute_of_scheme_prefix s rest' hvalid
  · have hrel : value ≠ [] ∧ isRelativeRef value = true := by
      rcases hv with h | h
      · exact absurd h ha
      · exact h
    have hb : base ≠ [] := by intro e; subst e; exact hs (by decide)
    have hbe : (!base.isEmpty) = true := by cases base <;> simp_all
    obtain ⟨rest, hj⟩ := urljoin_relative_has_scheme base value hrel.1 hrel.2 hs hr
    have hvalid : validScheme (urlparse base []).scheme = true := by
      have hmem : String.ofList (urlparse base []).scheme ∈ usesRelative := by
        simpa [inList, List.contains_iff_mem] using hr
      have := usesRelative_valid _ hmem (by
        intro e
        have : (String.ofList (urlparse base []).scheme).toList = "".toList := by rw [e]
        rw [String.toList_ofList] at this
        exact hs this)
      rwa [String.toList_ofList] at this
    have hf : urlIsAbsolute (String.ofList value) = false := by simpa using ha
    refine ⟨iriToUri (urljoin base value), by simp [urlJoin, hf, hbe], ?_⟩
    obtain ⟨rest', hk⟩ := iri_to_uri_keeps_scheme _ rest hvalid
    rw [hj, hk]
    exact absolute_of_scheme_prefix _ rest' hvalid

example : ∃ u, urlJoin "http://a.test/d/e.html".toList "../x y.png".toList false = some u ∧
    String.ofList u = "http://a.test/x%20y.png" := ⟨_, rfl, by decide +kernel⟩

/-! ## the stylesheet / image models use this resolution -/

private theorem resolve_aux (v base : List Char) :
    (if (String.ofList v == "") = true then none
      else if urlIsAbsolute (String.ofList v) = true then some (String.ofList (iriToUri (String.ofList v).toList))
      else if base.isEmpty = true then none else some (String.ofList (iriToUri (urljoin base v)))) =
    Option.map String.ofList (if v.isEmpty = true then none else urlJoin base v false) := by
  by_cases hv : v = []
  · subst hv; rfl
  · have hne : (String.ofList v == "") = false := by
      rw [beq_eq_false_iff_ne]
      intro e
      have : (String.ofList v).toList = "".toList := by rw [e]
      rw [String.toList_ofList] at this
      exact hv this
    have hemp : v.isEmpty = false := by cases v <;> simp_all
    simp only [hne, Bool.false_eq_true, ↓reduceIte, hemp, urlJoin, String.toList_ofList]
    cases ha : urlIsAbsolute (String.ofList v)
    · cases hb : base.isEmpty <;> simp
    · simp

/-- Refinement: `resolveHref` of `Model/Resources.lean` — used by the stylesheet and document models,
where `iri_to_uri(urljoin(base, href))` is an input computed by the harness with urllib — is exactly
`get_url_attribute` with the `urljoin` model of this file: for every attribute value and base URL. -/
theorem resolveHref_refines (href : Option String) (base : List Char) :
    resolveHref href (if base.isEmpty then none
        else some (String.ofList (iriToUri (urljoin base (pyStrip ((href.getD "").toList)))))) =
      (getUrlAttribute (href.map (·.toList)) (some base) false).map String.ofList := by
  have hget : (href.map (·.toList)).getD [] = (href.getD "").toList := by cases href <;> rfl
  have := resolve_aux (stripChars (href.getD "").toList) base
  unfold resolveHref getUrlAttribute strip
  rw [hget]
  simp only [pyStrip, Option.getD_some] at this ⊢
  exact this

example : resolveHref (some " s é.css ") (some "http://a.test/d/s%20%C3%A9.css") = some "http://a.test/d/s%20%C3%A9.css" ∧
    resolveHref (some "http://a.test/é") none = some "http://a.test/%C3%A9" := by decide +kernel

end Wp.C20.Url
