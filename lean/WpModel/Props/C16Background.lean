/-
C16 — resources of backgrounds: `draw_background_image` (Model/BackgroundDraw), alone and inside whole recorded runs.
-/
import WpModel.Lemmas.BackgroundDraw
import WpModel.Props.C16Gradient
import WpModel.Props.C16Cache

namespace Wp.C16
open Wp Wp.Pdf

/-- **background_image_resources_defined**: `draw_background_image(stream, layer, …)` — a skipped layer, a `no-repeat`
layer (optional clip, the image in a group of its own, `Do`), a repeated layer (tiling pattern holding a group holding
the image; `stacked`: Pattern colour space, `scn`, rectangle, fill) — on *any* stream of *any* valid document state,
whatever `layer.image.draw` does as long as it keeps the invariant itself (`ImgOKFrom`: raster images, SVG, gradients):
afterwards every `gs`, `Do`, `sh` and pattern `scn` of every stream still names a key of the dictionary of the stream
that emits it.  In particular the group is named in the dictionary it was registered in (`stream`'s for `no-repeat`, the
*pattern's* for a repeated layer) and `scn` names the pattern with the number it got in `stream`'s dictionary, even
though the image drawing in between may register any number of other groups, patterns and shadings. -/
theorem background_image_resources_defined (w w' : World) (h : Nat) (p : BgProps) (img : List GItem)
    (hw : WorldOK w) (hImg : ImgOKFrom w img) (hstep : drawBackgroundImage w h p img = .ok w') :
    WorldOK w' ∧ Mono w w' :=
  background_image_ok w w' h p img hw hImg hstep

/-- Scoped image content (callers pass registered names; gradients need nothing) keeps the invariant and only grows the
dictionaries. -/
theorem runItems_ok_mono (items : List GItem) (w w' : World) (hw : WorldOK w) (hs : ItemsScoped w items)
    (hrun : runItems w items = .ok w') : WorldOK w' ∧ Mono w w' := by
  induction items generalizing w with
  | nil => simp [runItems] at hrun; subst hrun; exact ⟨hw, Mono.refl w⟩
  | cons it rest ih =>
    cases it with
    | call c =>
      simp only [runItems] at hrun
      split at hrun
      · rename_i w1 h1
        obtain ⟨ok, m⟩ := ih w1 (World.step_ok w w1 c hw hs.1 h1) (hs.2 w1 h1) hrun
        exact ⟨ok, (World.step_mono w w1 c hs.1 h1).trans m⟩
      · simp at hrun
    | grad h p =>
      simp only [runItems] at hrun
      split at hrun
      · rename_i w1 h1
        obtain ⟨ok1, m1⟩ := gradient_resources_defined w w1 h p hw h1
        obtain ⟨ok, m⟩ := ih w1 ok1 (hs w1 h1) hrun
        exact ⟨ok, m1.trans m⟩
      · simp at hrun

/-- Callers pass registered names along a run of calls, gradients and background layers (the image content of a layer
from whatever state it is drawn in). -/
def BItemsScoped (w : World) : List BItem → Prop
  | [] => True
  | .call c :: rest => c.scoped w ∧ ∀ w', w.step c = .ok w' → BItemsScoped w' rest
  | .grad h p :: rest => ∀ w', drawGradient w h p = .ok w' → BItemsScoped w' rest
  | .bg h p img :: rest => (∀ w1, WorldOK w1 → Mono w w1 → ItemsScoped w1 img) ∧
      ∀ w', drawBackgroundImage w h p img = .ok w' → BItemsScoped w' rest

private theorem runBItems_ok (items : List BItem) (w w' : World) (hw : WorldOK w) (hs : BItemsScoped w items)
    (hrun : runBItems w items = .ok w') : WorldOK w' := by
  induction items generalizing w with
  | nil => simp [runBItems] at hrun; subst hrun; exact hw
  | cons it rest ih =>
    cases it with
    | call c =>
      simp only [runBItems] at hrun
      split at hrun
      · rename_i w1 h1
        exact ih w1 (World.step_ok w w1 c hw hs.1 h1) (hs.2 w1 h1) hrun
      · simp at hrun
    | grad h p =>
      simp only [runBItems] at hrun
      split at hrun
      · rename_i w1 h1
        exact ih w1 (gradient_resources_defined w w1 h p hw h1).1 (hs w1 h1) hrun
      · simp at hrun
    | bg h p img =>
      simp only [runBItems] at hrun
      split at hrun
      · rename_i w1 h1
        have himg : ImgOKFrom w img := fun a b oka ma hr => runItems_ok_mono img a b oka (hs.1 a oka ma) hr
        exact ih w1 (background_image_ok w w1 h p img hw himg h1).1 (hs.2 w1 h1) hrun
      · simp at hrun

/-- **document_backgrounds_resources_defined**: `resources_defined` for whole documents as the `docbg` correspondence
replays them — any run of document calls interleaved with any number of `Gradient.draw` and `draw_background_image`
(each with its own image content) on any streams, from the state `generate_pdf` sets up: no stream ends up naming an
undefined graphics state, XObject, shading or pattern (`badRefs = []`, the `refs=ok` the driver prints). -/
theorem document_backgrounds_resources_defined (mark : Bool) (pages : Nat) (items : List BItem) (w' : World)
    (hs : BItemsScoped (World.init mark pages) items) (hrun : runBItems (World.init mark pages) items = .ok w') :
    w'.badRefs = [] := by
  have hok := runBItems_ok items _ w' (init_ok mark pages) hs hrun
  rw [badRefs_nil_iff w' hok.resIdx]
  exact fun i s r hsi hr => hok.good i s r hsi hr

/-- The calls a repeated layer makes on `stream` itself follow the cache discipline of `cache_sound_scoped`: the raw
Pattern setters sit inside the `stacked` that `pop_state` closes. -/
theorem background_pattern_calls_scoped (pid : Nat) (rect : String) :
    scopedOK false (bgPatternCalls pid rect) = true := rfl

/-- Non-vacuity, on a page that already owns a group and a pattern: a repeated layer whose image is a translucent
gradient.  The new pattern is `p1` on the page, its group `x0` in the pattern's own dictionary, the gradient's shading
and soft mask live in the group; every reference is defined. -/
example :
    (match (World.init false 1).run [.addGroup 0, .addPattern 0] |>> fun w =>
        drawBackgroundImage w 0 ⟨false, false, false, "0_0_9_9_re", .int 0, .int 0⟩
          [.grad 4 { solid := false, translucent := true, scaleY := .int 1 }] with
     | .ok w => (w.streams.map (fun s => s.rops.reverse.map Op.render), w.badRefs)
     | .error _ => ([], [0])) =
    ([["q", "/Pattern_cs", "/p1_scn", "0_0_9_9_re", "f", "Q"], [], [], ["/x0_Do"],
      ["1_0_0_1_0_0_cm", "/s0_gs", "/s0_sh"], ["/s0_sh"]], []) := by decide +kernel

end Wp.C16
