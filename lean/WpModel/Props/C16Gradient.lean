/-
C16 — "every … shading … it names is defined in the resource dictionary in effect", for the code that registers a
shading in one dictionary and names it in another stream: `Gradient.draw` (Model/GradientDraw).
-/
import WpModel.Lemmas.GradientDraw
import WpModel.Lemmas.PdfMono

namespace Wp.C16
open Wp Wp.Pdf

private theorem opRefOKb_iff (r : Res) (o : Op) : opRefOKb r o = true ↔ opRefOK r o := by
  cases o <;> simp [opRefOKb, opRefOK]
  case scn os p st => cases p <;> simp [opRefOKb, opRefOK]

/-- The executable check the driver prints (`refs=ok`) is the conclusion of `resources_defined`. -/
theorem badRefs_nil_iff (w : World) (hidx : ∀ (i : Nat) (s : SState), w.streams[i]? = some s → s.res < w.res.length) :
    w.badRefs = [] ↔ ∀ (i : Nat) (s : SState) (r : Res), w.streams[i]? = some s → w.res[s.res]? = some r →
      ∀ o ∈ s.rops, opRefOK r o := by
  unfold World.badRefs
  rw [List.filter_eq_nil_iff]
  constructor
  · intro h i s r hs hr o ho
    have hlt : i < w.streams.length := (List.getElem?_eq_some_iff.mp hs).1
    have := h i (List.mem_range.mpr hlt)
    simp only [hs, hr, Bool.not_eq_true, Bool.not_eq_false'] at this
    exact (opRefOKb_iff r o).mp (List.all_eq_true.mp (by simpa using this) o ho)
  · intro h i hi
    have hlt := List.mem_range.mp hi
    have hs : w.streams[i]? = some w.streams[i] := by simp [hlt]
    have hj := hidx i _ hs
    have hr : w.res[(w.streams[i]).res]? = some w.res[(w.streams[i]).res] := by simp [hj]
    simp only [hs, hr, Bool.not_eq_true, Bool.not_eq_false']
    rw [List.all_eq_true]
    intro o ho
    exact (opRefOKb_iff _ o).mpr (h i _ _ hs hr o ho)

/-- **gradient_resources_defined**: `Gradient.draw(stream, …)` — solid, opaque or with non-opaque colour stops, linear
or radial, on *any* stream of *any* reachable document state (a stream that already owns shadings, groups, soft masks:
border-image regions painted one after the other, mask-border, a background layer, a marker image) — does not raise, and
afterwards every `gs`, `Do`, `sh` and pattern operator of every stream of the document, the new soft-mask group
included, still names a key of the resource dictionary of the stream that emits it: the colour shading is named on
`stream` with the id it got in `stream`'s dictionary, the alpha shading is named in the mask group with the id it got in
the *group's* dictionary (the two ids differ as soon as `stream` already held a shading).  Dictionaries only grow. -/
theorem gradient_resources_defined (w w' : World) (h : Nat) (p : GradProps) (hw : WorldOK w)
    (hstep : drawGradient w h p = .ok w') : WorldOK w' ∧ Mono w w' := by
  unfold drawGradient at hstep
  split at hstep
  · -- solid
    obtain ⟨w1, h1, hstep⟩ := thenDo_eq_ok hstep
    obtain ⟨w2, h2, hstep⟩ := thenDo_eq_ok hstep
    have s1 : (WCall.on h (.rawTok .path p.rect)).scoped w := by intro s r _ _; trivial
    have s2 : (WCall.on h (.setColor p.colour false)).scoped w1 := by intro s r _ _; trivial
    have s3 : (WCall.on h (.rawTok .paint "f")).scoped w2 := by intro s r _ _; trivial
    have ok1 := onCall_ok w w1 _ _ hw s1 h1
    have ok2 := onCall_ok w1 w2 _ _ ok1 s2 h2
    exact ⟨onCall_ok w2 w' _ _ ok2 s3 hstep,
      (onCall_mono w w1 _ _ s1 h1).trans ((onCall_mono w1 w2 _ _ s2 h2).trans (onCall_mono w2 w' _ _ s3 hstep))⟩
  · split at hstep
    · simp at hstep
    · rename_i n hn
      obtain ⟨w1, h1, hstep⟩ := thenDo_eq_ok hstep
      obtain ⟨w3, h3, hstep⟩ := thenDo_eq_ok hstep
      obtain ⟨w2, h2, h3⟩ := thenDo_eq_ok h3
      have ok1 := World.step_ok w w1 (.addShading h) hw trivial h1
      obtain ⟨m1, c1⟩ := addShading_mono w w1 h h1
      have sc2 : (WCall.on h (scaleCall p.scaleY)).scoped w1 := by intro s r _ _; trivial
      have ok2 := onCall_ok w1 w2 _ _ ok1 sc2 h2
      have m2 := onCall_mono w1 w2 _ _ sc2 h2
      have ⟨ok3, m3⟩ : WorldOK w3 ∧ Mono w2 w3 := by
        unfold stageIf at h3
        split at h3
        · exact alphaStage_ok w2 w3 h p.scaleY ok2 h3
        · simp at h3; subst h3; exact ⟨ok2, Mono.refl _⟩
      obtain ⟨c, hc, hle⟩ := (m2.trans m3).shading (c1 n hn)
      have sc4 : (WCall.on h (.paintShading n)).scoped w3 := scoped_of_count hc (by omega)
      exact ⟨onCall_ok w3 w' _ _ ok3 sc4 hstep,
        m1.trans (m2.trans (m3.trans (onCall_mono w3 w' _ _ sc4 hstep)))⟩

/-- Callers other than `Gradient.draw` pass registered names, along a run of calls and gradients. -/
def ItemsScoped (w : World) : List GItem → Prop
  | [] => True
  | .call c :: rest => c.scoped w ∧ ∀ w', w.step c = .ok w' → ItemsScoped w' rest
  | .grad h p :: rest => ∀ w', drawGradient w h p = .ok w' → ItemsScoped w' rest

private theorem runItems_ok (items : List GItem) (w w' : World) (hw : WorldOK w) (hs : ItemsScoped w items)
    (hrun : runItems w items = .ok w') : WorldOK w' := by
  induction items generalizing w with
  | nil => simp [runItems] at hrun; subst hrun; exact hw
  | cons it rest ih =>
    cases it with
    | call c =>
      simp only [runItems] at hrun
      split at hrun
      · rename_i w1 h1
        exact ih w1 (World.step_ok w w1 c hw hs.1 h1) (hs.2 w1 h1) hrun
      · simp at hrun
    | grad h p =>
      simp only [runItems] at hrun
      split at hrun
      · rename_i w1 h1
        exact ih w1 (gradient_resources_defined w w1 h p hw h1).1 (hs w1 h1) hrun
      · simp at hrun

/-- **document_resources_defined**: `resources_defined` for documents with gradients — after any run of document calls
(whose callers pass registered names) interleaved with any number of `Gradient.draw` on any streams, starting from the
state `generate_pdf` sets up, no stream names an undefined graphics state, XObject, shading or pattern: the executable
check the driver prints for every recorded `write_pdf` (`refs=ok`) cannot fail on the model side, whatever the
gradients (the gradient itself needs no scoping hypothesis: its names are its own). -/
theorem document_resources_defined (mark : Bool) (pages : Nat) (items : List GItem) (w' : World)
    (hs : ItemsScoped (World.init mark pages) items) (hrun : runItems (World.init mark pages) items = .ok w') :
    w'.badRefs = [] := by
  have hok := runItems_ok items _ w' (init_ok mark pages) hs hrun
  rw [badRefs_nil_iff w' hok.resIdx]
  exact fun i s r hsi hr => hok.good i s r hsi hr

/-- **resources_only_grow**: from *any* document state on (the start of `generate_pdf` or any point of the painting),
along any run of document calls whose callers pass registered names — API calls on any stream, `add_group`,
`add_pattern`, `add_shading`, `add_image`, `set_alpha_state`, `clone`, new pages, the assigned soft-mask content —
every stream stays on the resource dictionary it was created with, and every dictionary only grows: each graphics-state
key, XObject key, shading and pattern defined at that point is still defined at the end ("entries are never removed",
the fact the fresh keys `s{len}` / `x{len}` / `p{len}` and the late `_use_references` pass rely on). -/
theorem resources_only_grow (w w' : World) (calls : List WCall) (hs : ScopedRun w calls)
    (hrun : w.run calls = .ok w') :
    (∀ (i : Nat) (s : SState), w.streams[i]? = some s → ∃ s', w'.streams[i]? = some s' ∧ s'.res = s.res) ∧
    (∀ (j : Nat) (r : Res), w.res[j]? = some r → ∃ r', w'.res[j]? = some r' ∧
      (∀ k, r.hasG k = true → r'.hasG k = true) ∧ (∀ k, r.hasX k = true → r'.hasX k = true) ∧
      r.shading ≤ r'.shading ∧ r.pattern.length ≤ r'.pattern.length) := by
  have hm := World.run_mono calls w w' hs hrun
  refine ⟨hm.streams, ?_⟩
  intro j r hr
  obtain ⟨r', hr', hle⟩ := hm.res j r hr
  exact ⟨r', hr', hle.g, hle.x, hle.sh, hle.pat⟩

/-- Non-vacuity: a page registers a shading and paints it, then a group and a pattern are created: the page keeps
dictionary 0, whose shading is still there at the end. -/
example : ScopedRun (World.init false 1) [.addShading 0, .on 0 (.paintShading 0), .addGroup 0, .addPattern 0] ∧
    (match (World.init false 1).run [.addShading 0, .on 0 (.paintShading 0), .addGroup 0, .addPattern 0] with
     | .ok w => (w.streams.map (·.res), w.res.map (·.shading), w.badRefs)
     | .error _ => ([], [], [0])) = ([0, 1, 2], [1, 0, 0], []) := by
  refine ⟨?_, by decide +kernel⟩
  simp only [ScopedRun, WCall.scoped, Call.scoped]
  refine ⟨trivial, ?_⟩
  intro w1 h1
  simp [World.step, World.init] at h1; subst h1
  refine ⟨?_, ?_⟩
  · intro s r hs hr
    simp at hs; subst hs
    simp at hr; subst hr
    decide
  · intro w2 _
    exact ⟨trivial, fun w3 _ => ⟨trivial, fun _ _ => trivial⟩⟩

/-- Non-vacuity, on the shape of the seeded regression C16-8: the page stream already owns a shading (`s0`); a
translucent gradient is drawn on it.  The colour shading is `s1` on the page, the alpha shading `s0` in the mask group,
and the group's only operator is `/s0 sh` (not `/s1 sh`); every reference is defined. -/
example :
    (match (World.init false 1).step (.addShading 0) |>> fun w => drawGradient w 0 { solid := false, translucent := true, scaleY := .int 1 } with
     | .ok w => (w.streams.map (fun s => s.rops.reverse.map Op.render), w.badRefs)
     | .error _ => ([], [0])) =
    ([["1_0_0_1_0_0_cm", "/s0_gs", "/s1_sh"], ["/s0_sh"]], []) := by decide +kernel

end Wp.C16
