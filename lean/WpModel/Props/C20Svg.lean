/-
C20 — drawing nested SVG images terminates (`Model/ResourcesSvg.lean`): with the `_drawing` flag, the recursion depth
of `SVGImage.draw` is bounded by the number of distinct image keys the document can produce, whatever the references
between the SVG images are (cycles included), so the depth bound of the model (Python's recursion limit) is never hit.
-/
import WpModel.Model.ResourcesSvg
import WpModel.Props.C20Trace

namespace Wp.C20.Svg
open Wp Wp.Res Wp.Res.Doc Wp.Res.Svg

private theorem nodup_subset_length (l m : List String) (hn : l.Nodup) (hs : ∀ x ∈ l, x ∈ m) :
    l.length ≤ m.length := by
  induction l generalizing m with
  | nil => simp
  | cons a l ih =>
    have ha : a ∈ m := hs a (by simp)
    have hn' := List.nodup_cons.mp hn
    have hsub : ∀ x ∈ l, x ∈ m.erase a := by
      intro x hx
      have hne : x ≠ a := fun h => hn'.1 (h ▸ hx)
      exact (List.mem_erase_of_ne hne).mpr (hs x (by simp [hx]))
    have h1 := ih (m.erase a) hn'.2 hsub
    have hlen : (m.erase a).length = m.length - 1 := List.length_erase_of_mem ha
    have hpos : 0 < m.length := List.length_pos_of_mem ha
    simp only [List.length_cons]
    omega

private theorem lookup_mem (l : List (Nat × List SvgItem)) (k : Nat) (v : List SvgItem) (h : l.lookup k = some v) :
    (k, v) ∈ l := by
  induction l with
  | nil => simp [List.lookup] at h
  | cons x xs ih =>
    obtain ⟨k', v'⟩ := x
    simp only [List.lookup] at h
    split at h
    · rename_i heq
      have : k = k' := by simpa using heq
      cases h; subst this; exact List.mem_cons_self
    · exact List.mem_cons_of_mem _ (ih h)

private theorem drawItems_not_exhausted (fetcher : Fetcher) (opts : Opts) (deeper : Cache → String → Nat → Svg.DrawOut)
    (K : List String) (items : List SvgItem)
    (hitems : ∀ u, SvgItem.image (some u) ∈ items → nestedKey opts u ∈ K)
    (hdeeper : ∀ cache key c, key ∈ K → (deeper cache key c).2.2 = false) (cache : Cache) :
    (drawItems fetcher opts deeper cache items).2.2 = false := by
  induction items generalizing cache with
  | nil => rfl
  | cons it rest ih =>
    have hrest : ∀ u, SvgItem.image (some u) ∈ rest → nestedKey opts u ∈ K := fun u hu => hitems u (by simp [hu])
    cases it with
    | useExternal u => simp only [drawItems]; exact ih hrest cache
    | image url =>
      cases url with
      | none => simp only [drawItems]; exact ih hrest cache
      | some url =>
        simp only [drawItems]
        split
        · exact ih hrest cache
        · split
          · rfl
          · rename_i c' evs c hg
            have h1 := hdeeper c' (nestedKey opts url) c (hitems url (by simp))
            have h2 := ih hrest (deeper c' (nestedKey opts url) c).1
            simp [h1, h2]
          · exact ih hrest _

/-- `SVG drawing terminates`: when `K` holds the key of the image being drawn and every key a nested `<image>` can
produce, a drawing started with more fuel than `K` has keys never reaches the depth bound — each nested `draw` either
returns at once (the object is being drawn) or sets one more of at most `K.length` flags. -/
theorem drawObject_depth_bounded (fetcher : Fetcher) (opts : Opts) (info : List (Nat × List SvgItem)) (K : List String)
    (hK : ∀ k ∈ nestedKeys opts info, k ∈ K) (fuel : Nat) (drawing : List String) (cache : Cache) (key : String) (c : Nat)
    (hn : drawing.Nodup) (hs : ∀ k ∈ drawing, k ∈ K) (hkey : key ∈ K) (hf : K.length < fuel + drawing.length) :
    (drawObject fetcher opts info fuel drawing cache key c).2.2 = false := by
  induction fuel generalizing drawing cache key c with
  | zero =>
    have := nodup_subset_length drawing K hn hs
    omega
  | succ fuel ih =>
    simp only [drawObject]
    split
    · rfl
    · rename_i hnot
      have hnotin : key ∉ drawing := by simpa using hnot
      apply drawItems_not_exhausted fetcher opts _ K
      · intro u hu
        apply hK
        cases hl : info.lookup c with
        | none => simp [hl] at hu
        | some items =>
          simp only [hl, Option.getD_some] at hu
          simp only [nestedKeys, List.mem_flatMap, List.mem_filterMap]
          exact ⟨(c, items), lookup_mem info c items hl, _, hu, rfl⟩
      · intro cache' key' c' hk'
        apply ih
        · exact List.nodup_cons.mpr ⟨hnotin, hn⟩
        · intro k hk
          rcases List.mem_cons.mp hk with h | h
          · rw [h]; exact hkey
          · exact hs k h
        · exact hk'
        · simp only [List.length_cons]; omega

/-- From the top: any SVG image of any document is drawn to the end within `1 +` (number of nested `<image>`
elements of the document) `+ 1` levels — for every fetcher, every cache, every cycle of references. -/
theorem svg_drawing_terminates (fetcher : Fetcher) (opts : Opts) (info : List (Nat × List SvgItem)) (cache : Cache)
    (key : String) (c : Nat) :
    (drawObject fetcher opts info ((nestedKeys opts info).length + 2) [] cache key c).2.2 = false := by
  apply drawObject_depth_bounded fetcher opts info (key :: nestedKeys opts info)
  · intro k hk; exact List.mem_cons_of_mem _ hk
  · exact List.nodup_nil
  · intro k hk; simp at hk
  · exact List.mem_cons_self
  · simp only [List.length_cons, List.length_nil]; omega

/-- The document model never reaches its depth bound: `Doc.paintSvgs` draws every SVG image shown with exactly the
fuel of `svg_drawing_terminates`, so the flag it discards is always `false` — `Doc.run` describes a drawing that ends. -/
theorem paint_depth_bound_never_hit (d : Doc.Document) (cache : Cache) (key : String) (c : Nat) :
    (drawObject d.fetcher d.opts d.svgInfo ((nestedKeys d.opts d.svgInfo).length + 2) [] cache key c).2.2 = false :=
  svg_drawing_terminates d.fetcher d.opts d.svgInfo cache key c

/-! ## the depth bound does not matter -/

private theorem drawItems_congr (fetcher : Fetcher) (opts : Opts) (deeper deeper' : Cache → String → Nat → Svg.DrawOut)
    (h : ∀ cache key c, (deeper cache key c).2.2 = false → deeper' cache key c = deeper cache key c)
    (items : List SvgItem) (cache : Cache) (hx : (drawItems fetcher opts deeper cache items).2.2 = false) :
    drawItems fetcher opts deeper' cache items = drawItems fetcher opts deeper cache items := by
  induction items generalizing cache with
  | nil => rfl
  | cons it rest ih =>
    cases it with
    | useExternal u =>
      simp only [drawItems] at hx ⊢
      rw [ih cache hx]
    | image url =>
      cases url with
      | none => simp only [drawItems] at hx ⊢; exact ih cache hx
      | some url =>
        simp only [drawItems] at hx ⊢
        by_cases he : (url == "") = true
        · simp only [he, ↓reduceIte] at hx ⊢
          exact ih cache hx
        · have he' : (url == "") = false := by simpa using he
          simp only [he', Bool.false_eq_true, ↓reduceIte] at hx ⊢
          cases hg : getImage cache fetcher opts ⟨url, .fromImage, some "image/*"⟩ with
          | mk c' r =>
            obtain ⟨evs, out⟩ := r
            simp only [hg] at hx ⊢
            cases out with
            | error e => rfl
            | ok v =>
              cases v with
              | none =>
                simp only at hx ⊢
                rw [ih _ hx]
              | some img =>
                cases img with
                | svg c =>
                  simp only [Bool.or_eq_false_iff] at hx ⊢
                  rw [h c' (nestedKey opts url) c hx.1, ih _ hx.2]
                | raster f src cc =>
                  simp only at hx ⊢
                  rw [ih _ hx]

/-- One more level of fuel changes nothing once the bound is not hit. -/
theorem drawObject_fuel_mono (fetcher : Fetcher) (opts : Opts) (info : List (Nat × List SvgItem)) (fuel : Nat)
    (drawing : List String) (cache : Cache) (key : String) (c : Nat)
    (hx : (drawObject fetcher opts info fuel drawing cache key c).2.2 = false) :
    drawObject fetcher opts info (fuel + 1) drawing cache key c = drawObject fetcher opts info fuel drawing cache key c := by
  induction fuel generalizing drawing cache key c with
  | zero => simp [drawObject] at hx
  | succ fuel ih =>
    simp only [drawObject] at hx ⊢
    split
    · rfl
    · rename_i hnot
      simp only [hnot] at hx
      exact drawItems_congr fetcher opts _ _ (fun cache' key' c' hc => ih _ cache' key' c' hc) _ cache hx

/-- `the model's answer does not depend on its depth bound`: with any fuel above the bound of
`svg_drawing_terminates`, the drawing of an SVG image — cache, fetch events — is the one `Doc.run` computes. -/
theorem svg_drawing_fuel_irrelevant (fetcher : Fetcher) (opts : Opts) (info : List (Nat × List SvgItem)) (cache : Cache)
    (key : String) (c : Nat) (extra : Nat) :
    drawObject fetcher opts info ((nestedKeys opts info).length + 2 + extra) [] cache key c =
    drawObject fetcher opts info ((nestedKeys opts info).length + 2) [] cache key c := by
  induction extra with
  | zero => rfl
  | succ n ih =>
    have hx : (drawObject fetcher opts info ((nestedKeys opts info).length + 2 + n) [] cache key c).2.2 = false := by
      apply drawObject_depth_bounded fetcher opts info (key :: nestedKeys opts info)
      · intro k hk; exact List.mem_cons_of_mem _ hk
      · exact List.nodup_nil
      · intro k hk; simp at hk
      · exact List.mem_cons_self
      · simp only [List.length_cons, List.length_nil]; omega
    have := drawObject_fuel_mono fetcher opts info _ [] cache key c hx
    rw [show (nestedKeys opts info).length + 2 + (n + 1) = (nestedKeys opts info).length + 2 + n + 1 by omega, this, ih]

/-! ## the order in which the images of a document are painted -/

private theorem paintPass_cases (k : ImgKind) : k.paintPass = 0 ∨ k.paintPass = 1 ∨ k.paintPass = 2 := by
  cases k <;> simp [ImgKind.paintPass]

/-- Every reference is painted in exactly one pass: the paint order is a rearrangement of the references — same
members, same number. -/
theorem paintOrder_mem (refs : List ImgRef) (r : ImgRef) : r ∈ paintOrder refs ↔ r ∈ refs := by
  simp only [paintOrder, List.mem_append, List.mem_filter]
  constructor
  · rintro ((h | h) | h) <;> exact h.1
  · intro h
    rcases paintPass_cases r.kind with h0 | h1 | h2
    · exact Or.inl (Or.inl ⟨h, by simp [h0]⟩)
    · exact Or.inl (Or.inr ⟨h, by simp [h1]⟩)
    · exact Or.inr ⟨h, by simp [h2]⟩

theorem paintOrder_length (refs : List ImgRef) : (paintOrder refs).length = refs.length := by
  simp only [paintOrder, List.length_append]
  induction refs with
  | nil => rfl
  | cons r rest ih =>
    rcases paintPass_cases r.kind with h | h | h <;> simp [List.filter_cons, h] <;> omega

/-- Backgrounds, border images and masks are painted before the inline content, list markers last; inside a pass the
document order is kept. -/
example :
    let mk (k : ImgKind) (u : String) : ImgRef := ⟨k, some u, none, .fromImage, none, none⟩
    (paintOrder [mk .listStyle "li", mk .img "a", mk .content "c", mk .background "bg", mk .maskBorder "mb"]).map (·.url) =
      [some "bg", some "mb", some "a", some "c", some "li"] := by decide

/-- Regression input of the repaired finding `svg-self-reference-hang`: an SVG whose two `<image>` elements point at
itself is drawn once; both nested draws return at once, nothing is fetched, the depth bound is not reached. -/
example :
    let o : Opts := ⟨false, none, none⟩
    let self := "http://a.test/a.svg"
    let cache : Cache := [(nestedKey o self, some (.svg 7))]
    drawObject (fun _ => .raises ⟨"LookupError", "unknown"⟩) o [(7, [.image (some self), .image (some self)])] 4 [] cache
      (nestedKey o self) 7 = (cache, [], false) := by decide +kernel

/-- A cycle of two SVG images `a → b → a`: `b` is fetched once while `a` is drawn, its reference back to `a` is cut. -/
example :
    let o : Opts := ⟨false, none, none⟩
    let svgB : Fetched := .resp ⟨true, none, some "image/svg+xml", none, ⟨8, true, none, false, true, false⟩⟩
    let cache : Cache := [(nestedKey o "http://a.test/a.svg", some (.svg 7))]
    (drawObject (fun _ => svgB) o [(7, [.image (some "http://a.test/b.svg")]), (8, [.image (some "http://a.test/a.svg")])]
      5 [] cache (nestedKey o "http://a.test/a.svg") 7).2 = ([.call "http://a.test/b.svg", .body], false) := by decide +kernel


end Wp.C20.Svg
