/-
C20 — the trace checker (`Model/ResourcesTrace.lean`) accepts everything the models produce.
The harness runs the same checker (compiled into the driver) on every log recorded from the real code, so the
checker is tied to the models by proof and to the implementation by execution: a real trace that is not a
sequence of `call [body [close]]` fetches, or that calls the fetcher with a URL the document does not name, is
reported whether or not the model predicted it.
-/
import WpModel.Model.ResourcesTrace
import WpModel.Model.ResourcesDoc
import WpModel.Props.C20

namespace Wp.C20.Trace
open Wp Wp.Res Wp.Res.Doc Wp.Res.Svg

/-- Empty, or beginning with a call of the fetcher. -/
def startsWithCall : List Ev → Prop
  | [] => True
  | .call _ :: _ => True
  | _ => False

private theorem traceOk_of_starts (s : Nat) (b : List Ev) (hs : startsWithCall b) (h : traceOk 0 b = true) :
    traceOk s b = true := by
  cases b with
  | nil => simp [traceOk]
  | cons e rest =>
    cases e with
    | call u => simpa [traceOk] using h
    | body => exact absurd hs (by simp [startsWithCall])
    | close => exact absurd hs (by simp [startsWithCall])
    | closeWarn => exact absurd hs (by simp [startsWithCall])

/-- Accepted traces compose: a trace followed by a trace that starts with a call. -/
theorem traceOk_append (s : Nat) (a b : List Ev) (ha : traceOk s a = true) (hs : startsWithCall b)
    (hb : traceOk 0 b = true) : traceOk s (a ++ b) = true := by
  induction a generalizing s with
  | nil => exact traceOk_of_starts s b hs hb
  | cons e rest ih =>
    cases e with
    | call u => simp only [List.cons_append, traceOk] at ha ⊢; exact ih 1 ha
    | body =>
      match s, ha with
      | 1, ha => simp only [List.cons_append, traceOk] at ha ⊢; exact ih 2 ha
    | close =>
      match s, ha with
      | 2, ha => simp only [List.cons_append, traceOk] at ha ⊢; exact ih 0 ha
    | closeWarn =>
      match s, ha with
      | 2, ha => simp only [List.cons_append, traceOk] at ha ⊢; exact ih 0 ha

private theorem starts_append (a b : List Ev) (ha : startsWithCall a) (hb : startsWithCall b) :
    startsWithCall (a ++ b) := by
  cases a with
  | nil => exact hb
  | cons e rest => cases e <;> simp_all [startsWithCall]

/-- A trace: accepted and starting with a call (or empty). -/
def Good (evs : List Ev) : Prop := startsWithCall evs ∧ traceOk 0 evs = true

theorem good_nil : Good [] := ⟨trivial, rfl⟩

theorem good_append (a b : List Ev) (ha : Good a) (hb : Good b) : Good (a ++ b) :=
  ⟨starts_append a b ha.1 hb.1, traceOk_append 0 a b ha.2 hb.1 hb.2⟩

/-- `fetch`: the trace of one `with fetch(...)` block is accepted, for every fetcher outcome and body. -/
theorem fetch_trace_good {α} (f : Fetched) (url : String) (body : Resp → Except Exc α) :
    Good (fetch f url body).1 := by
  cases f with
  | raises e => exact ⟨trivial, rfl⟩
  | notDict => exact ⟨trivial, rfl⟩
  | resp r =>
    cases hf : r.fileObj with
    | none => simp only [fetch, hf]; exact ⟨trivial, rfl⟩
    | some fo => cases hc : fo.closeErr <;> simp only [fetch, hf, hc] <;> exact ⟨trivial, rfl⟩

/-- `get_image_from_uri`. -/
theorem getImage_trace_good (cache : Cache) (fetcher : Fetcher) (opts : Opts) (req : Req) :
    Good (getImage cache fetcher opts req).2.1 := by
  unfold getImage
  cases hc : cache.find? (req.key opts) with
  | some v => exact good_nil
  | none =>
    simp only
    have hg := fetch_trace_good (fetcher req.url) req.url (imageBody req)
    cases hfe : fetch (fetcher req.url) req.url (imageBody req) with
    | mk evs fetched =>
      rw [hfe] at hg
      simp only at hg ⊢
      cases fetched with
      | error e =>
        simp only
        cases (e.isUrlFetching || e.isImageLoading) <;> exact hg
      | ok t =>
        obtain ⟨fn, content, mime⟩ := t
        simp only
        cases decideImage req opts fn content mime with
        | ok img => exact hg
        | error e =>
          simp only
          cases (e.isUrlFetching || e.isImageLoading) <;> exact hg

/-- The image stage of a document (`build_formatting_structure` + `layout_backgrounds`). -/
theorem runRefs_trace_good (fetcher : Fetcher) (opts : Opts) (refs : List Doc.ImgRef) (cache : Cache) :
    Good (Doc.runRefs fetcher opts cache refs).1 := by
  induction refs generalizing cache with
  | nil => exact good_nil
  | cons r rest ih =>
    unfold Doc.runRefs
    cases hu : r.url with
    | none => simpa using ih cache
    | some u =>
      simp only
      by_cases he : (u == "") = true
      · simp only [he, ↓reduceIte]; simpa using ih cache
      · simp only [he]
        have hg := getImage_trace_good cache fetcher opts ⟨u, r.orient, r.forcedMime⟩
        cases hgi : getImage cache fetcher opts ⟨u, r.orient, r.forcedMime⟩ with
        | mk cache' r2 =>
          cases r2 with
          | mk evs out =>
            rw [hgi] at hg
            cases out with
            | error e => exact hg
            | ok image => exact good_append _ _ hg (ih cache')

/-- `write_pdf_attachment`, `add_annotations`, the metadata attachments. -/
theorem attachment_trace_good (fetcher : Fetcher) (url : String) : Good (writeAttachment fetcher url).1 := by
  unfold writeAttachment
  have hg := fetch_trace_good (fetcher url) url attachmentBody
  cases hfe : fetch (fetcher url) url attachmentBody with
  | mk evs got =>
    rw [hfe] at hg
    cases got with
    | ok c => exact hg
    | error e => simp only; cases e.isUrlFetching <;> exact hg

theorem annots_trace_good (fetcher : Fetcher) (urls : List String) (files : List (String × Option Nat)) :
    Good (annotAttachments fetcher files urls).1 := by
  induction urls generalizing files with
  | nil => exact good_nil
  | cons u rest ih =>
    unfold annotAttachments
    cases files.lookup u with
    | some v => exact ih files
    | none =>
      have hg := attachment_trace_good fetcher u
      cases hw : writeAttachment fetcher u with
      | mk evs out =>
        rw [hw] at hg
        cases out with
        | error e => exact hg
        | ok v => exact good_append _ _ hg (ih _)

theorem metas_trace_good (fetcher : Fetcher) (urls : List String) :
    Good (metadataAttachments fetcher urls).1 := by
  induction urls with
  | nil => exact good_nil
  | cons u rest ih =>
    unfold metadataAttachments
    have hg := attachment_trace_good fetcher u
    cases hw : writeAttachment fetcher u with
    | mk evs out =>
      rw [hw] at hg
      cases out with
      | error e => exact hg
      | ok v => exact good_append _ _ hg ih

/-- `add_font_face`: the log of the `src` loop extends an accepted log by accepted fetches. -/
theorem fontLoop_trace_good (fetcher : Fetcher) (srcs : List FontSrc) (acc : FontOut) (h : Good acc.log) :
    Good (fontLoop fetcher srcs acc).log := by
  induction srcs generalizing acc with
  | nil => simpa [fontLoop] using h
  | cons s rest ih =>
    simp only [fontLoop]
    split
    · exact ih acc h
    · rename_i url _
      have hg := fetch_trace_good (fetcher url) url readAll
      cases hfe : fetch (fetcher url) url readAll with
      | mk evs got =>
        rw [hfe] at hg
        have hacc : Good (acc.log ++ evs) := good_append _ _ h hg
        simp only
        cases got with
        | error e => exact ih _ hacc
        | ok content =>
          simp only
          split
          · exact ih _ hacc
          · split
            · exact hacc
            · exact ih _ hacc

theorem addFontFace_trace_good (fetcher : Fetcher) (st : FontState) (face : FontFace) :
    Good (addFontFace fetcher st face).2.log := by
  unfold addFontFace
  split
  · exact good_nil
  · exact fontLoop_trace_good fetcher face.srcs {} good_nil

private theorem drawItems_trace_good (fetcher : Fetcher) (opts : Opts) (deeper : Cache → String → Nat → Svg.DrawOut)
    (hdeeper : ∀ cache key c, Good (deeper cache key c).2.1) (items : List SvgItem) (cache : Cache) :
    Good (drawItems fetcher opts deeper cache items).2.1 := by
  induction items generalizing cache with
  | nil => exact good_nil
  | cons it rest ih =>
    cases it with
    | useExternal u =>
      simp only [drawItems]
      exact good_append [.call u] _ ⟨trivial, rfl⟩ (ih cache)
    | image url =>
      cases url with
      | none => simp only [drawItems]; exact ih cache
      | some url =>
        simp only [drawItems]
        split
        · exact ih cache
        · have hg := getImage_trace_good cache fetcher opts ⟨url, .fromImage, some "image/*"⟩
          split
          · rename_i c' evs e hgi
            rw [hgi] at hg; exact hg
          · rename_i c' evs c hgi
            rw [hgi] at hg
            exact good_append _ _ (good_append _ _ hg (hdeeper _ _ _)) (ih _)
          · rename_i c' evs v hne hgi
            rw [hgi] at hg
            exact good_append _ _ hg (ih _)

/-- Every trace of a nested SVG drawing — any depth, any cycle, any failure — is a sequence of
`call [body [close]]` fetches: the verified trace checker accepts it. -/
theorem drawObject_trace_good (fetcher : Fetcher) (opts : Opts) (info : List (Nat × List SvgItem)) (fuel : Nat)
    (drawing : List String) (cache : Cache) (key : String) (c : Nat) :
    Good (drawObject fetcher opts info fuel drawing cache key c).2.1 := by
  induction fuel generalizing drawing cache key c with
  | zero => exact good_nil
  | succ fuel ih =>
    simp only [drawObject]
    split
    · exact good_nil
    · exact drawItems_trace_good fetcher opts _ (fun cache' key' c' => ih _ cache' key' c') _ cache

theorem paintSvgs_trace_good (fetcher : Fetcher) (opts : Opts) (info : List (Nat × List Doc.SvgItem))
    (cs : List (String × Nat)) (cache : Cache) : Good (Doc.paintSvgs fetcher opts info cache cs).2 := by
  induction cs generalizing cache with
  | nil => exact good_nil
  | cons c rest ih =>
    obtain ⟨key, c⟩ := c
    simp only [Doc.paintSvgs]
    exact good_append _ _ (drawObject_trace_good _ _ _ _ _ _ _ _) (ih _)

/-! ### stylesheets -/

private theorem log_ofEvs (evs : List Ev) (err : Option Exc) : (Out.ofEvs evs err).log = evs := by
  simp only [Out.ofEvs, Out.log, List.filterMap_map]
  induction evs with
  | nil => rfl
  | cons e rest ih => simp [List.filterMap_cons, ih]

private theorem log_absorb (o : Out) : o.absorbFetchError.log = o.log := by
  unfold Out.absorbFetchError
  split
  · split <;> rfl
  · rfl

private theorem good_seq (a b : Out) (ha : Good a.log) (hb : Good b.log) : Good (a.seq b).log := by
  unfold Out.seq
  split
  · exact ha
  · simp only [Out.log, List.filterMap_append]
    exact good_append _ _ ha hb

private theorem good_empty : Good ({} : Out).log := good_nil

mutual
  /-- `preprocess_stylesheet`: the fetch events of a stylesheet's items (nested `@import`s at any depth). -/
  theorem runItems_trace_good (d : String) : ∀ (ign : Bool) (items : List CssItem), Good (runItems d ign items).log
    | _, [] => good_nil
    | ign, .rule id :: rest => by
      simp only [runItems]
      exact good_seq _ _ good_nil (runItems_trace_good d true rest)
    | ign, .other :: rest => by
      simp only [runItems]
      exact runItems_trace_good d true rest
    | ign, .fontFace complete face :: rest => by
      simp only [runItems]
      refine good_seq _ _ ?_ (runItems_trace_good d true rest)
      cases complete <;> exact good_nil
    | ign, .mediaRule media items :: rest => by
      simp only [runItems]
      cases media with
      | none => exact runItems_trace_good d ign rest
      | some m =>
        simp only
        split
        · exact runItems_trace_good d true rest
        · exact good_seq _ _ (runItems_trace_good d true items) (runItems_trace_good d true rest)
    | ign, .importRule url media target :: rest => by
      simp only [runItems]
      split
      · exact runItems_trace_good d ign rest
      · split
        · exact runItems_trace_good d ign rest
        · exact runItems_trace_good d ign rest
        · split
          · exact runItems_trace_good d ign rest
          · refine good_seq _ _ ?_ (runItems_trace_good d ign rest)
            rw [log_absorb]
            exact runSheet_trace_good d false _ target
  /-- `CSS(url=…)`. -/
  theorem runSheet_trace_good (d : String) (c : Bool) (url : String) : ∀ (sh : Sheet), Good (runSheet d c url sh).log
    | .mk fetched items => by
      simp only [runSheet]
      have hg := fetch_trace_good fetched url (cssSourceBody c)
      cases hfe : fetch fetched url (cssSourceBody c) with
      | mk evs src =>
        rw [hfe] at hg
        simp only at hg ⊢
        cases src with
        | error e => rw [log_ofEvs]; exact hg
        | ok b =>
          cases b with
          | false => rw [log_ofEvs]; exact hg
          | true =>
            refine good_seq _ _ ?_ (runItems_trace_good d false items)
            rw [log_ofEvs]; exact hg
end

/-- `find_stylesheets`: all stylesheet fetches of a document, in order. -/
theorem findStylesheets_trace_good (d : String) (els : List StyleEl) : Good (findStylesheets d els).log := by
  induction els with
  | nil => exact good_nil
  | cons el rest ih =>
    refine good_seq _ _ ?_ ih
    unfold runStyleEl
    split
    · exact good_nil
    · split
      · exact good_nil
      · split
        · exact runItems_trace_good d false el.items
        · split
          · exact good_nil
          · split
            · exact good_nil
            · split
              · exact good_nil
              · rw [log_absorb]; exact runSheet_trace_good d true _ el.target


/-! ### every URL handed to the fetcher is named by the document -/

private theorem fetch_calls {α} (f : Fetched) (url : String) (body : Resp → Except Exc α) (u : String)
    (h : Ev.call u ∈ (fetch f url body).1) : u = url := by
  cases f with
  | raises e => simpa [fetch] using h
  | notDict => simpa [fetch] using h
  | resp r =>
    cases hf : r.fileObj with
    | none => simpa [fetch, hf] using h
    | some fo => cases hc : fo.closeErr <;> simpa [fetch, hf, hc] using h

private theorem getImage_calls (cache : Cache) (fetcher : Fetcher) (opts : Opts) (req : Req) (u : String)
    (h : Ev.call u ∈ (getImage cache fetcher opts req).2.1) : u = req.url := by
  unfold getImage at h
  cases hc : cache.find? (req.key opts) with
  | some v => simp [hc] at h
  | none =>
    simp only [hc] at h
    cases hfe : fetch (fetcher req.url) req.url (imageBody req) with
    | mk evs fetched =>
      have hin : Ev.call u ∈ evs := by
        rw [hfe] at h
        simp only at h
        cases fetched with
        | error e =>
          simp only at h
          cases hcls : (e.isUrlFetching || e.isImageLoading) <;> simp only [hcls] at h <;> exact h
        | ok t =>
          obtain ⟨fn, content, mime⟩ := t
          simp only at h
          cases hd : decideImage req opts fn content mime with
          | ok img => simp only [hd] at h; exact h
          | error e =>
            simp only [hd] at h
            cases hcls : (e.isUrlFetching || e.isImageLoading) <;> simp only [hcls] at h <;> exact h
      exact fetch_calls (fetcher req.url) req.url (imageBody req) u (by rw [hfe]; exact hin)

/-- URLs of the image references of a document. -/
def refUrls (refs : List Doc.ImgRef) : List String := refs.filterMap (·.url)

theorem runRefs_calls_named (fetcher : Fetcher) (opts : Opts) (refs : List Doc.ImgRef) (cache : Cache) (u : String)
    (h : Ev.call u ∈ (Doc.runRefs fetcher opts cache refs).1) : u ∈ refUrls refs := by
  induction refs generalizing cache with
  | nil => simp [Doc.runRefs] at h
  | cons r rest ih =>
    unfold Doc.runRefs at h
    cases hu : r.url with
    | none =>
      simp only [hu] at h
      have := ih cache (by simpa using h)
      simp [refUrls, hu] at this ⊢; exact this
    | some v =>
      simp only [hu] at h
      by_cases he : (v == "") = true
      · simp only [he, ↓reduceIte] at h
        have := ih cache (by simpa using h)
        simp only [refUrls, List.filterMap_cons, hu] at this ⊢
        exact List.mem_cons_of_mem _ this
      · simp only [he] at h
        cases hgi : getImage cache fetcher opts ⟨v, r.orient, r.forcedMime⟩ with
        | mk cache' r2 =>
          cases r2 with
          | mk evs out =>
            rw [hgi] at h
            have hev : ∀ w, Ev.call w ∈ evs → w = v := fun w hw =>
              getImage_calls cache fetcher opts ⟨v, r.orient, r.forcedMime⟩ w (by rw [hgi]; exact hw)
            simp only [refUrls, List.filterMap_cons, hu]
            cases out with
            | error e =>
              simp only at h
              rw [hev u h]; exact List.mem_cons_self
            | ok image =>
              simp only at h
              rcases List.mem_append.mp h with h | h
              · rw [hev u h]; exact List.mem_cons_self
              · exact List.mem_cons_of_mem _ (ih cache' h)

theorem attachment_calls_named (fetcher : Fetcher) (url u : String) (h : Ev.call u ∈ (writeAttachment fetcher url).1) :
    u = url := by
  unfold writeAttachment at h
  cases hfe : fetch (fetcher url) url attachmentBody with
  | mk evs got =>
    have hin : Ev.call u ∈ evs := by
      rw [hfe] at h
      cases got with
      | ok c => exact h
      | error e => simp only at h; cases hc : e.isUrlFetching <;> simp only [hc] at h <;> exact h
    exact fetch_calls (fetcher url) url attachmentBody u (by rw [hfe]; exact hin)

theorem annots_calls_named (fetcher : Fetcher) (urls : List String) (files : List (String × Option Nat)) (u : String)
    (h : Ev.call u ∈ (annotAttachments fetcher files urls).1) : u ∈ urls := by
  induction urls generalizing files with
  | nil => simp [annotAttachments] at h
  | cons x rest ih =>
    unfold annotAttachments at h
    cases hl : files.lookup x with
    | some v => simp only [hl] at h; exact List.mem_cons_of_mem _ (ih files h)
    | none =>
      simp only [hl] at h
      cases hw : writeAttachment fetcher x with
      | mk evs out =>
        have hev : ∀ w, Ev.call w ∈ evs → w = x := fun w hw' =>
          attachment_calls_named fetcher x w (by rw [hw]; exact hw')
        rw [hw] at h
        cases out with
        | error e => simp only at h; rw [hev u h]; exact List.mem_cons_self
        | ok v =>
          simp only at h
          rcases List.mem_append.mp h with h | h
          · rw [hev u h]; exact List.mem_cons_self
          · exact List.mem_cons_of_mem _ (ih _ h)

theorem metas_calls_named (fetcher : Fetcher) (urls : List String) (u : String)
    (h : Ev.call u ∈ (metadataAttachments fetcher urls).1) : u ∈ urls := by
  induction urls with
  | nil => simp [metadataAttachments] at h
  | cons x rest ih =>
    unfold metadataAttachments at h
    cases hw : writeAttachment fetcher x with
    | mk evs out =>
      have hev : ∀ w, Ev.call w ∈ evs → w = x := fun w hw' =>
        attachment_calls_named fetcher x w (by rw [hw]; exact hw')
      rw [hw] at h
      cases out with
      | error e => simp only at h; rw [hev u h]; exact List.mem_cons_self
      | ok v =>
        simp only at h
        rcases List.mem_append.mp h with h | h
        · rw [hev u h]; exact List.mem_cons_self
        · exact List.mem_cons_of_mem _ (ih h)

/-- URLs a `src` list can ask for. -/
def srcUrls (srcs : List FontSrc) : List String := srcs.filterMap FontSrc.target

theorem fontLoop_calls_named (fetcher : Fetcher) (srcs : List FontSrc) (acc : FontOut) (u : String)
    (h : Ev.call u ∈ (fontLoop fetcher srcs acc).log) : Ev.call u ∈ acc.log ∨ u ∈ srcUrls srcs := by
  induction srcs generalizing acc with
  | nil => left; simpa [fontLoop] using h
  | cons s rest ih =>
    simp only [fontLoop] at h
    split at h
    · rename_i hn
      rcases ih acc h with h' | h'
      · exact Or.inl h'
      · right; simp only [srcUrls, List.filterMap_cons, hn]; exact h'
    · rename_i url hurl
      have widen : ∀ acc', (Ev.call u ∈ acc'.log → Ev.call u ∈ acc.log ∨ u = url) →
          Ev.call u ∈ (fontLoop fetcher rest acc').log → Ev.call u ∈ acc.log ∨ u ∈ srcUrls (s :: rest) := by
        intro acc' hacc' hm
        simp only [srcUrls, List.filterMap_cons, hurl]
        rcases ih acc' hm with h' | h'
        · rcases hacc' h' with h'' | h''
          · exact Or.inl h''
          · right; rw [h'']; exact List.mem_cons_self
        · right; exact List.mem_cons_of_mem _ h'
      cases hfe : fetch (fetcher url) url readAll with
      | mk evs got =>
        have hev : ∀ w, Ev.call w ∈ evs → w = url := fun w hw =>
          fetch_calls (fetcher url) url readAll w (by rw [hfe]; exact hw)
        have hlog : ∀ (l : List Ev), Ev.call u ∈ acc.log ++ evs → Ev.call u ∈ acc.log ∨ u = url := by
          intro _ hm
          rcases List.mem_append.mp hm with hm | hm
          · exact Or.inl hm
          · exact Or.inr (hev u hm)
        rw [hfe] at h
        simp only at h
        cases got with
        | error e => exact widen _ (hlog []) h
        | ok content =>
          simp only at h
          split at h
          · exact widen _ (hlog []) h
          · split at h
            · simp only [srcUrls, List.filterMap_cons, hurl]
              rcases hlog [] h with h' | h'
              · exact Or.inl h'
              · right; rw [h']; exact List.mem_cons_self
            · exact widen _ (hlog []) h

private theorem svg_lookup_mem {α} (l : List (Nat × α)) (k : Nat) (v : α) (h : l.lookup k = some v) : (k, v) ∈ l := by
  induction l with
  | nil => simp [List.lookup] at h
  | cons x xs ih =>
    obtain ⟨k', v'⟩ := x
    simp only [List.lookup] at h
    split at h
    · rename_i heq
      have : k = k' := by simpa using heq
      cases h; subst this; exact List.mem_cons_self
    · exact List.mem_cons_of_mem _ (ih h)

/-- `u` is the `href` of an `<image>` or the target of an external `<use>` of one of the SVG images. -/
def namedIn (info : List (Nat × List SvgItem)) (u : String) : Prop :=
  ∃ e ∈ info, SvgItem.useExternal u ∈ e.2 ∨ SvgItem.image (some u) ∈ e.2

private theorem drawItems_calls_named (fetcher : Fetcher) (opts : Opts) (deeper : Cache → String → Nat → Svg.DrawOut)
    (P : String → Prop) (hdeeper : ∀ cache key c u, Ev.call u ∈ (deeper cache key c).2.1 → P u)
    (items : List SvgItem) (hitems : ∀ u, (SvgItem.useExternal u ∈ items ∨ SvgItem.image (some u) ∈ items) → P u)
    (cache : Cache) (u : String) (h : Ev.call u ∈ (drawItems fetcher opts deeper cache items).2.1) : P u := by
  induction items generalizing cache with
  | nil => simp [drawItems] at h
  | cons it rest ih =>
    have hrest : ∀ u, (SvgItem.useExternal u ∈ rest ∨ SvgItem.image (some u) ∈ rest) → P u := fun u hu =>
      hitems u (hu.imp (List.mem_cons_of_mem _) (List.mem_cons_of_mem _))
    cases it with
    | useExternal w =>
      simp only [drawItems, List.mem_cons, Ev.call.injEq] at h
      rcases h with h | h
      · exact hitems u (Or.inl (by rw [h]; exact List.mem_cons_self))
      · exact ih hrest cache h
    | image url =>
      cases url with
      | none => simp only [drawItems] at h; exact ih hrest cache h
      | some url =>
        have hself : P url := hitems url (Or.inr List.mem_cons_self)
        have hev : ∀ c' evs out, getImage cache fetcher opts ⟨url, .fromImage, some "image/*"⟩ = (c', evs, out) →
            ∀ w, Ev.call w ∈ evs → w = url := fun c' evs out hgi w hw =>
          image_calls_only_requested cache fetcher opts ⟨url, .fromImage, some "image/*"⟩ w (by rw [hgi]; exact hw)
        simp only [drawItems] at h
        split at h
        · exact ih hrest cache h
        · split at h
          · rename_i c' evs e hgi
            simp only at h
            rw [hev _ _ _ hgi u h]; exact hself
          · rename_i c' evs c hgi
            simp only [List.mem_append] at h
            rcases h with (h | h) | h
            · rw [hev _ _ _ hgi u h]; exact hself
            · exact hdeeper _ _ _ u h
            · exact ih hrest _ h
          · rename_i c' evs v hne hgi
            simp only [List.mem_append] at h
            rcases h with h | h
            · rw [hev _ _ _ hgi u h]; exact hself
            · exact ih hrest _ h

/-- `every_loader_uses_fetcher` (nested SVG images): whatever an SVG drawing asks the fetcher for — at any depth —
is the `href` of an `<image>` or of an external `<use>` of one of the SVG images involved. -/
theorem drawObject_calls_named (fetcher : Fetcher) (opts : Opts) (info : List (Nat × List SvgItem)) (fuel : Nat)
    (drawing : List String) (cache : Cache) (key : String) (c : Nat) (u : String)
    (h : Ev.call u ∈ (drawObject fetcher opts info fuel drawing cache key c).2.1) : namedIn info u := by
  induction fuel generalizing drawing cache key c u with
  | zero => simp [drawObject] at h
  | succ fuel ih =>
    simp only [drawObject] at h
    split at h
    · simp at h
    · apply drawItems_calls_named fetcher opts _ (namedIn info) (fun cache' key' c' u' hu' => ih _ cache' key' c' u' hu') _ _ cache u h
      intro w hw
      cases hl : info.lookup c with
      | none => simp [hl] at hw
      | some items =>
        simp only [hl, Option.getD_some] at hw
        exact ⟨(c, items), svg_lookup_mem info c items hl, hw⟩

private theorem mem_log_seq (a b : Out) (e : Ev) (h : e ∈ (a.seq b).log) : e ∈ a.log ∨ e ∈ b.log := by
  unfold Out.seq at h
  split at h
  · exact Or.inl h
  · simp only [Out.log, List.filterMap_append] at h
    exact List.mem_append.mp h

private theorem mem_log_empty (e : Ev) (h : e ∈ ({} : Out).log) : False := by
  simp [Out.log] at h

private theorem mem_log_acts_nonev (e : Ev) : (e ∈ (⟨[.rule 0], none⟩ : Out).log) → False := by
  simp [Out.log]

mutual
  /-- The URLs a stylesheet's items can ask for: the `@import` targets, at any depth. -/
  def itemsUrls : List CssItem → List String
    | [] => []
    | .rule _ :: rest => itemsUrls rest
    | .other :: rest => itemsUrls rest
    | .fontFace _ _ :: rest => itemsUrls rest
    | .mediaRule _ items :: rest => itemsUrls items ++ itemsUrls rest
    | .importRule url _ target :: rest =>
      (match url with | some u => [u] | none => []) ++ sheetUrls target ++ itemsUrls rest
  def sheetUrls : Sheet → List String
    | .mk _ items => itemsUrls items
end

mutual
  theorem runItems_calls_named (d : String) (u : String) :
      ∀ (ign : Bool) (items : List CssItem), Ev.call u ∈ (runItems d ign items).log → u ∈ itemsUrls items
    | _, [], h => absurd h (by simp [runItems, Out.log])
    | ign, .rule id :: rest, h => by
      simp only [runItems] at h
      simp only [itemsUrls]
      rcases mem_log_seq _ _ _ h with h | h
      · simp [Out.log] at h
      · exact runItems_calls_named d u true rest h
    | ign, .other :: rest, h => by
      simp only [runItems] at h
      simp only [itemsUrls]
      exact runItems_calls_named d u true rest h
    | ign, .fontFace complete face :: rest, h => by
      simp only [runItems] at h
      simp only [itemsUrls]
      rcases mem_log_seq _ _ _ h with h | h
      · cases complete <;> simp [Out.log] at h
      · exact runItems_calls_named d u true rest h
    | ign, .mediaRule media items :: rest, h => by
      simp only [runItems] at h
      simp only [itemsUrls, List.mem_append]
      cases media with
      | none => exact Or.inr (runItems_calls_named d u ign rest h)
      | some m =>
        simp only at h
        split at h
        · exact Or.inr (runItems_calls_named d u true rest h)
        · rcases mem_log_seq _ _ _ h with h | h
          · exact Or.inl (runItems_calls_named d u true items h)
          · exact Or.inr (runItems_calls_named d u true rest h)
    | ign, .importRule url media target :: rest, h => by
      simp only [runItems] at h
      simp only [itemsUrls, List.mem_append]
      split at h
      · exact Or.inr (runItems_calls_named d u ign rest h)
      · split at h
        · exact Or.inr (runItems_calls_named d u ign rest h)
        · exact Or.inr (runItems_calls_named d u ign rest h)
        · rename_i v m
          split at h
          · exact Or.inr (runItems_calls_named d u ign rest h)
          · rcases mem_log_seq _ _ _ h with h | h
            · rw [log_absorb] at h
              rcases runSheet_calls_named d u false v target h with h | h
              · left; left; simp [h]
              · left; right; exact h
            · exact Or.inr (runItems_calls_named d u ign rest h)
  theorem runSheet_calls_named (d : String) (u : String) (c : Bool) (url : String) :
      ∀ (sh : Sheet), Ev.call u ∈ (runSheet d c url sh).log → u = url ∨ u ∈ sheetUrls sh
    | .mk fetched items, h => by
      simp only [runSheet] at h
      simp only [sheetUrls]
      cases hfe : fetch fetched url (cssSourceBody c) with
      | mk evs src =>
        have hev : ∀ w, Ev.call w ∈ evs → w = url := fun w hw =>
          fetch_calls fetched url (cssSourceBody c) w (by rw [hfe]; exact hw)
        rw [hfe] at h
        simp only at h
        cases src with
        | error e => rw [log_ofEvs] at h; exact Or.inl (hev u h)
        | ok b =>
          cases b with
          | false => rw [log_ofEvs] at h; exact Or.inl (hev u h)
          | true =>
            rcases mem_log_seq _ _ _ h with h | h
            · rw [log_ofEvs] at h; exact Or.inl (hev u h)
            · exact Or.inr (runItems_calls_named d u false items h)
end

/-- URLs the `<style>` / `<link>` elements of a document can ask for. -/
def styleUrls (els : List StyleEl) : List String :=
  els.flatMap (fun el => (match resolveHref el.href el.joined with | some u => [u] | none => []) ++
    itemsUrls el.items ++ sheetUrls el.target)

theorem findStylesheets_calls_named (d : String) (els : List StyleEl) (u : String)
    (h : Ev.call u ∈ (findStylesheets d els).log) : u ∈ styleUrls els := by
  induction els with
  | nil => simp [findStylesheets, Out.log] at h
  | cons el rest ih =>
    simp only [styleUrls, List.flatMap_cons, List.mem_append]
    rcases mem_log_seq _ _ _ h with h | h
    · left
      unfold runStyleEl at h
      split at h
      · exact absurd h (by simp [Out.log])
      · split at h
        · exact absurd h (by simp [Out.log])
        · split at h
          · left; right; exact runItems_calls_named d u false el.items h
          · split at h
            · exact absurd h (by simp [Out.log])
            · split at h
              · exact absurd h (by simp [Out.log])
              · split at h
                · exact absurd h (by simp [Out.log])
                · rename_i url hres
                  rw [log_absorb] at h
                  rcases runSheet_calls_named d u true url el.target h with h | h
                  · left; left; simp [hres, h]
                  · right; exact h
    · right; exact ih h

private theorem addFontFace_calls_named (fetcher : Fetcher) (st : FontState) (face : FontFace) (u : String)
    (h : Ev.call u ∈ (addFontFace fetcher st face).2.log) : u ∈ srcUrls face.srcs := by
  unfold addFontFace at h
  split at h
  · simp at h
  · rcases fontLoop_calls_named fetcher face.srcs {} u h with h | h
    · simp at h
    · exact h

private theorem interp_calls_named (fetcher : Fetcher) (acts : List Act) (st : FontState) (u : String)
    (h : Ev.call u ∈ (Doc.interp fetcher st acts).1) :
    Act.ev (.call u) ∈ acts ∨ ∃ face, Act.font face ∈ acts ∧ u ∈ srcUrls face.srcs := by
  induction acts generalizing st with
  | nil => simp [Doc.interp] at h
  | cons a rest ih =>
    cases a with
    | rule i =>
      simp only [Doc.interp] at h
      rcases ih st h with h | ⟨f, hf, hu⟩
      · exact Or.inl (List.mem_cons_of_mem _ h)
      · exact Or.inr ⟨f, List.mem_cons_of_mem _ hf, hu⟩
    | ev e =>
      simp only [Doc.interp, List.mem_cons] at h
      rcases h with h | h
      · left; rw [h]; exact List.mem_cons_self
      · rcases ih st h with h | ⟨f, hf, hu⟩
        · exact Or.inl (List.mem_cons_of_mem _ h)
        · exact Or.inr ⟨f, List.mem_cons_of_mem _ hf, hu⟩
    | font face =>
      simp only [Doc.interp] at h
      have hface := addFontFace_calls_named fetcher st face u
      cases ha : addFontFace fetcher st face with
      | mk st' out =>
        rw [ha] at h hface
        simp only at h hface
        cases he : out.err with
        | some e =>
          simp only [he] at h
          exact Or.inr ⟨face, List.mem_cons_self, hface h⟩
        | none =>
          simp only [he] at h
          rcases List.mem_append.mp h with h | h
          · exact Or.inr ⟨face, List.mem_cons_self, hface h⟩
          · rcases ih st' h with h | ⟨f, hf, hu⟩
            · exact Or.inl (List.mem_cons_of_mem _ h)
            · exact Or.inr ⟨f, List.mem_cons_of_mem _ hf, hu⟩

private theorem lookup_mem' {α} (l : List (Nat × α)) (k : Nat) (v : α) (h : l.lookup k = some v) : (k, v) ∈ l := by
  induction l with
  | nil => simp [List.lookup] at h
  | cons x xs ih =>
    obtain ⟨k', v'⟩ := x
    simp only [List.lookup] at h
    split at h
    · rename_i heq
      have : k = k' := by simpa using heq
      cases h; subst this; exact List.mem_cons_self
    · exact List.mem_cons_of_mem _ (ih h)

private theorem paintSvgs_calls_named (fetcher : Fetcher) (opts : Opts) (info : List (Nat × List Doc.SvgItem))
    (cs : List (String × Nat)) (cache : Cache) (u : String) (h : Ev.call u ∈ (Doc.paintSvgs fetcher opts info cache cs).2) :
    namedIn info u := by
  induction cs generalizing cache with
  | nil => simp [Doc.paintSvgs] at h
  | cons c rest ih =>
    obtain ⟨key, c⟩ := c
    simp only [Doc.paintSvgs] at h
    rcases List.mem_append.mp h with h | h
    · exact drawObject_calls_named fetcher opts info _ _ cache key c u h
    · exact ih _ h

/-- The URL an element of an SVG image asks for when drawn (an `<image>` without `href` asks for nothing). -/
def svgItemUrl : Doc.SvgItem → Option String
  | .useExternal u => some u
  | .image v => v

/-- Every URL the document names: stylesheet links and `@import`s at any depth, `@font-face` sources,
image references, attachments, and what the SVG images shown ask for when drawn. -/
def namedUrls (d : Doc.Document) : List String :=
  styleUrls d.styles ++ (findStylesheets d.device d.styles).fonts.flatMap (fun f => srcUrls f.srcs) ++
  refUrls d.images ++ d.metaAttachments ++ d.annotAttachments ++
  d.svgInfo.flatMap (fun e => e.2.filterMap svgItemUrl)

/-- `every_loader_uses_fetcher`, whole pipeline: in `render` and `write_pdf`, every URL handed to the
caller's fetcher — by any loader, at any stage — is a URL the document names; nothing else is ever
requested. -/
theorem document_calls_only_named (d : Doc.Document) (u : String)
    (h : Ev.call u ∈ (Doc.run d).cssLog ++ (Doc.run d).imageLog ++ (Doc.run d).attachLog ++ (Doc.run d).paintLog) :
    u ∈ namedUrls d := by
  have hcss : Ev.call u ∈ (Doc.interp d.fetcher {} (findStylesheets d.device d.styles).acts).1 →
      u ∈ namedUrls d := by
    intro hc
    rcases interp_calls_named _ _ _ u hc with hc | ⟨face, hf, hu⟩
    · have : Ev.call u ∈ (findStylesheets d.device d.styles).log := by
        simp only [Out.log, List.mem_filterMap]
        exact ⟨_, hc, rfl⟩
      have := findStylesheets_calls_named d.device d.styles u this
      simp [namedUrls, this]
    · have : u ∈ (findStylesheets d.device d.styles).fonts.flatMap (fun f => srcUrls f.srcs) := by
        simp only [List.mem_flatMap, Out.fonts, List.mem_filterMap]
        exact ⟨face, ⟨_, hf, rfl⟩, hu⟩
      simp [namedUrls, this]
  have himg : Ev.call u ∈ (Doc.runRefs d.fetcher d.opts [] d.images).1 → u ∈ namedUrls d := by
    intro hc
    have := runRefs_calls_named d.fetcher d.opts d.images [] u hc
    simp [namedUrls, this]
  have hann : Ev.call u ∈ (annotAttachments d.fetcher [] d.annotAttachments).1 → u ∈ namedUrls d := by
    intro hc
    have := annots_calls_named d.fetcher d.annotAttachments [] u hc
    simp [namedUrls, this]
  have hmeta : Ev.call u ∈ (metadataAttachments d.fetcher d.metaAttachments).1 → u ∈ namedUrls d := by
    intro hc
    have := metas_calls_named d.fetcher d.metaAttachments u hc
    simp [namedUrls, this]
  have hpaint : ∀ cache cs, Ev.call u ∈ (Doc.paintSvgs d.fetcher d.opts d.svgInfo cache cs).2 → u ∈ namedUrls d := by
    intro cache cs hc
    obtain ⟨e, he, hcase⟩ := paintSvgs_calls_named d.fetcher d.opts d.svgInfo cs cache u hc
    have : u ∈ d.svgInfo.flatMap (fun e => e.2.filterMap svgItemUrl) := by
      simp only [List.mem_flatMap, List.mem_filterMap]
      rcases hcase with hu | hu
      · exact ⟨e, he, _, hu, rfl⟩
      · exact ⟨e, he, _, hu, rfl⟩
    simp [namedUrls, this]
  -- each log of the run is (a prefix of) the log of its stage
  have e1 : (Doc.run d).cssLog = (Doc.interp d.fetcher {} (findStylesheets d.device d.styles).acts).1 := by
    simp only [Doc.run]
    repeat' split
    all_goals rfl
  have e2 : Ev.call u ∈ (Doc.run d).imageLog → Ev.call u ∈ (Doc.runRefs d.fetcher d.opts [] d.images).1 := by
    simp only [Doc.run]
    repeat' split
    all_goals (intro hx; simpa using hx)
  have e3 : Ev.call u ∈ (Doc.run d).attachLog →
      Ev.call u ∈ (annotAttachments d.fetcher [] d.annotAttachments).1 ∨
      Ev.call u ∈ (metadataAttachments d.fetcher d.metaAttachments).1 := by
    simp only [Doc.run]
    repeat' split
    all_goals (intro hx; simp_all)
  have e4 : Ev.call u ∈ (Doc.run d).paintLog →
      Ev.call u ∈ (Doc.paintSvgs d.fetcher d.opts d.svgInfo (Doc.runRefs d.fetcher d.opts [] d.images).2.2.1
        ((Doc.paintOrder d.images).filterMap (Doc.svgOfRef d.opts (Doc.runRefs d.fetcher d.opts [] d.images).2.2.1))).2 := by
    simp only [Doc.run]
    repeat' split
    all_goals (intro hx; simp_all)
  simp only [List.mem_append] at h
  rcases h with ((h | h) | h) | h
  · exact hcss (e1 ▸ h)
  · exact himg (e2 h)
  · rcases e3 h with h | h
    · exact hann h
    · exact hmeta h
  · exact hpaint _ _ (e4 h)

/-- The checker `callsWithin`, which the harness runs on the log recorded from the real `render` +
`write_pdf` with the URLs the generated document names, accepts the log of the model's run. -/
theorem document_log_within_named (d : Doc.Document) :
    callsWithin (namedUrls d)
      ((Doc.run d).cssLog ++ (Doc.run d).imageLog ++ (Doc.run d).attachLog ++ (Doc.run d).paintLog) = true := by
  unfold callsWithin
  rw [List.all_eq_true]
  intro e he
  cases e with
  | call u => simpa [List.contains_iff_mem] using document_calls_only_named d u he
  | body => rfl
  | close => rfl
  | closeWarn => rfl

example : namedUrls Wp.C20.failingDocument =
    ["http://a.test/s.css", "http://a.test/i.css", "http://a.test/f.woff", "http://a.test/x.png", "http://a.test/a.bin"] ∧
    ((Doc.run Wp.C20.failingDocument).cssLog ++ (Doc.run Wp.C20.failingDocument).imageLog ++
      (Doc.run Wp.C20.failingDocument).attachLog).length = 5 := by decide +kernel

/-! ### what a recording fetcher sees -/

/-- Dropping the (unobservable) `body` events of an accepted trace gives a trace `obsOk` accepts. -/
theorem obsOk_of_traceOk (evs : List Ev) (s : Nat) (h : traceOk s evs = true) :
    obsOk (s != 0) (stripBody evs) = true := by
  have hcall : ∀ u r, stripBody (.call u :: r) = .call u :: stripBody r := fun _ _ => rfl
  have hbody : ∀ r, stripBody (.body :: r) = stripBody r := fun _ => rfl
  have hclose : ∀ r, stripBody (.close :: r) = .close :: stripBody r := fun _ => rfl
  have hwarn : ∀ r, stripBody (.closeWarn :: r) = .closeWarn :: stripBody r := fun _ => rfl
  induction evs generalizing s with
  | nil => simp [stripBody, obsOk]
  | cons e rest ih =>
    cases e with
    | call u =>
      simp only [traceOk] at h
      rw [hcall]
      simp only [obsOk]
      exact ih 1 h
    | body =>
      match s, h with
      | 1, h =>
        simp only [traceOk] at h
        rw [hbody]
        exact ih 2 h
    | close =>
      match s, h with
      | 2, h =>
        simp only [traceOk] at h
        rw [hclose]
        show obsOk true (.close :: stripBody rest) = true
        simp only [obsOk]
        exact ih 0 h
    | closeWarn =>
      match s, h with
      | 2, h =>
        simp only [traceOk] at h
        rw [hwarn]
        show obsOk true (.closeWarn :: stripBody rest) = true
        simp only [obsOk]
        exact ih 0 h

/-- The checker the harness applies to recorded logs accepts the observable part of every model trace. -/
theorem good_observed (evs : List Ev) (h : Good evs) : obsOk false (stripBody evs) = true := by
  simpa using obsOk_of_traceOk evs 0 h.2

example : Good (fetch (.resp ⟨false, some ⟨none, true⟩, none, none, default⟩) "http://a/x" (fun _ => Except.ok ())).1 ∧
    traceOk 0 [.call "u", .close] = false ∧ obsOk false [.call "u", .close, .close] = false := by
  refine ⟨fetch_trace_good _ _ _, by decide, by decide⟩

end Wp.C20.Trace
