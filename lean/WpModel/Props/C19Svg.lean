/-
C19 — `SVGImage.draw` leaves the `_drawing` flags as it found them (`Model/SvgDraw`): a cached SVG image drawn once —
including itself, including other images that include it, failing or not — is the same object afterwards, so drawing it
again (another element, another page, another `write_pdf`, another render sharing the cache) starts from the same state.
-/
import WpModel.Model.SvgDraw

namespace Wp.C19.Svg
open Wp.SvgDraw

private theorem filter_ne_cons (i : Nat) (flags : List Nat) (h : i ∉ flags) :
    (i :: flags).filter (· ≠ i) = flags := by
  simp only [List.filter_cons, ne_eq, not_true_eq_false, decide_false, Bool.false_eq_true, if_false]
  apply List.filter_eq_self.mpr
  intro a ha
  simp only [decide_eq_true_eq]
  intro e; subst e; exact h ha

/-- **draw_restores_flags**: whatever the reference graph (cycles, self-inclusion), whichever drawings fail, and at
every nesting bound, `draw` returns with exactly the flags it was called with. -/
theorem draw_restores_flags (refs : Nat → List Nat) (fails : Nat → Bool) (fuel : Nat) (flags : List Nat) (i : Nat) :
    (draw refs fails fuel flags i).2 = flags := by
  induction fuel generalizing flags i with
  | zero => rfl
  | succ fuel ih =>
    unfold draw
    by_cases h : i ∈ flags
    · simp [h]
    · simp only [h, if_false]
      have hfold : ∀ (l : List Nat) (evs : List Ev) (st : List Nat),
          (l.foldl (fun acc j => ((acc.1 ++ (draw refs fails fuel acc.2 j).1, (draw refs fails fuel acc.2 j).2) :
            List Ev × List Nat)) (evs, st)).2 = st := by
        intro l
        induction l with
        | nil => intro evs st; rfl
        | cons j rest ihl =>
          intro evs st
          simp only [List.foldl_cons]
          rw [ih st j]
          exact ihl _ st
      rw [hfold]
      exact filter_ne_cons i flags h

/-- From the state in which no image is being drawn — the state of every image between two uses — a whole drawing
returns to that state: **the image objects are unchanged by being drawn**. -/
theorem draw_leaves_images_idle (refs : Nat → List Nat) (fails : Nat → Bool) (fuel : Nat) (i : Nat) :
    (draw refs fails fuel [] i).2 = [] := draw_restores_flags refs fails fuel [] i

/-- Hence drawing the same image twice gives the same events twice (what a second element, page, write or render
sharing the cached image sees). -/
theorem draw_twice_same (refs : Nat → List Nat) (fails : Nat → Bool) (fuel : Nat) (i : Nat) :
    (draw refs fails fuel (draw refs fails fuel [] i).2 i).1 = (draw refs fails fuel [] i).1 := by
  rw [draw_leaves_images_idle]

/-- Non-vacuity: image 0 includes itself twice and image 1, which includes 0 and fails: one level of each, the nested
draws are stopped by the guard, the failure is swallowed, all flags are down again. -/
example :
    draw (fun i => if i = 0 then [0, 1, 0] else if i = 1 then [0] else []) (fun i => i == 1) 5 [] 0 =
      ([.enter 0, .selfInclude 0, .enter 1, .selfInclude 0, .failed 1, .selfInclude 0], []) := by decide

/-! ### the guard bounds the nesting: no nesting budget is ever needed -/

/-- Pigeonhole: a duplicate-free list of numbers below `n` has at most `n` elements. -/
theorem nodup_lt_length_le (l : List Nat) (n : Nat) (hd : l.Nodup) (hl : ∀ x ∈ l, x < n) : l.length ≤ n := by
  have hsub : l ⊆ List.range n := by
    intro x hx; exact List.mem_range.mpr (hl x hx)
  have := List.Nodup.length_le_of_subset hd hsub
  simpa using this

/-- The stack of images being drawn: duplicate-free, inside the `n` images, and the nesting budget left covers what the
guard allows. -/
def Inv (n fuel : Nat) (flags : List Nat) : Prop :=
  flags.Nodup ∧ (∀ x ∈ flags, x < n) ∧ n + 1 ≤ fuel + flags.length

/-- The reference graph stays inside the `n` images. -/
def Closed (refs : Nat → List Nat) (n : Nat) : Prop := ∀ i, i < n → ∀ j ∈ refs i, j < n

theorem draw_no_outOfFuel (refs : Nat → List Nat) (fails : Nat → Bool) (n : Nat) (hc : Closed refs n)
    (fuel : Nat) (flags : List Nat) (i : Nat) (hi : i < n) (hinv : Inv n fuel flags) :
    Ev.outOfFuel ∉ (draw refs fails fuel flags i).1 := by
  induction fuel generalizing flags i with
  | zero =>
    obtain ⟨hd, hl, hn⟩ := hinv
    have := nodup_lt_length_le flags n hd hl
    omega
  | succ fuel ih =>
    unfold draw
    by_cases h : i ∈ flags
    · simp [h]
    · simp only [h, if_false]
      obtain ⟨hd, hl, hn⟩ := hinv
      have hinv' : Inv n fuel (i :: flags) := by
        refine ⟨List.nodup_cons.mpr ⟨h, hd⟩, ?_, ?_⟩
        · intro x hx
          simp only [List.mem_cons] at hx
          rcases hx with rfl | hx
          · exact hi
          · exact hl x hx
        · simp only [List.length_cons]; omega
      have hfold : ∀ (l : List Nat) (evs : List Ev) (st : List Nat), (∀ j ∈ l, j < n) → Inv n fuel st →
          Ev.outOfFuel ∉ evs →
          Ev.outOfFuel ∉ (l.foldl (fun acc j => ((acc.1 ++ (draw refs fails fuel acc.2 j).1,
            (draw refs fails fuel acc.2 j).2) : List Ev × List Nat)) (evs, st)).1 := by
        intro l
        induction l with
        | nil => intro evs st _ _ he; exact he
        | cons j rest ihl =>
          intro evs st hj hst he
          simp only [List.foldl_cons]
          rw [draw_restores_flags refs fails fuel st j]
          apply ihl _ st (fun k hk => hj k (by simp [hk])) hst
          intro hmem
          rcases List.mem_append.mp hmem with hm | hm
          · exact he hm
          · exact ih st j (hj j (by simp)) hst hm
      have hin := hfold (refs i) [] (i :: flags) (hc i hi) hinv' (by simp)
      intro hmem
      simp only [List.mem_cons, List.mem_append] at hmem
      rcases hmem with (hm | hm) | hm
      · cases hm
      · exact hin hm
      · split at hm <;> simp at hm

/-- **draw_needs_no_fuel**: with `n` images whose drawings only draw each other, the guard keeps the nesting below
`n + 1`: a nesting bound of `n + 1` is never reached, whatever the cycles — no `RecursionError`, which is what an
SVG image including itself ran into (in every branch, swallowed each time) before 9598d29. -/
theorem draw_needs_no_fuel (refs : Nat → List Nat) (fails : Nat → Bool) (n : Nat) (hc : Closed refs n)
    (root : Nat) (hr : root < n) : Ev.outOfFuel ∉ (draw refs fails (n + 1) [] root).1 :=
  draw_no_outOfFuel refs fails n hc (n + 1) [] root hr ⟨List.nodup_nil, by simp, by simp⟩

private theorem fold_prefix (refs : Nat → List Nat) (fails : Nat → Bool) (fuel : Nat) (l : List Nat) :
    ∀ (evs : List Ev) (st : List Nat), ∃ t,
      (l.foldl (fun acc j => ((acc.1 ++ (draw refs fails fuel acc.2 j).1,
        (draw refs fails fuel acc.2 j).2) : List Ev × List Nat)) (evs, st)).1 = evs ++ t := by
  induction l with
  | nil => intro evs st; exact ⟨[], by simp⟩
  | cons j rest ih =>
    intro evs st
    simp only [List.foldl_cons]
    obtain ⟨t, ht⟩ := ih (evs ++ (draw refs fails fuel st j).1) (draw refs fails fuel st j).2
    exact ⟨(draw refs fails fuel st j).1 ++ t, by rw [ht, List.append_assoc]⟩

/-- A drawing that did not reach the nesting bound is the same under a larger bound. -/
theorem draw_succ_eq (refs : Nat → List Nat) (fails : Nat → Bool) (fuel : Nat) (flags : List Nat) (i : Nat)
    (h : Ev.outOfFuel ∉ (draw refs fails fuel flags i).1) :
    draw refs fails (fuel + 1) flags i = draw refs fails fuel flags i := by
  induction fuel generalizing flags i with
  | zero => simp [draw] at h
  | succ f ih =>
    have hfold : ∀ (l : List Nat) (evs : List Ev) (st : List Nat),
        Ev.outOfFuel ∉ (l.foldl (fun acc j => ((acc.1 ++ (draw refs fails f acc.2 j).1,
          (draw refs fails f acc.2 j).2) : List Ev × List Nat)) (evs, st)).1 →
        l.foldl (fun acc j => ((acc.1 ++ (draw refs fails (f + 1) acc.2 j).1,
          (draw refs fails (f + 1) acc.2 j).2) : List Ev × List Nat)) (evs, st) =
        l.foldl (fun acc j => ((acc.1 ++ (draw refs fails f acc.2 j).1,
          (draw refs fails f acc.2 j).2) : List Ev × List Nat)) (evs, st) := by
      intro l
      induction l with
      | nil => intro evs st _; rfl
      | cons j rest ihl =>
        intro evs st hno
        simp only [List.foldl_cons] at hno ⊢
        obtain ⟨t, ht⟩ := fold_prefix refs fails f rest (evs ++ (draw refs fails f st j).1) (draw refs fails f st j).2
        have hj : Ev.outOfFuel ∉ (draw refs fails f st j).1 := by
          intro hm
          apply hno
          rw [ht]
          simp [hm]
        rw [ih st j hj]
        exact ihl _ _ hno
    rw [draw.eq_def refs fails (f + 1 + 1), draw.eq_def refs fails (f + 1)] at *
    simp only at h ⊢
    by_cases hi : i ∈ flags
    · simp [hi]
    · simp only [hi, if_false] at h ⊢
      have hin : Ev.outOfFuel ∉ ((refs i).foldl (fun acc j => ((acc.1 ++ (draw refs fails f acc.2 j).1,
          (draw refs fails f acc.2 j).2) : List Ev × List Nat)) ([], i :: flags)).1 := by
        intro hm; apply h; simp [hm]
      rw [hfold (refs i) [] (i :: flags) hin]

/-- **draw_fuel_irrelevant**: the nesting bound plays no role from `n + 1` on — the model's `fuel` is not an input of
the behaviour (the real `SVGImage.draw` has none). -/
theorem draw_fuel_irrelevant (refs : Nat → List Nat) (fails : Nat → Bool) (n : Nat) (hc : Closed refs n)
    (root : Nat) (hr : root < n) (k : Nat) :
    draw refs fails (n + 1 + k) [] root = draw refs fails (n + 1) [] root := by
  induction k with
  | zero => rfl
  | succ k ih =>
    have hno : Ev.outOfFuel ∉ (draw refs fails (n + 1 + k) [] root).1 := by
      rw [ih]; exact draw_needs_no_fuel refs fails n hc root hr
    have := draw_succ_eq refs fails (n + 1 + k) [] root hno
    rw [← ih, ← this]
    rfl

example : Closed (fun i => if i = 0 then [0, 1, 0] else if i = 1 then [0] else []) 2 := by
  intro i hi j hj
  have : i = 0 ∨ i = 1 := by omega
  rcases this with rfl | rfl <;> simp at hj <;> omega


end Wp.C19.Svg
