/-
C19 — `SVGImage.draw` leaves the `_drawing` flags as it found them (`Model/SvgDraw`): a cached SVG image drawn once —
including itself, including other images that include it, failing or not — is the same object afterwards, so drawing it
again (another element, another page, another `write_pdf`, another render sharing the cache) starts from the same state.
-/
import WpModel.Model.SvgDraw

namespace Wp.C19.Svg
open Wp.SvgDraw

private theorem filter_ne_cons (i : Nat) (flags : List Nat) (h : i ∉ flags) :
    (i :: flags).filter (· ≠ i) = flags := by
  simp only [List.filter_cons, ne_eq, not_true_eq_false, decide_false, Bool.false_eq_true, if_false]
  apply List.filter_eq_self.mpr
  intro a ha
  simp only [decide_eq_true_eq]
  intro e; subst e; exact h ha

/-- **draw_restores_flags**: whatever the reference graph (cycles, self-inclusion), whichever drawings fail, and at
every nesting bound, `draw` returns with exactly the flags it was called with. -/
theorem draw_restores_flags (refs : Nat → List Nat) (fails : Nat → Bool) (fuel : Nat) (flags : List Nat) (i : Nat) :
    (draw refs fails fuel flags i).2 = flags := by
  induction fuel generalizing flags i with
  | zero => rfl
  | succ fuel ih =>
    unfold draw
    by_cases h : i ∈ flags
    · simp [h]
    · simp only [h, if_false]
      have hfold : ∀ (l : List Nat) (evs : List Ev) (st : List Nat),
          (l.foldl (fun acc j => ((acc.1 ++ (draw refs fails fuel acc.2 j).1, (draw refs fails fuel acc.2 j).2) :
            List Ev × List Nat)) (evs, st)).2 = st := by
        intro l
        induction l with
        | nil => intro evs st; rfl
        | cons j rest ihl =>
          intro evs st
          simp only [List.foldl_cons]
          rw [ih st j]
          exact ihl _ st
      rw [hfold]
      exact filter_ne_cons i flags h

/-- From the state in which no image is being drawn — the state of every image between two uses — a whole drawing
returns to that state: **the image objects are unchanged by being drawn**. -/
theorem draw_leaves_images_idle (refs : Nat → List Nat) (fails : Nat → Bool) (fuel : Nat) (i : Nat) :
    (draw refs fails fuel [] i).2 = [] := draw_restores_flags refs fails fuel [] i

/-- Hence drawing the same image twice gives the same events twice (what a second element, page, write or render
sharing the cached image sees). -/
theorem draw_twice_same (refs : Nat → List Nat) (fails : Nat → Bool) (fuel : Nat) (i : Nat) :
    (draw refs fails fuel (draw refs fails fuel [] i).2 i).1 = (draw refs fails fuel [] i).1 := by
  rw [draw_leaves_images_idle]

/-- Non-vacuity: image 0 includes itself twice and image 1, which includes 0 and fails: one level of each, the nested
draws are stopped by the guard, the failure is swallowed, all flags are down again. -/
example :
    draw (fun i => if i = 0 then [0, 1, 0] else if i = 1 then [0] else []) (fun i => i == 1) 5 [] 0 =
      ([.enter 0, .selfInclude 0, .enter 1, .selfInclude 0, .failed 1, .selfInclude 0], []) := by decide

end Wp.C19.Svg
