/-
C20 — multi-layer backgrounds and the folder cache (`Model/ResourcesBg.lean`).

* every layer of a `background-image` keeps its own size / clip / repeat / origin / position / attachment whatever
  happens to the images: layer `i` gets entry `i mod n` of each list, and there are as many layers as images;
* a `url()` layer whose fetch fails gives exactly the layers of the same declaration with `none` in its place
  ("the same result as the document without that reference"), also when the same URL occurs in other layers;
* `get_image_from_uri` on a `DiskCache` behaves as on a dict: in particular a failed load stays a cached `None`.
-/
import WpModel.Model.ResourcesBg
import WpModel.Props.C20Absent

namespace Wp.C20.Bg
open Wp Wp.Res Wp.Res.Bg

/-! ## the zip -/

/-- All six per-layer lists are non-empty (the validators and the initial values guarantee it). -/
def LayerStyle.full (st : LayerStyle) : Prop :=
  st.sizes ≠ [] ∧ st.clips ≠ [] ∧ st.repeats ≠ [] ∧ st.origins ≠ [] ∧ st.positions ≠ [] ∧ st.attachments ≠ []

private theorem cycleAt_some (l : List Nat) (i : Nat) (h : l ≠ []) : ∃ v, cycleAt l i = some v := by
  have hpos : 0 < l.length := List.length_pos_iff.mpr h
  have hlt : i % l.length < l.length := Nat.mod_lt _ hpos
  exact ⟨l[i % l.length], by simp [cycleAt, hlt]⟩

private theorem layerAt_some (st : LayerStyle) (h : LayerStyle.full st) (i : Nat) (img : LayerImg) :
    ∃ s c r o p a, cycleAt st.sizes i = some s ∧ cycleAt st.clips i = some c ∧ cycleAt st.repeats i = some r ∧
      cycleAt st.origins i = some o ∧ cycleAt st.positions i = some p ∧ cycleAt st.attachments i = some a ∧
      layerAt st i img = some ⟨img, s, c, r, o, p, a⟩ := by
  obtain ⟨h1, h2, h3, h4, h5, h6⟩ := h
  obtain ⟨s, hs⟩ := cycleAt_some st.sizes i h1
  obtain ⟨c, hc⟩ := cycleAt_some st.clips i h2
  obtain ⟨r, hr⟩ := cycleAt_some st.repeats i h3
  obtain ⟨o, ho⟩ := cycleAt_some st.origins i h4
  obtain ⟨p, hp⟩ := cycleAt_some st.positions i h5
  obtain ⟨a, ha⟩ := cycleAt_some st.attachments i h6
  exact ⟨s, c, r, o, p, a, hs, hc, hr, ho, hp, ha, by simp [layerAt, hs, hc, hr, ho, hp, ha]⟩

private theorem zipLayersFrom_get (st : LayerStyle) (h : LayerStyle.full st) (imgs : List LayerImg) (k i : Nat) :
    (zipLayersFrom st k imgs)[i]? = (imgs[i]?).bind (layerAt st (k + i)) := by
  induction imgs generalizing k i with
  | nil => simp [zipLayersFrom]
  | cons img rest ih =>
    obtain ⟨s, c, r, o, p, a, _, _, _, _, _, _, hl⟩ := layerAt_some st h k img
    cases i with
    | zero => simp [zipLayersFrom, hl]
    | succ j =>
      simp only [zipLayersFrom, hl, List.getElem?_cons_succ]
      rw [ih (k + 1) j]
      have : k + 1 + j = k + (j + 1) := by omega
      rw [this]

/-- `background layers`: layer `i` paints image `i` with entry `i mod n` of each of the six lists — whatever the
other images are, loaded or not. -/
theorem layer_values (st : LayerStyle) (h : LayerStyle.full st) (imgs : List LayerImg) (i : Nat) :
    (zipLayers st imgs)[i]? = (imgs[i]?).bind (layerAt st i) := by
  have := zipLayersFrom_get st h imgs 0 i
  simpa [zipLayers] using this

/-- One layer per image: a layer whose image is absent is still a layer. -/
theorem layer_count (st : LayerStyle) (h : LayerStyle.full st) (imgs : List LayerImg) :
    (zipLayers st imgs).length = imgs.length := by
  unfold zipLayers
  generalize 0 = k
  induction imgs generalizing k with
  | nil => rfl
  | cons img rest ih =>
    obtain ⟨s, c, r, o, p, a, _, _, _, _, _, _, hl⟩ := layerAt_some st h k img
    simp [zipLayersFrom, hl, ih]

/-- The values of a layer do not depend on the images at all. -/
theorem layer_values_independent (st : LayerStyle) (h : LayerStyle.full st) (imgs imgs' : List LayerImg) (i : Nat)
    (l l' : Layer) (h1 : (zipLayers st imgs)[i]? = some l) (h2 : (zipLayers st imgs')[i]? = some l') :
    l.size = l'.size ∧ l.clip = l'.clip ∧ l.repeat = l'.repeat ∧ l.origin = l'.origin ∧ l.position = l'.position ∧
    l.attachment = l'.attachment := by
  rw [layer_values st h] at h1 h2
  cases hi : imgs[i]? with
  | none => simp [hi] at h1
  | some img =>
    cases hi' : imgs'[i]? with
    | none => simp [hi'] at h2
    | some img' =>
      obtain ⟨s, c, r, o, p, a, _, _, _, _, _, _, hl⟩ := layerAt_some st h i img
      obtain ⟨s', c', r', o', p', a', _, _, _, _, _, _, hl'⟩ := layerAt_some st h i img'
      simp only [hi, hi', Option.bind_some, hl, hl', Option.some.injEq] at h1 h2
      subst h1; subst h2
      simp_all

example : zipLayers ⟨[1, 2], [7], [3, 4, 5], [8], [10, 20, 30], [9]⟩ [.absent, .present, .gradient 0] =
    [⟨.absent, 1, 7, 3, 8, 10, 9⟩, ⟨.present, 2, 7, 4, 8, 20, 9⟩, ⟨.gradient 0, 1, 7, 5, 8, 30, 9⟩] := by decide

/-! ## a failing layer is the layer `none` -/

private theorem zipImgs_replace (pre post : List BgImage) (a b : BgImage) (xs : List (List BoxOut))
    (h : ∀ x, xs[pre.length]? = some x → layerImg a x = layerImg b x) :
    zipImgs (pre ++ a :: post) xs = zipImgs (pre ++ b :: post) xs := by
  induction pre generalizing xs with
  | nil =>
    cases xs with
    | nil => rfl
    | cons x rest => simp [zipImgs, h x (by simp)]
  | cons p ps ih =>
    cases xs with
    | nil => rfl
    | cons x rest =>
      simp only [List.cons_append, zipImgs]
      rw [ih rest (fun y hy => h y (by simpa using hy))]

/-- In a run of the image stage that does not raise, a background reference without URL gives no box. -/
private theorem boxes_at (f : Fetcher) (o : Opts) (pre post : List Doc.ImgRef) (r : Doc.ImgRef) (c : Cache)
    (hu : r.url = none) (hk : r.kind = .background)
    (herr : (Doc.runRefs f o c (pre ++ r :: post)).2.2.2 = none) :
    (Doc.runRefs f o c (pre ++ r :: post)).2.1[pre.length]? = some [] := by
  induction pre generalizing c with
  | nil =>
    simp only [List.nil_append, List.length_nil]
    unfold Doc.runRefs
    simp [hu, Doc.refBoxes, hk]
  | cons x xs ih =>
    simp only [List.cons_append, List.length_cons] at herr ⊢
    unfold Doc.runRefs at herr ⊢
    cases hx : x.url with
    | none =>
      simp only [hx] at herr ⊢
      simpa using ih c herr
    | some v =>
      simp only [hx] at herr ⊢
      by_cases he : (v == "") = true
      · simp only [he, ↓reduceIte] at herr ⊢
        simpa using ih c herr
      · have he' : (v == "") = false := by simpa using he
        simp only [he', Bool.false_eq_true, ↓reduceIte] at herr ⊢
        cases hg : getImage c f o ⟨v, x.orient, x.forcedMime⟩ with
        | mk c' rr =>
          obtain ⟨evs, out⟩ := rr
          simp only [hg] at herr ⊢
          cases out with
          | error e => simp at herr
          | ok image =>
            simp only at herr ⊢
            simpa using ih c' herr

/-- The box with the URL of one layer replaced by the keyword `none`. -/
def withLayers (b : BgBox) (images : List BgImage) : BgBox := { b with images := images }

/-- `failure_as_absent` (background layers): in a multi-layer `background-image`, a `url()` layer whose fetch
raises — whatever the exception, wherever the layer stands, also when other layers use the same URL — gives exactly
the `box.background` of the same declaration with `none` in its place: as many layers, every other layer with its own
image and its own size, position, repeat, origin, clip and attachment. -/
theorem failure_as_absent_background_layer (f : Fetcher) (o : Opts) (b : BgBox) (pre post : List BgImage) (u : String)
    (hfail : Absent.FailsKey f (Req.key ⟨u, b.orient, none⟩ o)) :
    (layoutBackground f o [] (withLayers b (pre ++ .url (some u) :: post))).2.2 =
    (layoutBackground f o [] (withLayers b (pre ++ .noneKw :: post))).2.2 := by
  have habs := Absent.failure_as_absent_image_reference f o (pre.map (layerRef b.orient)) (post.map (layerRef b.orient))
    (layerRef b.orient (.url (some u))) u rfl hfail
  have hw : Absent.withoutUrl (layerRef b.orient (.url (some u))) = layerRef b.orient .noneKw := rfl
  rw [hw] at habs
  have hm1 : (pre ++ BgImage.url (some u) :: post).map (layerRef b.orient) =
      pre.map (layerRef b.orient) ++ layerRef b.orient (.url (some u)) :: post.map (layerRef b.orient) := by simp
  have hm2 : (pre ++ BgImage.noneKw :: post).map (layerRef b.orient) =
      pre.map (layerRef b.orient) ++ layerRef b.orient .noneKw :: post.map (layerRef b.orient) := by simp
  unfold layoutBackground withLayers
  simp only [hm1, hm2]
  cases hh : b.hidden with
  | true => simp
  | false =>
    simp only [Bool.false_eq_true, ↓reduceIte]
    obtain ⟨hboxes, herr⟩ := habs
    cases h1 : Doc.runRefs f o [] (pre.map (layerRef b.orient) ++ layerRef b.orient (.url (some u)) :: post.map (layerRef b.orient)) with
    | mk evs1 r1 =>
      obtain ⟨boxes1, c1, e1⟩ := r1
      cases h2 : Doc.runRefs f o [] (pre.map (layerRef b.orient) ++ layerRef b.orient .noneKw :: post.map (layerRef b.orient)) with
      | mk evs2 r2 =>
        obtain ⟨boxes2, c2, e2⟩ := r2
        rw [h1, h2] at hboxes herr
        simp only at hboxes herr
        subst hboxes herr
        cases e1 with
        | some e => rfl
        | none =>
          simp only
          have hat := boxes_at f o (pre.map (layerRef b.orient)) (post.map (layerRef b.orient)) (layerRef b.orient .noneKw) []
            rfl rfl (by rw [h2])
          rw [h2] at hat
          simp only [List.length_map] at hat
          have hz : zipImgs (pre ++ BgImage.url (some u) :: post) boxes1 = zipImgs (pre ++ BgImage.noneKw :: post) boxes1 := by
            apply zipImgs_replace
            intro x hx
            rw [hat] at hx
            cases hx
            rfl
          rw [hz]
          split <;> rfl

/-- Non-vacuity: three layers, the first one fails; the gradient and the good image keep their second and third
values (the seeded regression dropped the failed entry and shifted them to the first and second). -/
example :
    let good : Fetched := .resp ⟨true, none, none, none, ⟨1, false, some ⟨"PNG", "RGB", false, false, true⟩, false, true, false⟩⟩
    let f : Fetcher := fun u => if u == "http://a.test/bad.png" then .raises ⟨"OSError", "reset"⟩ else good
    let b : BgBox := ⟨false, true, false, .fromImage,
      [.url (some "http://a.test/bad.png"), .gradient 0, .url (some "http://a.test/ok.png")], ⟨[1, 2, 3], [7], [4, 5, 6], [8], [10, 20, 30], [9]⟩⟩
    (layoutBackground f ⟨false, none, none⟩ [] b).2.2 =
      .ok (some [⟨.absent, 1, 7, 4, 8, 10, 9⟩, ⟨.gradient 0, 2, 7, 5, 8, 20, 9⟩, ⟨.present, 3, 7, 6, 8, 30, 9⟩]) := rfl

/-! ## the folder cache -/

/-- `DiskCache` is transparent for `get_image_from_uri`: when no file of the folder is named like the request's key,
the call does on the `DiskCache` exactly what it does on the dict `_memory_cache` — same events, same result, same
new entry, no file touched. -/
theorem disk_cache_refines_dict (c : DiskCache) (f : Fetcher) (o : Opts) (req : Req)
    (h : c.files.lookup (req.key o) = none) :
    getImageDisk c f o req =
      ({ c with memory := (getImage c.memory f o req).1 }, (getImage c.memory f o req).2.1,
        (getImage c.memory f o req).2.2.map CVal.img) := by
  unfold getImageDisk getImage DiskCache.contains DiskCache.get
  cases hc : Cache.find? c.memory (req.key o) with
  | some v => simp [h, Except.map]
  | none =>
    simp only [h, Option.isSome_none, Bool.or_self, Bool.false_eq_true, ↓reduceIte]
    cases hfe : fetch (f req.url) req.url (imageBody req) with
    | mk evs fetched =>
      cases fetched with
      | error e =>
        simp only
        cases hcls : (e.isUrlFetching || e.isImageLoading) <;> simp [DiskCache.set, Except.map]
      | ok t =>
        obtain ⟨fn, content, mime⟩ := t
        simp only
        cases hd : decideImage req o fn content mime with
        | ok img => simp [DiskCache.set, Except.map]
        | error e =>
          simp only
          cases hcls : (e.isUrlFetching || e.isImageLoading) <;> simp [DiskCache.set, Except.map]

/-- … and so does any sequence of calls sharing the `DiskCache`. -/
theorem disk_cache_sequence_refines_dict (f : Fetcher) (reqs : List (Opts × Req)) (c : DiskCache)
    (h : ∀ r ∈ reqs, c.files.lookup (r.2.key r.1) = none) :
    (runImagesDisk f c reqs).1 = (runImages f c.memory reqs).1.map (fun x => (x.1, x.2.map CVal.img)) ∧
    (runImagesDisk f c reqs).2 = { c with memory := (runImages f c.memory reqs).2 } := by
  induction reqs generalizing c with
  | nil => exact ⟨rfl, rfl⟩
  | cons r rest ih =>
    obtain ⟨o, req⟩ := r
    have h0 := disk_cache_refines_dict c f o req (h (o, req) (by simp))
    have hrest := ih { c with memory := (getImage c.memory f o req).1 } (fun r' hr' => h r' (by simp [hr']))
    simp only [runImagesDisk, runImages, h0]
    exact ⟨by simp [hrest.1], by simp [hrest.2]⟩

/-- "the failure is logged and rendering continues", with the `cache` option set to a folder: an image whose load
failed is a cached `None`; asking for it again — a second `<img>`, a background, the next render — gives `None`
again, without any fetch and without looking for a file. -/
theorem disk_cache_failure_stays_none (c : DiskCache) (f : Fetcher) (o : Opts) (req : Req)
    (h : c.files.lookup (req.key o) = none)
    (hfail : (getImageDisk c f o req).2.2 = .ok (.img none)) :
    getImageDisk (getImageDisk c f o req).1 f o req = ((getImageDisk c f o req).1, [], .ok (.img none)) := by
  have h0 := disk_cache_refines_dict c f o req h
  have hres : (getImage c.memory f o req).2.2 = .ok none := by
    rw [h0] at hfail
    simp only at hfail
    cases hr : (getImage c.memory f o req).2.2 with
    | error e => simp [hr, Except.map] at hfail
    | ok v => simp [hr, Except.map] at hfail; rw [hfail]
  have honce := image_fetched_at_most_once c.memory f o req none hres
  rw [h0]
  simp only
  have h1 := disk_cache_refines_dict { c with memory := (getImage c.memory f o req).1 } f o req h
  simp only at h1
  rw [h1, honce]
  simp [Except.map]

example :
    (runImagesDisk (fun _ => .raises ⟨"OSError", "reset"⟩) {}
      [(⟨false, none, none⟩, ⟨"http://a.test/x.png", .fromImage, none⟩), (⟨false, none, none⟩, ⟨"http://a.test/x.png", .fromImage, none⟩)]).1 =
    [([.call "http://a.test/x.png"], .ok (.img none)), ([], .ok (.img none))] := rfl

end Wp.C20.Bg
