/-
C15 — counters in page-margin boxes: theorems about `Model/MarginCounters.lean` (`make_margin_boxes`).
-/
import WpModel.Model.MarginCounters
import WpModel.Gen.CounterStyles

namespace Wp.C15
open Wp.Counters Wp.MarginCounters

/-- The texts are computed box by box: as many texts as generated boxes, the `i`-th is the text of the `i`-th
box on the page state alone. -/
theorem margin_texts_pointwise (cs : Styles) (st : CState) : ∀ (boxes : List MBox) (l : List String),
    marginTexts cs st boxes = .ok l →
    l.length = boxes.length ∧ ∀ (i : Nat) (b : MBox), boxes[i]? = some b → ∃ t, l[i]? = some t ∧ marginBoxText cs st b = .ok t := by
  intro boxes
  induction boxes with
  | nil => intro l h; simp [marginTexts] at h; subst h; simp
  | cons b rest ih =>
    intro l h
    simp only [marginTexts, bind, Except.bind] at h
    cases hb : marginBoxText cs st b with
    | error e => simp [hb] at h
    | ok t =>
      cases hr : marginTexts cs st rest with
      | error e => simp [hb, hr] at h
      | ok ts =>
        simp only [hb, hr, pure, Except.pure, Except.ok.injEq] at h
        subst h
        obtain ⟨hlen, hpt⟩ := ih ts hr
        refine ⟨by simp [hlen], ?_⟩
        intro i b' hi
        cases i with
        | zero => simp at hi; subst hi; exact ⟨t, by simp, hb⟩
        | succ i => simpa using hpt i b' (by simpa using hi)

/-- **C15.margin_box_isolated** — "@margins mustn't manipulate page-context counters", nor each other's: what a
margin box prints depends on the page state and on its own `counter-*` declarations and content only, whatever
margin boxes are generated before (`pre`) and after (`post`) it on the same page. -/
theorem margin_box_isolated (cs : Styles) (st : CState) (pre post : List MBox) (b : MBox) (l : List String)
    (h : marginTexts cs st (pre ++ b :: post) = .ok l) :
    ∃ t, l[pre.length]? = some t ∧ marginBoxText cs st b = .ok t :=
  (margin_texts_pointwise cs st _ l h).2 pre.length b (by simp)

/-- The same box prints the same text on the same page state in two different sets of margin boxes. -/
theorem margin_box_same_text (cs : Styles) (st : CState) (pre post pre' post' : List MBox) (b : MBox)
    (l l' : List String) (h : marginTexts cs st (pre ++ b :: post) = .ok l)
    (h' : marginTexts cs st (pre' ++ b :: post') = .ok l') : l[pre.length]? = l'[pre'.length]? := by
  obtain ⟨t, h1, h2⟩ := margin_box_isolated cs st pre post b l h
  obtain ⟨t', h1', h2'⟩ := margin_box_isolated cs st pre' post' b l' h'
  rw [h2] at h2'
  cases h2'
  rw [h1, h1']

/-! Non-vacuity: `@top-left { counter-increment: page 100; content: counter(page) }` before
`@top-center { content: counter(page) }` on page 3: 103, then 3 -/
example : marginTexts Gen.uaCounterStyles ⟨[("page", [3]), ("pages", [5])], [["page", "pages"]]⟩
    [(⟨.other, [], [], some [("page", 100)]⟩, [.counter "page" (.named "decimal")]),
     (⟨.other, [], [], some []⟩, [.counter "page" (.named "decimal")])] = .ok ["103", "3"] := by decide

end Wp.C15
