/-
C05 — Box model arithmetic and normal-flow geometry.  Property theorems only (helpers `private`).

The statements are about the executable models of
  `Model/Margins.lean`   collapse_margin
  `Model/BoxModel.lean`  percentage, resolve_percentages, adjust_box_sizing, handle_min_max_width/height,
                         block_level_width, page_width_or_height
  `Model/BlockTree.lean` the top-down application of those to a tree of block boxes
  `Model/BoxEdges.lean`  the geometry helpers of boxes.Box (margin_width, content_box_x, translate, …)
which the harness `py/props/c05.py` ties to /repo by exact comparison (direct calls with Fractions on
real boxes, and rendered documents).  Every theorem quantifies over all inputs; each is followed by an
`example` instantiating its hypotheses on a concrete non-trivial input.  Core Lean only.
-/
import WpModel.Model.Margins
import WpModel.Model.BoxModel
import WpModel.Model.BlockTree
import WpModel.Model.BoxEdges

namespace Wp.C05
open Wp Wp.Margins Wp.BoxModel Wp.BlockTree

/-! ## (h) margin collapsing -/

private theorem foldl_pymax (xs : List Rat) (x : Rat) :
    xs.foldl (fun a b => if b > a then b else a) x = xs.foldl (fun a m => max a m) x := by
  induction xs generalizing x with
  | nil => rfl
  | cons y ys ih =>
    simp only [List.foldl_cons]
    rw [ih]
    congr 1
    grind

private theorem foldl_pymin (xs : List Rat) (x : Rat) :
    xs.foldl (fun a b => if b < a then b else a) x = xs.foldl (fun a m => min a m) x := by
  induction xs generalizing x with
  | nil => rfl
  | cons y ys ih =>
    simp only [List.foldl_cons]
    rw [ih]
    congr 1
    grind

private theorem foldl_max_filter (ms : List Rat) (a : Rat) (ha : 0 ≤ a) :
    (ms.filter (fun m => m ≥ 0)).foldl (fun a m => max a m) a = ms.foldl (fun a m => max a m) a := by
  induction ms generalizing a with
  | nil => rfl
  | cons y ys ih =>
    by_cases hy : y ≥ 0
    · simp only [List.filter_cons, hy, decide_true, if_true, List.foldl_cons]
      exact ih _ (by grind)
    · simp only [List.filter_cons, hy, decide_false, List.foldl_cons]
      have : max a y = a := by grind
      rw [this]
      simpa using ih a ha

private theorem foldl_min_filter (ms : List Rat) (a : Rat) (ha : a ≤ 0) :
    (ms.filter (fun m => m ≤ 0)).foldl (fun a m => min a m) a = ms.foldl (fun a m => min a m) a := by
  induction ms generalizing a with
  | nil => rfl
  | cons y ys ih =>
    by_cases hy : y ≤ 0
    · simp only [List.filter_cons, hy, decide_true, if_true, List.foldl_cons]
      exact ih _ (by grind)
    · simp only [List.filter_cons, hy, decide_false, List.foldl_cons]
      have : min a y = a := by grind
      rw [this]
      simpa using ih a ha

private theorem foldl_max_ge (ms : List Rat) (a : Rat) :
    a ≤ ms.foldl (fun a m => max a m) a ∧ ∀ m ∈ ms, m ≤ ms.foldl (fun a m => max a m) a := by
  induction ms generalizing a with
  | nil => simp
  | cons y ys ih =>
    simp only [List.foldl_cons, List.mem_cons]
    have h := ih (max a y)
    refine ⟨by grind, ?_⟩
    intro m hm
    cases hm with
    | inl e => subst e; grind
    | inr hm => exact h.2 m hm

private theorem foldl_min_le (ms : List Rat) (a : Rat) :
    ms.foldl (fun a m => min a m) a ≤ a ∧ ∀ m ∈ ms, ms.foldl (fun a m => min a m) a ≤ m := by
  induction ms generalizing a with
  | nil => simp
  | cons y ys ih =>
    simp only [List.foldl_cons, List.mem_cons]
    have h := ih (min a y)
    refine ⟨by grind, ?_⟩
    intro m hm
    cases hm with
    | inl e => subst e; grind
    | inr hm => exact h.2 m hm

private theorem foldl_max_mem (ms : List Rat) (a : Rat) :
    ms.foldl (fun a m => max a m) a = a ∨ ms.foldl (fun a m => max a m) a ∈ ms := by
  induction ms generalizing a with
  | nil => simp
  | cons y ys ih =>
    simp only [List.foldl_cons, List.mem_cons]
    rcases ih (max a y) with h | h
    · rw [h]; grind
    · exact Or.inr (Or.inr h)

private theorem foldl_min_mem (ms : List Rat) (a : Rat) :
    ms.foldl (fun a m => min a m) a = a ∨ ms.foldl (fun a m => min a m) a ∈ ms := by
  induction ms generalizing a with
  | nil => simp
  | cons y ys ih =>
    simp only [List.foldl_cons, List.mem_cons]
    rcases ih (min a y) with h | h
    · rw [h]; grind
    · exact Or.inr (Or.inr h)

private theorem foldl_max_init (ms : List Rat) (c : Rat) (hc : 0 ≤ c) :
    ms.foldl (fun a m => max a m) c = max c (ms.foldl (fun a m => max a m) 0) := by
  induction ms generalizing c with
  | nil => simp; grind
  | cons y ys ih =>
    simp only [List.foldl_cons]
    rw [ih (max c y) (by grind), ih (max 0 y) (by grind)]
    grind

private theorem foldl_min_init (ms : List Rat) (c : Rat) (hc : c ≤ 0) :
    ms.foldl (fun a m => min a m) c = min c (ms.foldl (fun a m => min a m) 0) := by
  induction ms generalizing c with
  | nil => simp; grind
  | cons y ys ih =>
    simp only [List.foldl_cons]
    rw [ih (min c y) (by grind), ih (min 0 y) (by grind)]
    grind

/-- (h) `collapse_margin` never fails and equals (largest non-negative margin, 0 if there is none) +
(most negative margin, 0 if there is none), for lists of any length. -/
theorem collapse_eq (ms : List Rat) : collapseMargin ms = .ok (maxPos ms + minNeg ms) := by
  have h0 : decide ((0 : Rat) ≥ 0) = true := by decide
  simp only [collapseMargin, List.filter_cons, h0, if_true, pyMax?, pyMin?, foldl_pymax, foldl_pymin]
  rw [foldl_max_filter ms 0 (by decide), foldl_min_filter ms 0 (by decide)]
  rfl

example : collapseMargin [10, -4, 25, -7, 0] = .ok 18 := by
  rw [collapse_eq]; congr 1; decide +kernel

/-- `maxPos` is *the* largest positive margin: non-negative, an upper bound of the list, and either 0 or
an element of the list. -/
theorem maxPos_spec (ms : List Rat) :
    0 ≤ maxPos ms ∧ (∀ m ∈ ms, m ≤ maxPos ms) ∧ (maxPos ms = 0 ∨ maxPos ms ∈ ms) :=
  ⟨(foldl_max_ge ms 0).1, (foldl_max_ge ms 0).2, foldl_max_mem ms 0⟩

/-- `minNeg` is *the* most negative margin. -/
theorem minNeg_spec (ms : List Rat) :
    minNeg ms ≤ 0 ∧ (∀ m ∈ ms, minNeg ms ≤ m) ∧ (minNeg ms = 0 ∨ minNeg ms ∈ ms) :=
  ⟨(foldl_min_le ms 0).1, (foldl_min_le ms 0).2, foldl_min_mem ms 0⟩

/-- The three conditions of `maxPos_spec` determine the value. -/
theorem maxPos_unique (ms : List Rat) (x : Rat) (h0 : 0 ≤ x) (hub : ∀ m ∈ ms, m ≤ x)
    (hmem : x = 0 ∨ x ∈ ms) : x = maxPos ms := by
  obtain ⟨g0, gub, gmem⟩ := maxPos_spec ms
  have h1 : x ≤ maxPos ms := by
    rcases hmem with h | h
    · rw [h]; exact g0
    · exact gub x h
  have h2 : maxPos ms ≤ x := by
    rcases gmem with h | h
    · rw [h]; exact h0
    · exact hub _ h
  grind

theorem minNeg_unique (ms : List Rat) (x : Rat) (h0 : x ≤ 0) (hlb : ∀ m ∈ ms, x ≤ m)
    (hmem : x = 0 ∨ x ∈ ms) : x = minNeg ms := by
  obtain ⟨g0, glb, gmem⟩ := minNeg_spec ms
  have h1 : minNeg ms ≤ x := by
    rcases hmem with h | h
    · rw [h]; exact g0
    · exact glb x h
  have h2 : x ≤ minNeg ms := by
    rcases gmem with h | h
    · rw [h]; exact h0
    · exact hlb _ h
  grind

/-- (h) the collapsed margin does not depend on the order of the adjoining margins. -/
theorem collapse_perm (a b : List Rat) (h : a.Perm b) : collapseMargin a = collapseMargin b := by
  rw [collapse_eq, collapse_eq]
  obtain ⟨g0, gub, gmem⟩ := maxPos_spec a
  obtain ⟨k0, klb, kmem⟩ := minNeg_spec a
  have e1 : maxPos a = maxPos b :=
    maxPos_unique b _ g0 (fun m hm => gub m (h.mem_iff.mpr hm))
      (gmem.elim Or.inl (fun hm => Or.inr (h.mem_iff.mp hm)))
  have e2 : minNeg a = minNeg b :=
    minNeg_unique b _ k0 (fun m hm => klb m (h.mem_iff.mpr hm))
      (kmem.elim Or.inl (fun hm => Or.inr (h.mem_iff.mp hm)))
  rw [e1, e2]

example : collapseMargin [3, -2, 7] = collapseMargin [7, 3, -2] :=
  collapse_perm _ _ (by decide)

theorem maxPos_append (a b : List Rat) : maxPos (a ++ b) = max (maxPos a) (maxPos b) := by
  unfold maxPos
  rw [List.foldl_append, foldl_max_init b _ (foldl_max_ge a 0).1]

theorem minNeg_append (a b : List Rat) : minNeg (a ++ b) = min (minNeg a) (minNeg b) := by
  unfold minNeg
  rw [List.foldl_append, foldl_min_init b _ (foldl_min_le a 0).1]

/-- (h) incremental accumulation is sound: the collapsed margin of a concatenation is the collapsed
margin of the two summaries (largest positive, most negative) of the parts.  This is what lets
`block_container_layout` carry `adjoining_margins` from box to box. -/
theorem collapse_append (a b : List Rat) :
    collapseMargin (a ++ b) =
      collapseMargin [max (maxPos a) (maxPos b), min (minNeg a) (minNeg b)] := by
  rw [collapse_eq, collapse_eq, maxPos_append, minNeg_append]
  have ha := (maxPos_spec a).1
  have hb := (maxPos_spec b).1
  have hc := (minNeg_spec a).1
  have hd := (minNeg_spec b).1
  simp only [maxPos, minNeg, List.foldl_cons, List.foldl_nil]
  congr 1
  show _ = max (max 0 (max (List.foldl _ 0 a) (List.foldl _ 0 b))) _ + min (min 0 _) _
  unfold maxPos at ha hb
  unfold minNeg at hc hd
  grind

example : collapseMargin ([5, -3] ++ [8, -1]) = collapseMargin [8, -3] := by
  rw [collapse_append]; congr 1

/-- Adding one more adjoining margin. -/
theorem collapse_snoc (a : List Rat) (m : Rat) :
    collapseMargin (a ++ [m]) = .ok (max (maxPos a) m + min (minNeg a) m) := by
  rw [collapse_eq, maxPos_append, minNeg_append]
  have ha := (maxPos_spec a).1
  have hc := (minNeg_spec a).1
  simp only [maxPos, minNeg, List.foldl_cons, List.foldl_nil]
  unfold maxPos at ha
  unfold minNeg at hc
  congr 1
  grind

/-- (h) all margins non-negative: the collapsed margin is their maximum (an upper bound that is 0 or
one of them). -/
theorem collapse_all_nonneg (ms : List Rat) (h : ∀ m ∈ ms, 0 ≤ m) :
    collapseMargin ms = .ok (maxPos ms) := by
  rw [collapse_eq]
  have : minNeg ms = 0 := by
    obtain ⟨k0, _, kmem⟩ := minNeg_spec ms
    rcases kmem with e | e
    · exact e
    · have := h _ e; grind
  rw [this]; congr 1; grind

/-- (h) all margins non-positive: the collapsed margin is their minimum. -/
theorem collapse_all_nonpos (ms : List Rat) (h : ∀ m ∈ ms, m ≤ 0) :
    collapseMargin ms = .ok (minNeg ms) := by
  rw [collapse_eq]
  have : maxPos ms = 0 := by
    obtain ⟨k0, _, kmem⟩ := maxPos_spec ms
    rcases kmem with e | e
    · exact e
    · have := h _ e; grind
  rw [this]; congr 1; grind

example : collapseMargin [4, 9, 2] = .ok 9 := by
  rw [collapse_all_nonneg [4, 9, 2] (by decide +kernel)]; congr 1

/-- The collapsed margin lies between the most negative and the largest positive margin. -/
theorem collapse_bounds (ms : List Rat) :
    ∃ c, collapseMargin ms = .ok c ∧ minNeg ms ≤ c ∧ c ≤ maxPos ms := by
  refine ⟨_, collapse_eq ms, ?_, ?_⟩
  · have := (maxPos_spec ms).1; grind
  · have := (minNeg_spec ms).1; grind

theorem collapse_nil : collapseMargin [] = .ok 0 := by
  rw [collapse_eq]; congr 1; decide +kernel

theorem collapse_singleton (m : Rat) : collapseMargin [m] = .ok m := by
  rw [collapse_eq]; simp only [maxPos, minNeg, List.foldl_cons, List.foldl_nil]; congr 1; grind

set_option linter.unusedSimpArgs false

/-! ## (b) the horizontal equation: `block_level_width` -/

/-- Margin-box width `margin-left + border + padding + width + padding + border + margin-right` of a box
whose three solvable values are numbers (`none` while one of them is still `auto`). -/
def outer? (b : ABox) : Option Rat :=
  match b.ml, b.mr, b.w with
  | some l, some r, some w => some (l + b.bl + b.pl + w + b.pr + b.br + r)
  | _, _, _ => none

/-- CSS 2.1 §10.3.3 "over-constrained": the width is specified and either both margins are, or the
specified values already exceed the containing block (then the `auto` margins are treated as 0). -/
def OverC (cbw : Rat) (b : ABox) : Prop :=
  ∃ w, b.w = some w ∧ ((b.ml ≠ none ∧ b.mr ≠ none) ∨ b.specTotal w > cbw)

/-- The start/end edge rule: in `ltr` (and for columns) the margin-left edge stays at `x0`, the start of
the containing block; in `rtl` the margin-right edge is at its end `x0 + cbw`. -/
def EdgeFlush (cbw : Rat) (dir : Dir) (x0 : Rat) (r : ABox) : Prop :=
  ∃ o, outer? r = some o ∧
    (if dir = .rtl && !r.isColumn then r.posX + o = x0 + cbw else r.posX = x0)

private theorem blwCore_auto (cbw : Rat) (dir : Dir) (b : ABox) (hw : b.w = none) :
    blwCore cbw dir b =
      { b with ml := some (orZero b.ml), mr := some (orZero b.mr),
               w := some (cbw - (b.pb + orZero b.ml + orZero b.mr)) } := by
  rcases b with ⟨ml, mr, pl, pr, bl, br, w, minW, maxW, posX, col⟩
  subst hw
  cases ml <;> cases mr <;> simp [blwCore, orZero, ABox.pb]

private theorem blwCore_wide (cbw : Rat) (dir : Dir) (b : ABox) (w : Rat) (hw : b.w = some w)
    (hwide : b.specTotal w > cbw) :
    blwCore cbw dir b =
      { b with ml := some (orZero b.ml), mr := some (orZero b.mr),
               posX := if dir = .rtl && !b.isColumn
                       then b.posX + (cbw - b.pb - w - orZero b.mr - orZero b.ml) else b.posX } := by
  rcases b with ⟨ml, mr, pl, pr, bl, br, w', minW, maxW, posX, col⟩
  simp only at hw; subst hw
  cases ml <;> cases mr <;> cases dir <;> cases col <;>
    simp [ABox.specTotal, ABox.pb, orZero, Rat.add_zero] at hwide <;>
    simp [blwCore, orZero, ABox.pb, hwide]

private theorem blwCore_both (cbw : Rat) (dir : Dir) (b : ABox) (w l r : Rat) (hw : b.w = some w)
    (hl : b.ml = some l) (hr : b.mr = some r) :
    blwCore cbw dir b =
      { b with posX := if dir = .rtl && !b.isColumn
                       then b.posX + (cbw - b.pb - w - r - l) else b.posX } := by
  rcases b with ⟨ml, mr, pl, pr, bl, br, w', minW, maxW, posX, col⟩
  simp only at hw hl hr; subst hw hl hr
  cases dir <;> cases col <;> simp [blwCore, ABox.pb] <;> split <;> rfl

private theorem blwCore_fit (cbw : Rat) (dir : Dir) (b : ABox) (w : Rat) (hw : b.w = some w)
    (hfit : b.specTotal w ≤ cbw) (hauto : b.ml = none ∨ b.mr = none) :
    blwCore cbw dir b =
      match b.ml, b.mr with
      | none, none => { b with ml := some ((cbw - b.pb - w) / 2), mr := some ((cbw - b.pb - w) / 2) }
      | none, some r => { b with ml := some (cbw - b.pb - w - r) }
      | some l, none => { b with mr := some (cbw - b.pb - w - l) }
      | some _, some _ => b := by
  rcases b with ⟨ml, mr, pl, pr, bl, br, w', minW, maxW, posX, col⟩
  simp only at hw; subst hw
  cases ml <;> cases mr <;> simp [ABox.specTotal, ABox.pb, orZero, Rat.add_zero] at hfit hauto <;>
    simp [blwCore, ABox.pb, Rat.not_lt.mpr hfit]

private theorem not_overC_some {cbw : Rat} {b : ABox} {w : Rat} (hw : b.w = some w) (h : ¬ OverC cbw b) :
    (b.ml = none ∨ b.mr = none) ∧ b.specTotal w ≤ cbw := by
  unfold OverC at h
  constructor
  · cases hl : b.ml <;> cases hr : b.mr <;> simp_all
  · apply Rat.not_lt.mp
    intro hlt
    exact h ⟨w, hw, Or.inr hlt⟩

/--
Full statement (clause (b) as literally written; false of the code, see
`Witness.C05.storedMarginNotRecomputed`, known finding `stored-margin-right`):
  `∀ cbw dir b, outer? (blwCore cbw dir b) = some cbw`.
(b) **the width equation**, all 8 auto patterns, `ltr` and `rtl`, columns or not: unless the box is
over-constrained, after `block_level_width`
`margin-left + border-left + padding-left + width + padding-right + border-right + margin-right`
equals the containing block width, and `position_x` is untouched. -/
theorem width_equation_partial (cbw : Rat) (dir : Dir) (b : ABox) (h : ¬ OverC cbw b) :
    outer? (blwCore cbw dir b) = some cbw ∧ (blwCore cbw dir b).posX = b.posX := by
  cases hw : b.w with
  | none =>
    rw [blwCore_auto cbw dir b hw]
    refine ⟨?_, rfl⟩
    simp only [outer?, ABox.pb]
    congr 1; grind
  | some w =>
    obtain ⟨hauto, hfit⟩ := not_overC_some hw h
    rw [blwCore_fit cbw dir b w hw hfit hauto]
    rcases b with ⟨ml, mr, pl, pr, bl, br, w', minW, maxW, posX, col⟩
    simp only at hw; subst hw
    cases ml <;> cases mr <;> simp [outer?, ABox.pb] at hauto ⊢ <;> grind

/-- The same through the `containing_block` argument of the Python function. -/
theorem width_equation_cb_partial (cb : CB) (b : ABox) (h : ¬ OverC cb.width b) :
    outer? (blockLevelWidth cb b) = some cb.width ∧ (blockLevelWidth cb b).posX = b.posX :=
  width_equation_partial cb.width cb.direction b h

/-- A box used by the non-vacuity examples: `width: 50px; padding: 0 5px; margin: 0 auto`. -/
def exBox : ABox :=
  { ml := none, mr := none, pl := 5, pr := 5, bl := 0, br := 0, w := some 50, minW := 0, maxW := .inf,
    posX := 0, isColumn := false }

example : ¬ OverC 101 exBox := by
  simp [OverC, exBox, ABox.specTotal, ABox.pb, orZero]; decide +kernel

/-- (b) all three values specified and already summing to the containing block: nothing changes. -/
theorem width_equation_exact (cbw : Rat) (dir : Dir) (b : ABox) (w l r : Rat) (hw : b.w = some w)
    (hl : b.ml = some l) (hr : b.mr = some r) (hsum : l + b.bl + b.pl + w + b.pr + b.br + r = cbw) :
    blwCore cbw dir b = b ∧ outer? b = some cbw := by
  rw [blwCore_both cbw dir b w l r hw hl hr]
  rcases b with ⟨ml, mr, pl, pr, bl, br, w', minW, maxW, posX, col⟩
  simp only at hw hl hr hsum; subst hw hl hr
  refine ⟨?_, by simp [outer?, hsum]⟩
  have : posX + (cbw - ABox.pb ⟨some l, some r, pl, pr, bl, br, some w, minW, maxW, posX, col⟩ - w - r - l) = posX := by
    simp only [ABox.pb]; grind
  simp [this]

/-- Specified values are never changed by `block_level_width`. -/
theorem specified_kept (cbw : Rat) (dir : Dir) (b : ABox) :
    (∀ w, b.w = some w → (blwCore cbw dir b).w = some w) ∧
    (∀ l, b.ml = some l → (blwCore cbw dir b).ml = some l) ∧
    (∀ r, b.mr = some r → (blwCore cbw dir b).mr = some r) ∧
    (blwCore cbw dir b).pl = b.pl ∧ (blwCore cbw dir b).pr = b.pr ∧
    (blwCore cbw dir b).bl = b.bl ∧ (blwCore cbw dir b).br = b.br ∧
    (blwCore cbw dir b).minW = b.minW ∧ (blwCore cbw dir b).maxW = b.maxW ∧
    (blwCore cbw dir b).isColumn = b.isColumn := by
  cases hw : b.w with
  | none =>
    rw [blwCore_auto cbw dir b hw]
    refine ⟨by simp, ?_, ?_, rfl, rfl, rfl, rfl, rfl, rfl, rfl⟩ <;> intro x hx <;> simp [hx, orZero]
  | some w =>
    by_cases hwide : b.specTotal w > cbw
    · rw [blwCore_wide cbw dir b w hw hwide]
      refine ⟨by simp [hw], ?_, ?_, rfl, rfl, rfl, rfl, rfl, rfl, rfl⟩ <;> intro x hx <;> simp [hx, orZero]
    · have hfit := Rat.not_lt.mp hwide
      cases hl : b.ml with
      | some l =>
        cases hr : b.mr with
        | some r =>
          rw [blwCore_both cbw dir b w l r hw hl hr]
          simp [hw, hl, hr]
        | none =>
          rw [blwCore_fit cbw dir b w hw hfit (Or.inr hr)]
          simp [hw, hl, hr]
      | none =>
        rw [blwCore_fit cbw dir b w hw hfit (Or.inl hl)]
        cases hr : b.mr <;> simp [hw, hl, hr]

/-- (b) `width: auto`: `auto` margins become 0 and the width takes the rest. -/
theorem auto_width (cbw : Rat) (dir : Dir) (b : ABox) (hw : b.w = none) :
    (blwCore cbw dir b).ml = some (orZero b.ml) ∧ (blwCore cbw dir b).mr = some (orZero b.mr) ∧
    (blwCore cbw dir b).w = some (cbw - (b.pb + orZero b.ml + orZero b.mr)) := by
  rw [blwCore_auto cbw dir b hw]; exact ⟨rfl, rfl, rfl⟩

/-- (a) an `auto` width is non-negative whenever the containing block has room for the paddings,
borders and specified margins. -/
theorem auto_width_nonneg (cbw : Rat) (dir : Dir) (b : ABox) (hw : b.w = none)
    (hroom : b.pb + orZero b.ml + orZero b.mr ≤ cbw) :
    ∃ w, (blwCore cbw dir b).w = some w ∧ 0 ≤ w :=
  ⟨_, (auto_width cbw dir b hw).2.2, by grind⟩

/-- (b) both margins `auto` around a specified width that fits: the box is centred. -/
theorem centered (cbw : Rat) (dir : Dir) (b : ABox) (w : Rat) (hw : b.w = some w)
    (hl : b.ml = none) (hr : b.mr = none) (hfit : b.pb + w ≤ cbw) :
    (blwCore cbw dir b).ml = some ((cbw - b.pb - w) / 2) ∧
    (blwCore cbw dir b).mr = some ((cbw - b.pb - w) / 2) := by
  have hfit' : b.specTotal w ≤ cbw := by simp [ABox.specTotal, hl, hr, orZero]; grind
  rw [blwCore_fit cbw dir b w hw hfit' (Or.inl hl)]
  simp [hl, hr]

/-- (b)(f) **over-constrained geometry**: the specified width is kept, `auto` margins are 0, specified
margins are kept; in `ltr` (and in columns) the box stays at the start edge; in `rtl` `position_x` is
shifted so that the margin-right edge coincides with the end of the containing block. -/
theorem overconstrained_geometry (cbw : Rat) (dir : Dir) (b : ABox) (h : OverC cbw b) :
    (blwCore cbw dir b).w = b.w ∧
    (blwCore cbw dir b).ml = some (orZero b.ml) ∧ (blwCore cbw dir b).mr = some (orZero b.mr) ∧
    EdgeFlush cbw dir b.posX (blwCore cbw dir b) := by
  obtain ⟨w, hw, hcase⟩ := h
  by_cases hwide : b.specTotal w > cbw
  · rw [blwCore_wide cbw dir b w hw hwide]
    refine ⟨rfl, rfl, rfl, ?_⟩
    refine ⟨orZero b.ml + b.bl + b.pl + w + b.pr + b.br + orZero b.mr, by simp [outer?, hw], ?_⟩
    cases dir <;> cases hc : b.isColumn <;> simp [ABox.pb] <;> grind
  · rcases hcase with ⟨hl, hr⟩ | hgt
    · obtain ⟨l, hl'⟩ := Option.ne_none_iff_exists'.mp hl
      obtain ⟨r, hr'⟩ := Option.ne_none_iff_exists'.mp hr
      rw [blwCore_both cbw dir b w l r hw hl' hr']
      refine ⟨rfl, by simp [hl', orZero], by simp [hr', orZero], ?_⟩
      refine ⟨l + b.bl + b.pl + w + b.pr + b.br + r, by simp [outer?, hw, hl', hr'], ?_⟩
      cases dir <;> cases hc : b.isColumn <;> simp [ABox.pb] <;> grind
    · exact absurd hgt hwide

/-- (a)(b)(f) for **every** input (no hypothesis): `block_level_width` leaves three numbers, and the
margin box is flush with the start edge of the containing block in `ltr` and with its end edge in
`rtl`. -/
theorem edge_flush (cbw : Rat) (dir : Dir) (b : ABox) : EdgeFlush cbw dir b.posX (blwCore cbw dir b) := by
  by_cases h : OverC cbw b
  · exact (overconstrained_geometry cbw dir b h).2.2.2
  · obtain ⟨ho, hx⟩ := width_equation_partial cbw dir b h
    refine ⟨cbw, ho, ?_⟩
    split <;> grind

/-- The stored margin that the code does not recompute is the only defect of the over-constrained
case: with the CSS value of the margin on the end side the literal equation holds again. -/
theorem overconstrained_ltr_css_margin (cbw : Rat) (b : ABox) (w : Rat) (hw : b.w = some w)
    (h : OverC cbw b) :
    let r := blwCore cbw .ltr b
    let cssMarginRight := cbw - (orZero b.ml + b.bl + b.pl + w + b.pr + b.br)
    outer? { r with mr := some cssMarginRight } = some cbw ∧ r.posX = b.posX := by
  obtain ⟨hw', hl, _, _⟩ := overconstrained_geometry cbw .ltr b h
  have hx : (blwCore cbw .ltr b).posX = b.posX := by
    obtain ⟨o, _, hflush⟩ := (overconstrained_geometry cbw .ltr b h).2.2.2
    simpa using hflush
  have hk := specified_kept cbw .ltr b
  refine ⟨?_, hx⟩
  simp only [outer?, hl, hw', hw, hk.2.2.2.1, hk.2.2.2.2.1, hk.2.2.2.2.2.1, hk.2.2.2.2.2.2.1]
  congr 1; grind

/-! ## (c) min/max: `handle_min_max_width`, `handle_min_max_height` -/

/-- What the min/max wrappers need from the wrapped function: a specified size is kept, and the
constraints are not touched.  (`block_level_width`, `page_width_or_height` and the identity satisfy it.) -/
structure KeepsSize (f : ABox → Except BErr ABox) : Prop where
  size : ∀ b b' w, f b = .ok b' → b.w = some w → b'.w = some w
  bounds : ∀ b b', f b = .ok b' → b'.minW = b.minW ∧ b'.maxW = b.maxW

private theorem widthOf_ok {b : ABox} {w : Rat} (h : widthOf b = .ok w) : b.w = some w := by
  unfold widthOf at h
  cases hw : b.w <;> simp_all

private theorem extAsLen_ok {x : Ext} {v : Len} (h : extAsLen x = .ok v) :
    ∃ m, x = .fin m ∧ v = some m := by
  cases x <;> simp [extAsLen] at h
  exact ⟨_, rfl, h.symm⟩

/-- `box.position_x = position_x` of `handle_min_max_width` (`restore = true`); `handle_min_max_height`
and a box without `position_x` write nothing back (`restore = false`). -/
def resetX : Bool → Rat → ABox → ABox
  | true, x, b => { b with posX := x }
  | false, _, b => b

/-- The common text of the two decorators of `min_max.py`, the `position_x` bookkeeping being the
parameter (a proof device: the model functions are the literal ones of `Model/BoxModel.lean`). -/
def handleMinMaxGen (restore : Bool) (function : ABox → Except BErr ABox) (box : ABox) : Except BErr ABox := do
  let computedMargins := (box.ml, box.mr)
  let positionX := box.posX
  let box ← function box
  let width ← widthOf box
  let box ← (if box.maxW.ltRat width then do
      let w ← extAsLen box.maxW
      function (resetX restore positionX { box with w := w, ml := computedMargins.1, mr := computedMargins.2 })
    else pure box)
  let width ← widthOf box
  let box ← (if width < box.minW then
      function (resetX restore positionX
        { box with w := some box.minW, ml := computedMargins.1, mr := computedMargins.2 })
    else pure box)
  pure box

theorem minmax_width_is_gen : handleMinMaxWidth = handleMinMaxGen true := rfl
theorem minmax_height_is_gen : handleMinMaxHeight = handleMinMaxGen false := rfl
theorem minmax_nox_is_gen : handleMinMaxWidthNoX = handleMinMaxGen false := rfl

/-- The decorator of heights is the decorator of widths on a box without `position_x`. -/
theorem minmax_height_eq_nox : handleMinMaxHeight = handleMinMaxWidthNoX := rfl

theorem resetX_fields (rs : Bool) (x : Rat) (b : ABox) :
    (resetX rs x b).w = b.w ∧ (resetX rs x b).ml = b.ml ∧ (resetX rs x b).mr = b.mr ∧
    (resetX rs x b).pl = b.pl ∧ (resetX rs x b).pr = b.pr ∧ (resetX rs x b).bl = b.bl ∧
    (resetX rs x b).br = b.br ∧ (resetX rs x b).minW = b.minW ∧ (resetX rs x b).maxW = b.maxW ∧
    (resetX rs x b).isColumn = b.isColumn := by
  cases rs <;> simp [resetX]

theorem resetX_w (rs : Bool) (x : Rat) (b : ABox) : (resetX rs x b).w = b.w := (resetX_fields rs x b).1
theorem resetX_minW (rs : Bool) (x : Rat) (b : ABox) : (resetX rs x b).minW = b.minW :=
  (resetX_fields rs x b).2.2.2.2.2.2.2.1
theorem resetX_maxW (rs : Bool) (x : Rat) (b : ABox) : (resetX rs x b).maxW = b.maxW :=
  (resetX_fields rs x b).2.2.2.2.2.2.2.2.1

/-- The control flow of the wrappers, as a relation: first pass `b1`; if its width exceeds the maximum a
second pass from (`max`, the *computed* margins, the original `position_x` when it is restored); if the
width is then below the minimum another pass from (`min`, the computed margins, the original
`position_x`). -/
theorem minmax_passes_gen (rs : Bool) (f : ABox → Except BErr ABox) (b r : ABox)
    (h : handleMinMaxGen rs f b = .ok r) :
    ∃ b1 w1 b2 w2, f b = .ok b1 ∧ b1.w = some w1 ∧
      ((b1.maxW.ltRat w1 = true ∧
          ∃ m, b1.maxW = .fin m ∧
            f (resetX rs b.posX { b1 with w := some m, ml := b.ml, mr := b.mr }) = .ok b2) ∨
       (b1.maxW.ltRat w1 = false ∧ b2 = b1)) ∧
      b2.w = some w2 ∧
      ((w2 < b2.minW ∧ f (resetX rs b.posX { b2 with w := some b2.minW, ml := b.ml, mr := b.mr }) = .ok r) ∨
       (¬ w2 < b2.minW ∧ r = b2)) := by
  unfold handleMinMaxGen at h
  simp only [bind, Except.bind] at h
  cases h1 : f b with
  | error e => simp [h1] at h
  | ok b1 =>
    simp only [h1] at h
    cases hw1 : widthOf b1 with
    | error e => simp [hw1] at h
    | ok w1 =>
      simp only [hw1] at h
      have hw1' := widthOf_ok hw1
      by_cases hc : b1.maxW.ltRat w1 = true
      · rw [if_pos hc] at h
        cases hx : extAsLen b1.maxW with
        | error e => simp [hx] at h
        | ok v =>
          simp only [hx] at h
          obtain ⟨m, hm, hv⟩ := extAsLen_ok hx
          subst hv
          cases h2 : f (resetX rs b.posX { b1 with w := some m, ml := b.ml, mr := b.mr }) with
          | error e => simp [h2] at h
          | ok b2 =>
            simp only [h2] at h
            cases hw2 : widthOf b2 with
            | error e => simp [hw2] at h
            | ok w2 =>
              simp only [hw2] at h
              refine ⟨b1, w1, b2, w2, rfl, hw1', Or.inl ⟨hc, m, hm, h2⟩, widthOf_ok hw2, ?_⟩
              by_cases hc2 : w2 < b2.minW
              · rw [if_pos hc2] at h
                exact Or.inl ⟨hc2, h⟩
              · rw [if_neg hc2] at h
                simp only [pure, Except.pure, Except.ok.injEq] at h
                exact Or.inr ⟨hc2, h.symm⟩
      · rw [if_neg hc] at h
        simp only [pure, Except.pure] at h
        simp only [hw1] at h
        refine ⟨b1, w1, b1, w1, rfl, hw1', Or.inr ⟨by simpa using hc, rfl⟩, hw1', ?_⟩
        by_cases hc2 : w1 < b1.minW
        · rw [if_pos hc2] at h
          exact Or.inl ⟨hc2, h⟩
        · rw [if_neg hc2] at h
          simp only [Except.ok.injEq] at h
          exact Or.inr ⟨hc2, h.symm⟩

/-- `minmax_passes_gen` for `handle_min_max_width`: every further pass starts from the original
`position_x`. -/
theorem minmax_passes (f : ABox → Except BErr ABox) (b r : ABox) (h : handleMinMaxWidth f b = .ok r) :
    ∃ b1 w1 b2 w2, f b = .ok b1 ∧ b1.w = some w1 ∧
      ((b1.maxW.ltRat w1 = true ∧
          ∃ m, b1.maxW = .fin m ∧ f { b1 with w := some m, ml := b.ml, mr := b.mr, posX := b.posX } = .ok b2) ∨
       (b1.maxW.ltRat w1 = false ∧ b2 = b1)) ∧
      b2.w = some w2 ∧
      ((w2 < b2.minW ∧ f { b2 with w := some b2.minW, ml := b.ml, mr := b.mr, posX := b.posX } = .ok r) ∨
       (¬ w2 < b2.minW ∧ r = b2)) :=
  minmax_passes_gen true f b r h

/-- The wrapper only ever calls the wrapped function on boxes that carry the *computed* margins of the
original box: two functions that agree on those are interchangeable under the wrapper. -/
theorem minmax_congr (f g : ABox → Except BErr ABox) (z : ABox)
    (hfg : ∀ x : ABox, x.ml = z.ml → x.mr = z.mr → f x = g x) :
    handleMinMaxWidth f z = handleMinMaxWidth g z := by
  unfold handleMinMaxWidth
  have h0 := hfg z rfl rfl
  have h1 : ∀ (b1 : ABox) (v : Len), f { b1 with w := v, ml := z.ml, mr := z.mr, posX := z.posX } =
      g { b1 with w := v, ml := z.ml, mr := z.mr, posX := z.posX } := fun b1 v => hfg _ rfl rfl
  simp only [h0, h1]

/-- (c) min/max hold after either wrapper, with or without the `position_x` bookkeeping. -/
theorem minmax_gen (rs : Bool) (f : ABox → Except BErr ABox) (hf : KeepsSize f) (b r : ABox)
    (h : handleMinMaxGen rs f b = .ok r) :
    ∃ w, r.w = some w ∧ b.minW ≤ w ∧ (∀ m, b.maxW = .fin m → b.minW ≤ m → w ≤ m) ∧
      r.minW = b.minW ∧ r.maxW = b.maxW := by
  obtain ⟨b1, w1, b2, w2, h1, hw1, hmax, hw2, hmin⟩ := minmax_passes_gen rs f b r h
  obtain ⟨hb1min, hb1max⟩ := hf.bounds _ _ h1
  rcases hmax with ⟨hlt, m, hm, h2⟩ | ⟨hnlt, e2⟩
  · -- max fired: second pass from `m`
    obtain ⟨hb2min, hb2max⟩ := hf.bounds _ _ h2
    have hw2' : b2.w = some m := hf.size _ _ m h2 (by rw [resetX_w])
    have e : w2 = m := by rw [hw2] at hw2'; exact Option.some.inj hw2'
    subst e
    simp only [resetX_minW, resetX_maxW] at hb2min hb2max
    rcases hmin with ⟨hlt2, h3⟩ | ⟨hge, er⟩
    · obtain ⟨hrmin, hrmax⟩ := hf.bounds _ _ h3
      simp only [resetX_minW, resetX_maxW] at hrmin hrmax
      refine ⟨b2.minW, hf.size _ _ _ h3 (by rw [resetX_w]), by grind, ?_, by grind, by grind⟩
      intro m' hm' hle
      have : m' = w2 := by rw [← hb1max, hm] at hm'; exact (Ext.fin.inj hm').symm
      grind
    · subst er
      refine ⟨w2, hw2, by grind, ?_, by grind, by grind⟩
      intro m' hm' _
      have : m' = w2 := by rw [← hb1max, hm] at hm'; exact (Ext.fin.inj hm').symm
      grind
  · subst e2
    rw [hw1] at hw2
    have e : w1 = w2 := Option.some.inj hw2
    subst e
    rcases hmin with ⟨hlt2, h3⟩ | ⟨hge, er⟩
    · obtain ⟨hrmin, hrmax⟩ := hf.bounds _ _ h3
      simp only [resetX_minW, resetX_maxW] at hrmin hrmax
      refine ⟨b2.minW, hf.size _ _ _ h3 (by rw [resetX_w]), by grind, ?_, by grind, by grind⟩
      intro m' _ hle
      grind
    · subst er
      refine ⟨w1, hw1, by grind, ?_, hb1min, hb1max⟩
      intro m' hm' _
      rw [← hb1max] at hm'
      simp only [hm', Ext.ltRat, decide_eq_false_iff_not] at hnlt
      grind

/-- (c) **min/max hold after the wrapper**, for *any* wrapped function that keeps a specified size:
the used size is a number, `≥ min`, and `≤ max` whenever `min ≤ max` (CSS: the minimum wins). -/
theorem minmax_width (f : ABox → Except BErr ABox) (hf : KeepsSize f) (b r : ABox)
    (h : handleMinMaxWidth f b = .ok r) :
    ∃ w, r.w = some w ∧ b.minW ≤ w ∧ (∀ m, b.maxW = .fin m → b.minW ≤ m → w ≤ m) ∧
      r.minW = b.minW ∧ r.maxW = b.maxW :=
  minmax_gen true f hf b r h

/-- (c) the same for `handle_min_max_height`. -/
theorem minmax_height (f : ABox → Except BErr ABox) (hf : KeepsSize f) (b r : ABox)
    (h : handleMinMaxHeight f b = .ok r) :
    ∃ w, r.w = some w ∧ b.minW ≤ w ∧ (∀ m, b.maxW = .fin m → b.minW ≤ m → w ≤ m) ∧
      r.minW = b.minW ∧ r.maxW = b.maxW :=
  minmax_gen false f hf b r h

/-- (c) …and for `handle_min_max_width` on a box that has no `position_x` yet. -/
theorem minmax_width_nox (f : ABox → Except BErr ABox) (hf : KeepsSize f) (b r : ABox)
    (h : handleMinMaxWidthNoX f b = .ok r) :
    ∃ w, r.w = some w ∧ b.minW ≤ w ∧ (∀ m, b.maxW = .fin m → b.minW ≤ m → w ≤ m) ∧
      r.minW = b.minW ∧ r.maxW = b.maxW :=
  minmax_gen false f hf b r h

/-- A wrapped function that leaves `position_x` alone (everything but `block_level_width` in an rtl
containing block): the bookkeeping changes nothing, the width wrapper is the height wrapper. -/
theorem minmax_width_eq_height_of_posX_blind (f : ABox → Except BErr ABox)
    (hkeep : ∀ b r, f b = .ok r → r.posX = b.posX) (b : ABox) :
    handleMinMaxWidth f b = handleMinMaxHeight f b := by
  unfold handleMinMaxWidth handleMinMaxHeight
  simp only [bind, Except.bind]
  cases h1 : f b with
  | error e => rfl
  | ok b1 =>
    have hx1 : b.posX = b1.posX := (hkeep b b1 h1).symm
    simp only
    cases hw1 : widthOf b1 with
    | error e => rfl
    | ok w1 =>
      simp only
      have key : ∀ (b2 : ABox), b2.posX = b.posX →
          (do let width ← widthOf b2
              let box ← (if width < b2.minW then
                  f { b2 with w := some b2.minW, ml := b.ml, mr := b.mr, posX := b.posX }
                else pure b2 : Except BErr ABox)
              pure box) =
          (do let width ← widthOf b2
              let box ← (if width < b2.minW then
                  f { b2 with w := some b2.minW, ml := b.ml, mr := b.mr }
                else pure b2 : Except BErr ABox)
              pure box) := by
        intro b2 hx2
        have : ({ b2 with w := some b2.minW, ml := b.ml, mr := b.mr, posX := b.posX } : ABox) =
            { b2 with w := some b2.minW, ml := b.ml, mr := b.mr } := by rw [← hx2]
        rw [this]
      simp only [bind, Except.bind] at key
      by_cases hc : b1.maxW.ltRat w1 = true
      · simp only [if_pos hc]
        cases hx : extAsLen b1.maxW with
        | error e => rfl
        | ok v =>
          simp only
          have : ({ b1 with w := v, ml := b.ml, mr := b.mr, posX := b.posX } : ABox) =
              { b1 with w := v, ml := b.ml, mr := b.mr } := by rw [hx1]
          rw [this]
          cases h2 : f { b1 with w := v, ml := b.ml, mr := b.mr } with
          | error e => rfl
          | ok b2 =>
            simp only
            exact key b2 (by rw [hkeep _ _ h2]; exact hx1.symm)
      · simp only [if_neg hc, pure, Except.pure]
        exact key b1 hx1.symm

theorem keepsSize_blw (cbw : Rat) (dir : Dir) : KeepsSize (fun b => .ok (blwCore cbw dir b)) where
  size := by
    intro b b' w h hw
    simp only [Except.ok.injEq] at h; subst h
    exact (specified_kept cbw dir b).1 w hw
  bounds := by
    intro b b' h
    simp only [Except.ok.injEq] at h; subst h
    have hk := specified_kept cbw dir b
    exact ⟨hk.2.2.2.2.2.2.2.1, hk.2.2.2.2.2.2.2.2.1⟩

theorem keepsSize_id : KeepsSize (fun b => .ok b) where
  size := by intro b b' w h hw; simp only [Except.ok.injEq] at h; subst h; exact hw
  bounds := by intro b b' h; simp only [Except.ok.injEq] at h; subst h; exact ⟨rfl, rfl⟩

/-- (a)(c) `block_level_width` as decorated in block.py: the used width is a number within the
constraints; in particular it is non-negative as soon as `min-width ≥ 0` (which `resolve_percentages`
guarantees, `resolve_min_nonneg`). -/
theorem blw_minmax (cb : CB) (b r : ABox) (h : blockLevelWidthMinMax cb b = .ok r) :
    ∃ w, r.w = some w ∧ b.minW ≤ w ∧ (∀ m, b.maxW = .fin m → b.minW ≤ m → w ≤ m) := by
  obtain ⟨w, h1, h2, h3, _⟩ := minmax_width _ (keepsSize_blw cb.width cb.direction) b r h
  exact ⟨w, h1, h2, h3⟩

/-- Boolean test `x = .ok y` (the examples evaluate the model with `decide +kernel`). -/
def okEq {α} [DecidableEq α] (x : Except BErr α) (y : α) : Bool :=
  match x with
  | .ok r => decide (r = y)
  | .error _ => false

theorem okEq_iff {α} [DecidableEq α] {x : Except BErr α} {y : α} : okEq x y = true ↔ x = .ok y := by
  cases x <;> simp [okEq]

example : blockLevelWidthMinMax (.box 100 .ltr) { exBox with w := some 200, maxW := .fin 60 } =
    .ok { exBox with w := some 60, maxW := .fin 60, ml := some 15, mr := some 15 } :=
  okEq_iff.mp (by decide +kernel)

private theorem widthOf_some {b : ABox} {w : Rat} (h : b.w = some w) : widthOf b = .ok w := by
  simp [widthOf, h]

/-- (a) the wrapper never fails around a total function that always leaves a numeric size, unless the
maximum is `-inf` (which no CSS value produces). -/
theorem minmax_total (g : ABox → ABox) (hw : ∀ b, ∃ w, (g b).w = some w)
    (hb : ∀ b, (g b).maxW = b.maxW) (b : ABox) (hmax : b.maxW ≠ .ninf) :
    ∃ r, handleMinMaxWidth (fun b => .ok (g b)) b = .ok r := by
  obtain ⟨w1, hw1⟩ := hw b
  have hstep2 : ∀ b2 : ABox, (∃ w2, b2.w = some w2) →
      ∃ r, (do
        let width ← widthOf b2
        let box ← (if width < b2.minW then
            (fun b => Except.ok (g b)) { b2 with w := some b2.minW, ml := b.ml, mr := b.mr, posX := b.posX }
          else pure b2 : Except BErr ABox)
        pure box) = Except.ok r := by
    intro b2 ⟨w2, hw2⟩
    simp only [bind, Except.bind, widthOf_some hw2]
    split <;> simp [pure, Except.pure]
  unfold handleMinMaxWidth
  simp only [bind, Except.bind, widthOf_some hw1]
  by_cases hc : (g b).maxW.ltRat w1 = true
  · rw [if_pos hc]
    rw [hb b] at hc ⊢
    cases hm : b.maxW with
    | ninf => exact absurd hm hmax
    | inf => simp [hm, Ext.ltRat] at hc
    | nan => simp [hm, Ext.ltRat] at hc
    | fin m =>
      simp only [extAsLen]
      exact hstep2 _ (hw _)
  · rw [if_neg hc]
    simp only [pure, Except.pure]
    exact hstep2 _ ⟨w1, hw1⟩

/-- (a) `block_level_width` always leaves a numeric width. -/
theorem blw_width_some (cbw : Rat) (dir : Dir) (b : ABox) : ∃ w, (blwCore cbw dir b).w = some w := by
  obtain ⟨o, ho, _⟩ := edge_flush cbw dir b
  unfold outer? at ho
  cases hw : (blwCore cbw dir b).w with
  | some w1 => exact ⟨w1, rfl⟩
  | none => rw [hw] at ho; split at ho <;> simp_all

/-- (a) the decorated `block_level_width` is total on every input with `max-width ≠ -inf`. -/
theorem blw_minmax_ok (cb : CB) (b : ABox) (hmax : b.maxW ≠ .ninf) :
    ∃ r, blockLevelWidthMinMax cb b = .ok r :=
  minmax_total (blwCore cb.width cb.direction) (blw_width_some _ _)
    (fun b => (specified_kept cb.width cb.direction b).2.2.2.2.2.2.2.2.1) b hmax

/-! ## (b)(c) min/max re-entry: the equation and the geometry after the wrapper -/

private theorem reset_eq (cbw : Rat) (dir : Dir) (b : ABox) (w' : Len) (x : Rat) :
    { blwCore cbw dir b with w := w', ml := b.ml, mr := b.mr, posX := x } =
      { b with w := w', posX := x } := by
  obtain ⟨_, _, _, h1, h2, h3, h4, h5, h6, h7⟩ := specified_kept cbw dir b
  simp only [ABox.mk.injEq, h1, h2, h3, h4, h5, h6, h7, and_self]

/-- One plain pass of `block_level_width` from the computed margins of `b`, a width `w` and a start
position `x`. -/
def pass (cbw : Rat) (dir : Dir) (b : ABox) (w x : Rat) : ABox :=
  blwCore cbw dir { b with w := some w, posX := x }

/-- (c) **re-entry**: the result of the decorated `block_level_width` is the result of one plain pass of
`block_level_width` started from the *computed* margins of the box (not the used margins of the previous
pass), from the **original** `position_x` (not the one a previous pass shifted to) and from the width
`w'` that is the original one, `max-width` or `min-width`.  The four cases of the control flow. -/
theorem minmax_reentry (cbw : Rat) (dir : Dir) (b r : ABox)
    (h : handleMinMaxWidth (fun b => .ok (blwCore cbw dir b)) b = .ok r) :
    let b1 := blwCore cbw dir b
    ∃ w1, b1.w = some w1 ∧
      ((b.maxW.ltRat w1 = false ∧ ¬ w1 < b.minW ∧ r = b1) ∨
       (∃ m, b.maxW = .fin m ∧ w1 > m ∧ ¬ m < b.minW ∧ r = pass cbw dir b m b.posX) ∨
       (b.maxW.ltRat w1 = false ∧ w1 < b.minW ∧ r = pass cbw dir b b.minW b.posX) ∨
       (∃ m, b.maxW = .fin m ∧ w1 > m ∧ m < b.minW ∧ r = pass cbw dir b b.minW b.posX)) := by
  intro b1
  obtain ⟨b1', w1, b2, w2, h1, hw1, hmax, hw2, hmin⟩ := minmax_passes _ b r h
  simp only [Except.ok.injEq] at h1
  subst h1
  have hk1 := specified_kept cbw dir b
  have hmn1 : b1.minW = b.minW := hk1.2.2.2.2.2.2.2.1
  have hmx1 : b1.maxW = b.maxW := hk1.2.2.2.2.2.2.2.2.1
  refine ⟨w1, hw1, ?_⟩
  rcases hmax with ⟨hlt, m, hm, h2⟩ | ⟨hnlt, e2⟩
  · have hgt : w1 > m := by
      show w1 > m
      have : (blwCore cbw dir b).maxW.ltRat w1 = true := hlt
      rw [hm] at this
      simpa [Ext.ltRat] using this
    simp only [Except.ok.injEq] at h2
    rw [reset_eq cbw dir b (some m) b.posX] at h2
    subst h2
    have hk2 := specified_kept cbw dir { b with w := some m, posX := b.posX }
    have hmn2 := hk2.2.2.2.2.2.2.2.1
    have hw2' := hk2.1 m rfl
    simp only at hmn2
    rw [hw2] at hw2'
    have e : w2 = m := Option.some.inj hw2'
    subst e
    rw [hmx1] at hm
    rcases hmin with ⟨hlt2, h3⟩ | ⟨hge, er⟩
    · simp only [Except.ok.injEq] at h3
      have hre := reset_eq cbw dir { b with w := some w2, posX := b.posX }
        (some (blwCore cbw dir { b with w := some w2, posX := b.posX }).minW) b.posX
      simp only at hre
      rw [hre] at h3
      rw [hmn2] at h3 hlt2
      exact Or.inr (Or.inr (Or.inr ⟨w2, hm, hgt, hlt2, h3.symm⟩))
    · rw [hmn2] at hge
      exact Or.inr (Or.inl ⟨w2, hm, hgt, hge, er⟩)
  · subst e2
    rw [hw1] at hw2
    have e : w1 = w2 := Option.some.inj hw2
    subst e
    have hnlt' : b.maxW.ltRat w1 = false := by rw [← hmx1]; exact hnlt
    rcases hmin with ⟨hlt2, h3⟩ | ⟨hge, er⟩
    · simp only [Except.ok.injEq] at h3
      rw [reset_eq cbw dir b (some (blwCore cbw dir b).minW) b.posX] at h3
      rw [hmn1] at h3 hlt2
      exact Or.inr (Or.inr (Or.inl ⟨hnlt', hlt2, h3.symm⟩))
    · rw [hmn1] at hge
      exact Or.inl ⟨hnlt', hge, er⟩

/-- The decorated function **is** one plain pass of `block_level_width` from the computed margins and the
original `position_x`, with the width replaced by the clamped one. -/
theorem minmax_last_pass (cbw : Rat) (dir : Dir) (b r : ABox)
    (h : handleMinMaxWidth (fun b => .ok (blwCore cbw dir b)) b = .ok r) :
    ∃ w', r = blwCore cbw dir { b with w := w', posX := b.posX } ∧
      (w' = b.w ∨ w' = some b.minW ∨ ∃ m, b.maxW = .fin m ∧ w' = some m) := by
  obtain ⟨w1, _, hcase⟩ := minmax_reentry cbw dir b r h
  rcases hcase with ⟨_, _, e⟩ | ⟨m, hm, _, _, e⟩ | ⟨_, _, e⟩ | ⟨m, hm, _, _, e⟩
  · exact ⟨b.w, by rw [e], Or.inl rfl⟩
  · exact ⟨some m, e, Or.inr (Or.inr ⟨m, hm, rfl⟩)⟩
  · exact ⟨some b.minW, e, Or.inr (Or.inl rfl)⟩
  · exact ⟨some b.minW, e, Or.inr (Or.inl rfl)⟩

/-- (b)(c) **the width equation after min/max**: if one of the computed margins is `auto` and the final
width fits beside the paddings, borders and the specified margin, the equation holds for the final
used values. -/
theorem width_equation_minmax (cb : CB) (b r : ABox) (w : Rat)
    (h : blockLevelWidthMinMax cb b = .ok r) (hw : r.w = some w)
    (hauto : b.ml = none ∨ b.mr = none) (hfit : b.specTotal w ≤ cb.width) :
    outer? r = some cb.width := by
  obtain ⟨w', e, _⟩ := minmax_last_pass cb.width cb.direction b r h
  have hnot : ¬ OverC cb.width { b with w := w', posX := b.posX } := by
    rintro ⟨w'', hw'', hover⟩
    simp only at hw''
    have hk := (specified_kept cb.width cb.direction { b with w := w', posX := b.posX }).1 w'' hw''
    rw [← e, hw] at hk
    have : w = w'' := Option.some.inj hk
    subst this
    rcases hover with ⟨hl, hr⟩ | hgt
    · rcases hauto with h0 | h0
      · exact hl h0
      · exact hr h0
    · have : ABox.specTotal { b with w := w', posX := b.posX } w = b.specTotal w := rfl
      rw [this] at hgt
      exact absurd hgt (Rat.not_lt.mpr hfit)
  rw [e]
  exact (width_equation_partial cb.width cb.direction _ hnot).1

/-- (b)(f) **the start/end edge after min/max, every input, ltr and rtl** (full strength since the repair
of `rtl-minmax-shift-accumulates`, /repo 165e254): after the decorated `block_level_width` the margin-left
edge is at the start of the containing block in ltr (and for columns), the margin-right edge at its end
in rtl — whatever `min-width` / `max-width` do and however many passes run, because every pass starts
from the original `position_x`. -/
theorem edge_flush_minmax (cbw : Rat) (dir : Dir) (b r : ABox)
    (h : handleMinMaxWidth (fun b => .ok (blwCore cbw dir b)) b = .ok r) :
    EdgeFlush cbw dir b.posX r := by
  obtain ⟨w', e, _⟩ := minmax_last_pass cbw dir b r h
  rw [e]
  exact edge_flush cbw dir { b with w := w', posX := b.posX }

/-- The same for the function as called by the layout. -/
theorem edge_flush_blw_minmax (cb : CB) (b r : ABox) (h : blockLevelWidthMinMax cb b = .ok r) :
    EdgeFlush cb.width cb.direction b.posX r :=
  edge_flush_minmax cb.width cb.direction b r h

/-- (b)(f) `ltr` (and columns): special case of `edge_flush_minmax` kept under its former name. -/
theorem edge_flush_minmax_ltr (cbw : Rat) (dir : Dir) (b r : ABox)
    (h : handleMinMaxWidth (fun b => .ok (blwCore cbw dir b)) b = .ok r)
    (_hdir : dir = .ltr ∨ b.isColumn = true) :
    EdgeFlush cbw dir b.posX r :=
  edge_flush_minmax cbw dir b r h

/-- **Re-layout is idempotent** (what `_in_flow_layout` relies on since /repo 7b9d21e, where it restores
`child.position_x` before laying the child out a second time): running the decorated `block_level_width`
again on its own result, with the computed margins, the computed width and the original `position_x` put
back, gives the same result — in ltr and rtl, whatever min/max did. -/
theorem blw_minmax_relayout (cb : CB) (b r : ABox) (h : blockLevelWidthMinMax cb b = .ok r) :
    blockLevelWidthMinMax cb { r with ml := b.ml, mr := b.mr, w := b.w, posX := b.posX } = .ok r := by
  have hk : ({ r with ml := b.ml, mr := b.mr, w := b.w, posX := b.posX } : ABox) = b := by
    obtain ⟨w', e, _⟩ := minmax_last_pass cb.width cb.direction b r h
    obtain ⟨_, _, _, h1, h2, h3, h4, h5, h6, h7⟩ :=
      specified_kept cb.width cb.direction { b with w := w', posX := b.posX }
    rw [← e] at h1 h2 h3 h4 h5 h6 h7
    simp only at h1 h2 h3 h4 h5 h6 h7
    cases b
    simp only [ABox.mk.injEq, true_and]
    simp_all
  rw [hk]; exact h

/-- When no constraint fires the wrapper is the plain function. -/
theorem minmax_noop (cbw : Rat) (dir : Dir) (b r : ABox)
    (h : handleMinMaxWidth (fun b => .ok (blwCore cbw dir b)) b = .ok r)
    (hin : ∀ w1, (blwCore cbw dir b).w = some w1 → b.maxW.ltRat w1 = false ∧ ¬ w1 < b.minW) :
    r = blwCore cbw dir b := by
  obtain ⟨w1, hw1, hcase⟩ := minmax_reentry cbw dir b r h
  obtain ⟨hA, hB⟩ := hin w1 hw1
  rcases hcase with ⟨_, _, e⟩ | ⟨m, hm, hgt, _, _⟩ | ⟨_, hlt, _⟩ | ⟨m, hm, hgt, _, _⟩
  · exact e
  · rw [hm] at hA; simp [Ext.ltRat] at hA; exact absurd hgt hA
  · exact absurd hlt hB
  · rw [hm] at hA; simp [Ext.ltRat] at hA; exact absurd hgt hA

/-! ## (d) percentages: `percentage`, `resolve_percentages` -/

/-- (d) `percentage(v %, ref) = ref · v / 100`. -/
theorem percentage_pct (v r : Rat) :
    percentage (.pct v) (.fin r) = .ok (.val (.fin (r * v / 100))) := rfl

theorem percentage_px (x r : Ext) : percentage (.px x) r = .ok (.val x) := rfl
theorem percentage_auto (r : Ext) : percentage .auto r = .ok .auto := rfl
theorem percentage_none (r : Ext) : percentage .none r = .ok .none := rfl

/-- Any other unit reaches the `assert value.unit == '%'`. -/
theorem percentage_unit (u : String) (r : Ext) : ∃ e, percentage (.unit u) r = .error e := ⟨_, rfl⟩

/-- (d) a percentage of an infinite reference (`max-height: v%` in an auto-height containing block):
`inf` for `v > 0`; `0%` gives `nan` (`inf * 0`), which the computed-value step avoids by turning `0%`
into `0px` (`BlockTree.computeMax`). -/
theorem percentage_of_inf (v : Rat) :
    percentage (.pct v) .inf =
      .ok (.val (if v > 0 then .inf else if v < 0 then .ninf else .nan)) := by
  simp only [percentage, Ext.mulRat]
  split <;> (try split) <;> rfl

def lenToUVal : Len → UVal
  | none => .auto
  | some q => .val (.fin q)

/-- The finite specialisation used by `resolvePercentages` is `percentage`. -/
theorem percentageQ_spec (d : DimQ) (r : Rat) :
    percentage d.toDim (.fin r) = (percentageQ d r).map lenToUVal := by
  cases d <;> rfl

/-- The `max-*` specialisation used by `resolvePercentages` is `percentage`. -/
theorem percentageX_spec (d : DimX) (r : Ext) :
    percentage d.toDim r = (percentageX d r).map UVal.val := by
  cases d <;> rfl

theorem percentageQ_pct (v r : Rat) : percentageQ (.pct v) r = .ok (some (r * v / 100)) := rfl
theorem percentageQ_px (v r : Rat) : percentageQ (.px v) r = .ok (some v) := rfl
theorem percentageQ_auto (r : Rat) : percentageQ .auto r = .ok none := rfl

private theorem bind_eq_ok {α β} (a : Except BErr α) (f : α → Except BErr β) (r : β) :
    (a >>= f) = .ok r ↔ ∃ x, a = .ok x ∧ f x = .ok r := by
  cases a <;> simp [bind, Except.bind]

private theorem lenToRat_ok {site : String} {l : Len} {q : Rat} (h : lenToRat site l = .ok q) :
    l = some q := by
  cases l <;> simp [lenToRat] at h
  rw [h]

/-- What `resolve_percentages` computes, field by field: `vref` is the reference of the *vertical*
margins and paddings (the containing block **width**, except for page boxes where it is its height);
`(w0, n0, x0)` / `(h0, m0, y0)` are width / min / max before `adjust_box_sizing`. -/
structure Resolved (isPage : Bool) (s : Style) (cbW : Rat) (cbH : Len) (u : Used)
    (vref : Rat) (w0 : Len) (n0 : Rat) (x0 : Ext) (h0 : Len) (m0 : Rat) (y0 : Ext) : Prop where
  vref_eq : (isPage = false ∧ vref = cbW) ∨ (isPage = true ∧ cbH = some vref)
  marginLeft : percentageQ s.marginLeft cbW = .ok u.marginLeft
  marginRight : percentageQ s.marginRight cbW = .ok u.marginRight
  marginTop : percentageQ s.marginTop vref = .ok u.marginTop
  marginBottom : percentageQ s.marginBottom vref = .ok u.marginBottom
  paddingLeft : resolvePad s.paddingLeft cbW = .ok u.paddingLeft
  paddingRight : resolvePad s.paddingRight cbW = .ok u.paddingRight
  paddingTop : resolvePad s.paddingTop vref = .ok u.paddingTop
  paddingBottom : resolvePad s.paddingBottom vref = .ok u.paddingBottom
  borders : u.borderLeft = s.borderLeft ∧ u.borderRight = s.borderRight ∧
    u.borderTop = s.borderTop ∧ u.borderBottom = s.borderBottom
  width0 : percentageQ s.width cbW = .ok w0
  minWidth0 : resolveMin s.minWidth cbW = .ok n0
  maxWidth0 : percentageX s.maxWidth (.fin cbW) = .ok x0
  widthAdjusted : adjustBoxSizing s.boxSizing u.paddingLeft u.paddingRight u.borderLeft u.borderRight
    w0 (some n0) x0 = .ok (u.width, some u.minWidth, u.maxWidth)
  height0 : match cbH with
    | none => (match s.height with
        | .auto => h0 = none | .pct _ => h0 = none | .px v => h0 = some v | .unit => False) ∧
        resolveMin s.minHeight 0 = .ok m0 ∧ percentageX s.maxHeight .inf = .ok y0
    | some h => percentageQ s.height h = .ok h0 ∧ resolveMin s.minHeight h = .ok m0 ∧
        percentageX s.maxHeight (.fin h) = .ok y0
  heightAdjusted : adjustBoxSizing s.boxSizing u.paddingTop u.paddingBottom u.borderTop u.borderBottom
    h0 (some m0) y0 = .ok (u.height, some u.minHeight, u.maxHeight)

/-- (d)(e) the complete input/output relation of `resolve_percentages`. -/
theorem resolve_spec (isPage : Bool) (s : Style) (cbW : Rat) (cbH : Len) (u : Used)
    (h : resolvePercentages isPage s cbW cbH = .ok u) :
    ∃ vref w0 n0 x0 h0 m0 y0, Resolved isPage s cbW cbH u vref w0 n0 x0 h0 m0 y0 := by
  unfold resolvePercentages at h
  simp only [bind_eq_ok] at h
  obtain ⟨vref, hv, ml, hml, mr, hmr, mt, hmt, mb, hmb, pl, hpl, pr, hpr, pt, hpt, pb, hpb, w0, hw0,
    n0, hn0, x0, hx0, ⟨h0, m0, y0⟩, hh, ⟨w', nW, xW⟩, haw, minW, hminW, ⟨h', nH, xH⟩, hah, minH, hminH,
    hu⟩ := h
  simp only [pure, Except.pure, Except.ok.injEq] at hu
  subst hu
  have e1 := lenToRat_ok hminW
  have e2 := lenToRat_ok hminH
  simp only at e1 e2
  subst e1 e2
  refine ⟨vref, w0, n0, x0, h0, m0, y0, {
    vref_eq := ?_, marginLeft := hml, marginRight := hmr, marginTop := hmt,
    marginBottom := hmb, paddingLeft := hpl, paddingRight := hpr, paddingTop := hpt,
    paddingBottom := hpb, borders := ⟨rfl, rfl, rfl, rfl⟩,
    width0 := hw0, minWidth0 := hn0, maxWidth0 := hx0, widthAdjusted := haw,
    height0 := ?_, heightAdjusted := hah }⟩
  · cases isPage with
    | false => simp [pure, Except.pure] at hv; exact Or.inl ⟨rfl, hv.symm⟩
    | true =>
      cases cbH with
      | none => simp at hv
      | some hh' => simp [pure, Except.pure] at hv; exact Or.inr ⟨rfl, by rw [hv]⟩
  · cases cbH with
    | none =>
      simp only [bind_eq_ok] at hh
      obtain ⟨a, ha, b, hb, c, hc, hp⟩ := hh
      simp only [pure, Except.pure, Except.ok.injEq, Prod.mk.injEq] at hp
      obtain ⟨rfl, rfl, rfl⟩ := hp
      refine ⟨?_, hb, hc⟩
      cases hs : s.height <;> simp [hs, pure, Except.pure] at ha ⊢ <;> exact ha.symm
    | some hh' =>
      simp only [bind_eq_ok] at hh
      obtain ⟨a, ha, b, hb, c, hc, hp⟩ := hh
      simp only [pure, Except.pure, Except.ok.injEq, Prod.mk.injEq] at hp
      obtain ⟨rfl, rfl, rfl⟩ := hp
      exact ⟨ha, hb, hc⟩

/-- (d) horizontal margins and paddings given in `%` resolve against the containing block **width**. -/
theorem percent_margins_against_width (isPage : Bool) (s : Style) (cbW : Rat) (cbH : Len) (u : Used)
    (h : resolvePercentages isPage s cbW cbH = .ok u) :
    (∀ v, s.marginLeft = .pct v → u.marginLeft = some (cbW * v / 100)) ∧
    (∀ v, s.marginRight = .pct v → u.marginRight = some (cbW * v / 100)) ∧
    (∀ v, s.paddingLeft = .pct v → u.paddingLeft = cbW * v / 100) ∧
    (∀ v, s.paddingRight = .pct v → u.paddingRight = cbW * v / 100) ∧
    (∀ v, s.marginLeft = .px v → u.marginLeft = some v) ∧
    (∀ v, s.marginRight = .px v → u.marginRight = some v) ∧
    (s.marginLeft = .auto → u.marginLeft = none) ∧ (s.marginRight = .auto → u.marginRight = none) := by
  obtain ⟨vref, w0, n0, x0, h0, m0, y0, r⟩ := resolve_spec isPage s cbW cbH u h
  have hml := r.marginLeft
  have hmr := r.marginRight
  have hpl := r.paddingLeft
  have hpr := r.paddingRight
  refine ⟨?_, ?_, ?_, ?_, ?_, ?_, ?_, ?_⟩ <;> intro v <;> (try intro hv) <;>
    simp_all [percentageQ, resolvePad, bind, Except.bind, pure, Except.pure] <;> grind

/-- (d) for a box that is not a page box the **vertical** margins and paddings in `%` also resolve
against the containing block *width* (CSS 2.1 §8.3/§8.4); for a page box, against its height. -/
theorem percent_vertical_reference (isPage : Bool) (s : Style) (cbW : Rat) (cbH : Len) (u : Used)
    (h : resolvePercentages isPage s cbW cbH = .ok u) :
    ∃ vref, ((isPage = false ∧ vref = cbW) ∨ (isPage = true ∧ cbH = some vref)) ∧
      (∀ v, s.marginTop = .pct v → u.marginTop = some (vref * v / 100)) ∧
      (∀ v, s.marginBottom = .pct v → u.marginBottom = some (vref * v / 100)) ∧
      (∀ v, s.paddingTop = .pct v → u.paddingTop = vref * v / 100) ∧
      (∀ v, s.paddingBottom = .pct v → u.paddingBottom = vref * v / 100) := by
  obtain ⟨vref, w0, n0, x0, h0, m0, y0, r⟩ := resolve_spec isPage s cbW cbH u h
  have hmt := r.marginTop
  have hmb := r.marginBottom
  have hpt := r.paddingTop
  have hpb := r.paddingBottom
  refine ⟨vref, r.vref_eq, ?_, ?_, ?_, ?_⟩ <;> intro v hv <;>
    simp_all [percentageQ, resolvePad, bind, Except.bind, pure, Except.pure] <;> grind

/-! ## (e) box-sizing: `adjust_box_sizing` -/

/-- `max(0, x - delta)` when `delta > 0`, else `x` (what `adjust_box_sizing` does to size, min and max). -/
def shrink (delta x : Rat) : Rat := if delta > 0 then max 0 (x - delta) else x

/-- The complete input/output relation of `adjust_box_sizing`: size, minimum and maximum are shifted
by the **same** `delta` (the extras of the declared box), never below 0; `auto` and `inf` stay. -/
theorem box_sizing_spec (bs : BoxSizing) (pa pb ba bb : Rat) (size minS : Len) (maxS : Ext)
    (r : Len × Len × Ext) (h : adjustBoxSizing bs pa pb ba bb size minS maxS = .ok r) :
    ∃ delta, boxSizingDelta bs pa pb ba bb = .ok delta ∧
      r.1 = size.map (shrink delta) ∧ r.2.1 = minS.map (shrink delta) ∧
      (∀ x, maxS = .fin x → r.2.2 = .fin (shrink delta x)) ∧ (maxS = .inf → r.2.2 = .inf) := by
  unfold adjustBoxSizing at h
  simp only [bind_eq_ok] at h
  obtain ⟨delta, hd, h⟩ := h
  refine ⟨delta, hd, ?_⟩
  by_cases hpos : delta > 0
  · rw [if_pos hpos] at h
    simp only [pure, Except.pure, Except.ok.injEq] at h
    subst h
    refine ⟨?_, ?_, ?_, ?_⟩
    · cases size <;> simp [shrink, hpos]
    · cases minS <;> simp [shrink, hpos]
    · intro x hx; subst hx
      simp only [Ext.subRat, Ext.pyMax0, shrink, hpos, if_true]
      split <;> congr 1 <;> grind
    · intro hx; subst hx; rfl
  · rw [if_neg hpos] at h
    simp only [pure, Except.pure, Except.ok.injEq] at h
    subst h
    refine ⟨?_, ?_, ?_, ?_⟩
    · cases size <;> simp [shrink, hpos]
    · cases minS <;> simp [shrink, hpos]
    · intro x hx; simp [shrink, hpos, hx]
    · intro hx; exact hx

/-- (e) **box-sizing only changes which box the declared size measures**: with non-negative paddings
and borders and a declared size `W`, the content size `c` satisfies
`border-box`: `c + paddings + borders = W` (when `W` can hold them), `padding-box`: `c + paddings = W`,
`content-box`: `c = W`; in every case `c ≥ 0` when `W ≥ 0` (the `max(0, …)`). -/
theorem box_sizing (bs : BoxSizing) (pa pb ba bb W : Rat) (minS : Len) (maxS : Ext)
    (r : Len × Len × Ext) (h : adjustBoxSizing bs pa pb ba bb (some W) minS maxS = .ok r)
    (hpa : 0 ≤ pa) (hpb : 0 ≤ pb) (hba : 0 ≤ ba) (hbb : 0 ≤ bb) :
    ∃ c, r.1 = some c ∧ (0 ≤ W → 0 ≤ c) ∧ c ≤ max W 0 ∧
      (match bs with
       | .borderBox => pa + pb + ba + bb ≤ W → c + pa + pb + ba + bb = W
       | .paddingBox => pa + pb ≤ W → c + pa + pb = W
       | .contentBox => c = W
       | .other => False) := by
  obtain ⟨delta, hd, hs, _, _, _⟩ := box_sizing_spec bs pa pb ba bb (some W) minS maxS r h
  refine ⟨shrink delta W, by simpa using hs, ?_⟩
  cases bs <;> simp only [boxSizingDelta, Except.ok.injEq] at hd
  · subst hd; refine ⟨?_, ?_, ?_⟩ <;> unfold shrink <;> (try intro _) <;> split <;> grind
  · subst hd; refine ⟨?_, ?_, ?_⟩ <;> unfold shrink <;> (try intro _) <;> split <;> grind
  · subst hd; refine ⟨?_, ?_, ?_⟩ <;> unfold shrink <;> split <;> grind
  · exact absurd hd (by simp)

example : adjustBoxSizing .borderBox 5 5 1 1 (some 100) (some 20) (.fin 50) =
    .ok (some 88, some 8, .fin 38) := okEq_iff.mp (by decide +kernel)

/-- (e) through `resolve_percentages`: `box-sizing: border-box; width: W px` with room for the extras
gives used values with `width + paddings + borders = W`. -/
theorem resolve_border_box_width (isPage : Bool) (s : Style) (cbW : Rat) (cbH : Len) (u : Used) (W : Rat)
    (h : resolvePercentages isPage s cbW cbH = .ok u) (hbs : s.boxSizing = .borderBox)
    (hw : s.width = .px W)
    (hpos : 0 ≤ u.paddingLeft ∧ 0 ≤ u.paddingRight ∧ 0 ≤ u.borderLeft ∧ 0 ≤ u.borderRight)
    (hroom : u.paddingLeft + u.paddingRight + u.borderLeft + u.borderRight ≤ W) :
    ∃ c, u.width = some c ∧ 0 ≤ c ∧
      c + u.paddingLeft + u.paddingRight + u.borderLeft + u.borderRight = W := by
  obtain ⟨vref, w0, n0, x0, h0, m0, y0, r⟩ := resolve_spec isPage s cbW cbH u h
  have hw0 := r.width0
  rw [hw, percentageQ_px] at hw0
  simp only [Except.ok.injEq] at hw0
  subst hw0
  have ha := r.widthAdjusted
  rw [hbs] at ha
  obtain ⟨c, hc, hnn, _, heq⟩ := box_sizing .borderBox _ _ _ _ W _ _ _ ha hpos.1 hpos.2.1 hpos.2.2.1 hpos.2.2.2
  simp only at hc heq
  have hW : 0 ≤ W := by grind
  exact ⟨c, hc, hnn hW, heq hroom⟩

/-- (a)(c) the used `min-width` is non-negative when the computed one is (auto, a non-negative length,
or a non-negative percentage of a non-negative width): with `blw_minmax` this gives `width ≥ 0`. -/
theorem resolve_min_nonneg (isPage : Bool) (s : Style) (cbW : Rat) (cbH : Len) (u : Used)
    (h : resolvePercentages isPage s cbW cbH = .ok u) (hcb : 0 ≤ cbW)
    (hmin : match s.minWidth with | .auto => True | .px v => 0 ≤ v | .pct v => 0 ≤ v | .unit => True) :
    0 ≤ u.minWidth := by
  obtain ⟨vref, w0, n0, x0, h0, m0, y0, r⟩ := resolve_spec isPage s cbW cbH u h
  have hn0 : 0 ≤ n0 := by
    have := r.minWidth0
    cases hs : s.minWidth <;> simp [hs, resolveMin, percentageQ, bind, Except.bind, pure, Except.pure] at this hmin
    · rw [← this]; exact Rat.le_refl
    · rw [← this]; exact hmin
    · rw [← this]
      have := Rat.mul_nonneg hcb hmin
      grind
  obtain ⟨delta, _, _, hm, _, _⟩ := box_sizing_spec _ _ _ _ _ _ _ _ _ r.widthAdjusted
  simp only [Option.map_some, Option.some.injEq] at hm
  rw [hm]
  unfold shrink
  split <;> grind

/-- (d) **auto-height containing block**: `height: auto | %` stays `auto`, `min-height: %` is 0 and
`max-height: v%` (`v > 0`) is unbounded. -/
theorem resolve_auto_cb_height (isPage : Bool) (s : Style) (cbW : Rat) (u : Used)
    (h : resolvePercentages isPage s cbW none = .ok u) :
    ((s.height = .auto ∨ ∃ v, s.height = .pct v) → u.height = none) ∧
    ((∃ v, s.minHeight = .pct v) → u.minHeight = 0) ∧
    (∀ v, s.maxHeight = .pct v → v > 0 → u.maxHeight = .inf) ∧
    (∀ v, s.height = .px v → ∃ c, u.height = some c) := by
  obtain ⟨vref, w0, n0, x0, h0, m0, y0, r⟩ := resolve_spec isPage s cbW none u h
  obtain ⟨hh0, hm0, hy0⟩ := r.height0
  obtain ⟨delta, _, hs, hm, _, hinf⟩ := box_sizing_spec _ _ _ _ _ _ _ _ _ r.heightAdjusted
  simp only [Option.map_some, Option.some.injEq] at hm hs
  refine ⟨?_, ?_, ?_, ?_⟩
  · rintro (ha | ⟨v, hv⟩)
    · rw [ha] at hh0; simp only at hh0; rw [hs, hh0]; rfl
    · rw [hv] at hh0; simp only at hh0; rw [hs, hh0]; rfl
  · rintro ⟨v, hv⟩
    rw [hv] at hm0
    simp [resolveMin, percentageQ, bind, Except.bind, pure, Except.pure, Rat.zero_mul] at hm0
    rw [hm, ← hm0]
    unfold shrink; split <;> grind
  · intro v hv hpos
    rw [hv] at hy0
    simp only [percentageX, Ext.mulRat, hpos, if_true, Ext.div100, Except.ok.injEq] at hy0
    exact hinf hy0.symm
  · intro v hv
    rw [hv] at hh0; simp only at hh0
    rw [hs, hh0]; exact ⟨_, rfl⟩

/-! ## the page box: `page_width_or_height` under the two wrappers -/

/-- (b) the same equation for the page box (`page_width` / `page_height`): unless all three of margin,
size, margin are specified, they fill the device size. -/
theorem page_equation (cbSize : Rat) (b : ABox) (h : b.w = none ∨ b.ml = none ∨ b.mr = none) :
    outer? (pageWidthOrHeight cbSize b) = some cbSize := by
  rcases b with ⟨ml, mr, pl, pr, bl, br, w, minW, maxW, posX, col⟩
  cases ml <;> cases mr <;> cases w <;> simp [pageWidthOrHeight, outer?] at h ⊢ <;> grind

theorem keepsSize_page (cbSize : Rat) : KeepsSize (fun b => .ok (pageWidthOrHeight cbSize b)) where
  size := by
    intro b b' w h hw
    simp only [Except.ok.injEq] at h; subst h
    rcases b with ⟨ml, mr, pl, pr, bl, br, w', minW, maxW, posX, col⟩
    simp only at hw; subst hw
    cases ml <;> cases mr <;> simp [pageWidthOrHeight]
  bounds := by
    intro b b' h
    simp only [Except.ok.injEq] at h; subst h
    rcases b with ⟨ml, mr, pl, pr, bl, br, w', minW, maxW, posX, col⟩
    cases ml <;> cases mr <;> cases w' <;> simp [pageWidthOrHeight]

/-- (c) page width and page height respect `min-*` / `max-*` (the second one exercises
`handle_min_max_height`). -/
theorem page_minmax (cbSize : Rat) (b r : ABox) :
    (pageWidth cbSize b = .ok r ∨ pageHeight cbSize b = .ok r) →
    ∃ w, r.w = some w ∧ b.minW ≤ w ∧ (∀ m, b.maxW = .fin m → b.minW ≤ m → w ≤ m) := by
  rintro (h | h)
  · obtain ⟨w, h1, h2, h3, _⟩ := minmax_width _ (keepsSize_page cbSize) b r h
    exact ⟨w, h1, h2, h3⟩
  · obtain ⟨w, h1, h2, h3, _⟩ := minmax_height _ (keepsSize_page cbSize) b r h
    exact ⟨w, h1, h2, h3⟩

example : pageHeight 100 { exBox with w := none, ml := some 10, mr := none, maxW := .fin 40 } =
    .ok { exBox with w := some 40, ml := some 10, mr := some 40, maxW := .fin 40 } :=
  okEq_iff.mp (by decide +kernel)

/-! ## (f) children inside the parent's content box -/

private theorem not_overC_of_fit (cbw : Rat) (b : ABox) (w' : Len) (x' : Rat)
    (hauto : b.ml = none ∨ b.mr = none) (hfit : ∀ w, w' = some w → b.specTotal w ≤ cbw) :
    ¬ OverC cbw { b with w := w', posX := x' } := by
  rintro ⟨w, hw, hover⟩
  simp only at hw
  rcases hover with ⟨hl, hr⟩ | hgt
  · rcases hauto with h0 | h0
    · exact hl h0
    · exact hr h0
  · have : ABox.specTotal { b with w := w', posX := x' } w = b.specTotal w := rfl
    rw [this] at hgt
    exact absurd hgt (Rat.not_lt.mpr (hfit w hw))

/-- (b)(c)(f) when one computed margin is `auto` and each width the wrapper may try (the computed one,
`min-width`, `max-width`) fits, no pass is over-constrained: the final values fill the containing block
and `position_x` is untouched, in `ltr` and in `rtl`. -/
theorem minmax_fits (cbw : Rat) (dir : Dir) (b r : ABox)
    (h : handleMinMaxWidth (fun b => .ok (blwCore cbw dir b)) b = .ok r)
    (hauto : b.ml = none ∨ b.mr = none)
    (hfit : ∀ w, (b.w = some w ∨ w = b.minW ∨ b.maxW = .fin w) → b.specTotal w ≤ cbw) :
    outer? r = some cbw ∧ r.posX = b.posX := by
  obtain ⟨w1, _, hcase⟩ := minmax_reentry cbw dir b r h
  have h1 : ¬ OverC cbw b := by
    have := not_overC_of_fit cbw b b.w b.posX hauto (fun w hw => hfit w (Or.inl hw))
    exact this
  rcases hcase with ⟨_, _, e⟩ | ⟨m, hm, _, _, e⟩ | ⟨_, _, e⟩ | ⟨m, hm, _, _, e⟩
  · rw [e]; exact width_equation_partial cbw dir b h1
  · have hn := not_overC_of_fit cbw b (some m) b.posX hauto
      (fun w hw => hfit w (Or.inr (Or.inr (by rw [hm, Option.some.inj hw]))))
    rw [e]; exact width_equation_partial cbw dir _ hn
  · have hn := not_overC_of_fit cbw b (some b.minW) b.posX hauto
      (fun w hw => hfit w (Or.inr (Or.inl (Option.some.inj hw).symm)))
    rw [e]; exact width_equation_partial cbw dir _ hn
  · have hn := not_overC_of_fit cbw b (some b.minW) b.posX hauto
      (fun w hw => hfit w (Or.inr (Or.inl (Option.some.inj hw).symm)))
    rw [e]; exact width_equation_partial cbw dir _ hn

/-- (a) without over-constraint, non-negative specified margins give non-negative used margins (an
`auto` margin receives the non-negative remaining space). -/
theorem margins_nonneg (cbw : Rat) (dir : Dir) (b : ABox) (h : ¬ OverC cbw b)
    (hl : ∀ m, b.ml = some m → 0 ≤ m) (hr : ∀ m, b.mr = some m → 0 ≤ m) :
    ∃ l r, (blwCore cbw dir b).ml = some l ∧ (blwCore cbw dir b).mr = some r ∧ 0 ≤ l ∧ 0 ≤ r := by
  cases hw : b.w with
  | none =>
    rw [blwCore_auto cbw dir b hw]
    refine ⟨_, _, rfl, rfl, ?_, ?_⟩
    · cases hm : b.ml with
      | none => simp [orZero]
      | some m => simpa [orZero] using hl m hm
    · cases hm : b.mr with
      | none => simp [orZero]
      | some m => simpa [orZero] using hr m hm
  | some w =>
    obtain ⟨hauto, hfit⟩ := not_overC_some hw h
    rw [blwCore_fit cbw dir b w hw hfit hauto]
    rcases b with ⟨ml, mr, pl, pr, bl, br, w', minW, maxW, posX, col⟩
    simp only at hw; subst hw
    cases ml with
    | none =>
      cases mr with
      | none =>
        simp only [ABox.specTotal, ABox.pb, orZero] at hfit ⊢
        exact ⟨_, _, rfl, rfl, by grind, by grind⟩
      | some r =>
        have := hr r rfl
        simp only [ABox.specTotal, ABox.pb, orZero] at hfit ⊢
        exact ⟨_, _, rfl, rfl, by grind, this⟩
    | some l =>
      cases mr with
      | none =>
        have := hl l rfl
        simp only [ABox.specTotal, ABox.pb, orZero] at hfit ⊢
        exact ⟨_, _, rfl, rfl, this, by grind⟩
      | some r => simp at hauto

/-- (f) **in-flow children lie inside the parent's content box horizontally** (tree model,
`layoutBox` = `resolve_percentages` + decorated `block_level_width` at `position_x = x`, the parent's
content edge, in a parent of content width `pw`): when one computed margin is `auto`, the specified one
is non-negative and every width the wrapper may try fits, the child's margin box is exactly the
parent's content box and its border box lies inside it — in `ltr` and in `rtl`. -/
theorem child_inside_parent (pw : Rat) (dir : Dir) (cbH : Len) (x fs : Rat) (s : NStyle) (g : Geo) (u : Used)
    (h : layoutBox (.box pw dir) cbH x fs s = .ok (g, u))
    (hauto : u.marginLeft = none ∨ u.marginRight = none)
    (hnonneg : (∀ m, u.marginLeft = some m → 0 ≤ m) ∧ (∀ m, u.marginRight = some m → 0 ≤ m))
    (hfit : ∀ w, (u.width = some w ∨ w = u.minWidth ∨ u.maxWidth = .fin w) →
      (aboxOfUsed u x).specTotal w ≤ pw) :
    g.x = x ∧ g.ml + g.bl + g.pl + g.w + g.pr + g.br + g.mr = pw ∧
    x ≤ g.x + g.ml ∧ g.x + g.ml + g.bl + g.pl + g.w + g.pr + g.br ≤ x + pw := by
  unfold layoutBox at h
  simp only [bind_eq_ok] at h
  obtain ⟨style, _, u', hu, r, hr, g', hg, hp⟩ := h
  simp only [pure, Except.pure, Except.ok.injEq, Prod.mk.injEq] at hp
  obtain ⟨rfl, rfl⟩ := hp
  unfold geoOf at hg
  simp only [bind_eq_ok] at hg
  obtain ⟨ml, hml, mr, hmr, w, hw, hg⟩ := hg
  simp only [pure, Except.pure, Except.ok.injEq] at hg
  subst hg
  have eml := lenToRat_ok hml
  have emr := lenToRat_ok hmr
  have ew := lenToRat_ok hw
  obtain ⟨ho, hx⟩ := minmax_fits pw dir (aboxOfUsed u' x) r hr hauto hfit
  have hx' : r.posX = x := hx
  -- the last pass is not over-constrained: its margins are non-negative
  obtain ⟨w', e, hw'⟩ := minmax_last_pass pw dir (aboxOfUsed u' x) r hr
  have hn : ¬ OverC pw { aboxOfUsed u' x with w := w', posX := (aboxOfUsed u' x).posX } := by
    apply not_overC_of_fit pw (aboxOfUsed u' x) w' _ hauto
    intro w0 hw0
    apply hfit
    rcases hw' with h1 | h1 | ⟨m, hm, h1⟩
    · left; rw [← hw0, h1]; rfl
    · right; left; rw [h1] at hw0; exact (Option.some.inj hw0).symm
    · right; right; rw [h1] at hw0; rw [← Option.some.inj hw0]; exact hm
  obtain ⟨l, r', hl, hr', hl0, hr0⟩ := margins_nonneg pw dir _ hn hnonneg.1 hnonneg.2
  rw [← e, eml] at hl
  rw [← e, emr] at hr'
  have e1 : ml = l := Option.some.inj hl
  have e2 : mr = r' := Option.some.inj hr'
  subst e1 e2
  simp only [outer?, eml, emr, ew, Option.some.injEq] at ho
  refine ⟨hx', ho, ?_, ?_⟩ <;> simp only <;> grind

example : layoutBox (.box 200 .rtl) none 10 16
    { ml := .auto, mr := .px 20, mt := .px 0, mb := .px 0, pl := .px 5, pr := .px 5, pt := .px 0, pb := .px 0,
      bl := .px 1, br := .px 1, bt := .px 0, bb := .px 0, width := .pct 50, height := .auto, minW := .auto,
      minH := .auto, maxW := .none, maxH := .none, boxSizing := .contentBox, dir := none, fontSize := none }
    = .ok ({ x := 10, ml := 68, mr := 20, w := 100, pl := 5, pr := 5, bl := 1, br := 1, mt := 0, mb := 0,
             pt := 0, pb := 0, bt := 0, bb := 0, h := none },
           { marginLeft := none, marginRight := some 20, marginTop := some 0, marginBottom := some 0,
             paddingLeft := 5, paddingRight := 5, paddingTop := 0, paddingBottom := 0, width := some 100,
             height := none, minWidth := 0, minHeight := 0, maxWidth := .inf, maxHeight := .inf,
             borderLeft := 1, borderRight := 1, borderTop := 0, borderBottom := 0 }) :=
  okEq_iff.mp (by decide +kernel)

/-! ## (a)(f)(g) the geometry helpers of `boxes.Box` and uniform translation -/

open Wp.BoxEdges in
/-- `margin_width()` is the left-hand side of the width equation. -/
theorem margin_width_eq (b : EBox) :
    b.marginWidth = b.ml + b.bl + b.pl + b.w + b.pr + b.br + b.mr ∧
    b.marginHeight = b.mt + b.bt + b.pt + b.h + b.pb + b.bb + b.mb := by
  simp only [EBox.marginWidth, EBox.borderWidth, EBox.paddingWidth, EBox.marginHeight, EBox.borderHeight,
    EBox.paddingHeight]
  constructor <;> grind

open Wp.BoxEdges in
/-- (a)(f) with non-negative margins, borders and paddings the four boxes are nested horizontally:
margin box ⊇ border box ⊇ padding box ⊇ content box (and the same vertically). -/
theorem boxes_nested (b : EBox) (hm : 0 ≤ b.ml ∧ 0 ≤ b.mr ∧ 0 ≤ b.mt ∧ 0 ≤ b.mb)
    (hb : 0 ≤ b.bl ∧ 0 ≤ b.br ∧ 0 ≤ b.bt ∧ 0 ≤ b.bb) (hp : 0 ≤ b.pl ∧ 0 ≤ b.pr ∧ 0 ≤ b.pt ∧ 0 ≤ b.pb) :
    (b.x ≤ b.borderBoxX ∧ b.borderBoxX ≤ b.paddingBoxX ∧ b.paddingBoxX ≤ b.contentBoxX ∧
     b.contentBoxX + b.w ≤ b.paddingBoxX + b.paddingWidth ∧
     b.paddingBoxX + b.paddingWidth ≤ b.borderBoxX + b.borderWidth ∧
     b.borderBoxX + b.borderWidth ≤ b.x + b.marginWidth) ∧
    (b.y ≤ b.borderBoxY ∧ b.borderBoxY ≤ b.paddingBoxY ∧ b.paddingBoxY ≤ b.contentBoxY ∧
     b.contentBoxY + b.h ≤ b.paddingBoxY + b.paddingHeight ∧
     b.paddingBoxY + b.paddingHeight ≤ b.borderBoxY + b.borderHeight ∧
     b.borderBoxY + b.borderHeight ≤ b.y + b.marginHeight) := by
  simp only [EBox.marginWidth, EBox.borderWidth, EBox.paddingWidth, EBox.marginHeight, EBox.borderHeight,
    EBox.paddingHeight, EBox.contentBoxX, EBox.paddingBoxX, EBox.borderBoxX, EBox.contentBoxY,
    EBox.paddingBoxY, EBox.borderBoxY]
  refine ⟨⟨?_, ?_, ?_, ?_, ?_, ?_⟩, ⟨?_, ?_, ?_, ?_, ?_, ?_⟩⟩ <;> grind

/-- The content edge used by the tree model is `content_box_x()`. -/
theorem geo_contentX (g : Geo) (y h : Rat) :
    g.contentX = (BoxEdges.EBox.contentBoxX
      { x := g.x, y := y, w := g.w, h := h, ml := g.ml, mr := g.mr, mt := g.mt, mb := g.mb, pl := g.pl,
        pr := g.pr, pt := g.pt, pb := g.pb, bl := g.bl, br := g.br, bt := g.bt, bb := g.bb }) := rfl

open Wp.BoxEdges in
mutual
/-- `translate(0, 0)` returns without touching anything. -/
theorem translate_zero (ig : Bool) : ∀ t : ETree, translate 0 0 ig t = t
  | .mk b f kids => by simp [translate]
end

open Wp.BoxEdges in
mutual
/-- (g) **uniform translation**: `translate(dx, dy)` (floats not ignored) moves every box of the subtree by
exactly `(dx, dy)`: relative positions, hence every distance the property speaks about, are unchanged. -/
theorem translate_positions (dx dy : Rat) : ∀ t : ETree,
    positions (translate dx dy false t) = (positions t).map (fun p => (p.1 + dx, p.2 + dy))
  | .mk b f kids => by
    by_cases h0 : dx = 0 ∧ dy = 0
    · obtain ⟨rfl, rfl⟩ := h0
      rw [translate_zero]
      have : (fun p : Rat × Rat => (p.1 + 0, p.2 + 0)) = id := by
        funext p; simp [Rat.add_zero]
      rw [this, List.map_id]
    · simp only [translate, h0, if_false, positions, List.map_cons]
      rw [translateKids_positions dx dy kids]
theorem translateKids_positions (dx dy : Rat) : ∀ ts : List ETree,
    positionsKids (translateKids dx dy false ts) = (positionsKids ts).map (fun p => (p.1 + dx, p.2 + dy))
  | [] => by simp [translateKids, positionsKids]
  | .mk b f kids :: rest => by
    simp only [translateKids, Bool.false_and, Bool.false_eq_true, if_false, positionsKids, List.map_append]
    rw [translate_positions dx dy (.mk b f kids), translateKids_positions dx dy rest]
end

/-! ## non-vacuity: concrete inputs satisfying the hypotheses used above -/

/-- `width: 50px; margin: 0` in 100px: over-constrained (hypothesis of `overconstrained_geometry`). -/
example : OverC 100 { exBox with ml := some 0, mr := some 0 } :=
  ⟨50, rfl, Or.inl ⟨by simp, by simp⟩⟩

/-- An over-wide box with an `auto` margin is over-constrained too. -/
example : OverC 40 exBox := ⟨50, rfl, Or.inr (by simp [ABox.specTotal, ABox.pb, orZero, exBox]; decide +kernel)⟩

/-- Hypotheses of `edge_flush_minmax_partial` in `rtl`, with a constraint that fires and a last pass
that is over-constrained: `width: auto; margin: 0; max-width: 60px` in 101px.  First pass: width 91;
second pass from `max-width`: shift `101 − 70 = 31`, the margin-right edge is at 101. -/
example :
    let b : ABox := { exBox with w := none, ml := some 0, mr := some 0, maxW := .fin 60 }
    ¬ OverC 101 b ∧ (∀ m, b.maxW = .fin m → b.minW ≤ m) ∧
    handleMinMaxWidth (fun b => .ok (blwCore 101 .rtl b)) b = .ok { b with w := some 60, posX := 31 } := by
  refine ⟨?_, ?_, okEq_iff.mp (by decide +kernel)⟩
  · rintro ⟨w, hw, _⟩; simp [exBox] at hw
  · intro m hm
    simp only [exBox, Ext.fin.injEq] at hm
    subst hm; decide +kernel

/-- Hypotheses of `minmax_fits` / `child_inside_parent`: one `auto` margin, everything fits. -/
example :
    let b : ABox := { exBox with mr := some 3, minW := 20, maxW := .fin 80 }
    (b.ml = none ∨ b.mr = none) ∧
    (∀ w, (b.w = some w ∨ w = b.minW ∨ b.maxW = .fin w) → b.specTotal w ≤ 101) := by
  refine ⟨Or.inl rfl, ?_⟩
  intro w hw
  simp only [exBox, Option.some.injEq, Ext.fin.injEq] at hw
  rcases hw with h | h | h <;> subst h <;> simp [ABox.specTotal, ABox.pb, orZero, exBox] <;> decide +kernel

/-- A concrete `resolve_percentages`: `margin: 10% auto; padding: 5%; width: 50%; height: 50%;
min-height: 10%; max-height: 40%; box-sizing: border-box` in a 200px wide, auto-height containing block. -/
example : resolvePercentages false
    { marginLeft := .auto, marginRight := .auto, marginTop := .pct 10, marginBottom := .pct 10,
      paddingLeft := .pct 5, paddingRight := .pct 5, paddingTop := .pct 5, paddingBottom := .pct 5,
      width := .pct 50, height := .pct 50, minWidth := .auto, minHeight := .pct 10, maxWidth := .px .inf,
      maxHeight := .pct 40, borderLeft := 1, borderRight := 1, borderTop := 1, borderBottom := 1,
      boxSizing := .borderBox } 200 none =
    .ok { marginLeft := none, marginRight := none, marginTop := some 20, marginBottom := some 20,
          paddingLeft := 10, paddingRight := 10, paddingTop := 10, paddingBottom := 10,
          width := some 78, height := none, minWidth := 0, minHeight := 0, maxWidth := .inf,
          maxHeight := .inf, borderLeft := 1, borderRight := 1, borderTop := 1, borderBottom := 1 } :=
  okEq_iff.mp (by decide +kernel)

/-- A box with every used value 0. -/
def zeroBox : BoxEdges.EBox :=
  { x := 0, y := 0, w := 0, h := 0, ml := 0, mr := 0, mt := 0, mb := 0,
    pl := 0, pr := 0, pt := 0, pb := 0, bl := 0, br := 0, bt := 0, bb := 0 }

/-- `translate` with floats ignored leaves a floated child (and its subtree) in place. -/
example :
    BoxEdges.positions (BoxEdges.translate 5 7 true
      (.mk zeroBox false [.mk { zeroBox with x := 1 } true [.mk { zeroBox with x := 2 } false []],
                          .mk { zeroBox with x := 3 } false []]))
      = [(5, 7), (1, 0), (2, 0), (8, 7)] := by decide +kernel

end Wp.C05
