/-
C15 — the counter section of `make_page` is total: `C15.counter_section_total`.
Lifts `C15.step3_total` (Props/C15Pages.lean) through `lookupBody`, `eventStep`, the loop over
`page.descendants()` and `cache_target_page_counters`, with the invariant "every anchor a `CounterLookupItem`
misses has its `TargetLookupItem`" (which `lookup_target` establishes: it creates the item before recording
the missing target counter).
-/
import WpModel.Props.C15Pages

namespace Wp.C15
open Wp.PageCounters

/-- Every target named by a `missing_target_counters` dict exists in `target_lookup_items`. -/
def TargetsKnown (st : PState) : Prop :=
  ∀ mt ∈ st.lookups.map (·.missingTarget), ∀ p ∈ mt, (tget st.targets p.1).isSome = true

private theorem map_setAt {α β} (g : α → β) (f : α → α) (hf : ∀ x, g (f x) = g x) :
    ∀ (l : List α) (i : Nat), (setAt l i f).map g = l.map g := by
  intro l
  induction l with
  | nil => intro i; simp [setAt]
  | cons x xs ih => intro i; cases i <;> simp [setAt, hf, ih]

private theorem tget_tset_isSome (ts : List (String × TargetItem)) (a b : String) (t : TargetItem) :
    (tget (tset ts a t) b).isSome = (tget ts b).isSome := by
  induction ts with
  | nil => simp [tset, tget]
  | cons x xs ih =>
    obtain ⟨k, v⟩ := x
    by_cases hk : k = a
    · subst hk
      by_cases hb : k = b
      · subst hb; simp [tset, tget]
      · simp [tset, tget, hb]
    · by_cases hb : k = b
      · subst hb; simp [tset, tget, hk]
      · simp [tset, tget, hk, hb, ih]

/-- What the invariant needs from a state transformer. -/
private def Keeps (st st' : PState) : Prop :=
  st'.lookups.map (·.missingTarget) = st.lookups.map (·.missingTarget) ∧
  ∀ a, (tget st'.targets a).isSome = (tget st.targets a).isSome

private theorem Keeps.refl (st : PState) : Keeps st st := ⟨rfl, fun _ => rfl⟩

private theorem Keeps.trans {a b c : PState} (h1 : Keeps a b) (h2 : Keeps b c) : Keeps a c :=
  ⟨h2.1.trans h1.1, fun x => (h2.2 x).trans (h1.2 x)⟩

private theorem Keeps.known {st st' : PState} (h : Keeps st st') (hk : TargetsKnown st) : TargetsKnown st' := by
  intro mt hmt p hp
  rw [h.1] at hmt
  rw [h.2]
  exact hk mt hmt p hp

private theorem spreadStep_keeps (anchor : String) (pcv : Vals) (k : Nat) (l : LookupItem) (st : PState) :
    Keeps st (spreadStep anchor pcv k l st) := by
  unfold spreadStep
  split
  · exact Keeps.refl st
  · split
    · exact Keeps.refl st
    · split
      · exact ⟨map_setAt (fun x : LookupItem => x.missingTarget) (fun x => { x with pending := true })
          (fun _ => rfl) _ _, fun _ => rfl⟩
      · split
        · exact ⟨rfl, fun _ => rfl⟩
        · exact Keeps.refl st

private theorem spread_keeps (anchor : String) (pcv : Vals) : ∀ (rest : List LookupItem) (k : Nat) (st : PState),
    Keeps st (spread anchor pcv k rest st) := by
  intro rest
  induction rest with
  | nil => intro k st; exact Keeps.refl st
  | cons l rest ih =>
    intro k st
    simp only [spread]
    exact (spreadStep_keeps anchor pcv k l st).trans (ih (k + 1) _)

private theorem cacheTarget_keeps (st : PState) (anchor : String) (pcv : Vals) (i : Nat) :
    Keeps st (cacheTarget st anchor pcv i) := by
  unfold cacheTarget
  split
  · exact Keeps.refl st
  · split
    · exact Keeps.refl st
    · split
      · exact Keeps.refl st
      · rename_i item _ _
        have h0 : ∀ t : TargetItem, Keeps st { st with targets := tset st.targets anchor t } :=
          fun t => ⟨rfl, fun a => tget_tset_isSome st.targets anchor a t⟩
        simp only
        split
        · exact (h0 _).trans (spread_keeps anchor pcv _ 0 _)
        · exact h0 _

private theorem step12_missingTarget (pcv : Vals) (refresh : Bool) (l : LookupItem) :
    (step12 pcv refresh l).1.missingTarget = l.missingTarget := by
  unfold step12
  simp only
  repeat' split
  all_goals rfl

private theorem placed_missingTarget (cur : Nat) (refresh : Bool) (l : LookupItem) :
    (placed cur refresh l).missingTarget = l.missingTarget := by
  unfold placed; split <;> rfl

private theorem setAt_const_map {β} (g : LookupItem → β) (v : LookupItem) :
    ∀ (l : List LookupItem) (i : Nat) (x : LookupItem), l[i]? = some x → g v = g x →
      (setAt l i fun _ => v).map g = l.map g := by
  intro l
  induction l with
  | nil => intro i x h; simp at h
  | cons y ys ih =>
    intro i x h hg
    cases i with
    | zero => simp at h; subst h; simp [setAt, hg]
    | succ i => simp at h; simp [setAt, ih i x h hg]

private theorem prepared_keeps (cur : Nat) (pcv : Vals) (refresh : Bool) (key : Nat) (l0 : LookupItem) (st : PState)
    (hl : st.lookups[key]? = some l0) : Keeps st (prepared cur pcv refresh key l0 st) := by
  unfold prepared
  refine ⟨?_, fun _ => rfl⟩
  simp only
  exact setAt_const_map (·.missingTarget) _ st.lookups key l0 hl
    (by rw [step12_missingTarget, placed_missingTarget])

private theorem step3_keeps : ∀ (mt : List (String × List String)) (st st' : PState),
    step3Targets mt st = .ok st' → Keeps st st' := by
  intro mt
  induction mt with
  | nil => intro st st' h; simp [step3Targets] at h; subst h; exact Keeps.refl st
  | cons x xs ih =>
    intro st st' h
    obtain ⟨a, missed⟩ := x
    unfold step3Targets at h
    split at h
    · exact ih st st' h
    · split at h
      · simp at h
      · repeat' split at h
        all_goals first
          | exact ih st st' h
          | (have hx := ih _ st' h
             refine Keeps.trans ?_ hx
             exact ⟨rfl, fun _ => rfl⟩)

/-- The lookup part of the loop body succeeds and keeps the invariant. -/
private theorem lookupBody_total (cur : Nat) (pcv : Vals) (refresh : Bool) (key : Nat) (st : PState)
    (hk : TargetsKnown st) : ∃ st', lookupBody cur pcv refresh key st = .ok st' ∧ Keeps st st' := by
  unfold lookupBody
  cases hl : st.lookups[key]? with
  | none => exact ⟨st, rfl, Keeps.refl st⟩
  | some l0 =>
    simp only
    have hprep := prepared_keeps cur pcv refresh key l0 st hl
    have hmem : l0.missingTarget ∈ st.lookups.map (·.missingTarget) :=
      List.mem_map.mpr ⟨l0, List.mem_of_getElem? hl, rfl⟩
    have hmt : (step12 pcv refresh (placed cur refresh l0)).1.missingTarget = l0.missingTarget := by
      rw [step12_missingTarget, placed_missingTarget]
    obtain ⟨st3, h3⟩ := step3_total (step12 pcv refresh (placed cur refresh l0)).1.missingTarget
      (prepared cur pcv refresh key l0 st) (by
        intro p hp _
        rw [hmt] at hp
        rw [hprep.2]
        exact hk _ hmem p hp)
    rw [h3]
    have hk3 := hprep.trans (step3_keeps _ _ _ h3)
    refine ⟨_, rfl, ?_⟩
    split
    · exact hk3.trans ⟨rfl, fun _ => rfl⟩
    · exact hk3

/-- The anchor half of the loop body of `eventStep` (same term). -/
private def anchorPart (cur : Nat) (pcv : Vals) (acc : Acc) (e : Event) : Acc :=
  match e.anchor with
    | some a =>
      if a ≠ "" && !acc.cachedAnchors.contains a then
        let st := { acc.st with pageMaker := setAt acc.st.pageMaker cur fun r => { r with anchors := r.anchors ++ [a] } }
        { acc with st := cacheTarget st a pcv cur, cachedAnchors := acc.cachedAnchors ++ [a] }
      else acc
    | none => acc

/-- The lookup half (same term). -/
private def lookupPart (cur : Nat) (pcv : Vals) (acc : Acc) (e : Event) : Except PErr Acc :=
  match e.lookup with
  | none => .ok acc
  | some key =>
    if (acc.st.lookups[key]?).isNone then .ok acc
    else
      let refresh := !acc.cachedLookups.contains key
      match lookupBody cur pcv refresh key acc.st with
      | .error e => .error e
      | .ok st => .ok { acc with st := st, cachedLookups := if refresh then acc.cachedLookups ++ [key] else acc.cachedLookups }

private theorem eventStep_eq (cur : Nat) (pcv : Vals) (acc : Acc) (e : Event) :
    eventStep cur pcv acc e = lookupPart cur pcv (anchorPart cur pcv acc e) e := rfl

private theorem known_pm (st : PState) (pm : List Remake) (h : TargetsKnown st) :
    TargetsKnown { st with pageMaker := pm } := h

private theorem anchorPart_known (cur : Nat) (pcv : Vals) (acc : Acc) (e : Event) (hk : TargetsKnown acc.st) :
    TargetsKnown (anchorPart cur pcv acc e).st := by
  unfold anchorPart
  split
  · split
    · exact (cacheTarget_keeps _ _ pcv cur).known (known_pm _ _ hk)
    · exact hk
  · exact hk

private theorem lookupPart_total (cur : Nat) (pcv : Vals) (acc : Acc) (e : Event) (hk : TargetsKnown acc.st) :
    ∃ acc', lookupPart cur pcv acc e = .ok acc' ∧ TargetsKnown acc'.st := by
  unfold lookupPart
  split
  · exact ⟨acc, rfl, hk⟩
  · rename_i key _
    split
    · exact ⟨acc, rfl, hk⟩
    · obtain ⟨st', h1, h2⟩ := lookupBody_total cur pcv (!acc.cachedLookups.contains key) key acc.st hk
      simp only [h1]
      exact ⟨_, rfl, h2.known hk⟩

private theorem eventStep_total (cur : Nat) (pcv : Vals) (acc : Acc) (e : Event) (hk : TargetsKnown acc.st) :
    ∃ acc', eventStep cur pcv acc e = .ok acc' ∧ TargetsKnown acc'.st := by
  rw [eventStep_eq]
  exact lookupPart_total cur pcv _ e (anchorPart_known cur pcv acc e hk)

private theorem eventsLoop_total (cur : Nat) (pcv : Vals) : ∀ (events : List Event) (acc : Acc),
    TargetsKnown acc.st → ∃ acc', eventsLoop cur pcv events acc = .ok acc' ∧ TargetsKnown acc'.st := by
  intro events
  induction events with
  | nil => intro acc hk; exact ⟨acc, rfl, hk⟩
  | cons e rest ih =>
    intro acc hk
    obtain ⟨acc1, h1, hk1⟩ := eventStep_total cur pcv acc e hk
    obtain ⟨acc2, h2, hk2⟩ := ih acc1 hk1
    exact ⟨acc2, by simp [eventsLoop, h1, h2, bind, Except.bind], hk2⟩

/-- **C15.counter_section_total** (full strength since `fix:` da41776) — the counter section of `make_page`
never raises, for any page (any sequence of anchors and lookup items shown by `page.descendants()`), any page
counter values and any `TargetCollector` state in which the targets named by `missing_target_counters` have their
`TargetLookupItem` — forward references to targets that have not been met yet included — and it keeps that
invariant for the next page. -/
theorem counter_section_total (st : PState) (pageNumber : Nat) (pcv : Vals) (events : List Event)
    (hk : TargetsKnown st) :
    ∃ st', counterSection st pageNumber pcv events = .ok st' ∧ TargetsKnown st' := by
  unfold counterSection
  obtain ⟨acc', h, hk'⟩ := eventsLoop_total (pageNumber - 1) pcv events
    ⟨st, (st.pageMaker.take (pageNumber - 1)).flatMap (·.anchors),
      (st.pageMaker.take (pageNumber - 1)).flatMap (·.lookups)⟩ hk
  exact ⟨acc'.st, by simp [h, bind, Except.bind, pure, Except.pure], hk'⟩

/-! Non-vacuity: the state of the repaired finding (a forward `pages` reference) satisfies the invariant. -/
example : TargetsKnown
    { collecting := false, targets := [("t", ⟨true, none, []⟩)],
      lookups := [⟨true, [], [("t", ["pages"])], none, false, []⟩], pageMaker := [⟨false, false, [], []⟩],
      calls := [] } := by
  intro mt hmt p hp
  simp at hmt
  subst hmt
  simp at hp
  subst hp
  rfl

end Wp.C15
