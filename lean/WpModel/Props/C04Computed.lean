/-
C04 — from the declaration as written to the value the layout resolves.

`Gen/BreakComputed.lean` is the complete graph, regenerated on every run by running the real
`preprocess_declarations` (expanders + validators) and the real registered computer functions, of
(break property as written, keyword as written) ↦ (longhand set, computed value | invalid).
The theorems below are the clause of the property text "break-before / break-after: page|always|left|right|recto|verso,
the page-break-* aliases": which spellings reach `block_level_page_break` as which of its ten values, and which of
them force a page break (`Model/Break.forces`, itself tied to `force_page_break` by `Gen/BreakTable`).
-/
import WpModel.Gen.BreakComputed
import WpModel.Model.Break
import WpModel.Props.C04

namespace Wp.C04Computed
open Wp Wp.Gen

abbrev Row := String × String × String × String
def Row.prop (r : Row) : String := r.1
def Row.written (r : Row) : String := r.2.1
def Row.longhand (r : Row) : String := r.2.2.1
def Row.computed (r : Row) : String := r.2.2.2
def Row.valid (r : Row) : Bool := r.computed != "invalid"

/-- The value handed to the layout (`auto` for a dropped declaration: the initial value). -/
def Row.brk (r : Row) : Brk := (Brk.ofCss? r.computed).getD .auto

/-- **Only the ten layout values reach the layout**: every accepted declaration of the six break properties
computes to one of the values `block_level_page_break` / `force_page_break` / `avoid_page_break` know — in
particular `always` never survives computation (it would be silently ignored by all three). -/
theorem computed_is_layout_value :
    ∀ r ∈ breakComputed, Row.valid r = true → (Brk.ofCss? (Row.computed r)).isSome = true := by decide

/-- **`always` is `page`**, for `break-before`, `break-after` and both legacy aliases; elsewhere it is invalid. -/
theorem always_is_page :
    ∀ r ∈ breakComputed, Row.written r = "always" → Row.valid r = true → Row.computed r = "page" := by decide

theorem always_accepted_where_css_says :
    (breakComputed.filter (fun r => Row.written r == "always" && Row.valid r)).map Row.prop =
      ["break-before", "break-after", "page-break-before", "page-break-after"] := by decide

/-- Every other accepted keyword computes to itself. -/
theorem other_keywords_unchanged :
    ∀ r ∈ breakComputed, Row.valid r = true → Row.written r ≠ "always" → Row.computed r = Row.written r := by
  decide

/-- The legacy aliases set the modern longhand of the same side; the modern properties set themselves. -/
def modernName : String → String
  | "page-break-before" => "break-before"
  | "page-break-after" => "break-after"
  | "page-break-inside" => "break-inside"
  | p => p

theorem longhand_of_alias :
    ∀ r ∈ breakComputed, Row.valid r = true → Row.longhand r = modernName (Row.prop r) := by decide

/-- **Which spellings force a page break** (outside a multi-column container): exactly
`page | always | left | right | recto | verso` on `break-before` / `break-after`, and
`always | left | right` on `page-break-before` / `page-break-after` — the list of the property text. -/
theorem forcing_spellings :
    (breakComputed.filter (fun r => Row.valid r && forces false (Row.brk r))).map (fun r => (Row.prop r, Row.written r)) =
      [("break-before", "page"), ("break-before", "left"), ("break-before", "right"), ("break-before", "recto"),
       ("break-before", "verso"), ("break-before", "always"),
       ("break-after", "page"), ("break-after", "left"), ("break-after", "right"), ("break-after", "recto"),
       ("break-after", "verso"), ("break-after", "always"),
       ("page-break-before", "left"), ("page-break-before", "right"), ("page-break-before", "always"),
       ("page-break-after", "left"), ("page-break-after", "right"), ("page-break-after", "always")] := by
  decide

/-- **Which spellings avoid a page break**: `avoid | avoid-page` on the three modern properties, `avoid` on
the three aliases. -/
theorem avoiding_spellings :
    (breakComputed.filter (fun r => Row.valid r && avoids false (Row.brk r))).map (fun r => (Row.prop r, Row.written r)) =
      [("break-before", "avoid"), ("break-before", "avoid-page"), ("break-after", "avoid"),
       ("break-after", "avoid-page"), ("break-inside", "avoid"), ("break-inside", "avoid-page"),
       ("page-break-before", "avoid"), ("page-break-after", "avoid"), ("page-break-inside", "avoid")] := by
  decide

/-- Every value of the layout's domain can be written, on both sides (the quantifier of the property —
"every combination of break-before and break-after values" — is not vacuous). -/
theorem every_layout_value_writable :
    ∀ b ∈ Brk.all, ("break-before", b.toCss, "break-before", b.toCss) ∈ breakComputed ∧
      ("break-after", b.toCss, "break-after", b.toCss) ∈ breakComputed := by decide

/-- `break-before` and `break-after` accept and compute exactly the same keywords (the two registrations of
the one computer function agree). -/
theorem before_after_symmetric :
    (breakComputed.filter (fun r => Row.prop r == "break-before")).map (fun r => (Row.written r, Row.computed r)) =
    (breakComputed.filter (fun r => Row.prop r == "break-after")).map (fun r => (Row.written r, Row.computed r)) := by
  decide

example : ("break-after", "always", "break-after", "page") ∈ breakComputed := by decide

/-! ### end to end: a forcing spelling anywhere among the declarations that meet wins -/

/-- The spellings of the property text: `page | always | left | right | recto | verso` on `break-before` /
`break-after`, `always | left | right` on the legacy aliases. -/
def forcingAsWritten (prop written : String) : Bool :=
  ((prop == "break-before" || prop == "break-after") &&
    ["page", "always", "left", "right", "recto", "verso"].contains written) ||
  ((prop == "page-break-before" || prop == "page-break-after") && ["always", "left", "right"].contains written)

/-- A row of the graph forces (as the layout sees it) exactly when it is written in one of those spellings. -/
theorem forces_iff_written :
    ∀ r ∈ breakComputed, (Row.valid r && forces false (Row.brk r)) = forcingAsWritten (Row.prop r) (Row.written r) := by
  decide

/-- **A forced break as written always wins** (any number of meeting boxes, any other values): if one of the
declarations whose values meet at a break point is written in a forcing spelling, the value resolved by
`block_level_page_break` from the *computed* values forces a page break. Composition of the regenerated
declaration graph with `C04.forced_wins` (itself over the regenerated resolution table). -/
theorem forced_as_written_wins (rs : List Row) (hrs : ∀ r ∈ rs, r ∈ breakComputed)
    (h : ∃ r ∈ rs, forcingAsWritten (Row.prop r) (Row.written r) = true) :
    forces false (resolve (rs.map Row.brk)) = true := by
  obtain ⟨r, hr, hw⟩ := h
  apply C04.forced_wins
  refine ⟨Row.brk r, List.mem_map.mpr ⟨r, hr, rfl⟩, ?_⟩
  have := forces_iff_written r (hrs r hr)
  rw [hw] at this
  simp only [Bool.and_eq_true] at this
  exact this.2

example : forces false (resolve ([("break-after", "avoid", "break-after", "avoid"),
    ("break-after", "always", "break-after", "page"), ("page-break-before", "avoid", "break-before", "avoid")].map
      Row.brk)) = true :=
  forced_as_written_wins _ (by decide) (by decide)

end Wp.C04Computed
