/-
C18 — "external links carry the URL resolved against the base URL, internal links name a destination":
`get_link_attribute` (which links are internal), the element → `Page.links` / `Page.anchors` step, and the
clickable rectangle (`hit_area()`) computed from the used values of the laid-out box.
-/
import WpModel.Model.C18LinkAttr
import WpModel.Model.C18HitArea
import WpModel.Lemmas.C18Gather
import WpModel.Props.C18Tree
import WpModel.Lemmas.C18Unquote

namespace Wp.C18
open Wp Wp.Anchors Wp.LinkAttr Wp.Res.Url

/-! ## get_link_attribute -/

/-- `href="#name"` (white space around allowed) is an internal link to the unquoted fragment whatever the
base URL is — also without any base URL. -/
theorem fragment_only_internal (attr base : Option (List Char)) (c : Char) (rest : List Char)
    (h : Wp.Res.Url.pyStrip (attr.getD []) = '#' :: c :: rest) :
    getLinkAttribute attr base = some (.internal, unquote (c :: rest)) := by
  unfold getLinkAttribute
  rw [h]
  rfl

/-- The comparison "with fragments removed" covers the query string: two URLs that are the same document
have the same scheme, authority, path **and query**. -/
theorem sameDocument_spec (p q : List Char × List Char × List Char × List Char × List Char) :
    sameDocument p q = true ↔ p.1 = q.1 ∧ p.2.1 = q.2.1 ∧ p.2.2.1 = q.2.2.1 ∧ p.2.2.2.1 = q.2.2.2.1 := by
  unfold sameDocument
  simp only [Bool.and_eq_true, beq_iff_eq, and_assoc]

/-- Exactly which links are internal: a link is internal **only** when its href is a bare fragment, or
there is a base URL and the resolved URL has a non-empty fragment and is the base URL's document
(scheme, authority, path, query); its target is then the unquoted fragment. -/
theorem internal_only_same_document (attr base : Option (List Char)) (t : List Char)
    (h : getLinkAttribute attr base = some (.internal, t)) :
    (∃ c rest, Wp.Res.Url.pyStrip (attr.getD []) = '#' :: c :: rest ∧ t = unquote (c :: rest)) ∨
    (∃ uri, getUrlAttribute attr base true = some uri ∧ (base.getD []).isEmpty = false ∧
      (urlsplit uri []).2.2.2.2 ≠ [] ∧ sameDocument (urlsplit uri []) (urlsplit (base.getD []) []) = true ∧
      t = unquote (urlsplit uri []).2.2.2.2) := by
  unfold getLinkAttribute at h
  split at h
  · rename_i c rest hs
    left
    exact ⟨c, rest, hs, by simpa using h.symm⟩
  · right
    split at h
    · cases h
    · rename_i uri hu
      refine ⟨uri, hu, ?_⟩
      by_cases h1 : uri.isEmpty = true
      · rw [if_pos h1] at h; cases h
      · rw [if_neg h1] at h
        by_cases h2 : (base.getD []).isEmpty = true
        · rw [if_pos h2] at h; cases h
        · rw [if_neg h2] at h
          by_cases h3 : (!(urlsplit uri []).2.2.2.2.isEmpty && sameDocument (urlsplit uri []) (urlsplit (base.getD []) [])) = true
          · rw [if_pos h3] at h
            simp only [Bool.and_eq_true, Bool.not_eq_true', List.isEmpty_eq_false_iff] at h3
            refine ⟨by simpa using h2, h3.1, h3.2, ?_⟩
            simpa using h.symm
          · rw [if_neg h3] at h; cases h

/-- … and conversely: with a base URL, a URL with a non-empty fragment that is the base URL's document
**is** internal (it is not written as a `/URI` action that would leave the PDF). -/
theorem same_document_is_internal (attr base : Option (List Char)) (uri : List Char)
    (hfrag : ∀ c rest, Wp.Res.Url.pyStrip (attr.getD []) ≠ '#' :: c :: rest)
    (hu : getUrlAttribute attr base true = some uri) (hne : uri.isEmpty = false)
    (hb : (base.getD []).isEmpty = false) (hf : (urlsplit uri []).2.2.2.2 ≠ [])
    (hs : sameDocument (urlsplit uri []) (urlsplit (base.getD []) []) = true) :
    getLinkAttribute attr base = some (.internal, unquote (urlsplit uri []).2.2.2.2) := by
  unfold getLinkAttribute
  split
  · rename_i c rest h; exact absurd h (hfrag c rest)
  · rw [hu]
    simp only [hne, hb, Bool.false_eq_true, if_false, hs, Bool.and_true]
    have : (urlsplit uri []).2.2.2.2.isEmpty = false := by simpa using hf
    simp [this]

/-- An external link carries the URL resolved against the base URL: exactly what `get_url_attribute`
(`url_join`: `iri_to_uri(urljoin(base_url, href))`) returns. -/
theorem external_is_resolved (attr base : Option (List Char)) (u : List Char)
    (h : getLinkAttribute attr base = some (.external, u)) : getUrlAttribute attr base true = some u := by
  unfold getLinkAttribute at h
  split at h
  · cases h
  · split at h
    · cases h
    · rename_i uri hu
      rw [hu]
      by_cases h1 : uri.isEmpty = true
      · rw [if_pos h1] at h; cases h
      · rw [if_neg h1] at h
        by_cases h2 : (base.getD []).isEmpty = true
        · rw [if_pos h2] at h; simpa using h
        · rw [if_neg h2] at h
          dsimp only at h
          split at h
          · cases h
          · simpa using h

/-- Another query string is another document: `?page=2#top` in `http://example.org/doc.html` is external and
keeps its resolved URL (seeded regression C18-4 made it internal). -/
example : getLinkAttribute (some "?page=2#top".toList) (some "http://example.org/doc.html".toList) =
    some (.external, "http://example.org/doc.html?page=2#top".toList) := by decide +kernel

example : getLinkAttribute (some " doc.html#a%20b ".toList) (some "http://example.org/doc.html".toList) =
    some (.internal, "a b".toList) := by decide +kernel

example : getLinkAttribute (some "#top".toList) none = some (.internal, "top".toList) := by decide +kernel

/-- `unquote` leaves a string without `%` alone. -/
theorem unquote_plain (s : List Char) (h : s.contains '%' = false) : unquote s = s := by
  unfold unquote; rw [h]; rfl

/-- **The name a link reaches is the name as written.**  `iri_to_uri` percent-encodes a URL (UTF-8 bytes,
`%XX`) and `unquote` — applied by `get_link_attribute` to the fragment of an internal link — undoes it
exactly, for every string of Unicode characters without a literal `%` (and not a `data:` URL, which
`iri_to_uri` leaves alone): an id such as `é`, `中文` or `x(y)` is found again by `href="doc.html#é"`. -/
theorem unquote_iri_to_uri (s : List Char) (hp : ∀ ch ∈ s, ch ≠ '%')
    (hd : (s.take 5 == "data:".toList) = false) : LinkAttr.unquote (Wp.Res.iriToUri s) = s := by
  unfold Wp.Res.iriToUri
  rw [hd]
  simp only [Bool.false_eq_true, if_false]
  have hascii : ∀ ch ∈ (s.flatMap Wp.Res.utf8).flatMap Wp.Res.quoteByte, ch.toNat < 128 := by
    intro ch hch
    obtain ⟨b, _, hb⟩ := List.mem_flatMap.mp hch
    exact quoteByte_ascii b ch hb
  have hbytes : ∀ b ∈ s.flatMap Wp.Res.utf8, b < 256 ∧ b ≠ 37 := by
    intro b hb
    obtain ⟨c, hc, hbc⟩ := List.mem_flatMap.mp hb
    exact utf8_bytes c (hp c hc) b hbc
  rw [unquote_ascii _ hascii, unquoteBytes_flatMap _ hbytes, utf8Decode_flatMap, map_ofNat_toNat]

example : (∀ ch ∈ "é中😀 x(y)".toList, ch ≠ '%') ∧ (("é中😀 x(y)".toList.take 5 == "data:".toList) = false) ∧
    Wp.Res.iriToUri "é中".toList = "%C3%A9%E4%B8%AD".toList := by decide +kernel

/-- Any byte string that is not UTF-8 still decodes (to U+FFFD): `unquote` never fails. -/
example : LinkAttr.unquote "a%FF%E2%82b%C3".toList = ['a', Char.ofNat 65533, Char.ofNat 65533, 'b', Char.ofNat 65533] := by
  decide +kernel

/-! ## element → link type, destinations -/

/-- The type recorded for an `<a href>`: `attachment` exactly for an external URL on an element whose `rel`
has the token `attachment` (ASCII case-insensitively); internal links are never attachments. -/
theorem linkOf_type (e : El) (base : Option (List Char)) (ty : String) (t : List Char)
    (h : linkOf e base = some (ty, t)) :
    (ty = "internal" ∧ getLinkAttribute e.href base = some (.internal, t)) ∨
    (getLinkAttribute e.href base = some (.external, t) ∧
      ty = if isAttachment e then "attachment" else "external") := by
  unfold linkOf at h
  split at h
  · split at h
    · cases h
    · rename_i t' hk
      left; simp only [Option.some.injEq, Prod.mk.injEq] at h; exact ⟨h.1.symm, by rw [hk, h.2]⟩
    · rename_i t' hk
      right; simp only [Option.some.injEq, Prod.mk.injEq] at h; exact ⟨by rw [hk, h.2], h.1.symm⟩
  · cases h

example : hasLinkType (some "nofollow  ATTACHMENT\t".toList) "attachment".toList = true ∧
    hasLinkType (some "attachments".toList) "attachment".toList = false ∧
    hasLinkType none "attachment".toList = false := by decide

/-- Destinations are listed once each, in the order of their first element. -/
theorem firstNames_nodup (names : List (List Char)) :
    ∀ seen, (firstNames names seen).Nodup ∧ ∀ n ∈ firstNames names seen, n ∉ seen := by
  induction names with
  | nil => intro seen; simp [firstNames]
  | cons n rest ih =>
    intro seen
    unfold firstNames
    by_cases h : seen.contains n = true
    · rw [if_pos h]; exact ih seen
    · rw [if_neg h]
      obtain ⟨h1, h2⟩ := ih (seen ++ [n])
      refine ⟨List.nodup_cons.mpr ⟨?_, h1⟩, ?_⟩
      · intro hm; exact (h2 n hm) (by simp)
      · intro m hm
        rcases List.mem_cons.mp hm with rfl | hm
        · simpa using h
        · intro hs; exact (h2 m hm) (by simp [hs])

/-! ## the clickable rectangle -/

/-- Horizontally the clickable rectangle of **every** box, inline or not, is its border box: margins are
not clickable (seeded regression C18-5 used the margin box of inline boxes). -/
theorem hitArea_horizontal (kind : Kind) (g : BoxGeom) :
    (hitArea kind g).1 = g.positionX + g.marginLeft ∧
    (hitArea kind g).2.2.1 = g.width + g.paddingLeft + g.paddingRight + g.borderLeft + g.borderRight := by
  cases kind <;> exact ⟨rfl, rfl⟩

/-- Vertically: the border box, except for inline boxes, which are clickable over their whole margin box
(the line height). -/
theorem hitArea_vertical (kind : Kind) (g : BoxGeom) :
    (hitArea kind g).2.1 = (if kind = .inline then g.positionY else g.positionY + g.marginTop) ∧
    (hitArea kind g).2.2.2 = (if kind = .inline then g.borderHeight + g.marginTop + g.marginBottom
      else g.borderHeight) := by
  cases kind <;> exact ⟨rfl, rfl⟩

/-- The clickable rectangle does not depend on the horizontal margins except through the position of the
border box: moving margin into position leaves it unchanged. -/
theorem hitArea_margin_free (kind : Kind) (g : BoxGeom) (d r : Rat) :
    hitArea kind { g with positionX := g.positionX + d, marginLeft := g.marginLeft - d, marginRight := r : BoxGeom } =
      hitArea kind g := by
  have e : g.positionX + d + (g.marginLeft - d) = g.positionX + g.marginLeft := by
    rw [Rat.sub_eq_add_neg, Rat.add_assoc, ← Rat.add_assoc d, Rat.add_comm d, Rat.add_assoc g.marginLeft,
      Rat.add_neg_cancel, Rat.add_zero]
  cases kind <;>
    simp only [hitArea, BoxGeom.borderBoxX, BoxGeom.borderBoxY, BoxGeom.borderWidth, BoxGeom.paddingWidth,
      BoxGeom.borderHeight, BoxGeom.paddingHeight, BoxGeom.marginHeight, e]

/-- `a { margin: 0 20px; padding: 0 5px }` on a 60 px wide inline link at x = 100: clickable from 120 over
70 px (the demo input of C18-5). -/
example :
    let g : BoxGeom := { positionX := 100, positionY := 0, width := 60, height := 16, marginLeft := 20
                         marginRight := 20, paddingLeft := 5, paddingRight := 5, marginTop := 2, marginBottom := 2 }
    hitArea .inline g = (120, 0, 70, 20) := by
  decide +kernel

/-! ## gather_anchors on the raw geometry -/

/-- What `gather_anchors` meets at one laid-out box: its used values and the matrix in force. -/
structure RawVisit where
  kind : Kind
  geom : BoxGeom
  label : String
  level : Option Int
  state : String
  link : Option (String × String)
  att : Bool
  anchor : Option String
  m : Option Matrix

def RawVisit.toVisit (r : RawVisit) : Visit :=
  let h := hitArea r.kind r.geom
  ⟨r.kind, h.1, h.2.1, h.2.2.1, h.2.2.2, r.label, r.level, r.state, r.link, r.att, r.anchor, r.m⟩

mutual
/-- The laid-out boxes of a page in document order, each with the accumulated transformation matrix. -/
def rawPreorder : RBox → Option Matrix → List RawVisit
  | .mk kind transform ox oy g label level state link att anchor kids, parent =>
    let m := matrixFor kind transform ox oy g.borderBoxX g.borderBoxY g.borderWidth g.borderHeight parent
    ⟨kind, g, label, level, state, link, att, anchor, m⟩ :: rawPreorderList kids m
def rawPreorderList : List RBox → Option Matrix → List RawVisit
  | [], _ => []
  | b :: rest, m => rawPreorder b m ++ rawPreorderList rest m
end

mutual
theorem preorder_toGBox : ∀ (b : RBox) (m : Option Matrix),
    preorder b.toGBox m = (rawPreorder b m).map RawVisit.toVisit
  | .mk kind transform ox oy g label level state link att anchor kids, m => by
    simp only [RBox.toGBox, preorder, rawPreorder, List.map_cons, RawVisit.toVisit]
    rw [preorderList_toGBox kids]
theorem preorderList_toGBox : ∀ (bs : List RBox) (m : Option Matrix),
    preorderList (RBox.toGBoxList bs) m = (rawPreorderList bs m).map RawVisit.toVisit
  | [], _ => rfl
  | b :: rest, m => by
    simp only [RBox.toGBoxList, preorderList, rawPreorderList, List.map_append]
    rw [preorder_toGBox b m, preorderList_toGBox rest m]
end

/-- "Every hyperlink becomes link annotations covering its boxes", on the real geometry: each entry of
`Page.links` is the bounding box, under the matrix in force, of the clickable rectangle of a laid-out
box that carries the link — its border box, for an inline box over the whole line height — and there is
exactly one entry per such box. -/
theorem raw_links_cover (root : RBox) :
    (∀ l ∈ (gatherPageRaw root).links, ∃ r ∈ rawPreorder root none, hasLink r.kind r.link = true ∧
      l.rect = rectangleAabb r.m (r.geom.positionX + r.geom.marginLeft)
        (if r.kind = .inline then r.geom.positionY else r.geom.positionY + r.geom.marginTop)
        r.geom.borderWidth
        (if r.kind = .inline then r.geom.borderHeight + r.geom.marginTop + r.geom.marginBottom
          else r.geom.borderHeight)) ∧
    (gatherPageRaw root).links.length = ((rawPreorder root none).filter fun r => hasLink r.kind r.link).length := by
  constructor
  · intro l hl
    obtain ⟨v, hv, hk, hr⟩ := link_entries_cover root.toGBox l hl
    rw [preorder_toGBox] at hv
    obtain ⟨r, hr', rfl⟩ := List.mem_map.mp hv
    refine ⟨r, hr', hk, ?_⟩
    rw [hr]
    have h1 := hitArea_horizontal r.kind r.geom
    have h2 := hitArea_vertical r.kind r.geom
    simp only [RawVisit.toVisit]
    rw [h1.1, h1.2, h2.1, h2.2]
    rfl
  · unfold gatherPageRaw
    rw [one_link_per_box, preorder_toGBox, List.filter_map, List.length_map]
    rfl

example :
    let g : BoxGeom := { positionX := 100, positionY := 0, width := 60, height := 16, marginLeft := 20
                         marginRight := 20, paddingLeft := 5, paddingRight := 5, marginTop := 2, marginBottom := 2 }
    let root : RBox := .mk .other [] (.pct 50) (.pct 50) { positionX := 0, positionY := 0, width := 200, height := 20 }
      "" none "open" none false none [.mk .inline [] (.pct 50) (.pct 50) g "" none "open" (some ("external", "u")) false none []]
    (gatherPageRaw root).links = [⟨"external", "u", ⟨120, 0, 190, 20⟩⟩] := by decide +kernel

end Wp.C18
