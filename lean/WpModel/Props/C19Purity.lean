/-
C19 — purity inventory.  `Gen/PurityInventory.lean` lists, regenerated from the source on every run, every
process-lifetime object, every class that owns mutable state, every memoised function and every place where hash order
or an address can reach the output.  This file holds the *reviewed* copy of each list, annotated with why the entry
cannot make a render depend on anything but its inputs, and proves (by `rfl`: both sides are literal lists) that the
source still matches the review.  A new module-level cache, a new stateful class, a new `lru_cache`, a new loop over a
set — in any file of weasyprint — breaks one of these proofs; the check then runs its search (snapshots, histories,
processes under several hash seeds) for a concrete input.
The runtime side of the same inventory is the `module-state (validation)` section of py/props/c19.py: a deep snapshot of
every object of `moduleObjects` before and after all the renders of a run.
-/
import WpModel.Gen.PurityInventory
import WpModel.Gen.ModuleState

namespace Wp.C19.Purity
open Wp.Gen.Purity

/-- Why a process-lifetime object does not carry state from one render to the next. -/
inductive Why where
  /-- a table of constants: no store through its name inside any function (`Gen.moduleState`), unchanged by a whole
  run (runtime snapshot) -/
  | constTable
  /-- filled by decorators while the package is imported, never afterwards (`registries_only_written_at_import`) -/
  | importRegistry
  /-- the parsed UA / presentational-hints style sheets and UA counter styles: read by every render, `.copy()`-ed
  where a render needs to add to them (`RenderState.render`: `readGlobal`), unchanged by a whole run (snapshot) -/
  | uaSheet
  /-- handles of the C libraries and two conversion constants computed from them; the C side (fontconfig, Pango font
  maps) is outside every model: exercised by the history harness only -/
  | ffiHandle
  /-- an immutable value (str, Dimension, token, colour) -/
  | value
  /-- only used by the command line entry point -/
  | cliOnly
  deriving Repr, DecidableEq

/-- How long the mutable state of the instances of a class lives. -/
inductive Lifetime where
  /-- created by `Document._render` / layout / `Page.paint` for one render (`RenderState`: every such object is
  allocated by the render that uses it, `C19.fresh_state`) -/
  | perRender
  /-- belongs to one `Document` (pages, fonts): shared by the writes of that document only -/
  | perDocument
  /-- belongs to one `generate_pdf` call -/
  | perPdf
  /-- belongs to one SVG image / inline `<svg>` tree (see known finding `svg-rewrites-element-tree`) -/
  | perImage
  /-- handed in by the caller (`options['cache']`) -/
  | callerOwned
  | cliOnly
  deriving Repr, DecidableEq

def reviewedModuleObjects : List ((String × String × String) × Why) :=
  [(("__init__.py", "DEFAULT_OPTIONS", "dict"), .constTable),
   (("__init__.py", "__all__", "list"), .constTable),
   (("__main__.py", "PARSER", "call:Parser"), .cliOnly),
   (("css/computed_values.py", "BORDER_WIDTH_KEYWORDS", "dict"), .constTable),
   (("css/computed_values.py", "COMPUTER_FUNCTIONS", "dict"), .importRegistry),
   (("css/computed_values.py", "FONT_SIZE_KEYWORDS", "dict"), .constTable),
   (("css/computed_values.py", "FONT_WEIGHT_RELATIVE", "dict"), .constTable),
   (("css/computed_values.py", "PAGE_SIZES", "dict"), .constTable),
   (("css/properties.py", "INHERITED", "set"), .constTable),
   (("css/properties.py", "INITIAL_NOT_COMPUTED", "set"), .constTable),
   (("css/properties.py", "INITIAL_VALUES", "dict"), .constTable),
   (("css/properties.py", "KNOWN_PROPERTIES", "set"), .constTable),
   (("css/properties.py", "TABLE_WRAPPER_BOX_PROPERTIES", "set"), .constTable),
   (("css/properties.py", "ZERO_PIXELS", "call:Dimension"), .value),
   (("css/utils.py", "ANGLE_TO_RADIANS", "dict"), .constTable),
   (("css/utils.py", "ATTR_FALLBACKS", "dict"), .constTable),
   (("css/utils.py", "BACKGROUND_POSITION_PERCENTAGES", "dict"), .constTable),
   (("css/utils.py", "DIRECTION_KEYWORDS", "dict"), .constTable),
   (("css/utils.py", "FIFTY_PERCENT", "call:Dimension"), .value),
   (("css/utils.py", "HUNDRED_PERCENT", "call:Dimension"), .value),
   (("css/utils.py", "LENGTHS_TO_PIXELS", "dict"), .constTable),
   (("css/utils.py", "RESOLUTION_TO_DPPX", "dict"), .constTable),
   (("css/utils.py", "ZERO_PERCENT", "call:Dimension"), .value),
   (("css/validation/__init__.py", "NESTING_SELECTOR", "call:LiteralToken"), .value),
   (("css/validation/__init__.py", "NOT_PRINT_MEDIA", "set"), .constTable),
   (("css/validation/descriptors.py", "DESCRIPTORS", "dict"), .importRegistry),
   (("css/validation/expanders.py", "EXPANDERS", "dict"), .importRegistry),
   (("css/validation/properties.py", "PROPERTIES", "dict"), .importRegistry),
   (("css/validation/properties.py", "PROPRIETARY", "set"), .importRegistry),
   (("css/validation/properties.py", "UNSTABLE", "set"), .importRegistry),
   (("formatting_structure/build.py", "ASCII_TO_WIDE", "dict"), .constTable),
   (("formatting_structure/build.py", "BOX_TYPE_FROM_DISPLAY", "dict"), .constTable),
   (("html.py", "HTML5_PH", "call:read_text"), .value),
   (("html.py", "HTML5_PH_STYLESHEET", "call:CSS"), .uaSheet),
   (("html.py", "HTML5_UA", "call:read_text"), .value),
   (("html.py", "HTML5_UA_COUNTER_STYLE", "call:CounterStyle"), .uaSheet),
   (("html.py", "HTML5_UA_FORM", "call:read_text"), .value),
   (("html.py", "HTML5_UA_FORM_STYLESHEET", "call:CSS"), .uaSheet),
   (("html.py", "HTML5_UA_STYLESHEET", "call:CSS"), .uaSheet),
   (("html.py", "HTML_HANDLERS", "dict"), .importRegistry),
   (("layout/table.py", "TRANSPARENT", "call:parse_color"), .value),
   (("pdf/__init__.py", "VARIANTS", "dict"), .constTable),
   (("pdf/debug.py", "VARIANTS", "dict"), .constTable),
   (("pdf/metadata.py", "NS", "dict"), .constTable),
   (("pdf/pdfa.py", "VARIANTS", "dict"), .constTable),
   (("pdf/pdfua.py", "VARIANTS", "dict"), .constTable),
   (("svg/__init__.py", "TAGS", "dict"), .constTable),
   (("svg/bounding_box.py", "BOUNDING_BOX_METHODS", "dict"), .constTable),
   (("text/constants.py", "CAPS_KEYS", "dict"), .constTable),
   (("text/constants.py", "EAST_ASIAN_KEYS", "dict"), .constTable),
   (("text/constants.py", "FONTCONFIG_STRETCH", "dict"), .constTable),
   (("text/constants.py", "FONTCONFIG_STYLE", "dict"), .constTable),
   (("text/constants.py", "FONTCONFIG_WEIGHT", "dict"), .constTable),
   (("text/constants.py", "LANG_QUOTES", "dict"), .constTable),
   (("text/constants.py", "LIGATURE_KEYS", "dict"), .constTable),
   (("text/constants.py", "LST_TO_ISO", "dict"), .constTable),
   (("text/constants.py", "NUMERIC_KEYS", "dict"), .constTable),
   (("text/constants.py", "PANGO_DIRECTION", "dict"), .constTable),
   (("text/constants.py", "PANGO_STRETCH", "dict"), .constTable),
   (("text/constants.py", "PANGO_STRETCH_PERCENT", "dict"), .constTable),
   (("text/constants.py", "PANGO_STYLE", "dict"), .constTable),
   (("text/constants.py", "PANGO_VARIANT", "dict"), .constTable),
   (("text/constants.py", "PANGO_WRAP_MODE", "dict"), .constTable),
   (("text/ffi.py", "FROM_UNITS", "call:pango_units_to_double"), .ffiHandle),
   (("text/ffi.py", "TO_UNITS", "call:pango_units_from_double"), .ffiHandle),
   (("text/ffi.py", "ffi", "call:FFI"), .ffiHandle),
   (("text/ffi.py", "fontconfig", "call:_dlopen"), .ffiHandle),
   (("text/ffi.py", "gobject", "call:_dlopen"), .ffiHandle),
   (("text/ffi.py", "harfbuzz", "call:_dlopen"), .ffiHandle),
   (("text/ffi.py", "harfbuzz_subset", "call:_dlopen"), .ffiHandle),
   (("text/ffi.py", "pango", "call:_dlopen"), .ffiHandle),
   (("text/ffi.py", "pangoft2", "call:_dlopen"), .ffiHandle),
   (("urls.py", "FILESYSTEM_ENCODING", "call:getfilesystemencoding"), .value),
   (("urls.py", "HTTP_HEADERS", "dict"), .constTable)]

def reviewedStateClasses : List ((String × String) × Lifetime) :=
  [(("__main__.py", "Parser"), .cliOnly),
   (("css/__init__.py", "AnonymousStyle"), .perRender),
   (("css/__init__.py", "ComputedStyle"), .perRender),
   (("css/__init__.py", "StyleFor"), .perRender),
   (("css/targets.py", "CounterLookupItem"), .perRender),
   (("css/targets.py", "TargetCollector"), .perRender),
   (("css/targets.py", "TargetLookupItem"), .perRender),
   (("document.py", "DiskCache"), .callerOwned),
   (("document.py", "Document"), .perDocument),
   (("document.py", "Page"), .perDocument),
   (("formatting_structure/boxes.py", "Box"), .perRender),
   (("formatting_structure/boxes.py", "ParentBox"), .perRender),
   (("formatting_structure/boxes.py", "TableBox"), .perRender),
   (("layout/__init__.py", "LayoutContext"), .perRender),
   (("pdf/fonts.py", "Font"), .perDocument),
   (("pdf/stream.py", "Stream"), .perPdf),
   (("stacking.py", "StackingContext"), .perRender),
   (("svg/__init__.py", "Node"), .perImage),
   (("svg/__init__.py", "SVG"), .perImage)]

def reviewedStateAttributes : List (String × String × String × String) :=
  [("__main__.py", "Parser", "_arguments", "dict"),
   ("css/__init__.py", "AnonymousStyle", "cache", "dict"),
   ("css/__init__.py", "ComputedStyle", "cache", "dict"),
   ("css/__init__.py", "ComputedStyle", "specified", "dict"),
   ("css/__init__.py", "StyleFor", "_cascaded_styles", "dict"),
   ("css/__init__.py", "StyleFor", "_computed_styles", "dict"),
   ("css/targets.py", "CounterLookupItem", "cached_page_counter_values", "dict"),
   ("css/targets.py", "TargetCollector", "counter_lookup_items", "dict"),
   ("css/targets.py", "TargetCollector", "target_lookup_items", "dict"),
   ("css/targets.py", "TargetLookupItem", "cached_page_counter_values", "dict"),
   ("css/targets.py", "TargetLookupItem", "parse_again_functions", "dict"),
   ("document.py", "DiskCache", "_disk_paths", "set"),
   ("document.py", "DiskCache", "_memory_cache", "dict"),
   ("document.py", "Document", "fonts", "dict"),
   ("document.py", "Page", "anchors", "dict"),
   ("document.py", "Page", "bleed", "dict"),
   ("document.py", "Page", "bookmarks", "list"),
   ("document.py", "Page", "forms", "dict"),
   ("document.py", "Page", "links", "list"),
   ("formatting_structure/boxes.py", "Box", "children", "list"),
   ("formatting_structure/boxes.py", "Box", "remove_decoration_sides", "set"),
   ("formatting_structure/boxes.py", "ParentBox", "remove_decoration_sides", "set"),
   ("formatting_structure/boxes.py", "TableBox", "column_positions", "list"),
   ("layout/__init__.py", "LayoutContext", "_excluded_shapes_lists", "list"),
   ("layout/__init__.py", "LayoutContext", "broken_out_of_flow", "dict"),
   ("layout/__init__.py", "LayoutContext", "current_page_footnotes", "list"),
   ("layout/__init__.py", "LayoutContext", "dictionaries", "dict"),
   ("layout/__init__.py", "LayoutContext", "excluded_shapes", "list"),
   ("layout/__init__.py", "LayoutContext", "font_features", "dict"),
   ("layout/__init__.py", "LayoutContext", "footnotes", "list"),
   ("layout/__init__.py", "LayoutContext", "page_footnotes", "dict"),
   ("layout/__init__.py", "LayoutContext", "reported_footnotes", "list"),
   ("layout/__init__.py", "LayoutContext", "running_elements", "defaultdict"),
   ("layout/__init__.py", "LayoutContext", "string_set", "defaultdict"),
   ("layout/__init__.py", "LayoutContext", "strut_layouts", "dict"),
   ("layout/__init__.py", "LayoutContext", "tables", "dict"),
   ("pdf/fonts.py", "Font", "cmap", "dict"),
   ("pdf/fonts.py", "Font", "tables", "list"),
   ("pdf/fonts.py", "Font", "variations", "dict"),
   ("pdf/fonts.py", "Font", "widths", "dict"),
   ("pdf/stream.py", "Stream", "_ctm_stack", "list"),
   ("pdf/stream.py", "Stream", "marked", "list"),
   ("stacking.py", "StackingContext", "negative_z_contexts", "list"),
   ("stacking.py", "StackingContext", "positive_z_contexts", "list"),
   ("stacking.py", "StackingContext", "zero_z_contexts", "list"),
   ("svg/__init__.py", "Node", "vertices", "list"),
   ("svg/__init__.py", "SVG", "cursor_d_position", "list"),
   ("svg/__init__.py", "SVG", "cursor_position", "list"),
   ("svg/__init__.py", "SVG", "filters", "dict"),
   ("svg/__init__.py", "SVG", "gradients", "dict"),
   ("svg/__init__.py", "SVG", "images", "dict"),
   ("svg/__init__.py", "SVG", "markers", "dict"),
   ("svg/__init__.py", "SVG", "masks", "dict"),
   ("svg/__init__.py", "SVG", "paths", "dict"),
   ("svg/__init__.py", "SVG", "patterns", "dict"),
   ("svg/__init__.py", "SVG", "symbols", "dict"),
   ("svg/__init__.py", "SVG", "use_cache", "dict")]

/-- Every mutable container owned by a class is reviewed, attribute by attribute: a new `self.x = {}` (a new
per-object cache) or a container in a class body shows up here. -/
theorem state_attributes_reviewed : stateClasses = reviewedStateAttributes := rfl

/-- No class body holds a mutable container: a class-level dict / list / set would be shared by all instances and live
as long as the process (entries `CLASSATTR:<name>` of the inventory). -/
theorem no_class_level_container : classLevelContainers = [] := rfl

/-- Memoised functions: one per-call cache (a closure inside `table_and_columns_preferred_widths`, gone when the call
returns) and one process-lifetime memo of a pure function of its argument (`get_lang_quotes(lang)` reads the constant
table `LANG_QUOTES`). -/
def reviewedMemoSites : List (String × String × String × String) :=
  [("layout/preferred.py", "table_and_columns_preferred_widths.get_percentage_contribution", "cache", "call"),
   ("text/constants.py", "get_lang_quotes", "lru_cache", "process")]

/-- Places where hash order or an address is observable, with the reason each cannot reach the output:
* `HTML.render`: one log line per unknown option (order of warnings only);
* `DiskCache.__del__`: files are unlinked, in any order;
* `make_page`: `id(counter_lookup)` is a membership key in a per-page set, never ordered or printed;
* `Node.cascade`: each colour attribute is resolved independently of the others;
* `SVG.parse_defs`: each definition kind is stored in its own dictionary. -/
def reviewedOrderSites : List (String × String × String × String) :=
  [("__init__.py", "HTML.render", "for", "set(options) - set(DEFAULT_OPTIONS)"),
   ("document.py", "DiskCache.__del__", "for", "self._disk_paths"),
   ("layout/page.py", "make_page", "id", "id(counter_lookup)"),
   ("svg/__init__.py", "Node.cascade", "for", "COLOR_ATTRIBUTES"),
   ("svg/__init__.py", "SVG.parse_defs", "for", "DEF_TYPES")]

/-- Every process-lifetime object of the source is reviewed, and nothing reviewed has disappeared. -/
theorem module_objects_reviewed : moduleObjects = reviewedModuleObjects.map (·.1) := rfl

/-- Every class that owns mutable state has a reviewed lifetime. -/
theorem state_classes_reviewed : stateClassNames = reviewedStateClasses.map (·.1) := rfl

/-- No class keeps mutable state for longer than the object the caller holds: none has process lifetime. -/
theorem no_process_lifetime_class :
    ∀ e ∈ reviewedStateClasses, e.2 = .perRender ∨ e.2 = .perDocument ∨ e.2 = .perPdf ∨ e.2 = .perImage ∨
      e.2 = .callerOwned ∨ e.2 = .cliOnly := by decide

/-- The memoised functions of the source are exactly the two reviewed ones. -/
theorem memo_sites_reviewed : memoSites = reviewedMemoSites := rfl

/-- The only memo that outlives a call is `get_lang_quotes`. -/
theorem single_process_memo :
    reviewedMemoSites.filter (fun e => e.2.2.2 == "process") =
      [("text/constants.py", "get_lang_quotes", "lru_cache", "process")] := by decide

/-- The places where hash order or an address is observable are exactly the five reviewed ones: in particular no loop
over the computed value of a set-valued property (`setValuedProperties`) exists in the drawing code. -/
theorem order_sites_reviewed : orderSites = reviewedOrderSites := rfl

/-- `text-decoration-line` is the only property whose computed value is a set. -/
theorem set_valued_properties_reviewed : setValuedProperties = ["text_decoration_line"] := rfl

/-- The objects classified as import-time registries. -/
def registries : List (String × String) :=
  (reviewedModuleObjects.filter (fun e => e.2 == .importRegistry)).map (fun e => (e.1.1, e.1.2.1))

/-- Tie between the two generated tables: every store through a module-level name that occurs inside a function
(`Gen.moduleState`, kinds `store@` / `call.<mutator>@`) targets an object reviewed as an import-time registry; the
functions doing it are the registering decorators.  Hence no `constTable` / `uaSheet` object is written by name from
inside any function of the package. -/
theorem registries_only_written_at_import :
    ∀ s ∈ Wp.Gen.moduleState, s.2.2.toList.take 5 = "memo@".toList ∨ (s.1, s.2.1) ∈ registries := by decide

example : ("css/utils.py", "LENGTHS_TO_PIXELS", "dict") ∈ moduleObjects ∧
    (("document.py", "DiskCache"), Lifetime.callerOwned) ∈ reviewedStateClasses := by decide

end Wp.C19.Purity
