/-
C20 — the constant tables of the URL models agree with the source (`Gen/UrlTables.lean`, regenerated each run from
`weasyprint/urls.py` by AST and from `urllib.parse` by import): the set of bytes `iri_to_uri` leaves alone, the pattern
of `UNICODE_SCHEME_RE`, and the scheme lists of `urllib.parse`.  An edit of any of them breaks a proof here.
-/
import WpModel.Model.Resources
import WpModel.Model.ResourcesUrl
import WpModel.Gen.UrlTables

namespace Wp.C20.Tables
open Wp Wp.Res

/-- `isUriByte` is exactly "always safe for `quote`, or in the `safe=` argument written in `iri_to_uri`", for every
byte value. -/
theorem uri_bytes_match_source :
    (List.range 256).all (fun b => isUriByte b == (Gen.quoteAlwaysSafe.contains b || Gen.iriSafe.contains b)) = true := by
  decide +kernel

/-- The pattern `url_is_absolute` matches with is the one `urlIsAbsolute` implements: a letter, then at least one of
letters, digits, `.`, `+`, `-`, then a colon, at the start of the string. -/
theorem scheme_regex_modelled : Gen.schemeRegex = "^([a-zA-Z][a-zA-Z0-9.+-]+):" := by decide

/-- The scheme lists that steer `urljoin` / `urlparse` are those of the running `urllib.parse`. -/
theorem scheme_lists_match_stdlib :
    Url.usesRelative = Gen.usesRelative ∧ Url.usesNetloc = Gen.usesNetloc ∧ Url.usesParams = Gen.usesParams :=
  ⟨rfl, rfl, rfl⟩

/-- What the pattern means for the model, on examples of each class. -/
example : urlIsAbsolute "http://a/b" = true ∧ urlIsAbsolute "a:b" = false ∧ urlIsAbsolute "1a:b" = false ∧
    urlIsAbsolute "svn+ssh://x" = true ∧ urlIsAbsolute "/a:b" = false ∧ urlIsAbsolute "fi_le:x" = false := by decide

end Wp.C20.Tables
