/-
C16 — "every font … it names is defined in the resource dictionary in effect": the font bookkeeping between
`draw_first_line`, `Stream.add_font` and `build_fonts_dictionary` (Model/PdfFonts).
-/
import WpModel.Model.PdfFonts
import WpModel.Lemmas.PdfFontsW

namespace Wp.C16
open Wp Wp.Pdf Wp.PdfFonts

/-! ## dictionary keys -/

private theorem mem_dictKeys (ks : List String) (k : String) : k ∈ dictKeys ks ↔ k ∈ ks := by
  induction ks with
  | nil => simp [dictKeys]
  | cons a as ih =>
    simp only [dictKeys, List.mem_cons, List.mem_filter, ih]
    constructor
    · rintro (h | ⟨h, _⟩)
      · exact Or.inl h
      · exact Or.inr h
    · rintro (h | h)
      · exact Or.inl h
      · by_cases e : k = a
        · exact Or.inl e
        · exact Or.inr ⟨h, by simpa using e⟩

private theorem dictKeys_nodup (ks : List String) : (dictKeys ks).Nodup := by
  induction ks with
  | nil => simp [dictKeys]
  | cons a as ih =>
    simp only [dictKeys, List.nodup_cons, List.mem_filter]
    refine ⟨?_, ih.filter _⟩
    rintro ⟨_, h⟩
    simp at h

private theorem buildLoop_ok (files : List String) (fonts : List FontInfo) (ks : List String)
    (h : buildLoop files fonts = .ok ks) : ks = fonts.map (·.hash) := by
  induction fonts generalizing ks with
  | nil => simp [buildLoop] at h; simp [h]
  | cons f fs ih =>
    simp only [buildLoop] at h
    split at h
    · simp at h
    · cases hrec : buildLoop files fs with
      | error e => rw [hrec] at h; simp [Except.map] at h
      | ok ks' =>
        rw [hrec] at h
        simp [Except.map] at h
        subst h
        simp [ih ks' hrec]

/-- **fonts_defined**: whatever fonts the drawing code registered in `document.fonts` (vector or bitmap, used in form
fields or not, with or without a single glyph drawn), when `build_fonts_dictionary` returns, the `/Font` dictionary has
exactly one key per distinct `font.hash` of the table: every registered font is defined, nothing else is, no key is
repeated. -/
theorem fonts_defined (fonts : List FontInfo) (ks : List String) (h : buildFonts fonts = .ok ks) :
    (∀ f ∈ fonts, f.hash ∈ ks) ∧ (∀ k ∈ ks, ∃ f ∈ fonts, f.hash = k) ∧ ks.Nodup := by
  unfold buildFonts at h
  cases hl : buildLoop (fileHashes fonts []) fonts with
  | error e => rw [hl] at h; simp [Except.map] at h
  | ok ks' =>
    rw [hl] at h
    simp [Except.map] at h
    subst h
    have e := buildLoop_ok _ _ _ hl
    subst e
    refine ⟨?_, ?_, dictKeys_nodup _⟩
    · intro f hf
      rw [mem_dictKeys]
      exact List.mem_map_of_mem hf
    · intro k hk
      rw [mem_dictKeys] at hk
      obtain ⟨f, hf, rfl⟩ := List.mem_map.mp hk
      exact ⟨f, hf, rfl⟩

/-- Fonts with the same `hash` come from the same font description: they agree on being bitmap fonts. -/
def HashConsistent (fonts : List FontInfo) : Prop :=
  ∀ f ∈ fonts, ∀ g ∈ fonts, f.hash = g.hash → f.bitmap = g.bitmap

private theorem mem_fileHashes (fs : List FontInfo) (seen : List String) (f : FontInfo) (hf : f ∈ fs)
    (_hv : f.bitmap = false) (hs : f.hash ∉ seen)
    (hc : ∀ g ∈ fs, g.hash = f.hash → g.bitmap = false) : f.hash ∈ fileHashes fs seen := by
  induction fs generalizing seen with
  | nil => cases hf
  | cons g gs ih =>
    have hc' : ∀ x ∈ gs, x.hash = f.hash → x.bitmap = false := fun x hx => hc x (List.mem_cons_of_mem _ hx)
    simp only [fileHashes]
    by_cases hseen : seen.contains g.hash = true
    · simp only [hseen, if_true]
      have hne : g.hash ≠ f.hash := by
        intro e; rw [e] at hseen; exact hs (by simpa using hseen)
      rcases List.mem_cons.mp hf with rfl | hf'
      · exact absurd rfl hne
      · exact ih seen hf' hs hc'
    · simp only [hseen, Bool.false_eq_true, if_false]
      by_cases hb : g.bitmap = true
      · simp only [hb, if_true]
        have hne : g.hash ≠ f.hash := by
          intro e
          have := hc g List.mem_cons_self e
          rw [hb] at this; cases this
        rcases List.mem_cons.mp hf with rfl | hf'
        · exact absurd rfl hne
        · exact ih (g.hash :: seen) hf' (by simp [hs, Ne.symm hne]) hc'
      · simp only [hb, Bool.false_eq_true, if_false]
        by_cases e : g.hash = f.hash
        · simp [e]
        · rcases List.mem_cons.mp hf with rfl | hf'
          · exact absurd rfl e
          · exact List.mem_cons_of_mem _ (ih (g.hash :: seen) hf' (by simp [hs, Ne.symm e]) hc')

private theorem buildLoop_total (files : List String) (fonts : List FontInfo)
    (h : ∀ f ∈ fonts, f.bitmap = false → f.hash ∈ files) : ∃ ks, buildLoop files fonts = .ok ks := by
  induction fonts with
  | nil => exact ⟨[], rfl⟩
  | cons f fs ih =>
    obtain ⟨ks, hks⟩ := ih (fun x hx => h x (List.mem_cons_of_mem _ hx))
    refine ⟨f.hash :: ks, ?_⟩
    simp only [buildLoop]
    have : ¬ ((!f.bitmap && !files.contains f.hash) = true) := by
      cases hb : f.bitmap
      · have := h f List.mem_cons_self hb
        simp [this]
      · simp
    simp [hks, Except.map]
    exact h f List.mem_cons_self

/-- **fonts_total**: `build_fonts_dictionary` cannot fail on `font_references_by_file_hash[font.hash]`: every vector
font finds the font file of its group. -/
theorem fonts_total (fonts : List FontInfo) (hc : HashConsistent fonts) (acroForm : Bool) :
    ∃ ks, fontResourceKeys fonts acroForm = .ok ks := by
  obtain ⟨ks, hks⟩ := buildLoop_total (fileHashes fonts []) fonts (by
    intro f hf hv
    exact mem_fileHashes fonts [] f hf hv (by simp) (fun g hg e => by rw [hc g hg f hf e]; exact hv))
  refine ⟨if acroForm then dictKeys (dictKeys ks ++ ["ZaDb"]) else dictKeys ks, ?_⟩
  simp [fontResourceKeys, buildFonts, hks, Except.map]

/-! ## the text drawing code only names registered fonts -/

private theorem lookupFont_mem (t : FontTable) (key : Nat) (f : FontInfo) (h : lookupFont t key = some f) :
    f ∈ t.map (·.2) := by
  unfold lookupFont at h
  cases hf : List.find? (fun e => e.1 == key) t with
  | none => rw [hf] at h; cases h
  | some e =>
    rw [hf] at h; simp at h; subst h
    exact List.mem_map_of_mem (List.mem_of_find?_eq_some hf)

private theorem addFont_spec (t : FontTable) (key : Nat) (fresh : FontInfo) :
    (addFont t key fresh).2 ∈ (addFont t key fresh).1.map (·.2) ∧
    ∀ x ∈ t.map (·.2), x ∈ (addFont t key fresh).1.map (·.2) := by
  unfold addFont
  cases h : lookupFont t key with
  | some f => exact ⟨lookupFont_mem t key f h, fun x hx => hx⟩
  | none => exact ⟨by simp, fun x hx => by simp only [List.map_append, List.mem_append]; exact Or.inl hx⟩

private theorem drawRuns_fonts (runs : List Run) (t : FontTable) (prev : Option Nat) (pending : String) :
    (∀ x ∈ t.map (·.2), x ∈ (drawRuns t prev pending runs).1.map (·.2)) ∧
    ∀ h sz, Call.setFont h sz ∈ (drawRuns t prev pending runs).2.1 →
      ∃ f ∈ (drawRuns t prev pending runs).1.map (·.2), f.hash = h := by
  induction runs generalizing t prev pending with
  | nil => exact ⟨fun x hx => hx, fun h sz hm => by simp [drawRuns] at hm⟩
  | cons r rs ih =>
    simp only [drawRuns]
    split
    · exact ih t prev (pending ++ r.text)
    · have hadd := addFont_spec t r.key r.fresh
      have hrec := ih (addFont t r.key r.fresh).1 (some r.pango) r.text
      refine ⟨fun x hx => hrec.1 x (hadd.2 x hx), ?_⟩
      intro h sz hm
      simp only [List.mem_append, List.mem_cons, List.mem_nil_iff, or_false] at hm
      rcases hm with (hm | hm) | hm
      · split at hm
        · cases hm
        · simp at hm
      · cases hm
        exact ⟨(addFont t r.key r.fresh).2, hrec.1 _ hadd.1, rfl⟩
      · exact hrec.2 h sz hm

/-- **text_fonts_defined**: for every line of text — any sequence of Pango runs, fonts new to the document or already
registered, runs whose glyphs are all empty included — and any state of `document.fonts` before it, every
`set_font_size(font.hash, …)` that `draw_first_line` emits (`Tf`) names a font that is in `document.fonts` when the line
has been drawn (fonts are never removed), hence, by `fonts_defined`, a key of the `/Font` dictionary that
`build_fonts_dictionary` builds from the final table: no `Tf` of the document names an undefined font. -/
theorem text_fonts_defined (t : FontTable) (runs : List Run) (later : List (Nat × FontInfo)) (ks : List String)
    (hk : buildFonts (((drawLine t runs).1 ++ later).map (·.2)) = .ok ks) :
    ∀ h sz, Call.setFont h sz ∈ (drawLine t runs).2 → h ∈ ks := by
  intro h sz hm
  have hd := drawRuns_fonts runs t none ""
  simp only [drawLine, List.mem_append, List.mem_cons, List.mem_nil_iff, or_false] at hm
  rcases hm with hm | hm
  · obtain ⟨f, hf, rfl⟩ := hd.2 h sz hm
    exact (fonts_defined _ ks hk).1 f (by
      simp only [drawLine, List.map_append, List.mem_append]
      exact Or.inl hf)
  · cases hm

/-- Non-vacuity, on the shape of the seeded regression C16-5: text `a` in one font followed by a run holding only a
ZERO WIDTH SPACE in another font (no glyph, so nothing enters that font's `cmap`): both fonts are named by `Tf` and both
are keys of `/Font`. -/
example :
    (drawLine [] [⟨1, 1, { hash := "BAWKYD" }, .int 10, "0041"⟩, ⟨2, 2, { hash := "IKCJUC" }, .int 10, ">-0.0<"⟩]).2 =
      [.setFont "BAWKYD" (.int 10), .raw .showText [] false "0041", .setFont "IKCJUC" (.int 10),
       .raw .showText [] false ">-0.0<"] ∧
    fontResourceKeys ((drawLine [] [⟨1, 1, { hash := "BAWKYD" }, .int 10, "0041"⟩,
      ⟨2, 2, { hash := "IKCJUC" }, .int 10, ">-0.0<"⟩]).1.map (·.2)) true = .ok ["BAWKYD", "IKCJUC", "ZaDb"] := by
  constructor <;> rfl

/-- **w_array_round_trip**: for every glyph width table (glyph ids in strictly increasing order: `sorted(widths)` of a
dict — any gaps, runs, glyph 0, a single glyph, none), building the `/W` array of the CID font does not fail
(`current_widths` is always bound) and a PDF reader that expands its `c [w1 … wn]` groups (PDF 32000-1 9.7.4.3) gets
exactly the table back: every used glyph id with its width, no other glyph id, in order. -/
theorem w_array_round_trip (pairs : List (Nat × Int)) (hs : (pairs.map (·.1)).Pairwise (· < ·)) :
    ∃ items, wArray pairs = .ok items ∧ wDecode items = pairs := by
  obtain ⟨out, ho, hd⟩ := wLoop_spec (pairs.map (·.1)) pairs [] [] (by simp) (by simpa using hs)
    ⟨rfl, fun h => absurd rfl h, fun g p hg _ => by simp at hg⟩
  refine ⟨out.flatMap (fun g => [WItem.cid g.1, WItem.widths g.2]), by simp [wArray, ho, Except.map], ?_⟩
  rw [wDecode_groups, hd]; simp

/-- **cid_set_bits**: the `/CIDSet` bit string is a whole number of bytes, long enough for the last glyph id, and bit
`i` (most significant bit of byte 0 first) is set exactly when glyph id `i` is used. -/
theorem cid_set_bits (cids : List Nat) (last : Nat) :
    (cidSetBits cids last).length % 8 = 0 ∧ last < (cidSetBits cids last).length ∧
    ∀ i, i < (cidSetBits cids last).length → (cidSetBits cids last)[i]? = some (cids.contains i) := by
  have hl : (cidSetBits cids last).length = (last + 1 + 7) / 8 * 8 := by simp [cidSetBits]
  refine ⟨by rw [hl]; omega, by rw [hl]; omega, ?_⟩
  intro i hi
  rw [hl] at hi
  simp [cidSetBits, List.getElem?_range, hi]

/-- Examples of both (the functions are tied to `_build_vector_font_dictionary` by the `font-arrays`
correspondence). -/
example : (wArray [(0, 500), (1, 600), (3, 250), (7, 10), (8, 20)]).map wDecode =
    .ok [(0, 500), (1, 600), (3, 250), (7, 10), (8, 20)] := rfl

example : cidSetBits [0, 1, 3, 7, 8] 8 =
    [true, true, false, true, false, false, false, true, true, false, false, false, false, false, false, false] := by
  decide

/-- `undefinedFonts` is what the harness compares with the independent reader's view of the written file. -/
theorem undefined_empty (keys used : List String) (h : ∀ u ∈ used, u ∈ keys) : undefinedFonts keys used = [] := by
  unfold undefinedFonts
  rw [List.filter_eq_nil_iff]
  intro u hu
  simpa using h u hu

end Wp.C16
