/-
C05 — the model side of the metamorphic pair "uniform translation" (`observe_at` of the property; harness
section `translation`): the functions that place a block horizontally are translation covariant, function by
function and for whole trees —

  `block_level_width` moves `position_x` only relatively                      (`blwCore_shift`)
  `handle_min_max_width` restores the *original* `position_x` between passes   (`minmax_map_shift`, `minmax_shift`)
  one box (`resolve_percentages` + decorated `block_level_width`)             (`layoutBox_translate`)
  a whole tree of blocks, children placed at the parent's content edge         (`layoutNode_translate`)

and of the pair "neutral wrapper div" (section `wrapper`): a plain `<div>` around the children of an auto-height
block takes the geometry of the parent's content box and leaves every other box of the document where it was
(`layoutBox_plain`, `layoutNode_wrapper`, `layoutNode_wrap_children`)

so a rendering that is not moved as a whole by moving the page area disagrees with the model (before /repo
165e254 the model itself was covariant too: the accumulated rtl shifts were relative; the pair targets absolute
coordinates, e.g. the page origin returned for zero-height floats before /repo 50ab141).  Core Lean only.
-/
import WpModel.Props.C05Refine
import WpModel.Props.C05Shrink
namespace Wp.C05Meta
open Wp Wp.BoxModel Wp.BlockTree Wp.C05

set_option linter.unusedSimpArgs false

/-- `Box.translate(dx)` on the attributes of one axis. -/
def shiftA (d : Rat) (b : ABox) : ABox := { b with posX := b.posX + d }

/-- `block_level_width` only ever moves `position_x` relatively: it commutes with a translation. -/
theorem blwCore_shift (cbw : Rat) (dir : Dir) (d : Rat) (b : ABox) :
    blwCore cbw dir (shiftA d b) = shiftA d (blwCore cbw dir b) := by
  rcases b with ⟨ml, mr, pl, pr, bl, br, w, minW, maxW, posX, col⟩
  cases w <;> cases ml <;> cases mr <;> cases dir <;> cases col <;>
    simp [blwCore, shiftA] <;> (try split) <;> (try simp) <;> (try grind)

theorem shiftA_fields (d : Rat) (b : ABox) :
    (shiftA d b).ml = b.ml ∧ (shiftA d b).mr = b.mr ∧ (shiftA d b).pl = b.pl ∧ (shiftA d b).pr = b.pr ∧
    (shiftA d b).bl = b.bl ∧ (shiftA d b).br = b.br ∧ (shiftA d b).w = b.w ∧ (shiftA d b).minW = b.minW ∧
    (shiftA d b).maxW = b.maxW ∧ (shiftA d b).isColumn = b.isColumn ∧ (shiftA d b).posX = b.posX + d :=
  ⟨rfl, rfl, rfl, rfl, rfl, rfl, rfl, rfl, rfl, rfl, rfl⟩

private theorem sA_ml (d : Rat) (b : ABox) : (shiftA d b).ml = b.ml := rfl
private theorem sA_mr (d : Rat) (b : ABox) : (shiftA d b).mr = b.mr := rfl
private theorem sA_pl (d : Rat) (b : ABox) : (shiftA d b).pl = b.pl := rfl
private theorem sA_pr (d : Rat) (b : ABox) : (shiftA d b).pr = b.pr := rfl
private theorem sA_bl (d : Rat) (b : ABox) : (shiftA d b).bl = b.bl := rfl
private theorem sA_br (d : Rat) (b : ABox) : (shiftA d b).br = b.br := rfl
private theorem sA_w (d : Rat) (b : ABox) : (shiftA d b).w = b.w := rfl
private theorem sA_minW (d : Rat) (b : ABox) : (shiftA d b).minW = b.minW := rfl
private theorem sA_maxW (d : Rat) (b : ABox) : (shiftA d b).maxW = b.maxW := rfl
private theorem sA_col (d : Rat) (b : ABox) : (shiftA d b).isColumn = b.isColumn := rfl
private theorem sA_widthOf (d : Rat) (b : ABox) : widthOf (shiftA d b) = widthOf b := rfl

/-- The wrapper overwrites `position_x` before every further pass: a wrapped function that is followed by a
translation gives the wrapper followed by that translation. -/
theorem minmax_map_shift (f : ABox → Except BErr ABox) (d : Rat) (b : ABox) :
    handleMinMaxWidth (fun x => (f x).map (shiftA d)) b = (handleMinMaxWidth f b).map (shiftA d) := by
  -- the last stage (the min-width pass) from a box `b2`, on both sides
  have last : ∀ b2 : ABox,
      (do let width ← widthOf (shiftA d b2)
          let box ← (if width < (shiftA d b2).minW then
              (fun x => (f x).map (shiftA d))
                { shiftA d b2 with w := some (shiftA d b2).minW, ml := b.ml, mr := b.mr, posX := b.posX }
            else pure (shiftA d b2) : Except BErr ABox)
          pure box) =
      Except.map (shiftA d)
        (do let width ← widthOf b2
            let box ← (if width < b2.minW then f { b2 with w := some b2.minW, ml := b.ml, mr := b.mr, posX := b.posX }
              else pure b2 : Except BErr ABox)
            pure box) := by
    intro b2
    cases hw2 : widthOf b2 with
    | error e => simp [bind, Except.bind, Except.map, sA_widthOf, hw2]
    | ok w2 =>
      by_cases hc : w2 < b2.minW
      · cases h3 : f { b2 with w := some b2.minW, ml := b.ml, mr := b.mr, posX := b.posX } <;>
          simp [bind, Except.bind, Except.map, pure, Except.pure, sA_widthOf, sA_pl, sA_pr, sA_bl, sA_br, sA_minW,
            sA_maxW, sA_col, hw2, hc, h3]
      · simp [bind, Except.bind, Except.map, pure, Except.pure, sA_widthOf, sA_minW, hw2, hc]
  unfold handleMinMaxWidth
  cases h1 : f b with
  | error e => simp [bind, Except.bind, Except.map, h1]
  | ok b1 =>
    cases hw1 : widthOf b1 with
    | error e => simp [bind, Except.bind, Except.map, sA_widthOf, h1, hw1]
    | ok w1 =>
      by_cases hc : b1.maxW.ltRat w1 = true
      · cases hx : extAsLen b1.maxW with
        | error e => simp [bind, Except.bind, Except.map, sA_widthOf, sA_maxW, h1, hw1, hc, hx]
        | ok v =>
          cases h2 : f { b1 with w := v, ml := b.ml, mr := b.mr, posX := b.posX } with
          | error e =>
            simp [bind, Except.bind, Except.map, sA_widthOf, sA_pl, sA_pr, sA_bl, sA_br, sA_minW, sA_maxW, sA_col,
              h1, hw1, hc, hx, h2]
          | ok b2 =>
            have := last b2
            simp only [bind, Except.bind] at this
            simp [bind, Except.bind, Except.map, sA_widthOf, sA_pl, sA_pr, sA_bl, sA_br, sA_minW, sA_maxW, sA_col,
              h1, hw1, hc, hx, h2]
            exact this
      · have := last b1
        simp only [bind, Except.bind] at this
        simp [bind, Except.bind, Except.map, pure, Except.pure, sA_widthOf, sA_maxW, h1, hw1, hc]
        rw [sA_widthOf, hw1] at this
        exact this

/-- The min/max wrapper around a function that commutes with translations commutes with translations. -/
theorem minmax_shift (f : ABox → Except BErr ABox) (d : Rat)
    (hf : ∀ b, f (shiftA d b) = (f b).map (shiftA d)) (b : ABox) :
    handleMinMaxWidth f (shiftA d b) = (handleMinMaxWidth f b).map (shiftA d) := by
  have h1 : handleMinMaxWidth f (shiftA d b) = handleMinMaxWidth (fun x => f (shiftA d x)) b := rfl
  rw [h1, funext hf]
  exact minmax_map_shift f d b

/-- (d) px against the equivalent percentage (third metamorphic pair, function level): a percentage is the
pixel length it resolves to. -/
theorem percentageQ_pct_eq_px (v ref : Rat) :
    percentageQ (.pct v) ref = percentageQ (.px (ref * v / 100)) ref := rfl

/-! ### documents: the block-tree model is translation covariant -/

/-- `Box.translate(dx)` on the geometry of one laid-out box. -/
def shiftG (d : Rat) (g : Geo) : Geo := { g with x := g.x + d }

theorem blw_minmax_shift (cb : CB) (d : Rat) (b : ABox) :
    blockLevelWidthMinMax cb (shiftA d b) = (blockLevelWidthMinMax cb b).map (shiftA d) := by
  unfold blockLevelWidthMinMax
  apply minmax_shift
  intro x
  simp only [blockLevelWidth, blwCore_shift, Except.map]

private theorem geoOf_shift (u : Used) (d : Rat) (r : ABox) :
    geoOf u (shiftA d r) = (geoOf u r).map (shiftG d) := by
  unfold geoOf
  simp only [sA_ml, sA_mr, sA_w, bind, Except.bind]
  cases lenToRat "margin_left" r.ml with
  | error e => rfl
  | ok a =>
    cases lenToRat "margin_right" r.mr with
    | error e => rfl
    | ok b =>
      cases lenToRat "width" r.w with
      | error e => rfl
      | ok c => rfl

/-- One box laid out `d` further to the right: the same used values, `position_x` moved by `d`. -/
theorem layoutBox_translate (cb : CB) (cbH : Len) (x d fs : Rat) (s : NStyle) :
    layoutBox cb cbH (x + d) fs s = (layoutBox cb cbH x fs s).map (fun p => (shiftG d p.1, p.2)) := by
  unfold layoutBox
  simp only [bind, Except.bind]
  cases computeStyle fs s with
  | error e => rfl
  | ok st =>
    simp only
    cases resolvePercentages false st cb.width cbH with
    | error e => rfl
    | ok u =>
      simp only
      have : aboxOfUsed u (x + d) = shiftA d (aboxOfUsed u x) := rfl
      rw [this, blw_minmax_shift]
      cases blockLevelWidthMinMax cb (aboxOfUsed u x) with
      | error e => rfl
      | ok r =>
        simp only [Except.map, geoOf_shift]
        cases geoOf u r <;> rfl

theorem shiftG_contentX (d : Rat) (g : Geo) : (shiftG d g).contentX = g.contentX + d := by
  simp only [Geo.contentX, shiftG]; grind

mutual
/-- (f) **Uniform translation, documents** (the model side of the `translation` section): laying a tree of
blocks out from a start position moved by `d` gives the same boxes, each moved by `d` — in ltr and rtl,
whatever min/max and over-constraint do. -/
theorem layoutNode_translate (cb : CB) (cbH : Len) (x d : Rat) (dir : Dir) (fs : Rat) : ∀ n : Node,
    layoutNode cb cbH (x + d) dir fs n = (layoutNode cb cbH x dir fs n).map (List.map (shiftG d))
  | .mk s kids => by
    simp only [layoutNode, bind, Except.bind, layoutBox_translate]
    cases layoutBox cb cbH x (match s.fontSize with | some f => f | none => fs) s with
    | error e => rfl
    | ok gu =>
      obtain ⟨g, u⟩ := gu
      simp only [Except.map, shiftG_contentX]
      have hw : (shiftG d g).w = g.w := rfl
      rw [hw, layoutKids_translate]
      cases layoutKids (CB.box g.w (match s.dir with | some d' => d' | none => dir)) u.height g.contentX
        (match s.dir with | some d' => d' | none => dir) (match s.fontSize with | some f => f | none => fs) kids with
      | error e => rfl
      | ok rest => rfl
theorem layoutKids_translate (cb : CB) (cbH : Len) (x d : Rat) (dir : Dir) (fs : Rat) : ∀ ns : List Node,
    layoutKids cb cbH (x + d) dir fs ns = (layoutKids cb cbH x dir fs ns).map (List.map (shiftG d))
  | [] => rfl
  | n :: ns => by
    simp only [layoutKids, bind, Except.bind]
    rw [layoutNode_translate cb cbH x d dir fs n, layoutKids_translate cb cbH x d dir fs ns]
    cases layoutNode cb cbH x dir fs n with
    | error e => rfl
    | ok a =>
      cases layoutKids cb cbH x dir fs ns with
      | error e => rfl
      | ok b => simp [Except.map, pure, Except.pure]
end

/-- Non-vacuity: an rtl tree with an over-constrained, clamped child, laid out from 0 and from 16. -/
example : (match layoutNode (.box 200 .rtl) none (0 + 16) .rtl 16 C05Refine.exNode,
      layoutNode (.box 200 .rtl) none 0 .rtl 16 C05Refine.exNode with
    | .ok a, .ok b => decide (a = b.map (shiftG 16)) && decide (a.length = 3)
    | _, _ => false) = true := by
  decide +kernel

/-! ### documents: a neutral wrapper changes nothing (model side of the `wrapper` section) -/

/-- A plain `<div>`: no margin, border, padding; auto width and height; no min/max; direction and font size
inherited. -/
def plainStyle : NStyle := C05Refine.exStyle

def wrapperGeo (x w : Rat) : Geo :=
  { x := x, ml := 0, mr := 0, w := w, pl := 0, pr := 0, bl := 0, br := 0, mt := 0, mb := 0, pt := 0, pb := 0,
    bt := 0, bb := 0, h := none }

def plainUsed : Used :=
  { marginLeft := some 0, marginRight := some 0, marginTop := some 0, marginBottom := some 0, paddingLeft := 0,
    paddingRight := 0, paddingTop := 0, paddingBottom := 0, width := none, height := none, minWidth := 0,
    minHeight := 0, maxWidth := .inf, maxHeight := .inf, borderLeft := 0, borderRight := 0, borderTop := 0,
    borderBottom := 0 }

theorem layoutBox_plain (w : Rat) (d : Dir) (cbH : Len) (x fs : Rat) (hw : 0 ≤ w) :
    layoutBox (.box w d) cbH x fs plainStyle = .ok (wrapperGeo x w, plainUsed) := by
  have h0 : ¬ (w < 0) := Rat.not_lt.mpr hw
  have hz : w - (0 + 0 + 0 + 0 + 0 + 0) = w := by grind
  cases cbH <;>
    simp [layoutBox, plainStyle, C05Refine.exStyle, computeStyle, computeLen, computeMax, computeBorder,
      resolvePercentages, percentageQ, percentageX, resolvePad, resolveMin, adjustBoxSizing, boxSizingDelta,
      lenToRat, blockLevelWidthMinMax, handleMinMaxWidth, blockLevelWidth, blwCore, aboxOfUsed, widthOf, geoOf,
      Ext.ltRat, CB.width, bind, Except.bind, pure, Except.pure, wrapperGeo, plainUsed, hz, h0]

/-- (f)(g) **Neutral wrapper, documents** (the model side of the `wrapper` section): a plain `<div>` around a
list of blocks, in a containing block of non-negative width, is laid out with the geometry of the space it is
given (`x`, the whole width, no margins) and its children are laid out exactly as they were without it in an
auto-height parent — in ltr and rtl, for every list of children. -/
theorem layoutNode_wrapper (w : Rat) (d : Dir) (cbH : Len) (x fs : Rat) (hw : 0 ≤ w) (ks : List Node) :
    layoutNode (.box w d) cbH x d fs (.mk plainStyle ks) =
      (layoutKids (.box w d) none x d fs ks).map (fun l => wrapperGeo x w :: l) := by
  have hfs : plainStyle.fontSize = none := rfl
  have hdir : plainStyle.dir = none := rfl
  have hx : (wrapperGeo x w).contentX = x := by simp only [Geo.contentX, wrapperGeo]; grind
  simp only [layoutNode, hfs, hdir, layoutBox_plain w d cbH x fs hw, bind, Except.bind, hx]
  have hw' : (wrapperGeo x w).w = w := rfl
  have hh : plainUsed.height = none := rfl
  rw [hw', hh]
  cases layoutKids (.box w d) none x d fs ks <;> rfl

/-- The same, seen from the parent (the shape the harness renders: the content of `<body>` wrapped in a
`<div>`): for a parent with an auto height and a non-negative width, wrapping all its children in a plain
`<div>` inserts one box — the wrapper, filling the parent's content box horizontally — and changes no other
box of the document. -/
theorem layoutNode_wrap_children (cb : CB) (cbH : Len) (x : Rat) (dir : Dir) (fs : Rat) (s : NStyle)
    (ks : List Node) (g : Geo) (u : Used)
    (hbox : layoutBox cb cbH x (match s.fontSize with | some f => f | none => fs) s = .ok (g, u))
    (hauto : u.height = none) (hw : 0 ≤ g.w) :
    layoutNode cb cbH x dir fs (.mk s [.mk plainStyle ks]) =
      (layoutNode cb cbH x dir fs (.mk s ks)).map (fun l =>
        match l with
        | p :: rest => p :: wrapperGeo g.contentX g.w :: rest
        | [] => []) := by
  obtain ⟨ml, mr, mt, mb, pl, pr, pt, pb, bl, br, bt, bb, width, height, minW, minH, maxW, maxH, bs, sdir, sfs⟩ := s
  cases sfs <;> cases sdir <;> simp only at hbox <;>
  · simp only [layoutNode, layoutKids.eq_2, layoutKids.eq_1, bind, Except.bind, hbox, hauto,
      layoutBox_plain g.w _ none g.contentX _ hw]
    have hx : (wrapperGeo g.contentX g.w).contentX = g.contentX := by
      simp only [Geo.contentX, wrapperGeo]; grind
    have hw' : (wrapperGeo g.contentX g.w).w = g.w := rfl
    have hh : plainUsed.height = none := rfl
    have hfs : plainStyle.fontSize = none := rfl
    have hdir : plainStyle.dir = none := rfl
    simp only [hx, hw', hh, hfs, hdir]
    generalize layoutKids (CB.box g.w _) none g.contentX _ _ ks = r
    cases r <;> simp [Except.map, pure, Except.pure]

/-- Non-vacuity: the example tree of `C05Refine` (a centred 50% child holding a padded grandchild) with the
children of its root wrapped: one more box, the others unchanged. -/
example : (match layoutNode (.box 200 .rtl) none 0 .rtl 16 (.mk plainStyle [.mk plainStyle [C05Refine.exNode]]),
      layoutNode (.box 200 .rtl) none 0 .rtl 16 (.mk plainStyle [C05Refine.exNode]) with
    | .ok (p :: q :: rest), .ok (p' :: rest') => decide (p = p' ∧ q = wrapperGeo 0 200 ∧ rest = rest' ∧ rest.length = 3)
    | _, _ => false) = true := by
  decide +kernel

/-! ### documents: the used width is the CSS formula -/

open Wp.C05Shrink

/-- (b)(c) **Documents: the used width of every block box is the CSS formula** — for every box the block-tree model
lays out (`resolve_percentages`, then the decorated `block_level_width`): with `t` the tentative width of CSS 2.1
§10.3.3 for the used margins, paddings and borders, the used width is `cssClamp t min-width max-width` with the
*used* (percentages resolved, box-sizing subtracted) constraints. -/
theorem layoutBox_width_css (cb : CB) (cbH : Len) (x fs : Rat) (s : NStyle) (g : Geo) (u : Used)
    (h : layoutBox cb cbH x fs s = .ok (g, u)) :
    ∃ t, (blwCore cb.width cb.direction (aboxOfUsed u x)).w = some t ∧
      g.w = cssClamp t u.minWidth u.maxWidth := by
  obtain ⟨r, hr, _, _, hw, _⟩ := C05Refine.layoutBox_unfold cb cbH x fs s g u h
  obtain ⟨t, ht, hrw⟩ := blw_minmax_width_css cb.width cb.direction (aboxOfUsed u x) r hr
  refine ⟨t, ht, ?_⟩
  rw [hw] at hrw
  exact Option.some.inj hrw

/-- Non-vacuity: `width: 200px; max-width: 50px` in a 100px containing block is 50px wide. -/
example : (match layoutBox (.box 100 .rtl) none 0 16 { C05Refine.exStyle with width := .px 200, maxW := .px 50 } with
    | .ok (g, u) => decide (g.w = cssClamp 200 u.minWidth u.maxWidth ∧ g.w = 50)
    | .error _ => false) = true := by
  decide +kernel

end Wp.C05Meta
