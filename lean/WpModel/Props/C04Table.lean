/-
C04 on tables (Model/TableBreaks.lean, Model/BreakConserve.lean): the break-before / break-after written on a
table element is the value in force between the table - captions included - and its siblings, for every content
of the table; it never acts inside the table; accepted observations of rendered documents honour it; and
honouring an avoided break loses nothing.
-/
import WpModel.Model.TableBreaks
import WpModel.Model.BreakConserve
import WpModel.Props.C04
import WpModel.Props.C04Trace
import WpModel.Props.C01Trace

namespace Wp.C04Table
open Wp Wp.TableBreaks

/-- The chain walked down from the table wrapper starts with the table element's own break-before, whatever
the captions, groups and rows are (`wrap_table` moved it to the wrapper). -/
theorem beforeChain_wrapTable (t : TableE) : ∃ rest, beforeChain (wrapTable t) = t.before :: rest := by
  unfold wrapTable
  refine ⟨beforeChainFirst (captionBoxes true t.parts ++ [tableBox t] ++ captionBoxes false t.parts), ?_⟩
  rw [beforeChain]; simp

theorem afterChain_wrapTable (t : TableE) : ∃ rest, afterChain (wrapTable t) = t.after :: rest := by
  unfold wrapTable
  refine ⟨afterChainLast (captionBoxes true t.parts ++ [tableBox t] ++ captionBoxes false t.parts), ?_⟩
  rw [afterChain]; simp

/-- The value written on the table element meets at the boundary before the table, for every previous sibling. -/
theorem table_before_meets (a : Elem) (t : TableE) : t.before ∈ meetingValues (toBox a) (toBox (.table t)) := by
  obtain ⟨rest, h⟩ := beforeChain_wrapTable t
  simp [meetingValues, toBox, h]

theorem table_after_meets (t : TableE) (b : Elem) : t.after ∈ meetingValues (toBox (.table t)) (toBox b) := by
  obtain ⟨rest, h⟩ := afterChain_wrapTable t
  simp [meetingValues, toBox, h]

/-- **A forcing break-before on a table element forces the break before the whole table** (caption or not, header
or not, empty or not), in and out of columns: the value `block_level_page_break` returns between any previous
sibling and the table forces. -/
theorem forced_before_table (c : Bool) (a : Elem) (t : TableE) (h : forces c t.before = true) :
    forces c (breakBetween a (.table t)) = true :=
  C04.forced_wins c _ ⟨t.before, table_before_meets a t, h⟩

theorem forced_after_table (c : Bool) (t : TableE) (b : Elem) (h : forces c t.after = true) :
    forces c (breakBetween (.table t) b) = true :=
  C04.forced_wins c _ ⟨t.after, table_after_meets t b, h⟩

/-- A side written on the table element wins before the table unless a later box of the chain (a top caption,
or the first group / row of a table without top caption) carries a side itself: with no other side in the chain
the page side requested is the table's. -/
theorem table_side_alone (a : Elem) (t : TableE) (hs : C04.isSide t.before = true)
    (hcap : captionBoxes true t.parts = []) (hgroups : sortGroups (wrapRows t.parts []) = []) :
    breakBetween a (.table t) = t.before := by
  unfold breakBetween pageBreakBetween meetingValues
  have hb : beforeChain (toBox (.table t)) = [t.before, .auto] := by
    simp [toBox, wrapTable, hcap, tableBox, hgroups, beforeChain, beforeChainFirst]
  rw [hb]
  have := C04.last_side_wins ((afterChain (toBox a)).reverse) [.auto] t.before hs
    (by intro v hv; simp at hv; subst hv; decide)
  simpa using this

/-- The break values asked inside the table (captions | grid, groups, rows) do not depend on the values written on
the table element itself: a forced break-before on the table never splits the caption from the rows. -/
theorem inside_independent (t : TableE) (b a : Brk) :
    insideTable { t with before := b, after := a } = insideTable t := rfl

/-- Non-vacuity: `<table style="break-before:page"><caption>…<tr>…<tr>…` after a paragraph: `page` before the
table, `auto` everywhere inside. -/
example : let t : TableE := ⟨.page, .auto, [.caption true .auto .auto, .row ⟨.auto, .auto⟩, .row ⟨.auto, .auto⟩]⟩
    breakBetween (.para .auto .auto) (.table t) = .page ∧ insideTable t = [.auto, .auto] := by decide

/-- Header first, footer last, whatever the document order; bare rows share one anonymous group. -/
example : (sortGroups (wrapRows [.group .footer .left .auto [], .row ⟨.avoid, .auto⟩, .row ⟨.auto, .auto⟩,
    .group .header .right .auto []] [])).map (fun | .mk _ b _ _ => b) = [.right, .auto, .left] := by decide

/-! ### page names -/

/-- A table box ends the descent of `page_values`: its start and end names are its own `page`. -/
theorem pageValues_table (fl : Bool) (p : String) (kids : List PBox) :
    pageValues (.mk true fl p kids) = (p, p) := by
  simp [pageValues]

/-- A box without in-flow children has its own name at both ends. -/
theorem pageValues_leaf (fl : Bool) (p : String) : pageValues (.mk false fl p []) = (p, p) := by
  simp [pageValues, firstLast]

/-- `block_level_page_name` is `None` exactly when the end name of the first equals the start name of the second. -/
theorem pageNameBetween_none (a b : PBox) : pageNameBetween a b = none ↔ (pageValues a).2 = (pageValues b).1 := by
  unfold pageNameBetween
  by_cases h : (pageValues a).2 = (pageValues b).1 <;> simp [h]

example : pageNameBetween (.mk false true "" [.mk false true "a" [], .mk false false "b" []])
    (.mk false true "" [.mk true true "c" [.mk false true "d" []]]) = some "c" := by decide

/-! ### rendered documents -/

/-- **Soundness of the page checker**: when the observation of a rendered [sibling][table][sibling] is accepted and
a value forcing a page break is written as break-before on the table element, the previous sibling ends on an
earlier page than the first page showing any part of the table (top captions included). -/
theorem tableObs_sound (prev next : Elem) (t : TableE) (o : TableObs) (h : tableObsBad prev t next o = [])
    (hf : forces false t.before = true) : o.prevLast < o.tableFirst := by
  have hforce := forced_before_table false prev t hf
  unfold breakBetween pageBreakBetween at hforce
  simp only [toBox] at hforce
  unfold tableObsBad at h
  simp only [List.append_eq_nil_iff] at h
  have h0 := h.1.1
  by_cases hb : boundaryOk o.ltr (o.roomy && (insideTable t).all (fun v => !forces false v))
      (meetingValues (toBox prev) (wrapTable t)) o.prevLast o.tableFirst o.tableFirstRight o.prevIsFirst = true
  · unfold boundaryOk at hb
    simp only [hforce, ↓reduceIte, Bool.and_eq_true, decide_eq_true_eq] at hb
    exact hb.1
  · simp [hb] at h0

theorem tableObs_sound_after (prev next : Elem) (t : TableE) (o : TableObs) (h : tableObsBad prev t next o = [])
    (hf : forces false t.after = true) : o.tableLast < o.nextFirst := by
  have hforce := forced_after_table false t next hf
  unfold breakBetween pageBreakBetween at hforce
  simp only [toBox] at hforce
  unfold tableObsBad at h
  simp only [List.append_eq_nil_iff] at h
  have h1 := h.1.2
  by_cases hb : boundaryOk o.ltr (o.roomy && (insideTable t).all (fun v => !forces false v))
      (meetingValues (wrapTable t) (toBox next)) o.tableLast o.nextFirst o.nextFirstRight o.tableIsFirst = true
  · unfold boundaryOk at hb
    simp only [hforce, ↓reduceIte, Bool.and_eq_true, decide_eq_true_eq] at hb
    exact hb.1
  · simp [hb] at h1

/-- Non-vacuity: the observation of a caption left on the page of the previous sibling (the table's `page` value
read on the table box instead of the wrapper) is rejected at boundary 0 and at boundary 2; the right one passes. -/
example : let t : TableE := ⟨.page, .auto, [.caption true .auto .auto, .row ⟨.auto, .auto⟩]⟩
    tableObsBad (.para .auto .auto) t (.para .auto .auto)
      ⟨true, true, 0, 0, true, 1, 1, false, some 0, some 1, true, false⟩ = [0, 2] ∧
    tableObsBad (.para .auto .auto) t (.para .auto .auto)
      ⟨true, true, 0, 1, false, 1, 1, false, some 1, some 1, true, true⟩ = [] := by decide

/-- **Honouring an avoided break loses nothing**: on an accepted document every word of every in-flow and
out-of-flow group is rendered exactly once, in source order, and every avoided break between two siblings is
honoured unless the first was the first content of its page. -/
theorem avoid_conserve_sound (gs : List Trace.Group) (pages : List (List Nat)) (os : List BreakTrace.AvoidObs)
    (h : BreakConserve.accepted gs pages os = true) :
    (∀ g ∈ gs, (g.kind = 0 ∨ g.kind = 1) → g.words.Nodup →
      (∀ w ∈ g.words, pages.flatten.count w = 1) ∧ g.words.Sublist pages.flatten) ∧
    (∀ o ∈ os, avoids false (resolve o.values) = true → o.pageA = o.pageB ∨ o.aFirst = true) := by
  unfold BreakConserve.accepted BreakConserve.check at h
  simp only [Bool.and_eq_true, List.isEmpty_iff] at h
  exact ⟨fun g hg => (C01Trace.conserve_sound gs pages h.1 g hg).1, C04Trace.avoid_obs_sound os h.2⟩

/-- Non-vacuity: a float between the second and third block that appears on no page is rejected; rendered once on
the second page it is accepted. -/
example : BreakConserve.accepted [⟨0, [1, 2, 3, 4, 5]⟩, ⟨1, [6]⟩] [[1, 2], [3, 4, 5]] [⟨[.avoid, .auto], 1, 1, true⟩]
      = false ∧
    BreakConserve.accepted [⟨0, [1, 2, 3, 4, 5]⟩, ⟨1, [6]⟩] [[1, 2], [6, 3, 4, 5]] [⟨[.avoid, .auto], 1, 1, true⟩]
      = true := by decide

end Wp.C04Table
