/-
C18 — `gather_anchors` over a whole laid-out page: "every hyperlink becomes link annotations covering
its boxes" (one entry per link-carrying box fragment), one bookmark per labelled box, one destination
per id — the first box carrying it, at its transformed hit-area corners.
-/
import WpModel.Lemmas.C18Gather
import WpModel.Lemmas.C18EndToEnd
import WpModel.Props.C18

namespace Wp.C18
open Wp Wp.Anchors Wp.Outline

/-- Complete functional specification of `Page.__init__`'s call of `gather_anchors`: with `vs` the boxes
of the page in document order (each with its accumulated matrix),
* `links` = the link entries of the boxes that carry a link and are neither text nor line boxes, in order;
* `bookmarks` = the entries of the boxes with a label and a level, in order;
* `anchors` = for each id, the entry of the first box carrying it. -/
theorem gather_spec (root : GBox) :
    (gatherPage root).links = (preorder root none).filterMap Visit.linkEntry ∧
    (gatherPage root).bookmarks = (preorder root none).filterMap Visit.bookmarkEntry ∧
    (gatherPage root).anchors = addFirst ((preorder root none).filterMap Visit.anchorEntry) [] := by
  unfold gatherPage
  rw [gather_fold]
  exact ⟨by rw [fold_links]; rfl, by rw [fold_bookmarks]; rfl, by rw [fold_anchors]⟩

/-- One link entry — hence one link annotation (`add_links`) — per box fragment that carries a link:
an inline link split over three lines or over pages has three boxes and gets three rectangles; a text
or line box inheriting the property gets none. -/
theorem one_link_per_box (root : GBox) :
    (gatherPage root).links.length =
      ((preorder root none).filter (fun v => hasLink v.kind v.link)).length := by
  rw [(gather_spec root).1]
  induction preorder root none with
  | nil => rfl
  | cons v vs ih =>
    simp only [List.filterMap_cons, List.filter_cons]
    by_cases h : hasLink v.kind v.link = true
    · have : ∃ e, v.linkEntry = some e := by
        unfold Visit.linkEntry
        rw [if_pos h]
        cases hl : v.link with
        | none => simp [hasLink, hl] at h
        | some p => exact ⟨_, rfl⟩
      obtain ⟨e, he⟩ := this
      simp [he, h, ih]
    · have : v.linkEntry = none := by unfold Visit.linkEntry; rw [if_neg h]
      simp [this, h, ih]

/-- Each link entry is the `rectangle_aabb` of its box's hit area under the matrix in force. -/
theorem link_entries_cover (root : GBox) :
    ∀ l ∈ (gatherPage root).links, ∃ v ∈ preorder root none,
      hasLink v.kind v.link = true ∧ l.rect = rectangleAabb v.m v.hx v.hy v.hw v.hh := by
  intro l hl
  rw [(gather_spec root).1] at hl
  obtain ⟨v, hv, he⟩ := List.mem_filterMap.mp hl
  refine ⟨v, hv, ?_⟩
  unfold Visit.linkEntry at he
  by_cases h : hasLink v.kind v.link = true
  · rw [if_pos h] at he
    cases hlk : v.link with
    | none => rw [hlk] at he; cases he
    | some p => rw [hlk] at he; simp only [Option.some.injEq] at he; exact ⟨hlk ▸ h, by rw [← he]⟩
  · rw [if_neg h] at he; cases he

/-- The destination recorded for an id is the entry of the first box (document order) carrying it. -/
theorem anchor_is_first_box (root : GBox) (n : String) :
    (gatherPage root).anchors.find? (fun a => a.name == n) =
      ((preorder root none).filterMap Visit.anchorEntry).find? (fun a => a.name == n) := by
  rw [(gather_spec root).2.2]
  exact addFirst_first _ [] n rfl

example :
    let link : GBox := .mk .inline [] (.pct 50) (.pct 50) 0 0 40 20 0 0 40 20 "" none "open"
      (some ("internal", "a")) false none [.mk .text [] (.pct 50) (.pct 50) 0 0 40 20 0 0 40 20 "" none "open"
        (some ("internal", "a")) false none []]
    let root : GBox := .mk .other [] (.pct 50) (.pct 50) 0 0 200 40 0 0 200 40 "" none "open" none false (some "a")
      [.mk .line [] (.pct 50) (.pct 50) 0 0 200 20 0 0 200 20 "" none "open" none false none [link],
       .mk .line [] (.pct 50) (.pct 50) 0 20 200 20 0 20 200 20 "" none "open" none false none [link]]
    (gatherPage root).links.length = 2 ∧ (gatherPage root).anchors.length = 1 := by decide

/-! ## from the pages to the outline dictionaries -/

/-- `add_outlines(pdf, document.make_bookmark_tree(scale, transform_pages=True))` as `generate_pdf`
calls it, for any document whose bookmark levels are ≥ 1 and whose pages are all in
`pdf.page_references`: neither call fails (no assert, no `pop` on empty, no page index out of range),
and the outline dictionaries, read in object-number order, carry exactly the labels of the bookmarked
boxes of all pages in document order — one dictionary per bookmark, none lost, none duplicated —
with `Count` of the outlines dictionary = the number of entries visible with the given states. -/
theorem outline_end_to_end (pages : List BPage) (scale : Rat) (refs : List Nat) (next : Nat)
    (hl : ∀ p ∈ pages, ∀ b ∈ p.bookmarks, 1 ≤ b.level) (hrefs : refs.length = pages.length) :
    ∃ t r, makeBookmarkTree pages scale true = .ok t ∧ addOutlines refs next t none = .ok r ∧
      (flattenNodes r.nodes).map (·.title) = (pages.flatMap (·.bookmarks)).map (·.label) ∧
      (flattenNodes r.nodes).map (·.num) = List.range' next (pages.flatMap (·.bookmarks)).length ∧
      r.count = visList t := by
  obtain ⟨t, ht, hflat⟩ := bookmark_tree pages scale true hl
  have hpages : pagesOkList refs t = true := by
    apply pagesOkList_of_flat refs t 1
    intro x hx
    rw [hflat] at hx
    have hx2 := (List.of_mem_zip hx).2
    obtain ⟨e, he, hex⟩ := List.mem_map.mp hx2
    obtain ⟨i, _, hi, hp⟩ := docEntries_pages scale true pages 0 e he
    rw [← hex]
    simp only [entryItem]
    rw [hp]
    exact pageReference_ok refs i (by omega)
  obtain ⟨r, hr⟩ := outline_total refs next t none hpages
  obtain ⟨hc, hg, _⟩ := outline_spec refs next t r hr
  have hlab : (docEntries scale true 0 pages).map (·.label) = (pages.flatMap (·.bookmarks)).map (·.label) := by
    have : ∀ (rs : List BPage) (n : Nat), (docEntries scale true n rs).map (·.label) =
        (rs.flatMap (·.bookmarks)).map (·.label) := by
      intro rs
      induction rs with
      | nil => intro n; rfl
      | cons p rest ih => intro n; simp [docEntries, ih, toEntry, Function.comp_def]
    exact this pages 0
  have hlen : (depthsFrom [] ((pages.flatMap (·.bookmarks)).map (·.level))).length =
      (pages.flatMap (·.bookmarks)).length := by
    have : ∀ (ls h : List Int), (depthsFrom h ls).length = ls.length := by
      intro ls
      induction ls with
      | nil => intro h; rfl
      | cons l ls ih => intro h; simp [depthsFrom, ih]
    rw [this]; simp
  have hlen2 : (docEntries scale true 0 pages).length = (pages.flatMap (·.bookmarks)).length := by
    have := congrArg List.length hlab
    simpa using this
  have htitles : (flatList 1 t).map (·.2.1) = (pages.flatMap (·.bookmarks)).map (·.label) := by
    rw [hflat, ← hlab]
    have : ∀ (ds : List Nat) (es : List Entry), ds.length = es.length →
        ((ds.zip (es.map entryItem)).map (·.2.1)) = es.map (·.label) := by
      intro ds
      induction ds with
      | nil => intro es h; cases es with
        | nil => rfl
        | cons e es => simp at h
      | cons d ds ih => intro es h; cases es with
        | nil => simp at h
        | cons e es => simp only [List.map_cons, List.zip_cons_cons, entryItem, ih es (by simpa using h)]
    exact this _ _ (by rw [hlen, hlen2])
  have hsize : sizeList t = (pages.flatMap (·.bookmarks)).length := by
    have h1 := congrArg List.length (GoodList_numbers t r.nodes hg)
    have h2 := congrArg List.length (GoodList_titles t r.nodes 1 hg)
    have h3 := congrArg List.length htitles
    simp only [List.length_map, List.length_range'] at h1 h2 h3
    omega
  refine ⟨t, r, ht, hr, ?_, ?_, hc⟩
  · rw [GoodList_titles t r.nodes 1 hg, htitles]
  · rw [GoodList_numbers t r.nodes hg, hsize]

example : ∃ t r, makeBookmarkTree [⟨100, [⟨1, "a", 0, 0, "open"⟩, ⟨3, "b", 0, 20, "closed"⟩]⟩, ⟨100, [⟨2, "c", 0, 0, "open"⟩]⟩]
    (3 / 4) true = .ok t ∧ addOutlines [6, 14] 20 t none = .ok r :=
  let ⟨t, r, h1, h2, _⟩ := outline_end_to_end _ (3 / 4) [6, 14] 20 (by decide) rfl
  ⟨t, r, h1, h2⟩

/-! ## where the outline entries point -/

/-- The entry of a bookmark at CSS point `(x, y)` of page `n`: with `transform_pages` it is measured in
PDF units from the bottom of a page of height `h` … -/
theorem toEntry_flipped (n : Int) (scale h : Rat) (b : Bookmark) :
    toEntry n (bookmarkMatrix scale true h) b = ⟨b.level, b.label, ⟨n, b.x * scale, (h - b.y) * scale⟩, b.state⟩ := by
  simp only [toEntry, bookmarkMatrix, if_true, Matrix.transformPoint]
  congr 2
  · grind
  · grind

/-- … and without it only scaled. -/
theorem toEntry_plain (n : Int) (scale h : Rat) (b : Bookmark) :
    toEntry n (bookmarkMatrix scale false h) b = ⟨b.level, b.label, ⟨n, b.x * scale, b.y * scale⟩, b.state⟩ := by
  simp only [toEntry, bookmarkMatrix, Bool.false_eq_true, if_false, Matrix.transformPoint]
  congr 2
  · grind
  · grind

/-- Every bookmark with its own page: number and height. -/
def ownPage (scale : Rat) : Nat → List BPage → List Entry
  | _, [] => []
  | n, p :: rest =>
    p.bookmarks.map (fun b => ⟨b.level, b.label, ⟨(n : Int), b.x * scale, (p.height - b.y) * scale⟩, b.state⟩) ++
      ownPage scale (n + 1) rest

theorem docEntries_ownPage (scale : Rat) (pages : List BPage) :
    ∀ n, docEntries scale true n pages = ownPage scale n pages := by
  induction pages with
  | nil => intro n; rfl
  | cons p rest ih =>
    intro n
    simp only [docEntries, ownPage, ih (n + 1)]
    congr 1
    apply List.map_congr_left
    intro b _
    exact toEntry_flipped _ _ _ b

/-- **Each outline entry points into its own page** (`generate_pdf` calls
`make_bookmark_tree(scale, transform_pages=True)`): read in pre-order, the tree lists every bookmark with
the number of the page it lies on and the point `(x·scale, (height of that page − y)·scale)` — the height
of *its own* page, also when the pages of the document have different heights (seeded regression C18-7
took the height of the first page for all). -/
theorem bookmark_targets_own_page (pages : List BPage) (scale : Rat)
    (h : ∀ p ∈ pages, ∀ b ∈ p.bookmarks, 1 ≤ b.level) :
    ∃ t, makeBookmarkTree pages scale true = .ok t ∧
      (flatList 1 t).map (·.2) = (ownPage scale 0 pages).map entryItem := by
  obtain ⟨t, ht, hflat⟩ := bookmark_tree pages scale true h
  refine ⟨t, ht, ?_⟩
  rw [hflat, docEntries_ownPage]
  have hd : ∀ (ls h : List Int), (depthsFrom h ls).length = ls.length := by
    intro ls
    induction ls with
    | nil => intro h; rfl
    | cons l ls ih => intro h; simp [depthsFrom, ih]
  have hlen : (depthsFrom [] ((pages.flatMap (·.bookmarks)).map (·.level))).length =
      ((ownPage scale 0 pages).map entryItem).length := by
    rw [hd, ← docEntries_ownPage, List.length_map]
    have := congrArg List.length (docEntries_levels scale true pages 0)
    simpa using this.symm
  exact List.map_snd_zip (by omega)

/-- Two pages of heights 500 and 300 (the demo of C18-7): the heading at y = 20 of the second page is at
(300 − 20)·¾ = 210 pt, not (500 − 20)·¾ = 360 pt. -/
example : ownPage (3 / 4) 0 [⟨500, [⟨1, "a", 0, 40, "open"⟩]⟩, ⟨300, [⟨1, "b", 0, 20, "open"⟩]⟩] =
    [⟨1, "a", ⟨0, 0, 345⟩, "open"⟩, ⟨1, "b", ⟨1, 0, 210⟩, "open"⟩] := by decide +kernel

end Wp.C18
