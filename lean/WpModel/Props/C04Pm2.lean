/-
C04 end-to-end at page level (PM model): a forced break or a change of page name between two adjacent
siblings `a`, `b` anywhere in the box tree separates them in the *pages* of `paginate d`: the page boundary
falls exactly between the last line of `a` and the first line of `b`, the next page has the requested side
(after exactly the blank page `isBlank` demands) and the new page name.
Hypotheses: no fixed heights and `orphans, widows ≥ 1` (`Good`, as for `C01.pages_conserve`: with a fixed
height `forgetIfFixed` ends a box early and the fragment no longer ends with the box's last child).
-/
import WpModel.Lemmas.Pm2First
import WpModel.Lemmas.Pm2Obs
import WpModel.Lemmas.Pm2Avoid
import WpModel.Props.C04
import WpModel.Props.C01

namespace Wp.C04Pm2
open Wp Wp.PM

/-- The strongest break value meeting between `a` and `b` (source boxes). -/
def valueBetween (a b : PBox) : Brk := resolve (valuesBetween a b)

/-- A non-blank page made at the boundary: page name of `b`, requested side, and it shows the first line of
`b` when `b` starts with a line. -/
def Opens (d : Doc) (a b : PBox) (q : Page) : Prop :=
  q.type.blank = false ∧ q.type.name = boxPageStart b ∧
  (∀ side, requestedSide d.rootLtr (some (valueBetween a b)) = some side → q.type.right = side) ∧
  (FirstLine b none → fragLines q.root ≠ [] ∧ (fragLines q.root).head? = (linesFrom b none).head?)

private theorem opens_of_remake (d : Doc) (hg : Good d.root) (π : List Nat) (j : Nat) (a b : PBox)
    (hs : SibAt d.root π j a b) (index : Nat) (right : Bool) (q : Page)
    (hq : remakePage d index (some (resAt π j)) (cutPage a b) right = some q) (hb : q.type.blank = false) :
    Opens d a b q := by
  obtain ⟨hright, _, hbl, hname, _⟩ := remakePage_type' d index _ _ right q hq
  refine ⟨hb, ?_, ?_, ?_⟩
  · rw [hname, hb]; rfl
  · intro side hside
    rw [hb] at hbl
    have hside' : requestedSide d.rootLtr (cutPage a b).brk = some side := hside
    rw [hside'] at hbl
    rcases C04.blank_then_side side right with ⟨_, h2⟩ | ⟨h1, _⟩
    · rw [hright]; exact h2
    · rw [h1] at hbl; cases hbl
  · intro hfl
    have hroot := firstLine_resAt π d.root j a b hs hfl
    obtain ⟨hne, hhead⟩ := page_first_line d hg index _ _ right q hq hb hroot
    refine ⟨hne, ?_⟩
    obtain ⟨_, post, _, h2⟩ := linesFrom_split π d.root j a b hs
    rw [hhead, h2]
    have hbne := firstLine_ne b none hfl
    cases hq' : linesFrom b none with
    | nil => exact absurd hq' hbne
    | cons x xs => rfl

private theorem makeAllPages_head (d : Doc) (fuel index : Nat) (resume : Option Resume) (np : NextPage)
    (right : Bool) (P : List Page) (h : makeAllPages d fuel index resume np right = some P) :
    ∃ q rest, P = q :: rest ∧ remakePage d index resume np right = some q ∧
      (q.resume ≠ none → ∃ fuel', makeAllPages d fuel' (index + 1) q.resume q.nextPage (!right) = some rest) := by
  cases fuel with
  | zero => simp [makeAllPages] at h
  | succ fuel =>
    unfold makeAllPages at h
    split at h
    · cases h
    · rename_i q hq
      split at h
      · rename_i hnone
        simp only [Option.some.injEq] at h
        exact ⟨q, [], h.symm, hq, fun hne => absurd hnone hne⟩
      · split at h
        · rename_i ps hps
          simp only [Option.some.injEq] at h
          exact ⟨q, ps, h.symm, hq, fun _ => ⟨fuel, hps⟩⟩
        · cases h

/-- **The page boundary falls exactly between `a` and `b`** (forced break or page-name change).
`pages = P1 ++ p :: P2` where the pages up to `p` show exactly what precedes `b` (ending with the lines of
`a`), the pages `P2` show exactly the lines of `b` and what follows; `P2` starts with the page of the requested
side and name — preceded by one blank page exactly when `isBlank` demands it. No hypothesis on ids. -/
theorem boundary_pages (d : Doc) (hN : NoFixedHeight d.root) (hW : WellFormed d.root) (fuel : Nat)
    (pages : List Page) (h : paginate d fuel = some pages) (π : List Nat) (j : Nat) (a b : PBox)
    (hs : SibAt d.root π j a b) (hm : meets a b = true) :
    ∃ P1 p P2 pre post, pages = P1 ++ p :: P2 ∧ p.type.blank = false ∧
      pagesLines (P1 ++ [p]) = pre ++ linesFrom a none ∧
      pagesLines P2 = linesFrom b none ++ post ∧
      linesFrom d.root none = (pre ++ linesFrom a none) ++ (linesFrom b none ++ post) ∧
      ∃ q rest, P2 = q :: rest ∧ q.type.right = (!p.type.right) ∧
        q.type.blank = isBlank (requestedSide d.rootLtr (some (valueBetween a b))) q.type.right ∧
        (q.type.blank = false → Opens d a b q) ∧
        (q.type.blank = true → fragLines q.root = [] ∧
          ∃ q' rest', rest = q' :: rest' ∧ q'.type.right = p.type.right ∧ Opens d a b q') := by
  have hg := good_of _ hN hW
  unfold paginate at h
  have hstart : (none : Option Resume) = none →
      isBlank (requestedSide d.rootLtr (NextPage.mk none (some (boxPageStart d.root))).brk) (firstRight d) = false := by
    intro _; simp [requestedSide, isBlank]
  obtain ⟨P1, p, P2, fuel', rfl, hpb, hpr, hpn, hcont⟩ :=
    pages_reach d hg π j a b hs hm fuel 0 none _ _ pages (valid_none _) (before_none π j) hstart h
  have hall := makeAllPages_lines d hg fuel 0 none _ _ _ hstart h
  rw [hpr, hpn] at hcont
  have hP2 := makeAllPages_lines d hg fuel' _ _ _ _ P2 (by intro he; cases he) hcont
  obtain ⟨pre, post, hsplit1, hsplit2⟩ := linesFrom_split π d.root j a b hs
  have hcat : P1 ++ p :: P2 = (P1 ++ [p]) ++ P2 := by simp
  rw [hcat, pagesLines_append, hP2] at hall
  have h1 : pagesLines (P1 ++ [p]) = pre ++ linesFrom a none := by
    rw [hsplit1] at hall
    exact List.append_cancel_right hall
  refine ⟨P1, p, P2, pre, post, rfl, hpb, h1, by rw [hP2, hsplit2], by rw [hsplit1, hsplit2], ?_⟩
  obtain ⟨q, rest, rfl, hq, hqcont⟩ := makeAllPages_head d fuel' _ _ _ _ P2 hcont
  obtain ⟨hqright, _, hqbl, _, hqkeep⟩ := remakePage_type' d _ _ _ _ q hq
  refine ⟨q, rest, rfl, hqright, by rw [hqbl, hqright]; rfl, ?_, ?_⟩
  · intro hb
    exact opens_of_remake d hg π j a b hs _ _ q hq hb
  · intro hb
    obtain ⟨hqr, hqn⟩ := hqkeep hb
    refine ⟨((remakePage_lines d hg _ _ _ _ q hq).1 hb).1, ?_⟩
    obtain ⟨fuel'', hrest⟩ := hqcont (by rw [hqr]; intro he; cases he)
    rw [hqr, hqn] at hrest
    obtain ⟨q', rest', rfl, hq', _⟩ := makeAllPages_head d fuel'' _ _ _ _ rest hrest
    obtain ⟨hq'right, _, hq'bl, _, _⟩ := remakePage_type' d _ _ _ _ q' hq'
    refine ⟨q', rest', rfl, by rw [hq'right]; simp, ?_⟩
    apply opens_of_remake d hg π j a b hs _ _ q' hq'
    rw [hq'bl]
    have hbl1 : isBlank (requestedSide d.rootLtr (cutPage a b).brk) (!p.type.right) = true := by
      rw [← hqbl]; exact hb
    cases hside : requestedSide d.rootLtr (cutPage a b).brk with
    | none => rw [hside] at hbl1; simp [isBlank] at hbl1
    | some side =>
      rw [hside] at hbl1
      rcases C04.blank_then_side side (!p.type.right) with ⟨h1, _⟩ | ⟨_, _, h3⟩
      · rw [h1] at hbl1; cases hbl1
      · exact h3

/-- (a) **A forced break separates the pages** (`break-before/after: page | left | right | recto | verso`
resolved with the source table among all values meeting between `a` and `b`). -/
theorem forced_separates_pages (d : Doc) (hN : NoFixedHeight d.root) (hW : WellFormed d.root) (fuel : Nat)
    (pages : List Page) (h : paginate d fuel = some pages) (π : List Nat) (j : Nat) (a b : PBox)
    (hs : SibAt d.root π j a b) (hf : forces false (valueBetween a b) = true) :
    ∃ P1 p P2 pre post, pages = P1 ++ p :: P2 ∧ p.type.blank = false ∧
      pagesLines (P1 ++ [p]) = pre ++ linesFrom a none ∧
      pagesLines P2 = linesFrom b none ++ post ∧
      linesFrom d.root none = (pre ++ linesFrom a none) ++ (linesFrom b none ++ post) ∧
      ∃ q rest, P2 = q :: rest ∧ q.type.right = (!p.type.right) ∧
        q.type.blank = isBlank (requestedSide d.rootLtr (some (valueBetween a b))) q.type.right ∧
        (q.type.blank = false → Opens d a b q) ∧
        (q.type.blank = true → fragLines q.root = [] ∧
          ∃ q' rest', rest = q' :: rest' ∧ q'.type.right = p.type.right ∧ Opens d a b q') :=
  boundary_pages d hN hW fuel pages h π j a b hs (by
    have : forcesPage (resolve (valuesBetween a b)) = true := hf
    simp [meets, this])

/-- (b) **A change of page name separates the pages** the same way (the used `page` of the last descendant
of `a` differs from the one of the first descendant of `b`, which is not the empty name), and the page that
starts `b` has `b`'s page name (`Opens`). -/
theorem named_page_change (d : Doc) (hN : NoFixedHeight d.root) (hW : WellFormed d.root) (fuel : Nat)
    (pages : List Page) (h : paginate d fuel = some pages) (π : List Nat) (j : Nat) (a b : PBox)
    (hs : SibAt d.root π j a b) (hne : boxPageEnd a ≠ boxPageStart b) (hnm : boxPageStart b ≠ "") :
    ∃ P1 p P2 pre post, pages = P1 ++ p :: P2 ∧ p.type.blank = false ∧
      pagesLines (P1 ++ [p]) = pre ++ linesFrom a none ∧
      pagesLines P2 = linesFrom b none ++ post ∧
      linesFrom d.root none = (pre ++ linesFrom a none) ++ (linesFrom b none ++ post) ∧
      ∃ q rest, P2 = q :: rest ∧ q.type.right = (!p.type.right) ∧
        q.type.blank = isBlank (requestedSide d.rootLtr (some (valueBetween a b))) q.type.right ∧
        (q.type.blank = false → Opens d a b q) ∧
        (q.type.blank = true → fragLines q.root = [] ∧
          ∃ q' rest', rest = q' :: rest' ∧ q'.type.right = p.type.right ∧ Opens d a b q') :=
  boundary_pages d hN hW fuel pages h π j a b hs (by simp [meets, hne, hnm])

/-- Line-level reading, with pairwise distinct paragraph ids: **no page shows a line of `a`'s subtree and a
line of `b`'s subtree**. -/
theorem no_page_shows_both (d : Doc) (hN : NoFixedHeight d.root) (hW : WellFormed d.root)
    (hU : UniqueParaIds d.root) (fuel : Nat)
    (pages : List Page) (h : paginate d fuel = some pages) (π : List Nat) (j : Nat) (a b : PBox)
    (hs : SibAt d.root π j a b) (hm : meets a b = true) :
    ∀ pg ∈ pages, ∀ la ∈ linesFrom a none, ∀ lb ∈ linesFrom b none,
      ¬ (la ∈ fragLines pg.root ∧ lb ∈ fragLines pg.root) := by
  obtain ⟨P1, p, P2, pre, post, rfl, _, h1, h2, h3, _⟩ := boundary_pages d hN hW fuel pages h π j a b hs hm
  have hnd := linesFrom_nodup d.root hU
  rw [h3] at hnd
  have hdis := (List.nodup_append.mp hnd).2.2
  intro pg hpg la hla lb hlb ⟨ha, hb⟩
  have hcat : P1 ++ p :: P2 = (P1 ++ [p]) ++ P2 := by simp
  rw [hcat] at hpg
  rcases List.mem_append.mp hpg with hpg | hpg
  · have := mem_pagesLines _ pg lb hpg hb
    rw [h1] at this
    exact hdis lb this lb (List.mem_append_left _ hlb) rfl
  · have := mem_pagesLines _ pg la hpg ha
    rw [h2] at this
    exact hdis la (List.mem_append_right _ hla) la this rfl

/-! ### refinement: the verified break checker accepts PM -/

private theorem mem_pagesOf_of_line (pages : List Page) (k : Nat) (pg : Page) (b : PBox) (l : Nat × Nat)
    (hk : pages[k]? = some pg) (hl : l ∈ fragLines pg.root) (hb : l ∈ linesFrom b none) :
    k ∈ Trace.pagesOf (allWords b) (pageWordsOf pages) := by
  rw [mem_pagesOf]
  refine ⟨(fragLines pg.root).map (fun l => wordId l.1 l.2), ?_, wordId l.1 l.2, ?_, ?_⟩
  · unfold pageWordsOf
    rw [List.getElem?_map, hk]; rfl
  · exact List.mem_map.mpr ⟨l, hl, rfl⟩
  · rw [allWords_eq]; exact List.mem_map.mpr ⟨l, hb, rfl⟩

/-- **The break checker accepts PM.** For every document without fixed heights, `orphans, widows ≥ 1`,
pairwise distinct paragraph ids, and in which every box placed after a *side-forcing* break starts with a
line (`FirstLine`; without it the checker can raise a false alarm: `Witness.C04Pm2`), the checker run on the
harness abstraction of the PM pagination reports no bad observation. -/
theorem break_checker_accepts_pm (d : Doc) (hN : NoFixedHeight d.root) (hW : WellFormed d.root)
    (hU : UniqueParaIds d.root)
    (hF : ∀ ab ∈ sibPairs d.root, forces false (valueBetween ab.1 ab.2) = true →
      requestedSide d.rootLtr (some (valueBetween ab.1 ab.2)) ≠ none → FirstLine ab.2 none)
    (fuel : Nat) (pages : List Page) (h : paginate d fuel = some pages) :
    BreakTrace.badObs (obsOf d pages) = [] := by
  apply badObs_eq_nil_of
  intro o ho
  unfold obsOf at ho
  obtain ⟨⟨a, b⟩, hab, hobs⟩ := List.mem_filterMap.mp ho
  unfold obsOfPair at hobs
  split at hobs
  · rename_i pa pb hpa hpb
    simp only [Option.some.injEq] at hobs
    subst hobs
    unfold BreakTrace.obsOk
    simp only
    by_cases hf : forces false (resolve (valuesBetween a b)) = true
    · simp only [hf, ↓reduceIte, Bool.and_eq_true, decide_eq_true_eq]
      obtain ⟨π, j, hs⟩ := sibPairs_sibAt d.root a b hab
      obtain ⟨P1, p, P2, pre, post, rfl, _, h1, h2, h3, q, rest, rfl, _, _, hq1, hq2⟩ :=
        forced_separates_pages d hN hW fuel pages h π j a b hs hf
      have hnd := linesFrom_nodup d.root hU
      rw [h3] at hnd
      have hdis := (List.nodup_append.mp hnd).2.2
      have hcat : P1 ++ p :: q :: rest = (P1 ++ [p]) ++ (q :: rest) := by simp
      have hn1 : (P1 ++ [p]).length = P1.length + 1 := by simp
      -- the last page showing `a`
      have hpa_lt : pa < P1.length + 1 := by
        have hmem := List.mem_of_getLast? hpa
        obtain ⟨page, hpage, w, hw, hwa⟩ := (mem_pagesOf _ _ _).mp hmem
        obtain ⟨pg, l, hpg, hl, hla⟩ := page_word_line _ _ _ a hpage w hw hwa
        rcases Nat.lt_or_ge pa (P1.length + 1) with hlt | hge
        · exact hlt
        · exfalso
          rw [hcat, List.getElem?_append_right (by omega)] at hpg
          have := mem_pagesLines _ pg l (List.mem_of_getElem? hpg) hl
          rw [h2] at this
          exact hdis l (List.mem_append_right _ hla) l this rfl
      -- the first page showing `b`
      have hpbmem : pb ∈ Trace.pagesOf (allWords b) (pageWordsOf (P1 ++ p :: q :: rest)) :=
        List.mem_of_mem_head? (by rw [hpb]; rfl)
      obtain ⟨page, hpage, w, hw, hwb⟩ := (mem_pagesOf _ _ _).mp hpbmem
      obtain ⟨pgb, lb, hpgb, hlb, hlbb⟩ := page_word_line _ _ _ b hpage w hw hwb
      have hpb_ge : P1.length + 1 ≤ pb := by
        rcases Nat.lt_or_ge pb (P1.length + 1) with hlt | hge
        · exfalso
          rw [hcat, List.getElem?_append_left (by omega)] at hpgb
          have := mem_pagesLines _ pgb lb (List.mem_of_getElem? hpgb) hlb
          rw [h1] at this
          exact hdis lb this lb (List.mem_append_left _ hlbb) rfl
        · exact hge
      refine ⟨by omega, ?_⟩
      cases hside : requestedSide d.rootLtr (some (resolve (valuesBetween a b))) with
      | none => rfl
      | some side =>
        simp only [beq_iff_eq]
        have hfl := hF (a, b) hab hf (by
          show requestedSide d.rootLtr (some (resolve (valuesBetween a b))) ≠ none
          rw [hside]; intro he; cases he)
        have hfirst : ∀ (k : Nat) (qq : Page), (P1 ++ p :: q :: rest)[k]? = some qq → Opens d a b qq →
            pb ≤ k ∧ qq.type.right = side := by
          intro k qq hk ho
          obtain ⟨hne, hhead⟩ := ho.2.2.2 hfl
          obtain ⟨l0, hl0⟩ : ∃ l0, (fragLines qq.root).head? = some l0 := by
            cases hq : fragLines qq.root with
            | nil => exact absurd hq hne
            | cons x xs => exact ⟨x, rfl⟩
          have hl0q : l0 ∈ fragLines qq.root := List.mem_of_mem_head? (by rw [hl0]; rfl)
          have hl0b : l0 ∈ linesFrom b none := List.mem_of_mem_head? (by rw [← hhead, hl0]; rfl)
          exact ⟨pagesOf_head_le _ _ _ hpb k (mem_pagesOf_of_line _ k qq b l0 hk hl0q hl0b), ho.2.2.1 side hside⟩
        cases hqb : q.type.blank with
        | false =>
          have hk : (P1 ++ p :: q :: rest)[P1.length + 1]? = some q := by
            rw [hcat, List.getElem?_append_right (by omega)]; simp
          obtain ⟨hle, hright⟩ := hfirst _ q hk (hq1 hqb)
          have : pb = P1.length + 1 := by omega
          rw [this, hk]; simpa using hright
        | true =>
          obtain ⟨hempty, q', rest', rfl, _, ho'⟩ := hq2 hqb
          have hk0 : (P1 ++ p :: q :: q' :: rest')[P1.length + 1]? = some q := by
            rw [hcat, List.getElem?_append_right (by omega)]; simp
          have hk : (P1 ++ p :: q :: q' :: rest')[P1.length + 2]? = some q' := by
            rw [hcat, List.getElem?_append_right (by omega)]; simp
          obtain ⟨hle, hright⟩ := hfirst _ q' hk ho'
          have hne : pb ≠ P1.length + 1 := by
            intro he
            rw [he, hk0] at hpgb
            simp only [Option.some.injEq] at hpgb
            subst hpgb
            rw [hempty] at hlb; cases hlb
          have : pb = P1.length + 2 := by omega
          rw [this, hk]; simpa using hright
    · simp [hf]
  · cases hobs

/-! ### (c) `break-before/after: avoid` between siblings

`HasBreakList fs` (Lemmas/Pm2Avoid.lean) is the declarative set of legal break opportunities among the
already placed sibling fragments `fs`: between two of them when the values meeting there do not resolve to
`avoid`/`avoid-page`, inside one whose `break-inside` does not avoid (recursively; inside a paragraph when
`widows` lines can go while `max orphans 1` stay), never after the last one. -/

/-- **What `find_earlier_page_break` guarantees**: it finds a break exactly when a legal opportunity exists. -/
theorem find_earlier_iff (fs : List Frag) : (findEarlierList fs).isSome = true ↔ HasBreakList fs :=
  findEarlierList_isSome fs

/-- **`avoid` between siblings is honoured whenever another legal break point exists among the siblings
already placed**: when `child` does not fit and the value meeting between the last placed sibling and `child`
avoids a break, the loop does not break there but at the earlier opportunity found; if there is none, the
whole container is pushed to the next page (`aborted`) — unless the page was empty when the container was
started (and something was placed): only then is the avoided break taken. Any parent, any loop state. -/
theorem avoid_between_honoured (index : Nat) (pie : Bool) (pb : Brk) (child : PBox) (s : KidsLoop)
    (resume : Option Resume) (hav : avoids false pb = true) :
    (HasBreakList s.newChildren → ∃ kept r', findEarlierList s.newChildren = some (kept, r') ∧
      (concludeKid index pie pb child s none resume).1 =
        some (.stopped (some r') { s with newChildren := kept })) ∧
    (¬ HasBreakList s.newChildren →
      (concludeKid index pie pb child s none resume).1 =
        some (if pie && !s.newChildren.isEmpty then .stopped (some (.node index none)) s
              else .aborted (boxPageStart child) s)) := by
  have hav' : avoidsPage pb = true := hav
  constructor
  · intro hb
    have := (find_earlier_iff s.newChildren).mpr hb
    cases hfe : findEarlierList s.newChildren with
    | none => rw [hfe] at this; cases this
    | some kr =>
      obtain ⟨kept, r'⟩ := kr
      exact ⟨kept, r', rfl, by simp [concludeKid, hav', hfe]⟩
  · intro hb
    have hfe : findEarlierList s.newChildren = none := by
      cases hfe : findEarlierList s.newChildren with
      | none => rfl
      | some kr => exact absurd ((find_earlier_iff s.newChildren).mp (by rw [hfe]; rfl)) hb
    cases pie <;> cases hne : s.newChildren.isEmpty <;> simp [concludeKid, hav', hfe, hne]

/-- The avoided break is taken **only** when the page would otherwise stay empty: if the loop stops exactly
before `child` although the meeting value avoids it, the page was empty when this container was started and
no legal break existed among the placed siblings. (The other way to stop before `child` is a change of page
name with a non-forcing value: `meetBreak … .2`, handled before `concludeKid`.) -/
theorem avoid_overridden_only_on_empty_page (index : Nat) (pie : Bool) (pb : Brk) (child : PBox) (s : KidsLoop)
    (frag : Option Frag) (resume : Option Resume) (B : List PBox) (i0 : Nat) (sub0 : Option Resume)
    (hgB : GoodList B) (hinv : FullFrom s.newChildren B i0 sub0) (hidx : index = i0 + B.length)
    (hav : avoids false pb = true) (s' s3 : KidsLoop)
    (h : concludeKid index pie pb child s frag resume = (some (.stopped (some (.node index none)) s'), s3)) :
    pie = true ∧ ¬ HasBreakList s.newChildren ∧ frag = none := by
  have hav' : avoidsPage pb = true := hav
  cases frag with
  | some f =>
    cases resume <;> simp [concludeKid] at h
  | none =>
    by_cases hb : HasBreakList s.newChildren
    · obtain ⟨kept, r', hfe, hout⟩ := (avoid_between_honoured index pie pb child s resume hav).1 hb
      rw [h] at hout
      simp only [Option.some.injEq, KidsOutcome.stopped.injEq] at hout
      obtain ⟨m, sub', hr, hm, _, _⟩ := (findEarlierGo_spec _ _ _ _ hgB hinv).2 kept r' hfe
      rw [hr] at hout
      simp only [Resume.node.injEq] at hout
      omega
    · have hout := (avoid_between_honoured index pie pb child s resume hav).2 hb
      rw [h] at hout
      cases pie with
      | false => simp at hout
      | true => exact ⟨rfl, hb, rfl⟩

/-- When the earlier break is taken it is strictly earlier and nothing is lost or reordered:
`C01.find_earlier_conserves` / the segment theorem cover every `findEarlierList` result. -/
theorem earlier_break_conserves (fs : List Frag) (bs : List PBox) (i : Nat) (sub : Option Resume)
    (hN : NoFixedHeightList bs) (hW : WellFormedList bs) (hfull : FullFrom fs bs i sub)
    (kept : List Frag) (r : Resume) (h : findEarlierList fs = some (kept, r)) :
    ∃ m sub', r = .node (i + m) sub' ∧ m < bs.length ∧
      fragLinesList kept ++ linesFromKids bs m sub' = fragLinesList fs :=
  C01.find_earlier_conserves fs bs i sub hN hW hfull kept r h

/-- (d) **Avoided breaks never cause content to be lost or reordered**: `C01.pages_conserve` has no hypothesis
on any break property (`break-before/after/inside`, `orphans/widows ≥ 1`, page names), so whatever
`avoid` does — moving a break earlier, pushing a container to the next page, being overridden — the pages
show exactly the lines of the document, in order. -/
theorem avoid_never_loses_or_reorders (d : Doc) (hN : NoFixedHeight d.root) (hW : WellFormed d.root) (fuel : Nat)
    (pages : List Page) (h : paginate d fuel = some pages) :
    (pages.map (fun p => fragLines p.root)).flatten = linesFrom d.root none :=
  C01.pages_conserve d hN hW fuel pages h

/-! ### non-vacuity

`exDoc`: a block whose last paragraph has `break-after: right`, followed by a block whose paragraph is on the
named page "chap", followed by an unnamed paragraph; 25px pages, first page a right page. The forced break
between the two blocks inserts a blank left page; the named paragraph opens page 3 (a right page, named
"chap"). -/
def exDoc : Doc :=
  { pageH := 25, rootLtr := true,
    root := .block 0 { C01.exStyle with isRoot := true }
      [.block 5 C01.exStyle [.para 1 1 10 C01.exStyle, .para 2 1 10 { C01.exStyle with brkAfter := .right }],
       .block 6 C01.exStyle [.para 3 3 10 { C01.exStyle with page := "chap" }],
       .para 4 1 10 C01.exStyle] }

def exA : PBox := .block 5 C01.exStyle [.para 1 1 10 C01.exStyle, .para 2 1 10 { C01.exStyle with brkAfter := .right }]
def exB : PBox := .block 6 C01.exStyle [.para 3 3 10 { C01.exStyle with page := "chap" }]

/-- Hypotheses of `forced_separates_pages` / `named_page_change` / `no_page_shows_both`. -/
example : NoFixedHeight exDoc.root ∧ WellFormed exDoc.root ∧ UniqueParaIds exDoc.root ∧
    SibAt exDoc.root [] 0 exA exB ∧ forces false (valueBetween exA exB) = true ∧
    boxPageEnd exA ≠ boxPageStart exB ∧ boxPageStart exB ≠ "" ∧ meets exA exB = true ∧ FirstLine exB none := by
  refine ⟨?_, ?_, ?_, ?_, by decide +kernel, by decide +kernel, by decide +kernel, by decide +kernel, ?_⟩
  · simp [exDoc, NoFixedHeight, NoFixedHeightList, C01.exStyle]
  · simp [exDoc, WellFormed, WellFormedList, C01.exStyle]
  · simp [UniqueParaIds, exDoc, paras, parasList]
  · simp [SibAt, exDoc, exA, exB]
  · simp [exB, FirstLine, FirstLineKids, paraStart, skipLine, subSkipOf, skipIdxOf]

/-- What the theorems say on it: pages (side, blank, name, lines); the break checker's observations and verdict. -/
example : (paginate exDoc 20).map (fun ps => ps.map (fun p => (p.type.right, p.type.blank, fragLines p.root))) =
      some [(true, false, [(1, 0), (2, 0)]), (false, true, []),
        (true, false, [(3, 0), (3, 1)]), (false, false, [(3, 2), (4, 0)])] ∧
    (paginate exDoc 20).map (fun ps => ps.map (fun p => p.type.name)) = some ["", "", "chap", "chap"] ∧
    (paginate exDoc 20).map (fun ps => (obsOf exDoc ps).map (fun o => (o.values, o.pageA, o.pageB, o.rightB))) =
      some [([.right, .auto, .auto, .auto], 0, 2, true), ([.auto, .auto, .auto], 3, 3, false),
        ([.auto, .auto], 0, 0, true)] ∧
    (paginate exDoc 20).map (fun ps => BreakTrace.badObs (obsOf exDoc ps)) = some [] :=
  ⟨by decide +kernel, by decide +kernel, by decide +kernel, by decide +kernel⟩

/-- The extra hypothesis of `break_checker_accepts_pm` on `exDoc`. -/
example : ∀ ab ∈ sibPairs exDoc.root, forces false (valueBetween ab.1 ab.2) = true →
    requestedSide exDoc.rootLtr (some (valueBetween ab.1 ab.2)) ≠ none → FirstLine ab.2 none := by
  intro ab hab _ _
  simp only [exDoc, sibPairs, sibPairsList, adjPairs, List.append_nil, List.nil_append, List.cons_append,
    List.mem_cons, List.not_mem_nil, or_false] at hab
  rcases hab with rfl | rfl | rfl <;>
    simp [FirstLine, FirstLineKids, paraStart, skipLine, subSkipOf, skipIdxOf]

/-- `avoid_between_honoured`: two placed paragraphs, the second with `break-before: avoid`... an earlier
opportunity exists inside the first paragraph (3 lines, orphans = widows = 1). -/
example : HasBreakList C01.exFrags ∧ (findEarlierList C01.exFrags).isSome = true :=
  ⟨(find_earlier_iff _).mp (by decide +kernel), by decide +kernel⟩

/-- `avoid_overridden_only_on_empty_page`: one placed paragraph of a single line (no legal break inside it), the
next sibling does not fit and the meeting value is `avoid`, the page was empty when the container started: the
loop stops before the sibling (the avoided break is taken, the page would otherwise stay empty). -/
def exLoop : KidsLoop :=
  { newChildren := [.para 1 0 C01.exStyle 1 C01.exGeo [(0, 0)]], posY := 10, adjL := [], cur := [], curIsL := false,
    nextPage := { brk := none, page := none }, skip := none }

example : FullFrom exLoop.newChildren [.para 1 1 10 C01.exStyle] 0 none ∧
    GoodList [.para 1 1 10 C01.exStyle] ∧ avoids false .avoid = true ∧
    (concludeKid 1 true .avoid (.para 2 3 10 C01.exStyle) exLoop none none).1.isSome = true ∧
    ¬ HasBreakList exLoop.newChildren := by
  refine ⟨?_, ?_, by decide, by decide +kernel, ?_⟩
  · simp [exLoop, FullFrom, Full, paraStart, skipLine, subSkipOf, Frag.idx, List.range']
  · simp [GoodList, Good, C01.exStyle]
  · intro h
    have := (find_earlier_iff _).mpr h
    revert this
    decide +kernel

end Wp.C04Pm2
