/-
C15 — list numbering from HTML attributes: theorems about `Model/ListHints.lean` (the `ol` / `li` branches of
`find_style_attributes` through the generated table `Gen/ListHints.lean`, the `counter()` validator, the
cascade of the counter properties on list elements) and their link to the scoping theorems of Props/C15.lean:
`<ol start="s">` makes its items count `s, s + 1, …` — for every integer `s`, zero and negatives included.
-/
import WpModel.Model.ListHints
import WpModel.Props.C15

namespace Wp.C15
open Wp.Counters Wp.ListHints

/-! ## The validator `counter()` -/

/-- An attribute that is one integer token gives the declaration `counter-reset: list-item n`. -/
theorem hint_integer (n : Int) : counterProp 0 ([.ident "list-item"] ++ [.int n]) = some [("list-item", n)] := by
  simp [counterProp, counterLoop, badName]

/-- Every accepted value lists exactly the identifiers of the token list, in order (integers attach to the
name in front of them). -/
theorem counterLoop_names (dflt : Int) (toks : List HTok) (acc out : List (String × Int))
    (h : counterLoop dflt toks acc = some out) :
    out.map Prod.fst = acc.map Prod.fst ++ toks.filterMap (fun t => match t with | .ident s => some s | _ => none) := by
  fun_induction counterLoop dflt toks acc generalizing out with
  | case1 acc => simp at h; subst h; simp
  | case2 name n rest acc hb => simp at h
  | case3 name n rest acc hb ih => rw [ih out h]; simp
  | case4 name rest acc hnot hb => simp at h
  | case5 name rest acc hnot hb ih => rw [ih out h]; simp
  | case6 t rest acc h1 h2 => simp at h

/-- A value that does not start with an identifier (a number that is not an integer first, …) is invalid. -/
theorem counterProp_other_first (dflt : Int) (rest : List HTok) : counterProp dflt (.other :: rest) = none := by
  cases rest <;> simp [counterProp, counterLoop]

/-! ## The hints -/

/-- `<ol start="s">` with an integer `s` (in any spelling tinycss2 reads as one integer token): the element
resets `list-item` to `s` and decrements it by one, so that the first item prints `s`. -/
theorem ol_start_ops (s : Int) :
    applyHint Gen.olHint Gen.uaOl (some [.int s]) = ⟨.other, [("list-item", s)], [], some [("list-item", -1)]⟩ := by
  simp [applyHint, Gen.olHint, Gen.uaOl, counterProp, counterLoop, badName, defaultOf]

/-- No attribute, or the empty string: the user-agent declarations alone (`ol { counter-reset: list-item }`). -/
theorem ol_no_start_ops : applyHint Gen.olHint Gen.uaOl none = ⟨.other, [("list-item", 0)], [], none⟩ := by
  simp [applyHint, Gen.uaOl]

/-- `<li value="v">`: the item resets `list-item` to `v` and does not increment it. -/
theorem li_value_ops (v : Int) :
    applyHint Gen.liHint Gen.uaLi (some [.int v]) = ⟨.listItem, [("list-item", v)], [], some []⟩ := by
  simp [applyHint, Gen.liHint, Gen.uaLi, counterProp, counterLoop, badName, defaultOf]

theorem li_no_value_ops : applyHint Gen.liHint Gen.uaLi none = ⟨.listItem, [], [], none⟩ := by
  simp [applyHint, Gen.uaLi]

private theorem flookup_fset_same (f : Spec.Frame) (n : String) (v : Int) : Spec.flookup (Spec.fset f n v) n = some v := by
  induction f with
  | nil => simp [Spec.fset, Spec.flookup]
  | cons x xs ih =>
    obtain ⟨k, y⟩ := x
    by_cases hk : k = n
    · simp [Spec.fset, Spec.flookup, hk]
    · simp [Spec.fset, Spec.flookup, hk, ih]

private theorem flookup_fmodify (f : Spec.Frame) (n : String) (g : Int → Int) :
    Spec.flookup (Spec.fmodify f n g) n = (Spec.flookup f n).map g := by
  induction f with
  | nil => simp [Spec.fmodify, Spec.flookup]
  | cons x xs ih =>
    obtain ⟨k, y⟩ := x
    by_cases hk : k = n
    · simp [Spec.fmodify, Spec.flookup, hk]
    · simp [Spec.fmodify, Spec.flookup, hk, ih]

/-- **C15.ol_start_stack** — inside `<ol start="s">` the innermost `list-item` instance is `s − 1`, above the
instances that were in scope outside the list (an instance an earlier sibling list left in the same frame is
replaced). -/
theorem ol_start_stack (f : Spec.Frame) (rest : Spec.Frames) (s : Int) :
    Spec.stack (Spec.machine.push (Spec.update (f :: rest) (applyHint Gen.olHint Gen.uaOl (some [.int s]))))
      "list-item" = (s - 1) :: Spec.stack rest "list-item" := by
  rw [ol_start_ops]
  simp only [Spec.update, Spec.foldPairs, Spec.reset, Spec.machine, Spec.touch, Spec.modifyInner,
    flookup_fset_same, Spec.stack, Spec.flookup, flookup_fmodify, Option.map_some]
  congr 1

/-- … and inside a list without `start` it is 0. -/
theorem ol_default_stack (f : Spec.Frame) (rest : Spec.Frames) :
    Spec.stack (Spec.machine.push (Spec.update (f :: rest) (applyHint Gen.olHint Gen.uaOl none)))
      "list-item" = 0 :: Spec.stack rest "list-item" := by
  rw [ol_no_start_ops]
  simp [Spec.update, Spec.foldPairs, Spec.reset, Spec.machine, flookup_fset_same, Spec.stack, Spec.flookup]

/-- An `<li>` without `value` (whatever its list style, marker content and `::after` content) whose children
are a contained sequence is an item in the sense of `C15.list_numbers_nested`. -/
theorem li_is_item (style : Option CName) (marker after : Option (List Item)) (kids : List LNode)
    (hk : containedSeq "list-item" (toElems kids) = true) :
    isItem (toElem (.li none style marker after kids)) = true := by
  cases after <;>
    simp [toElem, isItem, li_no_value_ops, pseudoQuiet, opsQuiet, plainOps, namesOf, hk]

/-- **C15.ol_start_numbers** — the items of `<ol start="s">` count `s, s + 1, …` for every integer `s`
(0 and negative values included), independently of the lists nested in them: after `k` items the list's
`list-item` instance is `s − 1 + k`, so by `item_marker_value` the `i`-th marker (from 1) reads `s − 1 + i`.
By `scope_refines` the same holds of the implementation's `counter_values`. -/
theorem ol_start_numbers (cs : Styles) (targets stored : Targets) (f : Spec.Frame) (rest : Spec.Frames) (s : Int)
    (items : List Elem) (hitems : ∀ e ∈ items, isItem e = true) :
    ExAll (fun r => Spec.stack r.state "list-item" = (s - 1 + items.length) :: Spec.stack rest "list-item")
      (kidsRun Spec.machine cs targets items
        (Spec.machine.push (Spec.update (f :: rest) (applyHint Gen.olHint Gen.uaOl (some [.int s])))) stored) :=
  list_numbers_nested cs targets items _ stored (s - 1) _ hitems (ol_start_stack f rest s)

/-- The marker of the first item of `<ol start="s">` reads `s`. -/
theorem ol_start_first_marker (f : Spec.Frame) (rest : Spec.Frames) (s : Int) :
    Spec.machine.stack (Spec.machine.push (Spec.update
      (Spec.machine.push (Spec.update (f :: rest) (applyHint Gen.olHint Gen.uaOl (some [.int s]))))
      (applyHint Gen.liHint Gen.uaLi none))) "list-item" = some (s :: Spec.stack rest "list-item") := by
  rw [li_no_value_ops]
  have := item_marker_value ⟨.listItem, [], [], none⟩ _ (s - 1) (Spec.stack rest "list-item") rfl rfl rfl rfl
    (ol_start_stack f rest s)
  rw [this]
  congr 2
  omega

/-- The marker of `<li value="v">` reads `v`. -/
theorem li_value_marker (f : Spec.Frame) (rest : Spec.Frames) (v : Int) :
    Spec.machine.stack (Spec.machine.push (Spec.update (f :: rest) (applyHint Gen.liHint Gen.uaLi (some [.int v]))))
      "list-item" = some (v :: Spec.stack rest "list-item") := by
  rw [li_value_ops]
  simp [Spec.update, Spec.foldPairs, Spec.reset, Spec.machine, flookup_fset_same, Spec.stack, Spec.flookup,
    Spec.optStack]

private theorem exAll_bind {α β : Type} {P : α → Prop} {Q : β → Prop} {x : Except CErr α} {f : α → Except CErr β}
    (h : ExAll P x) (hf : ∀ a, P a → ExAll Q (f a)) : ExAll Q (x >>= f) := by
  cases x <;> simp_all [ExAll, Bind.bind, Except.bind]

private theorem stack_of_column' (n : String) (fr : Spec.Frames) : Spec.stack fr n = (column n fr).filterMap id := by
  induction fr with
  | nil => rfl
  | cons f rest ih =>
    simp only [Spec.stack, column, List.map_cons, List.filterMap_cons] at ih ⊢
    cases Spec.flookup f n <;> simp [ih]

/-- **C15.item_then_items** — an element that gives `list-item` the value `v` by its own declarations (an
`<li value=v>`; any element resetting / setting the counter), whatever contained content it has (nested lists
included), followed by `k` items: the list's counter is `v + k` afterwards. -/
theorem item_then_items (cs : Styles) (targets stored : Targets) (ops : Ops) (listStyle : Option CName)
    (markerContent : Option (List Item)) (anchor : Option String) (before after : Option Pseudo) (kids : List Elem)
    (items : List Elem) (fr : Spec.Frames) (v : Int) (tl : List Int)
    (hd : ops.disp ≠ .none) (hb : pseudoQuiet "list-item" before = true) (ha : pseudoQuiet "list-item" after = true)
    (hk : containedSeq "list-item" kids = true) (hitems : ∀ e ∈ items, isItem e = true)
    (hs : Spec.stack (Spec.update fr ops) "list-item" = v :: tl) :
    ExAll (fun r => Spec.stack r.state "list-item" = (v + items.length) :: tl)
      (kidsRun Spec.machine cs targets (.mk ops listStyle markerContent anchor before after kids :: items) fr stored) := by
  unfold kidsRun
  refine exAll_bind (own_ops_only_nested "list-item" cs targets ops listStyle markerContent anchor before after kids
    fr stored hd hb ha hk) ?_
  intro r1 hr1
  have hs1 : Spec.stack r1.state "list-item" = v :: tl := by
    rw [stack_of_column', hr1, ← stack_of_column', hs]
  refine exAll_bind (list_numbers_nested cs targets items r1.state r1.stored v tl hitems hs1) ?_
  intro r2 hr2
  simp only [ExAll, pure, Except.pure, hr2]

/-- **C15.li_value_numbers** — `<li value="v">` (any contained content, nested lists included) followed by `k`
items without `value`: the items count `v + 1, …, v + k` (the innermost `list-item` instance is `v + k` after
them), for every integer `v`.  With `ol_start_numbers` this is the list clause of the property for `start` and
`value` on the reference semantics, hence on `counter_values` by `scope_refines`. -/
theorem li_value_numbers (cs : Styles) (targets stored : Targets) (f : Spec.Frame) (rest : Spec.Frames) (v : Int)
    (style : Option CName) (marker after : Option (List Item)) (kids : List LNode)
    (hk : containedSeq "list-item" (toElems kids) = true) (items : List Elem) (hitems : ∀ e ∈ items, isItem e = true) :
    ExAll (fun r => Spec.stack r.state "list-item" = (v + items.length) :: Spec.stack rest "list-item")
      (kidsRun Spec.machine cs targets (toElem (.li (some [.int v]) style marker after kids) :: items) (f :: rest)
        stored) := by
  have hs : Spec.stack (Spec.update (f :: rest) (applyHint Gen.liHint Gen.uaLi (some [.int v]))) "list-item" =
      v :: Spec.stack rest "list-item" := by
    rw [li_value_ops]
    simp [Spec.update, Spec.foldPairs, Spec.reset, Spec.stack, flookup_fset_same]
  have hd : (applyHint Gen.liHint Gen.uaLi (some [.int v])).disp ≠ .none := by rw [li_value_ops]; simp
  have ha : pseudoQuiet "list-item" (after.map fun items => (⟨plainOps, items⟩ : Pseudo)) = true := by
    cases after <;> simp [pseudoQuiet, opsQuiet, plainOps, namesOf]
  exact item_then_items cs targets stored _ style marker none none _ (toElems kids) items (f :: rest) v _ hd rfl ha hk
    hitems hs

/-! Non-vacuity -/
section Examples
private def items3 : List LNode := List.replicate 3 (.li none (some (.named "decimal")) none none [])
-- the hypotheses of `ol_start_numbers` hold of real items, nested lists included
example : ∀ e ∈ toElems items3, isItem e = true := by decide
example : isItem (toElem (.li none (some (.named "decimal")) none
    (some [.counter "list-item" (.named "decimal")]) [.ol (some [.int 0]) items3])) = true := by decide
-- `<ol start="0">`, `<ol start="-2">`: the instance inside the list is start - 1
example : Spec.stack (Spec.machine.push (Spec.update Spec.init (applyHint Gen.olHint Gen.uaOl (some [.int 0]))))
    "list-item" = [-1] := by decide
example : Spec.stack (Spec.machine.push (Spec.update Spec.init (applyHint Gen.olHint Gen.uaOl (some [.int (-2)]))))
    "list-item" = [-3] := by decide
example : applyHint Gen.olHint Gen.uaOl (some [.int 0]) ≠ applyHint Gen.olHint Gen.uaOl none := by decide
-- `li_value_numbers`: its hypotheses hold of `<li value=0>` holding a nested list, followed by three items
example : containedSeq "list-item" (toElems [.ol (some [.int 5]) items3]) = true := by decide
example : counterProp 0 [.ident "list-item", .ident "none"] = none := by decide
example : counterProp 1 [.ident "c", .int 2, .ident "d"] = some [("c", 2), ("d", 1)] := by decide
-- non-integers: `1.5` drops the reset and keeps the decrement, `abc` resets two counters
example : applyHint Gen.olHint Gen.uaOl (some [.other]) = ⟨.other, [("list-item", 0)], [], some [("list-item", -1)]⟩ := by
  decide
example : applyHint Gen.olHint Gen.uaOl (some [.ident "abc"]) =
    ⟨.other, [("list-item", 0), ("abc", 0)], [], some [("list-item", -1)]⟩ := by decide
end Examples

end Wp.C15
