/-
C03 / C02 on the footnote grammar (PM stage 2b): the first content of an empty page is accepted, every page makes
progress — a page with content strictly advances the resume position, a blank page made for postponed footnotes
strictly shortens the list of postponed footnotes — and `make_all_pages` terminates.
All for documents *without `footnote-policy: block`*: with that policy the clause is false of the code
(`Witness/C01Foot.lean: policy_block_crashes`).
-/
import WpModel.Props.C01Foot

namespace Wp.C03Foot
open Wp Wp.PM Wp.PMF

/-- **First content accepted**: laid out with `page_is_empty`, a box of a document without `footnote-policy: block`
always yields a fragment, in any footnote state. -/
theorem first_content_accepted (box : FootBox) (hnb : NoBlockPolicy box) (c : FCtx) (idx : Nat) (y bs : Rat)
    (skip : Option Resume) (cb : Bool) (adjL : List Rat) (fs : FState) :
    (layoutBoxF c box idx y bs skip cb true adjL fs).r.frag.isSome = true :=
  box_someF box hnb c idx y bs skip cb adjL fs

theorem noBlock_emptyRootF (b : FootBox) : NoBlockPolicy (emptyRootF b) := by
  cases b <;> simp [emptyRootF, NoBlockPolicy, NoBlockPolicyList]

/-- `make_page` never fails its `assert root_box` (partial: no `footnote-policy: block`). -/
theorem remakePageF_total_partial (d : FDoc) (hnb : NoBlockPolicy d.root) (index : Nat) (resume : Option Resume)
    (np : NextPage) (right : Bool) (pending reported : List Fn) :
    (remakePageF d index resume np right pending reported).isSome = true := by
  unfold remakePageF
  dsimp only
  have key : ∀ (c : FCtx) (b : FootBox) (fs : FState), NoBlockPolicy b →
      (layoutBoxF c b 0 0 0 resume false true [] fs).r.frag ≠ none := by
    intro c b fs hb h
    have := first_content_accepted b hb c 0 0 0 resume false [] fs
    rw [h] at this
    simp at this
  split
  · rename_i h
    refine absurd h (key _ _ _ ?_)
    split
    · exact noBlock_emptyRootF _
    · exact hnb
  · rfl

/-- **Strict progress of a page with content**: it finishes the content or hands a strictly later resume position
to the next page (any footnotes, any policy). -/
theorem page_progress (d : FDoc) (hN : NoFixedHeight d.root.erase) (hW : WellFormed d.root.erase) (index : Nat)
    (resume : Option Resume) (np : NextPage) (right : Bool) (pending reported : List Fn) (p : FPage)
    (hp : remakePageF d index resume np right pending reported = some p) (hnb : p.page.type.blank = false) :
    p.page.resume = none ∨ pos d.root.erase resume < pos d.root.erase p.page.resume := by
  obtain ⟨_, h2⟩ := remakePageF_lines d (good_of _ hN hW) index resume np right pending reported p hp
  cases hr : p.page.resume with
  | none => left; rfl
  | some r => right; exact (h2 hnb).2 r hr

/-! ### the blank page required by postponed footnotes makes progress -/

theorem placeReported_suffix (c : FCtx) (L : List Fn) (i : Nat) (fs : FState) (hr : fs.reported = []) :
    ∃ t, L = t ++ (placeReported c L i fs).reported ∧ (L ≠ [] → i = 0 → t ≠ []) := by
  induction L generalizing i fs with
  | nil => exact ⟨[], by simp [placeReported, hr], fun h => absurd rfl h⟩
  | cons f rest ih =>
    unfold placeReported
    dsimp only
    split
    · rename_i hov
      refine ⟨[], by simp, ?_⟩
      intro _ hi
      simp [hi] at hov
    · obtain ⟨t, ht, _⟩ := ih (i + 1) (layoutFootnote c { fs with pending := fs.pending ++ [f] } f).1 (by simp [hr])
      exact ⟨f :: t, by simp [← ht], fun _ _ => by simp⟩

theorem remakePageF_blank_state (d : FDoc) (index : Nat) (resume : Option Resume) (np : NextPage) (right : Bool)
    (pending reported : List Fn) (p : FPage) (hp : remakePageF d index resume np right pending reported = some p)
    (hb : p.page.type.blank = true) :
    p.reported = (pageStart d (pageCtx d index np) pending reported).reported ∧
    p.cur = (pageStart d (pageCtx d index np) pending reported).cur := by
  unfold remakePageF at hp
  dsimp only at hp
  split at hp
  · cases hp
  · simp only [Option.some.injEq] at hp
    subst hp
    simp only at hb
    simp only [hb, ↓reduceIte, emptyRootF_state, and_self]

/-- **Progress of a blank page**: what it postpones is a strict suffix of what was postponed to it — at least the
first postponed footnote is placed (whatever its size: `make_page` never re-postpones `reported_footnotes[0]`). -/
theorem footnote_page_progress (d : FDoc) (index : Nat) (resume : Option Resume) (np : NextPage) (right : Bool)
    (pending reported : List Fn) (p : FPage) (hp : remakePageF d index resume np right pending reported = some p)
    (hb : p.page.type.blank = true) (hrep : reported ≠ []) :
    ∃ t, t ≠ [] ∧ reported = t ++ p.reported := by
  obtain ⟨h1, _⟩ := remakePageF_blank_state d index resume np right pending reported p hp hb
  obtain ⟨t, ht, hne⟩ := placeReported_suffix (pageCtx d index np) reported 0
    { pending := pending, cur := [], reported := [], pageBottom := d.pageH, areaH := none } rfl
  refine ⟨t, hne hrep rfl, ?_⟩
  rw [h1]; exact ht

/-! ### termination -/

private theorem isBlank_flip (side : Option Bool) (right : Bool) (h : isBlank side right = true) :
    isBlank side (!right) = false := by
  cases side with
  | none => cases right <;> simp [isBlank] at h
  | some s => cases s <;> cases right <;> simp [isBlank] at h ⊢

/-- Once only postponed footnotes are left, at most one page per footnote follows. -/
theorem footnote_phase_terminates (d : FDoc) (hnb : NoBlockPolicy d.root) : ∀ (n index : Nat) (np : NextPage)
    (right : Bool) (pending reported : List Fn), reported.length ≤ n → reported ≠ [] →
    ∃ pages, makeAllPagesF d n index none np right pending reported = some pages ∧ pages.length ≤ n := by
  intro n
  induction n with
  | zero =>
    intro index np right pending reported hl hne
    cases reported with
    | nil => exact absurd rfl hne
    | cons x xs => simp at hl
  | succ n ih =>
    intro index np right pending reported hl hne
    have htot := remakePageF_total_partial d hnb index none np right pending reported
    cases hp : remakePageF d index none np right pending reported with
    | none => rw [hp] at htot; cases htot
    | some p =>
      obtain ⟨hbl, hb1, _⟩ := remakePageF_spec d index none np right pending reported p hp
      have hblank : p.page.type.blank = true := by
        rw [hbl]
        cases reported with
        | nil => exact absurd rfl hne
        | cons x xs => simp [isBlankF]
      obtain ⟨hres, hnp, _⟩ := hb1 hblank
      obtain ⟨t, htne, hsplit⟩ := footnote_page_progress d index none np right pending reported p hp hblank hne
      have hlen : p.reported.length ≤ n := by
        have := congrArg List.length hsplit
        simp only [List.length_append] at this
        have : 1 ≤ t.length := List.length_pos_iff.mpr htne
        omega
      unfold makeAllPagesF
      simp only [hp]
      by_cases hstop : (p.page.resume.isNone && p.reported.isEmpty) = true
      · rw [if_pos hstop]
        exact ⟨[p], rfl, by simp⟩
      · rw [if_neg hstop]
        have hrne : p.reported ≠ [] := by
          intro he
          apply hstop
          simp [hres, he]
        rw [hres]
        obtain ⟨ps, hps, hpl⟩ := ih (index + 1) p.page.nextPage (!right) p.pending p.reported hlen hrne
        rw [hps]
        exact ⟨p :: ps, rfl, by simp; omega⟩

/-- More fuel never changes a result. -/
theorem makeAllPagesF_fuel_mono (d : FDoc) : ∀ (fuel k index : Nat) (resume : Option Resume) (np : NextPage)
    (right : Bool) (pending reported : List Fn) (pages : List FPage),
    makeAllPagesF d fuel index resume np right pending reported = some pages →
    makeAllPagesF d (fuel + k) index resume np right pending reported = some pages := by
  intro fuel
  induction fuel with
  | zero => intro k index resume np right pending reported pages h; simp [makeAllPagesF] at h
  | succ fuel ih =>
    intro k index resume np right pending reported pages h
    have : fuel + 1 + k = (fuel + k) + 1 := by omega
    rw [this]
    unfold makeAllPagesF at h ⊢
    cases hp : remakePageF d index resume np right pending reported with
    | none => rw [hp] at h; cases h
    | some p =>
      rw [hp] at h
      simp only at h ⊢
      split at h
      · rename_i hstop; rw [if_pos hstop]; exact h
      · rename_i hstop
        rw [if_neg hstop]
        cases hps : makeAllPagesF d fuel (index + 1) p.page.resume p.page.nextPage (!right) p.pending p.reported with
        | none => rw [hps] at h; cases h
        | some ps =>
          rw [hps] at h
          rw [ih k _ _ _ _ _ _ ps hps]
          exact h

/-- Pages still needed while content is left (as stage 1). -/
def contentNeeded (d : FDoc) (resume : Option Resume) (np : NextPage) (right : Bool) : Nat :=
  2 * (size d.root.erase - pos d.root.erase resume) +
    (if isBlank (requestedSide d.rootLtr np.brk) right then 1 else 0)

/-- **`make_all_pages` terminates** (no `footnote-policy: block`): from every page-maker state some amount of fuel
suffices (content pages: at most `contentNeeded`; then at most one blank page per footnote still postponed). -/
theorem makeAllPagesF_terminates (d : FDoc) (hN : NoFixedHeight d.root.erase) (hW : WellFormed d.root.erase)
    (hnb : NoBlockPolicy d.root) : ∀ (m index : Nat) (resume : Option Resume) (np : NextPage) (right : Bool)
    (pending reported : List Fn),
    contentNeeded d resume np right ≤ m →
    (resume = none → reported = [] → isBlank (requestedSide d.rootLtr np.brk) right = false) →
    ∃ fuel pages, makeAllPagesF d fuel index resume np right pending reported = some pages := by
  intro m
  induction m with
  | zero =>
    intro index resume np right pending reported h _
    have := PM.pos_lt_size d.root.erase resume
    unfold contentNeeded at h
    omega
  | succ m ih =>
    intro index resume np right pending reported h hstart
    -- only postponed footnotes left?
    by_cases hfoot : resume = none ∧ reported ≠ []
    · obtain ⟨ps, hps, _⟩ := footnote_phase_terminates d hnb reported.length index np right pending reported
        (Nat.le_refl _) hfoot.2
      rw [← hfoot.1] at hps
      exact ⟨_, ps, hps⟩
    · have hlt := PM.pos_lt_size d.root.erase resume
      have htot := remakePageF_total_partial d hnb index resume np right pending reported
      cases hp : remakePageF d index resume np right pending reported with
      | none => rw [hp] at htot; cases htot
      | some p =>
        obtain ⟨hbl, hb1, _⟩ := remakePageF_spec d index resume np right pending reported p hp
        have hside : isBlankF d resume np right reported = isBlank (requestedSide d.rootLtr np.brk) right := by
          unfold isBlankF
          have : (!reported.isEmpty && resume.isNone) = false := by
            by_cases h1 : resume = none
            · by_cases h2 : reported = []
              · simp [h2]
              · exact absurd ⟨h1, h2⟩ hfoot
            · cases resume with
              | none => exact absurd rfl h1
              | some r => simp
          rw [this, Bool.or_false]
        by_cases hstop : (p.page.resume.isNone && p.reported.isEmpty) = true
        · refine ⟨1, [p], ?_⟩
          unfold makeAllPagesF
          simp only [hp]
          rw [if_pos hstop]
        · -- the rest, by induction or by the footnote phase
          have hrest : ∃ fuel ps, makeAllPagesF d fuel (index + 1) p.page.resume p.page.nextPage (!right)
              p.pending p.reported = some ps := by
            cases hres : p.page.resume with
            | none =>
              have hrne : p.reported ≠ [] := by
                intro he; apply hstop; simp [hres, he]
              obtain ⟨ps, hps, _⟩ := footnote_phase_terminates d hnb p.reported.length (index + 1) p.page.nextPage
                (!right) p.pending p.reported (Nat.le_refl _) hrne
              exact ⟨_, ps, hps⟩
            | some r =>
              have key : contentNeeded d (some r) p.page.nextPage (!right) + 1 ≤ contentNeeded d resume np right := by
                cases hb : p.page.type.blank with
                | true =>
                  obtain ⟨hres', hnp, _⟩ := hb1 hb
                  have hbs : isBlank (requestedSide d.rootLtr np.brk) right = true := by
                    rw [← hside, ← hbl]; exact hb
                  have hflip := isBlank_flip _ _ hbs
                  unfold contentNeeded
                  rw [hnp, hflip, hbs, ← hres, hres']
                  simp
                | false =>
                  have hprog := page_progress d hN hW index resume np right pending reported p hp hb
                  rw [hres] at hprog
                  have hprog : pos d.root.erase resume < pos d.root.erase (some r) := by
                    rcases hprog with h | h
                    · cases h
                    · exact h
                  have hlt' := PM.pos_lt_size d.root.erase (some r)
                  unfold contentNeeded
                  have hbs : isBlank (requestedSide d.rootLtr np.brk) right = false := by
                    rw [← hside, ← hbl]; exact hb
                  rw [hbs]
                  split <;> simp <;> omega
              exact ih (index + 1) (some r) p.page.nextPage (!right) p.pending p.reported (by omega)
                (by intro he; cases he)
          obtain ⟨fuel, ps, hps⟩ := hrest
          refine ⟨fuel + 1, p :: ps, ?_⟩
          unfold makeAllPagesF
          simp only [hp]
          rw [if_neg hstop, hps]

/-- **Pagination with footnotes terminates** with at least one page (no `footnote-policy: block`), and more fuel
does not change the result. -/
theorem paginateFoot_terminates (d : FDoc) (hN : NoFixedHeight d.root.erase) (hW : WellFormed d.root.erase)
    (hnb : NoBlockPolicy d.root) :
    ∃ fuel pages, paginateFoot d fuel = some pages ∧ pages ≠ [] ∧
      ∀ k, paginateFoot d (fuel + k) = some pages := by
  unfold paginateFoot
  obtain ⟨fuel, pages, hp⟩ := makeAllPagesF_terminates d hN hW hnb _ 0 none
    { brk := none, page := some (boxPageStart d.root.erase) } (firstRight d.erase) (boxFns d.root) []
    (Nat.le_refl _) (fun _ _ => by simp [requestedSide, isBlank])
  refine ⟨fuel, pages, hp, ?_, fun k => makeAllPagesF_fuel_mono d fuel k _ _ _ _ _ _ pages hp⟩
  intro he
  subst he
  cases fuel with
  | zero => simp [makeAllPagesF] at hp
  | succ k =>
    unfold makeAllPagesF at hp
    split at hp
    · cases hp
    · split at hp
      · cases hp
      · split at hp <;> cases hp

/-! ### non-vacuity -/

/-- `exDoc2`: page 2 is the blank page required by the two postponed footnotes; it places both. -/
example : NoBlockPolicy C01Foot.exDoc2.root ∧
    (remakePageF C01Foot.exDoc2 1 none { brk := none, page := some "" } false [] 
      [⟨1, 2, 10, .auto, ""⟩, ⟨2, 2, 10, .auto, ""⟩]).map
      (fun p => (p.page.type.blank, p.cur.map (·.fid), p.reported.map (·.fid))) = some (true, [1, 2], []) := by
  constructor
  · simp [C01Foot.exDoc2, C01Foot.exDocOf, NoBlockPolicy, NoBlockPolicyList]
  · decide +kernel

/-- `exDoc` (3 pages with content): positions 0 < 3 < 4 of 8 units (the last page finishes: `none`). -/
example : (paginateFoot C01Foot.exDoc 20).map (List.map (fun p => pos C01Foot.exDoc.root.erase p.page.resume)) =
    some [3, 4, 0] := by decide +kernel

end Wp.C03Foot
